/* Driver for GSM time arithmetic (C19):
 *   l1s_time_inc()      sliced from the working-tree firmware/layer1/sync.c
 *                       (generated TU, see vf/props/c19.py)
 *   gsm_fn2gsmtime(), gsm_gsmtime2fn()   in-repo libosmocore gsm_utils.c, whole
 *
 * Script on stdin, one operation per line:
 *   W fn0 delta count    struct gsm_time t; gsm_fn2gsmtime(&t, fn0);
 *                        then count x l1s_time_inc(&t, delta)
 *   S fn0 d1 d2 ... dn   the same with one delta per call (mixed strides)
 * Output, one line per call:  <after.fn> TAB <event JSON without closing brace>
 * (the harness appends the Python toolkit's result and the brace).
 */
#include <stdio.h>
#include <stdlib.h>
#include <string.h>
#include <stdint.h>
#include <osmocom/gsm/gsm_utils.h>

void l1s_time_inc(struct gsm_time *time, uint32_t delta_fn);

static void put_after(const struct gsm_time *t)
{
	printf("\"after\":{\"fn\":%lu,\"t1\":%u,\"t2\":%u,\"t3\":%u,\"tc\":%u}",
	       (unsigned long)t->fn, t->t1, t->t2, t->t3, t->tc);
}

int main(void)
{
	static char line[1 << 16];
	static char obuf[1 << 20];
	setvbuf(stdout, obuf, _IOFBF, sizeof(obuf));
	while (fgets(line, sizeof(line), stdin)) {
		unsigned long fn0, delta = 0, count = 0, i;
		static unsigned long seq[8192];
		int mixed = line[0] == 'S';
		if (mixed) {
			char *p = line + 1, *e;
			fn0 = strtoul(p, &e, 10);
			for (p = e; count < 8192; p = e) {
				unsigned long v = strtoul(p, &e, 10);
				if (e == p)
					break;
				seq[count++] = v;
			}
		} else if (line[0] != 'W' || sscanf(line + 1, "%lu %lu %lu", &fn0, &delta, &count) != 3) {
			if (line[0] == '\n' || line[0] == '#')
				continue;
			fprintf(stderr, "bad op: %s", line);
			return 3;
		}
		struct gsm_time t;
		memset(&t, 0xa5, sizeof(t));
		gsm_fn2gsmtime(&t, (uint32_t)fn0);
		printf("%lu\t{\"e\":\"set\",\"fn\":%lu,", (unsigned long)t.fn, fn0);
		put_after(&t);
		putchar('\n');
		for (i = 0; i < count; i++) {
			struct gsm_time d;
			uint32_t before = t.fn, re;
			if (mixed)
				delta = seq[i];
			l1s_time_inc(&t, (uint32_t)delta);
			memset(&d, 0x5a, sizeof(d));
			gsm_fn2gsmtime(&d, t.fn);
			re = gsm_gsmtime2fn(&d);
			printf("%lu\t{\"e\":\"inc\",\"fn\":%lu,\"delta\":%lu,", (unsigned long)t.fn,
			       (unsigned long)before, delta);
			put_after(&t);
			printf(",\"dec\":[%u,%u,%u,%u],\"recomp\":%lu", d.t1, d.t2, d.t3, d.tc, (unsigned long)re);
			putchar('\n');
		}
		puts(".");
		fflush(stdout);
	}
	return 0;
}
