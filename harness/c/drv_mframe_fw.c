/* Driver for the unmodified firmware/layer1/mframe_sched.c.
 *
 * For every multiframe task: mframe_reset(), mframe_enable(task), then
 * mframe_schedule() is called for every frame number of one 51*26*8 cycle and
 * every tdma_schedule_set() call it makes is recorded (this file provides
 * tdma_schedule_set instead of layer1/tdma_sched.c).  The scheduling sets
 * (nb_sched_set, ...) are dummy arrays here: their defining files need the
 * DSP headers and only their identity matters to mframe_sched.c.
 *
 * stdout: one JSON document
 *   {"cycle":10608,"ahead_latency":1,"sets":[names],
 *    "tasks":[{"task":"MF_TASK_..","id":n,"chan_nr":c,"calls":[[fn,set,flags,off,p3task],..]},..]}
 *   fn = l1s.current_time.fn at the call, set = index into "sets", flags =
 *   p3 >> 8 (MF_F_*), off = frame_offset argument, p3task = p3 & 0xff.
 *
 * Built with -DVF_CHANNR and a generated translation unit holding the static
 * chan_nr2mf_task_mask() sliced from the working-tree layer1/l23_api.c (entry
 * vf_chan_nr2mf_task_mask), the document additionally has
 *    "neigh_modes":{"NONE":0,"PM":1},
 *    "channr":[[chan_nr, none_lo, none_hi, pm_lo, pm_hi], ..]     chan_nr 0..255
 *   the task mask l1ctl_rx_dm_est_req() hands to l1a_mftask_set() for that
 *   channel number, per neighbour mode, as two 16-bit halves (bit 31 of the
 *   mask would not fit a TLC integer otherwise).
 */
#include <stdio.h>
#include <stdlib.h>
#include <stdint.h>
#include <string.h>

#include <osmocom/gsm/gsm_utils.h>
#include <layer1/sync.h>
#include <layer1/prim.h>
#include <layer1/tdma_sched.h>
#include <layer1/mframe_sched.h>

#ifdef VF_CHANNR
#include <l1ctl_proto.h>
uint32_t vf_chan_nr2mf_task_mask(uint8_t chan_nr, uint8_t neigh_mode);
#endif

#define CYCLE (51 * 26 * 8)

struct l1s_state l1s;

/* identity-only stand-ins for the sets declared in layer1/prim.h */
const struct tdma_sched_item nb_sched_set[2] = { { .cb = NULL } };
const struct tdma_sched_item nb_sched_set_ul[2] = { { .cb = NULL } };
const struct tdma_sched_item tch_sched_set[2] = { { .cb = NULL } };
const struct tdma_sched_item tch_a_sched_set[2] = { { .cb = NULL } };
const struct tdma_sched_item tch_d_sched_set[2] = { { .cb = NULL } };
const struct tdma_sched_item neigh_pm_sched_set[2] = { { .cb = NULL } };

static const char *set_names[] = { "NB_DL", "NB_UL", "TCH", "TCH_A", "TCH_D", "NEIGH_PM", "UNKNOWN" };

static int set_index(const struct tdma_sched_item *s)
{
	if (s == nb_sched_set) return 0;
	if (s == nb_sched_set_ul) return 1;
	if (s == tch_sched_set) return 2;
	if (s == tch_a_sched_set) return 3;
	if (s == tch_d_sched_set) return 4;
	if (s == neigh_pm_sched_set) return 5;
	return 6;
}

static int ncalls;

/* second pass ("jcalls"): the frame number jumps (cell synchronisation, a harness setting an
 * arbitrary frame number) onto every position and is walked on from there; the calls are
 * collected, sorted and printed without duplicates */
#define JLAND 5304		/* lcm of the multiframe lengths 13, 26, 51, 52, 102, 104 */
#define JWALK 110
struct jcall { uint32_t fn; int set; unsigned fl, off, p3; };
static struct jcall *jc;
static size_t njc, capjc;
static int collecting;

static int jcmp(const void *a, const void *b) { return memcmp(a, b, sizeof(struct jcall)); }

/* replaces layer1/tdma_sched.c: record the call */
int tdma_schedule_set(uint8_t frame_offset, const struct tdma_sched_item *item_set, uint16_t p3)
{
	if (collecting) {
		if (njc == capjc) {
			capjc = capjc ? 2 * capjc : 1 << 16;
			jc = realloc(jc, capjc * sizeof(*jc));
			if (!jc) { fprintf(stderr, "driver: out of memory\n"); exit(3); }
		}
		memset(&jc[njc], 0, sizeof(jc[njc]));
		jc[njc].fn = l1s.current_time.fn;
		jc[njc].set = set_index(item_set);
		jc[njc].fl = p3 >> 8;
		jc[njc].off = frame_offset;
		jc[njc].p3 = p3 & 0xff;
		njc++;
		return 4;
	}
	printf("%s[%u,%d,%u,%u,%u]", ncalls ? "," : "", (unsigned)l1s.current_time.fn, set_index(item_set),
	       p3 >> 8, frame_offset, p3 & 0xff);
	ncalls++;
	return 4;	/* frames occupied by the set; only feeds safe_fn */
}

#define T(x) { x, #x }
static const struct { enum mframe_task id; const char *name; } tasks[] = {
	T(MF_TASK_BCCH_NORM), T(MF_TASK_BCCH_EXT), T(MF_TASK_CCCH), T(MF_TASK_CCCH_COMB),
	T(MF_TASK_SDCCH4_0), T(MF_TASK_SDCCH4_1), T(MF_TASK_SDCCH4_2), T(MF_TASK_SDCCH4_3),
	T(MF_TASK_SDCCH8_0), T(MF_TASK_SDCCH8_1), T(MF_TASK_SDCCH8_2), T(MF_TASK_SDCCH8_3),
	T(MF_TASK_SDCCH8_4), T(MF_TASK_SDCCH8_5), T(MF_TASK_SDCCH8_6), T(MF_TASK_SDCCH8_7),
	T(MF_TASK_SDCCH4_CBCH), T(MF_TASK_SDCCH8_CBCH),
	T(MF_TASK_TCH_F_EVEN), T(MF_TASK_TCH_F_ODD), T(MF_TASK_TCH_H_0), T(MF_TASK_TCH_H_1),
	T(MF_TASK_GPRS_PDTCH), T(MF_TASK_GPRS_PTCCH),
	T(MF_TASK_NEIGH_PM51_C0T0), T(MF_TASK_NEIGH_PM51), T(MF_TASK_NEIGH_PM26E), T(MF_TASK_NEIGH_PM26O),
	T(MF_TASK_UL_ALL_NB),
};

int main(void)
{
	unsigned t, i;
	uint32_t fn;

	printf("{\"cycle\":%d,\"sets\":[", CYCLE);
	for (i = 0; i < sizeof(set_names) / sizeof(set_names[0]); i++)
		printf("%s\"%s\"", i ? "," : "", set_names[i]);
	printf("],\"tasks\":[");
	for (t = 0; t < sizeof(tasks) / sizeof(tasks[0]); t++) {
		memset(&l1s, 0, sizeof(l1s));
		mframe_reset();
		mframe_enable(tasks[t].id);
		printf("%s\n{\"task\":\"%s\",\"id\":%d,\"chan_nr\":%u,\"calls\":[", t ? "," : "", tasks[t].name,
		       (int)tasks[t].id, mframe_task2chan_nr(tasks[t].id, 0));
		ncalls = 0;
		for (fn = 0; fn < CYCLE; fn++) {
			l1s.current_time.fn = fn;
			mframe_schedule();
		}
		printf("],\"jcalls\":[");
		{
			uint32_t land, k;
			size_t q, first = 1;
			collecting = 1;
			njc = 0;
			for (land = 0; land < JLAND; land++)
				for (k = 0; k < JWALK; k++) {
					l1s.current_time.fn = land + k;
					mframe_schedule();
				}
			collecting = 0;
			qsort(jc, njc, sizeof(*jc), jcmp);
			for (q = 0; q < njc; q++) {
				if (q && !memcmp(&jc[q], &jc[q - 1], sizeof(*jc)))
					continue;
				printf("%s[%u,%d,%u,%u,%u]", first ? "" : ",", (unsigned)jc[q].fn, jc[q].set, jc[q].fl, jc[q].off, jc[q].p3);
				first = 0;
			}
		}
		printf("],\"jmax\":%d}", JLAND + JWALK - 2);
	}
	printf("\n]");
#ifdef VF_CHANNR
	printf(",\n\"neigh_modes\":{\"NONE\":%d,\"PM\":%d},\"channr\":[", (int)NEIGH_MODE_NONE, (int)NEIGH_MODE_PM);
	for (i = 0; i < 256; i++) {
		uint32_t none = vf_chan_nr2mf_task_mask((uint8_t)i, NEIGH_MODE_NONE);
		uint32_t pm = vf_chan_nr2mf_task_mask((uint8_t)i, NEIGH_MODE_PM);
		printf("%s[%u,%u,%u,%u,%u]", i ? "," : "", i, (unsigned)(none & 0xffff), (unsigned)(none >> 16),
		       (unsigned)(pm & 0xffff), (unsigned)(pm >> 16));
	}
	printf("]");
#endif
	printf("}\n");
	return 0;
}
