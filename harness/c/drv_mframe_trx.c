/* Driver for the unmodified trxcon/src/sched_mframe.c.
 *
 * Dumps l1sched_mframe_layout(cfg, tn) for every enum gsm_phys_chan_config
 * value x tn 0..7 and, with argument "walk", evaluates the frame lookup for
 * every frame number of a 51*26*8 cycle exactly like sched_trx.c does
 * (offset = fn % layout->period; frame = &layout->frames[offset]).
 * Reading frames[0..period-1] under ASan also decides whether `period` fits
 * the table the layout points to.
 *
 * stdout: one JSON document
 *   {"cycle":10608,"chans":[names by enum value],"cfgs":[names by enum value],
 *    "lookups":[{"cfg":name,"tn":n,"lid":k | -1}, ..],           (lid = -1: NULL)
 *    "layouts":[{"lid":k,"cfg":name,"name":str,"period":p,"slotmask":m,"mask":[chan ids],
 *                "frames":[[dl_chan,dl_bid,ul_chan,ul_bid], ..]}, ..],   (distinct pointers)
 *    "walk":[{"cfg":name,"tn":n,"enc":[((dl*256+dl_bid)*64+ul)*256+ul_bid per fn]}, ..]}
 *
 * Built with -DVF_LCHAN_DESC and the unmodified trxcon/src/sched_lchan_desc.c
 * the document additionally has, by enum l1sched_lchan_type value,
 *    "desc":[{"chan_nr":n,"link_id":n,"flags":n}, ..]
 * (the burst handlers the table points to are never called here: stubs).
 */
#include <stdio.h>
#include <stdint.h>
#include <string.h>

#include <osmocom/gsm/gsm_utils.h>
#include <osmocom/bb/l1sched/l1sched.h>

#define CYCLE (51 * 26 * 8)

#ifdef VF_LCHAN_DESC
/* the handlers l1sched_lchan_desc[] refers to (sched_lchan_*.c); never called by this driver */
#define RX_STUB(f) int f(struct l1sched_lchan_state *lchan, const struct l1sched_burst_ind *bi) { return -1; }
#define TX_STUB(f) int f(struct l1sched_lchan_state *lchan, struct l1sched_burst_req *br) { return -1; }
RX_STUB(rx_data_fn) RX_STUB(rx_sch_fn) RX_STUB(rx_tchf_fn) RX_STUB(rx_tchh_fn) RX_STUB(rx_pdtch_fn)
TX_STUB(tx_data_fn) TX_STUB(tx_rach_fn) TX_STUB(tx_tchf_fn) TX_STUB(tx_tchh_fn) TX_STUB(tx_pdtch_fn)
#endif

#define N(x) [x] = #x
static const char *chan_names[_L1SCHED_CHAN_MAX] = {
	N(L1SCHED_IDLE), N(L1SCHED_FCCH), N(L1SCHED_SCH), N(L1SCHED_BCCH), N(L1SCHED_RACH), N(L1SCHED_CCCH),
	N(L1SCHED_TCHF), N(L1SCHED_TCHH_0), N(L1SCHED_TCHH_1),
	N(L1SCHED_SDCCH4_0), N(L1SCHED_SDCCH4_1), N(L1SCHED_SDCCH4_2), N(L1SCHED_SDCCH4_3),
	N(L1SCHED_SDCCH8_0), N(L1SCHED_SDCCH8_1), N(L1SCHED_SDCCH8_2), N(L1SCHED_SDCCH8_3),
	N(L1SCHED_SDCCH8_4), N(L1SCHED_SDCCH8_5), N(L1SCHED_SDCCH8_6), N(L1SCHED_SDCCH8_7),
	N(L1SCHED_SACCHTF), N(L1SCHED_SACCHTH_0), N(L1SCHED_SACCHTH_1),
	N(L1SCHED_SACCH4_0), N(L1SCHED_SACCH4_1), N(L1SCHED_SACCH4_2), N(L1SCHED_SACCH4_3),
	N(L1SCHED_SACCH8_0), N(L1SCHED_SACCH8_1), N(L1SCHED_SACCH8_2), N(L1SCHED_SACCH8_3),
	N(L1SCHED_SACCH8_4), N(L1SCHED_SACCH8_5), N(L1SCHED_SACCH8_6), N(L1SCHED_SACCH8_7),
	N(L1SCHED_PDTCH), N(L1SCHED_PTCCH), N(L1SCHED_SDCCH4_CBCH), N(L1SCHED_SDCCH8_CBCH),
};
static const char *cfg_names[_GSM_PCHAN_MAX] = {
	N(GSM_PCHAN_NONE), N(GSM_PCHAN_CCCH), N(GSM_PCHAN_CCCH_SDCCH4), N(GSM_PCHAN_TCH_F), N(GSM_PCHAN_TCH_H),
	N(GSM_PCHAN_SDCCH8_SACCH8C), N(GSM_PCHAN_PDCH), N(GSM_PCHAN_TCH_F_PDCH), N(GSM_PCHAN_UNKNOWN),
	N(GSM_PCHAN_CCCH_SDCCH4_CBCH), N(GSM_PCHAN_SDCCH8_SACCH8C_CBCH), N(GSM_PCHAN_OSMO_DYN),
};

static const char *cfg_name(int c)
{
	static char buf[32];
	if (c >= 0 && c < _GSM_PCHAN_MAX && cfg_names[c])
		return cfg_names[c];
	snprintf(buf, sizeof(buf), "CFG_%d", c);
	return buf;
}

#define MAXL 256
static const struct l1sched_tdma_multiframe *seen[MAXL];
static int nseen;

static int lid_of(const struct l1sched_tdma_multiframe *l)
{
	int i;
	if (!l)
		return -1;
	for (i = 0; i < nseen; i++)
		if (seen[i] == l)
			return i;
	seen[nseen] = l;
	return nseen++;
}

int main(int argc, char **argv)
{
	int walk = argc > 1 && !strcmp(argv[1], "walk");
	int c, tn, i, first;
	unsigned o;
	uint32_t fn;

	printf("{\"cycle\":%d,\"chans\":[", CYCLE);
	for (i = 0; i < _L1SCHED_CHAN_MAX; i++)
		printf("%s\"%s\"", i ? "," : "", chan_names[i] ? chan_names[i] : "UNNAMED");
	printf("],\"cfgs\":[");
	for (c = 0; c < _GSM_PCHAN_MAX; c++)
		printf("%s\"%s\"", c ? "," : "", cfg_name(c));
	printf("],\n\"lookups\":[");
	for (c = 0; c < _GSM_PCHAN_MAX; c++)
		for (tn = 0; tn < 8; tn++)
			printf("%s{\"cfg\":\"%s\",\"tn\":%d,\"lid\":%d}", (c || tn) ? "," : "", cfg_name(c), tn,
			       lid_of(l1sched_mframe_layout((enum gsm_phys_chan_config)c, (uint8_t)tn)));
	printf("],\n\"layouts\":[");
	for (i = 0; i < nseen; i++) {
		const struct l1sched_tdma_multiframe *l = seen[i];
		printf("%s\n{\"lid\":%d,\"cfg\":\"%s\",\"name\":\"%s\",\"period\":%u,\"slotmask\":%u,\"mask\":[", i ? "," : "",
		       i, cfg_name((int)l->chan_config), l->name ? l->name : "", l->period, l->slotmask);
		first = 1;
		for (c = 0; c < 64; c++)
			if (l->lchan_mask & ((uint64_t)1 << c)) {
				printf("%s%d", first ? "" : ",", c);
				first = 0;
			}
		printf("],\"frames\":[");
		for (o = 0; o < l->period; o++) {
			const struct l1sched_tdma_frame *f = &l->frames[o];
			printf("%s[%d,%u,%d,%u]", o ? "," : "", (int)f->dl_chan, f->dl_bid, (int)f->ul_chan, f->ul_bid);
		}
		printf("]}");
	}
	printf("],\n\"walk\":[");
	first = 1;
	for (c = 0; walk && c < _GSM_PCHAN_MAX; c++)
		for (tn = 0; tn < 8; tn++) {
			const struct l1sched_tdma_multiframe *l = l1sched_mframe_layout((enum gsm_phys_chan_config)c, (uint8_t)tn);
			if (!l || !l->period || !l->frames)
				continue;	/* sched_trx.c: not configured; period 0 is judged from the layout dump */
			printf("%s\n{\"cfg\":\"%s\",\"tn\":%d,\"enc\":[", first ? "" : ",", cfg_name(c), tn);
			first = 0;
			for (fn = 0; fn < CYCLE; fn++) {
				/* as in l1sched_pull_burst() / l1sched_handle_rx_burst() */
				unsigned offset = fn % l->period;
				const struct l1sched_tdma_frame *frame = &l->frames[offset];
				printf("%s%d", fn ? "," : "", (((int)frame->dl_chan * 256 + frame->dl_bid) * 64 +
				       (int)frame->ul_chan) * 256 + frame->ul_bid);
			}
			printf("]}");
		}
	printf("]");
#ifdef VF_LCHAN_DESC
	printf(",\n\"desc\":[");
	for (i = 0; i < _L1SCHED_CHAN_MAX; i++)
		printf("%s{\"chan_nr\":%u,\"link_id\":%u,\"flags\":%u}", i ? "," : "", (unsigned)l1sched_lchan_desc[i].chan_nr,
		       (unsigned)l1sched_lchan_desc[i].link_id, (unsigned)l1sched_lchan_desc[i].flags);
	printf("]");
#endif
	printf("}\n");
	return 0;
}
