/* Driver for gsm48_decode_mobile_alloc() of layer23/src/common/sysinfo.c.
 *
 * The function is sliced from the working-tree file into moballoc_slice.c by
 * vf/props/c20.py (sysinfo.c needs the whole layer23 header world); the
 * generated moballoc_gen.h brings the real struct gsm_sysinfo_freq (in-repo
 * libosmocore gsm48_ie.h), the FREQ_TYPE_* masks and the prototype sliced
 * from sysinfo.h, and maps LOGP() to vf_logp() below.
 *
 * Buffers are heap allocations of exactly the size the real callers pass
 * (struct gsm48_sysinfo: freq[1024], hopping[64], hopp_len; gsm48_rr.c:
 * uint16_t ma[64]) and the bitmap has exactly `len` octets, so ASan sees any
 * access outside them.
 *
 * stdin, one case per line (decimal tokens):
 *   D <si4> <len> <steps> B <len octets> C <serving ARFCNs> P <ARFCNs with HOPP set before>
 * stdout, one JSON line per case:
 *   {"rc":..,"hoppLen":..,"hopping":[..],"hoppMask":[..],"servSame":0|1,
 *    "ubsan":["kind",..],"steps":[["s",j,arfcn],["h",i,val],["x",idx,j],["?"]]}
 * steps (only with <steps> = 1) are the function's own log lines in order:
 *   s = "Serving cell ARFCN #j: arfcn" (emitted just before f[j++] = arfcn)
 *   h = "Hopping ARFCN: i (bit f[i])"  (emitted when bit i of the bitmap is set)
 *   x = "... hopping index i+1 exceeds ... (j)" (emitted before the break)
 */
#include <stdio.h>
#include <stdlib.h>
#include <string.h>
#include <stdarg.h>
#include <stdint.h>
#include "moballoc_gen.h"

#define NFREQ 1024
#define NHOP  64

static int steps_on;
static char *sbuf;
static size_t slen, scap;

static void sput(const char *fmt, ...)
{
	va_list ap;
	if (slen + 64 > scap) {
		scap = scap ? scap * 2 : 1 << 16;
		sbuf = realloc(sbuf, scap);
	}
	va_start(ap, fmt);
	slen += vsnprintf(sbuf + slen, scap - slen, fmt, ap);
	va_end(ap);
}

/* LOGP(ss, level, fmt, args...) of the sliced function ends up here */
void vf_logp(const char *fmt, ...)
{
	va_list ap;
	int a, b;
	if (!steps_on)
		return;
	va_start(ap, fmt);
	/* the whole format string decides (a line that merely starts alike is a different line: its
	 * arguments are not ours to read); anything else is reported as unknown */
	if (!strcmp(fmt, "Serving cell ARFCN #%d: %d\n")) {
		a = va_arg(ap, int); b = va_arg(ap, int);
		sput("%s[\"s\",%d,%d]", slen ? "," : "", a, b);
	} else if (!strcmp(fmt, "Hopping ARFCN: %d (bit %d)\n")) {
		a = va_arg(ap, int); b = va_arg(ap, int);
		sput("%s[\"h\",%d,%d]", slen ? "," : "", a, b);
	} else if (!strcmp(fmt, "Mobile Allocation hopping index %d exceeds maximum number of cell frequencies. (%d)\n")) {
		a = va_arg(ap, int); b = va_arg(ap, int);
		sput("%s[\"x\",%d,%d]", slen ? "," : "", a, b);
	} else {
		sput("%s[\"?\"]", slen ? "," : "");
	}
	va_end(ap);
}

/* UBSan reports that do not abort (only vla-bound is built recoverable) */
static char ubuf[256];
static size_t ulen;
void __ubsan_get_current_report_data(const char **kind, const char **msg, const char **file,
				     unsigned *line, unsigned *col, char **addr);
void __ubsan_on_report(void)
{
	const char *k = "?", *m, *f;
	unsigned l, c;
	char *a;
	__ubsan_get_current_report_data(&k, &m, &f, &l, &c, &a);
	if (ulen + 64 < sizeof(ubuf))
		ulen += snprintf(ubuf + ulen, sizeof(ubuf) - ulen, "%s\"%s\"", ulen ? "," : "", k);
}

int main(void)
{
	static char line[1 << 16];
	while (fgets(line, sizeof(line), stdin)) {
		char *p = line, *e;
		long si4, len, v;
		int sect = 0, nb = 0, rc, first, servsame = 1;
		struct gsm_sysinfo_freq *freq;
		uint8_t *serv0;
		uint16_t *hopping;
		uint8_t *hopp_len, *ma;
		unsigned i, n;

		if (line[0] != 'D')
			continue;
		p++;
		si4 = strtol(p, &p, 10);
		len = strtol(p, &p, 10);
		steps_on = (int)strtol(p, &p, 10);
		freq = malloc(NFREQ * sizeof(*freq));
		serv0 = malloc(NFREQ);
		hopping = malloc(NHOP * sizeof(*hopping));
		hopp_len = malloc(1);
		ma = malloc(len > 0 ? (size_t)len : 0);
		memset(freq, 0, NFREQ * sizeof(*freq));
		for (i = 0; i < NHOP; i++)
			hopping[i] = 0xffff;
		*hopp_len = 0xaa;	/* stale value of the caller */
		for (;;) {
			while (*p == ' ')
				p++;
			if (*p == 'B' || *p == 'C' || *p == 'P') {
				sect = *p++;
				continue;
			}
			v = strtol(p, &e, 10);
			if (e == p)
				break;
			p = e;
			if (sect == 'B') {
				if (nb < len)
					ma[nb++] = (uint8_t)v;
			} else if (sect == 'C') {
				freq[v & 1023].mask |= FREQ_TYPE_SERV;
			} else if (sect == 'P') {
				freq[v & 1023].mask |= FREQ_TYPE_HOPP;
			}
		}
		if (nb != len) {
			printf("{\"error\":\"bitmap has %d of %ld octets\"}\n", nb, len);
			fflush(stdout);
			exit(3);
		}
		for (i = 0; i < NFREQ; i++)
			serv0[i] = freq[i].mask & ~FREQ_TYPE_HOPP;
		slen = 0;
		ulen = 0;
		ubuf[0] = 0;
		if (sbuf)
			sbuf[0] = 0;

		rc = gsm48_decode_mobile_alloc(freq, ma, (uint8_t)len, hopping, hopp_len, (int)si4);

		printf("{\"rc\":%d,\"hoppLen\":%u,\"hopping\":[", rc, *hopp_len);
		n = rc == 0 ? *hopp_len : 0;
		if (n > NHOP)
			n = NHOP;
		for (i = 0; i < n; i++)
			printf("%s%u", i ? "," : "", hopping[i]);
		printf("],\"hoppMask\":[");
		first = 1;
		for (i = 0; i < NFREQ; i++) {
			if (freq[i].mask & FREQ_TYPE_HOPP) {
				printf("%s%u", first ? "" : ",", i);
				first = 0;
			}
			if ((freq[i].mask & ~FREQ_TYPE_HOPP) != serv0[i])
				servsame = 0;
		}
		printf("],\"servSame\":%d,\"ubsan\":[%s],\"steps\":[%s]}\n", servsame, ubuf,
		       (steps_on && slen) ? sbuf : "");
		fflush(stdout);
		free(freq);
		free(serv0);
		free(hopping);
		free(hopp_len);
		free(ma);
	}
	return 0;
}
