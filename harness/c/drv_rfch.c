/* Driver for the unmodified firmware/layer1/rfch.c (C07).
 *
 * The hopping sequence generator rfch_hop_seq_gen() is static; it is reached
 * the way the firmware reaches it: rfch_get_params(&time, &arfcn, NULL, NULL)
 * with l1s.dedicated configured as a hopping dedicated channel.  GSM time comes
 * from the in-repo libosmocore gsm_fn2gsmtime(), as in the firmware.
 *
 * Script on stdin:
 *   M maio a0 a1 ... a(n-1)   mobile allocation (n = number of ARFCNs) and MAIO
 *   Q hsn fn [hsn fn ...]     one query per pair -> line "Q arfcn arfcn ..."
 *   T h k                     table pass with HSN = h: for T1R 0..63, T2 0..25,
 *                             T3 0..50: T1 = T1R + 64 k, FN by TS 45.002 4.3.3
 *                             -> line "T <sum of FN mod 2^31> arfcn arfcn ..."
 */
#include <stdio.h>
#include <stdlib.h>
#include <string.h>
#include <stdint.h>
#include <osmocom/gsm/gsm_utils.h>
#include <layer1/sync.h>
#include <layer1/rfch.h>

struct l1s_state l1s;

static uint16_t query(uint8_t hsn, uint32_t fn)
{
	struct gsm_time t;
	uint16_t arfcn = 0xffff;
	gsm_fn2gsmtime(&t, fn);
	l1s.dedicated.h1.hsn = hsn;
	rfch_get_params(&t, &arfcn, NULL, NULL);
	return arfcn;
}

int main(void)
{
	static char line[1 << 22];
	static char obuf[1 << 20];
	setvbuf(stdout, obuf, _IOFBF, sizeof(obuf));
	memset(&l1s, 0, sizeof(l1s));
	l1s.dedicated.type = GSM_DCHAN_SDCCH_8;
	l1s.dedicated.h = 1;
	l1s.serving_cell.arfcn = 0xfffe;
	while (fgets(line, sizeof(line), stdin)) {
		char *p = line + 1, *e;
		if (line[0] == 'M') {
			unsigned n = 0;
			long maio = strtol(p, &e, 10);
			p = e;
			for (;;) {
				long a = strtol(p, &e, 10);
				if (e == p)
					break;
				p = e;
				if (n >= 64) {
					fprintf(stderr, "MA too long\n");
					return 3;
				}
				l1s.dedicated.h1.ma[n++] = (uint16_t)a;
			}
			l1s.dedicated.h1.n = (uint8_t)n;
			l1s.dedicated.h1.maio = (uint8_t)maio;
			printf("M %u\n", n);
		} else if (line[0] == 'Q') {
			fputs("Q", stdout);
			for (;;) {
				long hsn = strtol(p, &e, 10);
				unsigned long fn;
				if (e == p)
					break;
				p = e;
				fn = strtoul(p, &e, 10);
				if (e == p)
					break;
				p = e;
				printf(" %u", query((uint8_t)hsn, (uint32_t)fn));
			}
			putchar('\n');
		} else if (line[0] == 'T') {
			long h = strtol(p, &e, 10);
			long k = strtol(e, &e, 10);
			static uint16_t res[64 * 26 * 51];
			unsigned t1r, t2, t3, i = 0;
			uint32_t sum = 0;
			for (t1r = 0; t1r < 64; t1r++)
				for (t2 = 0; t2 < 26; t2++)
					for (t3 = 0; t3 < 51; t3++) {
						/* harness arithmetic (TS 45.002 4.3.3); the sum is
						 * compared with the Python driver's and the harness' */
						uint32_t fn = 51 * ((t3 + 26 - t2) % 26) + t3
							+ 26 * 51 * (uint32_t)(t1r + 64 * k);
						sum = (sum + fn) & 0x7fffffff;
						res[i++] = query((uint8_t)h, fn);
					}
			printf("T %lu", (unsigned long)sum);
			for (i = 0; i < 64 * 26 * 51; i++)
				printf(" %u", res[i]);
			putchar('\n');
		} else if (line[0] == '\n' || line[0] == '#') {
			continue;
		} else {
			fprintf(stderr, "bad op: %.40s\n", line);
			return 3;
		}
		fflush(stdout);
	}
	return 0;
}
