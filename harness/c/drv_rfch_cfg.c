/* Driver for the paths by which a hopping configuration reaches the firmware's
 * hopping sequence generator (C07, spec/HopCfg.tla).
 *
 * Code under test, all from the working tree:
 *   layer1/l23_api.c   l1ctl_rx_dm_est_req(), l1ctl_rx_dm_freq_req() (+ chan_nr2dchan_type,
 *                      chan_nr_is_tch), sliced into a generated translation unit
 *                      which exports them as vf_dm_est_req() / vf_dm_freq_req()
 *   layer1/prim_freq.c whole file: l1a_freq_req(), l1s_freq_cmd(), freq_sched_set
 *   layer1/rfch.c      whole file: rfch_get_params() answers the queries
 *   firmware <byteorder.h> / <swab.h> (ntohs of the MA entries)
 *
 * Stand-ins (things C07 does not talk about): mframe_disable, l1a_mftask_set,
 * l1a_tch_mode_set, l1a_audio_mode_set, l1a_tch_flags_set: no-ops;
 * sched_gsmtime(): records the scheduled set and frame instead of queueing it -
 * "R" runs the recorded set's callbacks the way tdma_sched_execute would
 * (cb(p1, p2, p3) for every item up to tdma_end_set), which is how the real
 * l1s_freq_cmd is reached at the starting time.
 *
 * Messages are real L1CTL structures (include/l1ctl_proto.h) in a msgb whose
 * data buffer is a heap block of exactly the message length (ASan sees any
 * read beyond it); 16 bit fields in network byte order as layer23 sends them.
 *
 * Script on stdin, one answer line per operation on the protocol stream (the
 * firmware's own printf output goes to /dev/null):
 *   E chan_nr tsc 1 hsn maio n a0 .. a(n-1)      L1CTL_DM_EST_REQ, hopping   -> "E"
 *   E chan_nr tsc 0 arfcn                        L1CTL_DM_EST_REQ, one ARFCN -> "E"
 *   F now st tsc 1 hsn maio n a0 .. | F now st tsc 0 arfcn
 *        l1s.current_time := now, then L1CTL_DM_FREQ_REQ with starting time st
 *        -> "F <imm> <at> <nsched>"  imm = 1: nothing was scheduled; at = frame of
 *           the (last) scheduled set; nsched = sets now pending
 *   R    run all pending sets in the order they were scheduled -> "R <callbacks run>"
 *   Q fn [fn ...]   rfch_get_params at these frames -> "Q arfcn arfcn ..."
 */
#include <stdio.h>
#include <stdlib.h>
#include <string.h>
#include <stdint.h>
#include <unistd.h>
#include <osmocom/gsm/gsm_utils.h>
#include <osmocom/core/msgb.h>
#include <layer1/sync.h>
#include <layer1/async.h>
#include <layer1/rfch.h>
#include <layer1/tdma_sched.h>
#include <layer1/sched_gsmtime.h>
#include <l1ctl_proto.h>

struct l1s_state l1s;

void vf_dm_est_req(struct msgb *msg);
void vf_dm_freq_req(struct msgb *msg);

/* ---- stand-ins ------------------------------------------------------- */
void mframe_disable(enum mframe_task task_id) { (void)task_id; }
void l1a_mftask_set(uint32_t tasks) { (void)tasks; }
uint8_t l1a_tch_mode_set(uint8_t mode) { return mode; }
uint8_t l1a_audio_mode_set(uint8_t mode) { return mode; }
uint8_t l1a_tch_flags_set(uint8_t flags) { return flags; }

int tdma_end_set(uint8_t p1, uint8_t p2, uint16_t p3)
{
	(void)p1; (void)p2; (void)p3;
	return 0;
}

#define MAX_PENDING 16
static struct { const struct tdma_sched_item *si; uint32_t fn; uint16_t p3; } pending[MAX_PENDING];
static unsigned n_pending;

int sched_gsmtime(const struct tdma_sched_item *si, uint32_t fn, uint16_t p3)
{
	if (n_pending >= MAX_PENDING)
		return -16;	/* -EBUSY, as the real one when it has no free event */
	pending[n_pending].si = si;
	pending[n_pending].fn = fn;
	pending[n_pending].p3 = p3;
	n_pending++;
	return 0;
}

static unsigned run_pending(void)
{
	unsigned i, ncb = 0;
	for (i = 0; i < n_pending; i++) {
		const struct tdma_sched_item *si = pending[i].si;
		unsigned guard = 0;
		/* one set: frames separated by cb == NULL, ended by tdma_end_set */
		for (; si->cb != &tdma_end_set && guard < 64; si++, guard++) {
			if (!si->cb)
				continue;
			si->cb(si->p1, si->p2, pending[i].p3);
			ncb++;
		}
	}
	n_pending = 0;
	return ncb;
}

/* ---- messages ---------------------------------------------------------- */
static struct msgb *mk_msg(uint8_t msg_type, uint8_t chan_nr, const void *payload, size_t plen)
{
	size_t len = sizeof(struct l1ctl_hdr) + sizeof(struct l1ctl_info_ul) + plen;
	struct msgb *m = calloc(1, sizeof(*m));
	uint8_t *buf = malloc(len);
	struct l1ctl_hdr *h = (struct l1ctl_hdr *)buf;
	struct l1ctl_info_ul *ul = (struct l1ctl_info_ul *)(buf + sizeof(*h));
	if (!m || !buf)
		exit(3);
	memset(buf, 0, len);
	h->msg_type = msg_type;
	ul->chan_nr = chan_nr;
	memcpy(ul->payload, payload, plen);
	m->head = m->data = m->l1h = buf;
	m->tail = buf + len;
	m->len = m->data_len = (uint16_t)len;
	return m;
}

static void free_msg(struct msgb *m)
{
	free(m->head);
	free(m);
}

static uint16_t be16(unsigned v)
{
	/* network byte order, written byte by byte (no use of the code under test) */
	uint8_t b[2] = { (uint8_t)(v >> 8), (uint8_t)(v & 0xff) };
	uint16_t r;
	memcpy(&r, b, 2);
	return r;
}

/* parse "h ..." into the union of an est / freq request; returns 0 on success */
static int parse_cfg(char **pp, uint8_t *h_p, struct l1ctl_h0 *h0, struct l1ctl_h1 *h1)
{
	char *p = *pp, *e;
	long h = strtol(p, &e, 10);
	if (e == p)
		return -1;
	p = e;
	*h_p = (uint8_t)h;
	if (h) {
		long hsn = strtol(p, &e, 10); p = e;
		long maio = strtol(p, &e, 10); p = e;
		long n = strtol(p, &e, 10);
		long i;
		if (e == p || n < 0 || n > 64)
			return -1;
		p = e;
		memset(h1, 0, sizeof(*h1));
		h1->hsn = (uint8_t)hsn;
		h1->maio = (uint8_t)maio;
		h1->n = (uint8_t)n;
		for (i = 0; i < n; i++) {
			long a = strtol(p, &e, 10);
			if (e == p)
				return -1;
			p = e;
			h1->ma[i] = be16((unsigned)a);
		}
	} else {
		long a = strtol(p, &e, 10);
		if (e == p)
			return -1;
		p = e;
		h0->band_arfcn = be16((unsigned)a);
	}
	*pp = p;
	return 0;
}

int main(void)
{
	static char line[1 << 20];
	static char obuf[1 << 20];
	FILE *out = fdopen(dup(1), "w");
	if (!out || !freopen("/dev/null", "w", stdout))
		return 3;
	setvbuf(out, obuf, _IOFBF, sizeof(obuf));
	memset(&l1s, 0, sizeof(l1s));
	l1s.serving_cell.arfcn = 0xfffe;
	gsm_fn2gsmtime(&l1s.current_time, 0);
	gsm_fn2gsmtime(&l1s.next_time, 1);
	while (fgets(line, sizeof(line), stdin)) {
		char *p = line + 1, *e;
		if (line[0] == 'E') {
			struct l1ctl_dm_est_req req;
			struct msgb *m;
			long chan_nr = strtol(p, &e, 10); p = e;
			long tsc = strtol(p, &e, 10); p = e;
			memset(&req, 0, sizeof(req));
			req.tsc = (uint8_t)tsc;
			if (parse_cfg(&p, &req.h, &req.h0, &req.h1)) {
				fprintf(stderr, "bad E: %.60s\n", line);
				return 3;
			}
			m = mk_msg(L1CTL_DM_EST_REQ, (uint8_t)chan_nr, &req, sizeof(req));
			vf_dm_est_req(m);
			free_msg(m);
			fputs("E\n", out);
		} else if (line[0] == 'F') {
			struct l1ctl_dm_freq_req req;
			struct msgb *m;
			unsigned before = n_pending;
			unsigned long now = strtoul(p, &e, 10); p = e;
			unsigned long st = strtoul(p, &e, 10); p = e;
			long tsc = strtol(p, &e, 10); p = e;
			memset(&req, 0, sizeof(req));
			req.fn = be16((unsigned)st);
			req.tsc = (uint8_t)tsc;
			if (parse_cfg(&p, &req.h, &req.h0, &req.h1)) {
				fprintf(stderr, "bad F: %.60s\n", line);
				return 3;
			}
			gsm_fn2gsmtime(&l1s.current_time, (uint32_t)now);
			gsm_fn2gsmtime(&l1s.next_time, (uint32_t)((now + 1) % GSM_MAX_FN));
			m = mk_msg(L1CTL_DM_FREQ_REQ, 0, &req, sizeof(req));
			vf_dm_freq_req(m);
			free_msg(m);
			fprintf(out, "F %d %lu %u\n", n_pending == before,
				n_pending > before ? (unsigned long)pending[n_pending - 1].fn : 0ul, n_pending);
		} else if (line[0] == 'R') {
			fprintf(out, "R %u\n", run_pending());
		} else if (line[0] == 'Q') {
			fputs("Q", out);
			for (;;) {
				struct gsm_time t;
				uint16_t arfcn = 0xffff;
				unsigned long fn = strtoul(p, &e, 10);
				if (e == p)
					break;
				p = e;
				gsm_fn2gsmtime(&t, (uint32_t)fn);
				rfch_get_params(&t, &arfcn, NULL, NULL);
				fprintf(out, " %u", arfcn);
			}
			fputc('\n', out);
		} else if (line[0] == '\n' || line[0] == '#') {
			continue;
		} else {
			fprintf(stderr, "bad op: %.40s\n", line);
			return 3;
		}
		fflush(out);
	}
	return 0;
}
