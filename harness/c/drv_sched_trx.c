/* Driver for the unmodified trxcon/src/sched_trx.c (C11, scheduler dispatch).
 *
 * Linked with the unmodified sched_trx.c, sched_mframe.c (the layouts) and
 * sched_lchan_desc.c (the real l1sched_lchan_desc[] table), the in-repo
 * talloc.c and msgb.c.  Stand-ins defined here: the per-channel burst handlers
 * the descriptor table refers to (RECORDING stubs: they log direction,
 * lchan->type, bid, fn and which handler it was, and do nothing else),
 * l1sched_prim_alloc()/l1sched_prim_to_user() (the PCHAN_COMB indications are
 * recorded), osmo_a5() (never reached: no ciphering is started), LOGP (formats
 * and discards), msgb_hexdump_l2().  Nothing of sched_trx.c is re-implemented;
 * in particular the driver never evaluates a frame lookup itself.
 *
 * stdin: one operation per line; stdout: one JSON line per operation, which is
 * the trace event as SchedDispatchTrace.tla reads it.
 *   N                     new trace: fresh l1sched_alloc()                 {"e":"new"}
 *   C tn cfg              l1sched_configure_ts(sched, tn, cfg)
 *        {"e":"configure","tn","cfg","rc","lay":{"cfg","period","slotmask"},   (ts->mf_layout; cfg -1: NULL)
 *         "lchans":[types in list order],"active":[types],"prims":[[tn,pchan],..]}
 *   S tn chan_nr on       l1sched_set_lchans(ts, chan_nr, on, 0, 0)        {"e":"set",...,"rc","active":[types]}
 *   A tn chan / D tn chan l1sched_activate_lchan / l1sched_deactivate_lchan {"e":"act"|"deact",...,"rc","active"}
 *   R tn fn               l1sched_handle_rx_burst()
 *        {"e":"rx","tn","fn","rc","bid":bi.bid afterwards (255: untouched),
 *         "calls":[[0,type,bid,fn,handler],..],"tdma":[type,last_proc,num_proc>0] of the lchan called last | []}
 *   P tn fn               l1sched_pull_burst()   {"e":"pull","tn","fn","bid":br.bid (255: untouched),"calls":[[1,type,bid,fn,handler]]}
 *   B tn fn               l1sched_handle_rx_probe()   {"e":"probe","tn","fn","rc","flags"}
 *   X                     descriptor table dump (one JSON document):
 *        {"e":"desc","hyper","errno":{..},"probe_active","handlers":[names by id],"chans":[{"name","rx","tx","auto","chan_nr","link_id","rxh","txh"}, ..]}
 */
#include <stdio.h>
#include <stdlib.h>
#include <string.h>
#include <stdarg.h>
#include <errno.h>
#include <stdint.h>

#include <osmocom/core/talloc.h>
#include <osmocom/core/msgb.h>
#include <osmocom/core/prim.h>
#include <osmocom/gsm/a5.h>
#include <osmocom/bb/l1sched/l1sched.h>

/* ------------------------------------------------------------------ recording handlers */
enum { H_NONE, H_RX_DATA, H_RX_SCH, H_RX_TCHF, H_RX_TCHH, H_RX_PDTCH,
       H_TX_DATA, H_TX_RACH, H_TX_TCHF, H_TX_TCHH, H_TX_PDTCH, H_MAX };
static const char *const handler_names[H_MAX] = {
	"", "rx_data_fn", "rx_sch_fn", "rx_tchf_fn", "rx_tchh_fn", "rx_pdtch_fn",
	"tx_data_fn", "tx_rach_fn", "tx_tchf_fn", "tx_tchh_fn", "tx_pdtch_fn",
};

#define MAXCALLS 1024
static struct { int dir, type, bid, h; uint32_t fn; } calls[MAXCALLS];
static int ncalls;
static struct l1sched_lchan_state *last_lchan;

static int record(int dir, int h, struct l1sched_lchan_state *lchan, unsigned bid, uint32_t fn)
{
	if (ncalls < MAXCALLS) {
		calls[ncalls].dir = dir;
		calls[ncalls].type = (int)lchan->type;
		calls[ncalls].bid = (int)bid;
		calls[ncalls].fn = fn;
		calls[ncalls].h = h;
	}
	ncalls++;
	last_lchan = lchan;
	return 0;
}

#define RXH(name, id) int name(struct l1sched_lchan_state *lchan, const struct l1sched_burst_ind *bi) \
	{ return record(0, id, lchan, bi->bid, bi->fn); }
#define TXH(name, id) int name(struct l1sched_lchan_state *lchan, struct l1sched_burst_req *br) \
	{ return record(1, id, lchan, br->bid, br->fn); }
RXH(rx_data_fn, H_RX_DATA)
RXH(rx_sch_fn, H_RX_SCH)
RXH(rx_tchf_fn, H_RX_TCHF)
RXH(rx_tchh_fn, H_RX_TCHH)
RXH(rx_pdtch_fn, H_RX_PDTCH)
TXH(tx_data_fn, H_TX_DATA)
TXH(tx_rach_fn, H_TX_RACH)
TXH(tx_tchf_fn, H_TX_TCHF)
TXH(tx_tchh_fn, H_TX_TCHH)
TXH(tx_pdtch_fn, H_TX_PDTCH)

static int rx_id(l1sched_lchan_rx_func *f)
{
	if (!f) return H_NONE;
	if (f == rx_data_fn) return H_RX_DATA;
	if (f == rx_sch_fn) return H_RX_SCH;
	if (f == rx_tchf_fn) return H_RX_TCHF;
	if (f == rx_tchh_fn) return H_RX_TCHH;
	if (f == rx_pdtch_fn) return H_RX_PDTCH;
	return H_MAX;
}
static int tx_id(l1sched_lchan_tx_func *f)
{
	if (!f) return H_NONE;
	if (f == tx_data_fn) return H_TX_DATA;
	if (f == tx_rach_fn) return H_TX_RACH;
	if (f == tx_tchf_fn) return H_TX_TCHF;
	if (f == tx_tchh_fn) return H_TX_TCHH;
	if (f == tx_pdtch_fn) return H_TX_PDTCH;
	return H_MAX;
}

/* ------------------------------------------------------------------ other stand-ins */
void vf_log(const char *fmt, ...)
{
	static char buf[1024];
	va_list ap;
	va_start(ap, fmt);
	vsnprintf(buf, sizeof(buf), fmt, ap);
	va_end(ap);
}

void osmo_panic(const char *fmt, ...)
{
	va_list ap;
	va_start(ap, fmt);
	vfprintf(stderr, fmt, ap);
	va_end(ap);
	abort();
}

const char *msgb_hexdump_l2(const struct msgb *msg)
{
	(void)msg;
	return "";
}

void osmo_a5(int n, const uint8_t *key, uint32_t fn, ubit_t *dl, ubit_t *ul)
{
	(void)key; (void)fn;
	if (dl) memset(dl, 0, 114);
	if (ul) memset(ul, 0, 114);
	fprintf(stderr, "driver: osmo_a5(%d) reached although no ciphering was started\n", n);
	exit(3);
}

#define MAXPRIMS 64
static struct { int tn, pchan; } prims[MAXPRIMS];
static int nprims;

struct msgb *l1sched_prim_alloc(enum l1sched_prim_type type, enum osmo_prim_operation op)
{
	struct msgb *msg = msgb_alloc(sizeof(struct l1sched_prim) + 64, "l1sched_prim");
	struct l1sched_prim *prim;
	if (!msg)
		return NULL;
	msg->l1h = msgb_put(msg, sizeof(*prim));
	prim = (struct l1sched_prim *)msg->l1h;
	memset(prim, 0, sizeof(*prim));
	prim->oph.primitive = type;
	prim->oph.operation = op;
	prim->oph.msg = msg;
	return msg;
}

int l1sched_prim_to_user(struct l1sched_state *sched, struct msgb *msg)
{
	const struct l1sched_prim *prim = l1sched_prim_from_msgb(msg);
	(void)sched;
	if (prim->oph.primitive == L1SCHED_PRIM_T_PCHAN_COMB && nprims < MAXPRIMS) {
		prims[nprims].tn = prim->pchan_comb_ind.tn;
		prims[nprims].pchan = (int)prim->pchan_comb_ind.pchan;
		nprims++;
	}
	msgb_free(msg);
	return 0;
}

/* ------------------------------------------------------------------ the script */
static struct l1sched_state *sched;
static void *tall_ctx;
static int poisoned;	/* a first configuration of a timeslot failed: its list head was never initialised */

static void print_calls(void)
{
	int i;
	if (ncalls > MAXCALLS) {
		fprintf(stderr, "driver: more than %d handler calls in one operation\n", MAXCALLS);
		exit(3);
	}
	printf("\"calls\":[");
	for (i = 0; i < ncalls; i++)
		printf("%s[%d,%d,%d,%u,%d]", i ? "," : "", calls[i].dir, calls[i].type, calls[i].bid, calls[i].fn, calls[i].h);
	printf("]");
}

static void print_lchans(struct l1sched_ts *ts, int only_active, const char *key)
{
	struct l1sched_lchan_state *lchan;
	int first = 1;
	printf("\"%s\":[", key);
	if (ts && ts->lchans.next)
		llist_for_each_entry(lchan, &ts->lchans, list) {
			if (only_active && !lchan->active)
				continue;
			printf("%s%d", first ? "" : ",", (int)lchan->type);
			first = 0;
		}
	printf("]");
}

static struct l1sched_ts *get_ts(long tn)
{
	if (tn < 0 || tn >= TRX_TS_COUNT) {
		fprintf(stderr, "driver: bad timeslot %ld\n", tn);
		exit(3);
	}
	return sched->ts[tn];
}

static void need_ts(struct l1sched_ts *ts, const char *op)
{
	if (!ts || !ts->lchans.next) {
		fprintf(stderr, "driver: %s on a timeslot that was never configured successfully\n", op);
		exit(3);
	}
}

static void dump_desc(void)
{
	int i;
	printf("{\"e\":\"desc\",\"hyper\":%d,\"probe_active\":%d,\"nobid\":255,", GSM_TDMA_HYPERFRAME, L1SCHED_PROBE_F_ACTIVE);
	printf("\"errno\":{\"EINVAL\":%d,\"ENODEV\":%d,\"EALREADY\":%d,\"ENOMEM\":%d},", EINVAL, ENODEV, EALREADY, ENOMEM);
	printf("\"handlers\":[");
	for (i = 0; i < H_MAX; i++)
		printf("%s\"%s\"", i ? "," : "", handler_names[i]);
	printf("],\"chans\":[");
	for (i = 0; i < _L1SCHED_CHAN_MAX; i++) {
		const struct l1sched_lchan_desc *d = &l1sched_lchan_desc[i];
		printf("%s\n{\"name\":\"%s\",\"rx\":%s,\"tx\":%s,\"auto\":%s,\"chan_nr\":%u,\"link_id\":%u,\"rxh\":%d,\"txh\":%d}",
		       i ? "," : "", d->name ? d->name : "", d->rx_fn ? "true" : "false", d->tx_fn ? "true" : "false",
		       (d->flags & L1SCHED_CH_FLAG_AUTO) ? "true" : "false", d->chan_nr, d->link_id,
		       rx_id(d->rx_fn), tx_id(d->tx_fn));
	}
	printf("]}\n");
}

int main(void)
{
	static char line[256];
	static const struct l1sched_cfg cfg = { .log_prefix = "drv: " };

	setvbuf(stdout, NULL, _IOLBF, 0);	/* the events before a sanitizer report must not be lost */
	tall_ctx = talloc_named_const(NULL, 0, "drv_sched_trx");
	while (fgets(line, sizeof(line), stdin)) {
		char *p = line + 1;
		char op = line[0];
		long a = 0, b = 0, c = 0;

		if (op == '\n' || op == '#')
			continue;
		a = strtol(p, &p, 10);
		b = strtol(p, &p, 10);
		c = strtol(p, &p, 10);
		ncalls = 0;
		last_lchan = NULL;
		if (op != 'N' && op != 'X' && !sched) {
			fprintf(stderr, "driver: operation before N\n");
			return 3;
		}
		switch (op) {
		case 'N':
			if (sched && !poisoned)
				l1sched_free(sched);
			poisoned = 0;
			nprims = 0;
			sched = l1sched_alloc(tall_ctx, &cfg, NULL);
			if (!sched) {
				fprintf(stderr, "driver: l1sched_alloc failed\n");
				return 3;
			}
			printf("{\"e\":\"new\"}\n");
			break;
		case 'X':
			dump_desc();
			break;
		case 'C': {
			struct l1sched_ts *ts;
			int fresh, rc, i;
			(void)get_ts(a);
			fresh = sched->ts[a] == NULL;
			nprims = 0;
			rc = l1sched_configure_ts(sched, (int)a, (enum gsm_phys_chan_config)b);
			ts = sched->ts[a];
			if (rc != 0 && fresh)
				poisoned = 1;
			printf("{\"e\":\"configure\",\"tn\":%ld,\"cfg\":%ld,\"rc\":%d,", a, b, rc);
			if (ts && ts->mf_layout)
				printf("\"lay\":{\"cfg\":%d,\"period\":%u,\"slotmask\":%u},", (int)ts->mf_layout->chan_config,
				       ts->mf_layout->period, ts->mf_layout->slotmask);
			else
				printf("\"lay\":{\"cfg\":-1,\"period\":0,\"slotmask\":0},");
			print_lchans(rc == 0 ? ts : NULL, 0, "lchans");
			printf(",");
			print_lchans(rc == 0 ? ts : NULL, 1, "active");
			printf(",\"prims\":[");
			for (i = 0; i < nprims; i++)
				printf("%s[%d,%d]", i ? "," : "", prims[i].tn, prims[i].pchan);
			printf("]}\n");
			break;
		}
		case 'S': {
			struct l1sched_ts *ts = get_ts(a);
			int rc;
			need_ts(ts, "l1sched_set_lchans");
			rc = l1sched_set_lchans(ts, (uint8_t)b, (int)c, 0, 0);
			printf("{\"e\":\"set\",\"tn\":%ld,\"chan_nr\":%ld,\"on\":%ld,\"rc\":%d,", a, b, c, rc);
			print_lchans(ts, 1, "active");
			printf("}\n");
			break;
		}
		case 'A':
		case 'D': {
			struct l1sched_ts *ts = get_ts(a);
			int rc;
			need_ts(ts, "l1sched_(de)activate_lchan");
			rc = op == 'A' ? l1sched_activate_lchan(ts, (enum l1sched_lchan_type)b)
				       : l1sched_deactivate_lchan(ts, (enum l1sched_lchan_type)b);
			printf("{\"e\":\"%s\",\"tn\":%ld,\"chan\":%ld,\"rc\":%d,", op == 'A' ? "act" : "deact", a, b, rc);
			print_lchans(ts, 1, "active");
			printf("}\n");
			break;
		}
		case 'R': {
			static struct l1sched_burst_ind bi;
			int rc;
			(void)get_ts(a);
			memset(&bi, 0, sizeof(bi));
			bi.fn = (uint32_t)b;
			bi.tn = (uint8_t)a;
			bi.bid = 255;
			bi.rssi = -60;
			bi.burst_len = GSM_NBITS_NB_GMSK_BURST;
			rc = l1sched_handle_rx_burst(sched, &bi);
			printf("{\"e\":\"rx\",\"tn\":%ld,\"fn\":%ld,\"rc\":%d,\"bid\":%u,", a, b, rc, bi.bid);
			print_calls();
			if (last_lchan)
				printf(",\"tdma\":[%d,%u,%d]}\n", (int)last_lchan->type, last_lchan->tdma.last_proc,
				       last_lchan->tdma.num_proc > 0);
			else
				printf(",\"tdma\":[]}\n");
			break;
		}
		case 'P': {
			static struct l1sched_burst_req br;
			(void)get_ts(a);
			memset(&br, 0, sizeof(br));
			br.fn = (uint32_t)b;
			br.tn = (uint8_t)a;
			br.bid = 255;
			l1sched_pull_burst(sched, &br);
			printf("{\"e\":\"pull\",\"tn\":%ld,\"fn\":%ld,\"bid\":%u,", a, b, br.bid);
			print_calls();
			printf("}\n");
			break;
		}
		case 'B': {
			struct l1sched_probe probe = { .flags = 0, .fn = (uint32_t)b, .tn = (uint8_t)a };
			int rc;
			(void)get_ts(a);
			rc = l1sched_handle_rx_probe(sched, &probe);
			printf("{\"e\":\"probe\",\"tn\":%ld,\"fn\":%ld,\"rc\":%d,\"flags\":%u}\n", a, b, rc, probe.flags);
			break;
		}
		default:
			fprintf(stderr, "driver: unknown operation '%c'\n", op);
			return 3;
		}
	}
	fflush(stdout);
	return 0;
}
