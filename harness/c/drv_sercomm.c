/* Driver for the unmodified firmware/comm/sercomm.c (host build, as osmocon
 * links it).  Reads an operation script on stdin, prints one JSON line per
 * operation:
 *   H d1 d2 ...     register the driver's receive callback for these DLCIs
 *   I               sercomm_init() (only with argv[1] = "lateinit": the driver then does not
 *                   initialise at start, so that callbacks can be registered before the
 *                   first initialisation, an order the API accepts)
 *   S dlci hex      sercomm_sendmsg(dlci, payload)
 *   P n             n x sercomm_drv_pull
 *   R hex           sercomm_drv_rx_char for every octet
 *   L n             n x (pull one octet, feed it to rx_char if there was one)
 */
#include <stdio.h>
#include <stdlib.h>
#include <string.h>
#include <stdint.h>
#include <osmocom/core/msgb.h>
#include <sercomm.h>

static char dlvbuf[1 << 20];
static size_t dlvlen;
static int dlvcount;

static void rx_cb(uint8_t dlci, struct msgb *msg)
{
	unsigned int i;
	dlvlen += snprintf(dlvbuf + dlvlen, sizeof(dlvbuf) - dlvlen, "%s[%u,[", dlvcount ? "," : "", dlci);
	for (i = 0; i < msg->len; i++)
		dlvlen += snprintf(dlvbuf + dlvlen, sizeof(dlvbuf) - dlvlen, "%s%u", i ? "," : "", msg->data[i]);
	dlvlen += snprintf(dlvbuf + dlvlen, sizeof(dlvbuf) - dlvlen, "]]");
	dlvcount++;
	msgb_free(msg);
}

static int hexval(int c)
{
	if (c >= '0' && c <= '9') return c - '0';
	if (c >= 'a' && c <= 'f') return c - 'a' + 10;
	if (c >= 'A' && c <= 'F') return c - 'A' + 10;
	return -1;
}

static size_t parse_hex(const char *s, uint8_t *out, size_t max)
{
	size_t n = 0;
	while (*s && hexval(s[0]) >= 0 && hexval(s[1]) >= 0 && n < max) {
		out[n++] = (uint8_t)(hexval(s[0]) * 16 + hexval(s[1]));
		s += 2;
	}
	return n;
}

static void feed(uint8_t ch, int first)
{
	int rc;
	dlvlen = 0; dlvcount = 0; dlvbuf[0] = 0;
	rc = sercomm_drv_rx_char(ch);
	printf("%s[%d,[%s]]", first ? "" : ",", rc, dlvbuf);
}

int main(int argc, char **argv)
{
	static char line[1 << 18];
	static uint8_t buf[1 << 16];
	if (!(argc > 1 && !strcmp(argv[1], "lateinit")))
		sercomm_init();
	while (fgets(line, sizeof(line), stdin)) {
		char *p = line + 1;
		size_t n, i;
		switch (line[0]) {
		case 'H':
			for (;;) {
				char *e;
				long d = strtol(p, &e, 10);
				if (e == p) break;
				p = e;
				printf("{\"op\":\"H\",\"dlci\":%ld,\"rc\":%d}\n", d, sercomm_register_rx_cb((uint8_t)d, rx_cb));
			}
			break;
		case 'I':
			sercomm_init();
			printf("{\"op\":\"I\"}\n");
			break;
		case 'S': {
			long d = strtol(p, &p, 10);
			struct msgb *msg;
			while (*p == ' ') p++;
			n = parse_hex(p, buf, sizeof(buf));
			msg = sercomm_alloc_msgb(n ? n : 1);	/* size must exceed the headroom (static assert in msgb.h) */
			if (n) memcpy(msgb_put(msg, n), buf, n);
			sercomm_sendmsg((uint8_t)d, msg);
			printf("{\"op\":\"S\"}\n");
			break;
		}
		case 'P': {
			long cnt = strtol(p, NULL, 10);
			printf("{\"op\":\"P\",\"outs\":[");
			for (i = 0; i < (size_t)cnt; i++) {
				uint8_t ch = 0;
				int rc = sercomm_drv_pull(&ch);
				printf("%s%d", i ? "," : "", rc ? (int)ch : -1);
			}
			printf("]}\n");
			break;
		}
		case 'R':
			while (*p == ' ') p++;
			n = parse_hex(p, buf, sizeof(buf));
			printf("{\"op\":\"R\",\"res\":[");
			for (i = 0; i < n; i++)
				feed(buf[i], i == 0);
			printf("]}\n");
			break;
		case 'L': {
			long cnt = strtol(p, NULL, 10);
			int first = 1;
			printf("{\"op\":\"L\",\"steps\":[");
			for (i = 0; i < (size_t)cnt; i++) {
				uint8_t ch = 0;
				int rc = sercomm_drv_pull(&ch);
				printf("%s[%d", first ? "" : ",", rc ? (int)ch : -1);
				first = 0;
				if (rc)
					feed(ch, 0);
				printf("]");
			}
			printf("]}\n");
			break;
		}
		default:
			break;
		}
		fflush(stdout);
	}
	return 0;
}

/* libosmocore's msgb.c/talloc.c call these on fatal errors */
void osmo_panic(const char *fmt, ...)
{
	fprintf(stderr, "osmo_panic: %s\n", fmt);
	abort();
}
