/* Driver for the callers of gsm48_decode_mobile_alloc() inside
 * layer23/src/common/sysinfo.c: gsm48_decode_sysinfo1() / gsm48_decode_sysinfo4()
 * decide WHICH cell allocation and WHICH octets of the CBCH Mobile Allocation
 * IE reach the decoder, and WHEN it is (re-)applied (C20).
 *
 * Real code: gsm48_decode_sysinfo1, gsm48_decode_sysinfo4,
 * gsm48_decode_mobile_alloc, decode_freq_list, gsm48_decode_chan_h0/h1,
 * gsm48_decode_cell_sel_param, gsm48_decode_rach_ctl_param (sliced from the
 * working-tree sysinfo.c into sysinfo_ma_slice.c by vf/props/c20.py), the
 * in-repo libosmocore gsm48_ie.c compiled whole (gsm48_decode_freq_list), the
 * real struct gsm48_sysinfo of layer23's sysinfo.h.
 * Stand-ins: logging, gsm48_decode_lai2 (below), rest octets (slice prelude).
 *
 * One struct gsm48_sysinfo per cell: calloc()ed by the op N.  The members
 * si5_msg[] .. si13_msg[] (everything between si4_msg[] and freq[]) are
 * ASan-poisoned while the handlers run: no SI1 / SI4 handler has any business
 * there, and si5_msg[] is what a read past the stored SI4 copy hits.
 * Messages are handed over in heap buffers of EXACTLY their length.
 *
 * stdin:   N | SI1 <hex> | SI4 <hex>          (one op per line)
 * stdout:  one JSON line per op
 *   {"e":"new"}
 *   {"e":"si1"|"si4","len":n,"rc":..,"si1":0|1,"si4":0|1,"serv":[ARFCNs with
 *    FREQ_TYPE_SERV, ascending],"hoppMask":[ARFCNs with FREQ_TYPE_HOPP],
 *    "hoppLen":s->hopp_len,"hopping":[s->hopping[0..min(hopp_len,64)-1]],
 *    "h":s->h,"other":0|1 (a mask bit other than SERV/HOPP is set somewhere)}
 */
#include "vf_sysinfo_ma.h"
#include <stdarg.h>
#include <stddef.h>
#include <ctype.h>
#include <sanitizer/asan_interface.h>

void vf_si_logp(const char *fmt, ...)
{
	(void)fmt;
}

void gsm48_decode_lai2(const struct gsm48_loc_area_id *lai, struct osmo_location_area_id *decoded)
{
	(void)lai;
	(void)decoded;
}

/* gsm48_ie.c (compiled whole) refers to it */
void osmo_panic(const char *fmt, ...)
{
	fprintf(stderr, "osmo_panic: %s\n", fmt);
	abort();
}

static struct gsm48_sysinfo *s;

#define GUARD_FROM offsetof(struct gsm48_sysinfo, si5_msg)
#define GUARD_TO   offsetof(struct gsm48_sysinfo, freq)

static void guard(int on)
{
	char *p = (char *)s;
	if (!s)
		return;
	if (on)
		ASAN_POISON_MEMORY_REGION(p + GUARD_FROM, GUARD_TO - GUARD_FROM);
	else
		ASAN_UNPOISON_MEMORY_REGION(p + GUARD_FROM, GUARD_TO - GUARD_FROM);
}

static void new_cell(void)
{
	if (s) {
		guard(0);
		free(s);
	}
	s = calloc(1, sizeof(*s));
}

static int hexval(int c)
{
	if (c >= '0' && c <= '9')
		return c - '0';
	c = tolower(c);
	if (c >= 'a' && c <= 'f')
		return c - 'a' + 10;
	return -1;
}

static void die(const char *what)
{
	printf("{\"error\":\"%s\"}\n", what);
	fflush(stdout);
	exit(3);
}

static void report(const char *e, int len, int rc)
{
	unsigned i, n, first, other = 0;

	printf("{\"e\":\"%s\",\"len\":%d,\"rc\":%d,\"si1\":%u,\"si4\":%u,\"serv\":[", e, len, rc, s->si1, s->si4);
	first = 1;
	for (i = 0; i < 1024; i++) {
		if (s->freq[i].mask & FREQ_TYPE_SERV) {
			printf("%s%u", first ? "" : ",", i);
			first = 0;
		}
		if (s->freq[i].mask & ~(FREQ_TYPE_SERV | FREQ_TYPE_HOPP))
			other = 1;
	}
	printf("],\"hoppMask\":[");
	first = 1;
	for (i = 0; i < 1024; i++)
		if (s->freq[i].mask & FREQ_TYPE_HOPP) {
			printf("%s%u", first ? "" : ",", i);
			first = 0;
		}
	printf("],\"hoppLen\":%u,\"hopping\":[", s->hopp_len);
	n = s->hopp_len;
	if (n > 64)
		n = 64;
	for (i = 0; i < n; i++)
		printf("%s%u", i ? "," : "", s->hopping[i]);
	printf("],\"h\":%u,\"other\":%u}\n", s->h, other);
	fflush(stdout);
}

int main(void)
{
	static char line[4096];

	while (fgets(line, sizeof(line), stdin)) {
		char *p = line;
		uint8_t *msg;
		int which, len = 0, rc, hi, lo;
		static uint8_t tmp[2048];

		while (*p == ' ')
			p++;
		if (*p == '\n' || *p == '#' || !*p)
			continue;
		if (*p == 'N') {
			new_cell();
			printf("{\"e\":\"new\"}\n");
			fflush(stdout);
			continue;
		}
		if (!strncmp(p, "SI1", 3))
			which = 1;
		else if (!strncmp(p, "SI4", 3))
			which = 4;
		else
			die("unknown op");
		p += 3;
		for (;;) {
			while (*p == ' ')
				p++;
			hi = hexval(*p);
			if (hi < 0)
				break;
			lo = hexval(p[1]);
			if (lo < 0)
				die("odd hex string");
			if (len >= (int)sizeof(tmp))
				die("message too long");
			tmp[len++] = (uint8_t)(hi << 4 | lo);
			p += 2;
		}
		if (!s)
			die("message before N");
		/* the callers (gsm48_rr.c, grr.c, ...) refuse messages shorter than the fixed part */
		if (which == 1 && len < (int)sizeof(struct gsm48_system_information_type_1))
			die("SI1 shorter than its fixed part");
		if (which == 4 && len < (int)sizeof(struct gsm48_system_information_type_4))
			die("SI4 shorter than its fixed part");
		msg = malloc(len);		/* exactly the message: any read past it is an ASan report */
		memcpy(msg, tmp, len);
		guard(1);
		if (which == 1)
			rc = gsm48_decode_sysinfo1(s, (const struct gsm48_system_information_type_1 *)msg, len);
		else
			rc = gsm48_decode_sysinfo4(s, (const struct gsm48_system_information_type_4 *)msg, len);
		guard(0);
		free(msg);
		report(which == 1 ? "si1" : "si4", len, rc);
	}
	if (s) {
		guard(0);
		free(s);
	}
	return 0;
}
