/* Driver for the unmodified firmware/layer1/tdma_sched.c and sched_gsmtime.c
 * (host build, ASan+UBSan).  Reads an operation script on stdin and prints one
 * JSON line per operation:
 *   N cur                         new trace: empty scheduler, ring position cur,
 *                                 no one-shot events
 *   S off cb p1 p2 p3 prio        tdma_schedule(off, cbs[cb], p1, p2, p3, prio)
 *   T off p3 n {cb p1 p2 prio}*n  tdma_schedule_set(off, set, p3); cb 0 = NULL
 *                                 ("next frame"); the end marker is appended
 *   E                             tdma_sched_execute(): rc and the callbacks run
 *   F n {ccb cp1 cp2 cp3 off cb p1 p2 p3 prio}*n
 *                                 arm n one-shot spawns for the next E: when the callback
 *                                 (ccb, cp1, cp2, cp3) is invoked it calls tdma_schedule(off, ...)
 *                                 itself ("on the fly" scheduling from inside a callback)
 *   A                             tdma_sched_advance()
 *   R                             tdma_sched_reset()
 *   G fn p3 n {cb p1 p2 prio}*n   sched_gsmtime(set, fn, p3)
 *   X fn                          sched_gsmtime_execute(fn)
 *   Z                             sched_gsmtime_reset()
 * Callbacks are the driver functions cb1..cb4; they log (cb, p1, p2, p3) and
 * report success (cb1, cb2: 0; cb3, cb4: a positive value). */
#include <stdio.h>
#include <stdlib.h>
#include <string.h>
#include <stdint.h>

#include <layer1/sync.h>
#include <layer1/tdma_sched.h>
#include <layer1/sched_gsmtime.h>

struct l1s_state l1s;

#define MAXCALLS 4096
static struct { int cb; unsigned p1, p2, p3; } calls[MAXCALLS];
static int ncalls;

#define MAXSPAWN 32
static struct { int on, ccb; unsigned cp1, cp2, cp3; long off, cb, p1, p2, p3, prio; } spawn[MAXSPAWN];
static int nspawn;
static tdma_sched_cb *cb_by_index(long i);

static int logcb(int id, uint8_t p1, uint8_t p2, uint16_t p3)
{
	int k;
	if (ncalls < MAXCALLS) {
		calls[ncalls].cb = id;
		calls[ncalls].p1 = p1;
		calls[ncalls].p2 = p2;
		calls[ncalls].p3 = p3;
	}
	ncalls++;
	for (k = 0; k < nspawn; k++) {
		if (spawn[k].on && spawn[k].ccb == id && spawn[k].cp1 == p1 && spawn[k].cp2 == p2 && spawn[k].cp3 == p3) {
			spawn[k].on = 0;
			/* the callback schedules a further item and reports success whatever comes back */
			tdma_schedule((uint8_t)spawn[k].off, cb_by_index(spawn[k].cb), (uint8_t)spawn[k].p1,
				      (uint8_t)spawn[k].p2, (uint16_t)spawn[k].p3, (int16_t)spawn[k].prio);
			break;
		}
	}
	return 0;
}
static int cb1(uint8_t p1, uint8_t p2, uint16_t p3) { return logcb(1, p1, p2, p3); }
static int cb2(uint8_t p1, uint8_t p2, uint16_t p3) { return logcb(2, p1, p2, p3); }
/* success is "not negative" (tdma_sched_execute() treats rc < 0 as the error): two of the
 * callbacks report success with a positive value */
static int cb3(uint8_t p1, uint8_t p2, uint16_t p3) { logcb(3, p1, p2, p3); return 1; }
static int cb4(uint8_t p1, uint8_t p2, uint16_t p3) { logcb(4, p1, p2, p3); return 3; }
static tdma_sched_cb *const cbs[5] = { NULL, cb1, cb2, cb3, cb4 };
static tdma_sched_cb *cb_by_index(long i) { return (i >= 1 && i <= 4) ? cbs[i] : cb1; }

/* item sets handed to sched_gsmtime() are referenced until the event fires:
 * they live in an arena that is only recycled at the start of a trace */
#define ARENA 65536
static struct tdma_sched_item arena[ARENA];
static unsigned arena_used;

static struct tdma_sched_item *parse_set(char **pp, long n)
{
	struct tdma_sched_item *set;
	long i;
	if (n < 0 || arena_used + n + 1 > ARENA) {
		fprintf(stderr, "driver: set arena exhausted\n");
		exit(3);
	}
	set = &arena[arena_used];
	arena_used += n + 1;
	for (i = 0; i < n; i++) {
		long cb = strtol(*pp, pp, 10);
		long p1 = strtol(*pp, pp, 10);
		long p2 = strtol(*pp, pp, 10);
		long prio = strtol(*pp, pp, 10);
		memset(&set[i], 0, sizeof(set[i]));
		if (cb < 0 || cb > 4) {
			fprintf(stderr, "driver: bad callback index\n");
			exit(3);
		}
		set[i].cb = cbs[cb];
		set[i].p1 = (uint8_t)p1;
		set[i].p2 = (uint8_t)p2;
		set[i].p3 = 0xdead;	/* must be replaced by the p3 argument */
		set[i].prio = (int16_t)prio;
	}
	memset(&set[n], 0, sizeof(set[n]));
	set[n].cb = &tdma_end_set;
	return set;
}

int main(void)
{
	static char line[1 << 16];
	int inited = 0;

	while (fgets(line, sizeof(line), stdin)) {
		char *p = line + 1;
		switch (line[0]) {
		case 'N': {
			long cur = strtol(p, &p, 10);
			memset(&l1s, 0, sizeof(l1s));
			l1s.tdma_sched.cur_bucket = (uint8_t)cur;
			if (!inited) {
				sched_gsmtime_init();
				inited = 1;
			} else
				sched_gsmtime_reset();
			arena_used = 0;
			printf("{\"op\":\"N\"}\n");
			break;
		}
		case 'S': {
			long off = strtol(p, &p, 10);
			long cb = strtol(p, &p, 10);
			long p1 = strtol(p, &p, 10);
			long p2 = strtol(p, &p, 10);
			long p3 = strtol(p, &p, 10);
			long prio = strtol(p, &p, 10);
			int rc;
			if (cb < 1 || cb > 4) {
				fprintf(stderr, "driver: bad callback index\n");
				exit(3);
			}
			rc = tdma_schedule((uint8_t)off, cbs[cb], (uint8_t)p1, (uint8_t)p2, (uint16_t)p3, (int16_t)prio);
			printf("{\"op\":\"S\",\"rc\":%d}\n", rc);
			break;
		}
		case 'T': {
			long off = strtol(p, &p, 10);
			long p3 = strtol(p, &p, 10);
			long n = strtol(p, &p, 10);
			unsigned mark = arena_used;
			struct tdma_sched_item *set = parse_set(&p, n);
			int rc = tdma_schedule_set((uint8_t)off, set, (uint16_t)p3);
			arena_used = mark;	/* the items were copied */
			printf("{\"op\":\"T\",\"rc\":%d}\n", rc);
			break;
		}
		case 'F': {
			long n = strtol(p, &p, 10), k;
			nspawn = 0;
			for (k = 0; k < n && k < MAXSPAWN; k++) {
				spawn[k].on = 1;
				spawn[k].ccb = (int)strtol(p, &p, 10);
				spawn[k].cp1 = (unsigned)strtol(p, &p, 10);
				spawn[k].cp2 = (unsigned)strtol(p, &p, 10);
				spawn[k].cp3 = (unsigned)strtol(p, &p, 10);
				spawn[k].off = strtol(p, &p, 10);
				spawn[k].cb = strtol(p, &p, 10);
				spawn[k].p1 = strtol(p, &p, 10);
				spawn[k].p2 = strtol(p, &p, 10);
				spawn[k].p3 = strtol(p, &p, 10);
				spawn[k].prio = strtol(p, &p, 10);
				nspawn++;
			}
			printf("{\"op\":\"F\",\"n\":%d}\n", nspawn);
			break;
		}
		case 'E': {
			int rc, i;
			ncalls = 0;
			rc = tdma_sched_execute();
			nspawn = 0;
			printf("{\"op\":\"E\",\"rc\":%d,\"n\":%d,\"calls\":[", rc, ncalls);
			for (i = 0; i < ncalls && i < MAXCALLS; i++)
				printf("%s[%d,%u,%u,%u]", i ? "," : "", calls[i].cb, calls[i].p1, calls[i].p2, calls[i].p3);
			printf("]}\n");
			break;
		}
		case 'A':
			tdma_sched_advance();
			printf("{\"op\":\"A\",\"cur\":%u}\n", l1s.tdma_sched.cur_bucket);
			break;
		case 'R':
			tdma_sched_reset();
			printf("{\"op\":\"R\"}\n");
			break;
		case 'G': {
			long fn = strtol(p, &p, 10);
			long p3 = strtol(p, &p, 10);
			long n = strtol(p, &p, 10);
			struct tdma_sched_item *set = parse_set(&p, n);
			int rc = sched_gsmtime(set, (uint32_t)fn, (uint16_t)p3);
			printf("{\"op\":\"G\",\"rc\":%d}\n", rc);
			break;
		}
		case 'X': {
			long fn = strtol(p, &p, 10);
			int rc = sched_gsmtime_execute((uint32_t)fn);
			printf("{\"op\":\"X\",\"rc\":%d}\n", rc);
			break;
		}
		case 'Z':
			sched_gsmtime_reset();
			printf("{\"op\":\"Z\"}\n");
			break;
		default:
			continue;
		}
		fflush(stdout);
	}
	return 0;
}
