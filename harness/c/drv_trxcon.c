/* Driver for the unmodified trxcon/src/trx_if.c.  The transceiver interface is
 * opened through trx_if_open(); its two UDP sockets are socketpairs whose
 * other ends the driver holds, so read()/send() in trx_if.c are real.
 *
 * Script (stdin), one JSON line of output per operation:
 *   CMD RESET|POWERON|POWEROFF | CMD MEASURE <arfcn> | CMD H0 <arfcn>
 *   CMD H1 <hsn> <maio> <arfcn>... | CMD SETSLOT <tn> <pchan> | CMD SETTA <ta>
 *   RSP <hex>        datagram arrives on the TRXC socket, read callback runs
 *   TIMEOUT          the response timer fires
 *   DATA <hex>       datagram arrives on the TRXD socket, read callback runs
 *   BURST <fn> <tn> <pwr> <hexbits>   trx_if_handle_phyif_burst_req()
 *   UL <pwr> <hexbits>   an uplink channel is active: every RTS.ind is answered, from inside
 *                    the callback as trxcon's scheduler does, with a BURST.req carrying these
 *                    bits for the requested frame; "UL 0" (no bits) switches it off
 *   FAILSEND <errno> <n>   the next n send() calls on the TRXD socket fail with that errno
 *   CLOSE            trx_if_close()
 * Every output line carries the interface status after the operation:
 *   st (FSM state), term (terminated), q (queued commands), timer (armed),
 *   sent: datagrams trx_if.c wrote to TRXC, dsent: to TRXD, ev: callbacks.
 */
#include <stdio.h>
#include <stdlib.h>
#include <string.h>
#include <stdarg.h>
#include <stdint.h>
#include <errno.h>
#include <unistd.h>
#include <fcntl.h>
#include <sys/socket.h>

#include <osmocom/core/talloc.h>
#include <osmocom/core/timer.h>
#include <osmocom/core/select.h>
#include <osmocom/core/socket.h>
#include <osmocom/core/fsm.h>
#include <osmocom/gsm/gsm_utils.h>
#include <osmocom/bb/trxcon/trx_if.h>

static int peer_fd[2] = { -1, -1 };

/* FAILSEND <errno> <count>: the next <count> send() calls of trx_if.c on the TRXD socket fail with
 * <errno> (a full socket buffer, a peer that is not there yet); linked with --wrap=send */
static int fail_send_errno, fail_send_count;
static int trxd_fd(void);
ssize_t __real_send(int fd, const void *buf, size_t n, int flags);
ssize_t __wrap_send(int fd, const void *buf, size_t n, int flags)
{
	if (fail_send_count > 0 && fd >= 0 && fd == trxd_fd()) {
		fail_send_count--;
		errno = fail_send_errno;
		return -1;
	}
	return __real_send(fd, buf, n, flags);
}
static int n_socks;
static struct trx_instance *trx;
static int trxd_fd(void) { return trx ? trx->trx_ofd_data.fd : -1; }
static struct osmo_fsm_inst *the_fi;
static struct osmo_fsm *the_fsm;
static int timer_armed;
static char evbuf[1 << 16];
static size_t evlen;
static int evcount;

static void ev(const char *fmt, ...)
{
	va_list ap;
	if (evlen + 2048 > sizeof(evbuf))
		return;
	evlen += snprintf(evbuf + evlen, sizeof(evbuf) - evlen, "%s", evcount ? "," : "");
	va_start(ap, fmt);
	evlen += vsnprintf(evbuf + evlen, sizeof(evbuf) - evlen, fmt, ap);
	va_end(ap);
	evcount++;
}

void vf_log(const char *fmt, ...) { (void)fmt; }

/* ---- osmo_fsm stand-in ------------------------------------------------ */
int osmo_fsm_register(struct osmo_fsm *fsm) { the_fsm = fsm; return 0; }

struct osmo_fsm_inst *osmo_fsm_inst_alloc_child(struct osmo_fsm *fsm, struct osmo_fsm_inst *parent, uint32_t ev_)
{
	struct osmo_fsm_inst *fi = talloc_zero(NULL, struct osmo_fsm_inst);
	fi->fsm = fsm;
	fi->state = 0;
	the_fi = fi;
	return fi;
}

void osmo_fsm_inst_free(struct osmo_fsm_inst *fi) { talloc_free(fi); the_fi = NULL; }

int vf_fsm_state_chg(struct osmo_fsm_inst *fi, uint32_t new_state)
{
	const struct osmo_fsm_state *st = &fi->fsm->states[fi->state];
	if (!(st->out_state_mask & (1u << new_state))) {
		/* libosmocore refuses the transition, logs an error, returns -EPERM */
		fi->illegal_transition++;
		ev("{\"k\":\"illegal\",\"from\":%u,\"to\":%u}", fi->state, new_state);
		return -1;
	}
	fi->state = new_state;
	return 0;
}

void vf_fsm_term(struct osmo_fsm_inst *fi, enum osmo_fsm_term_cause cause)
{
	if (fi->terminated)
		return;
	fi->terminated = 1;
	fi->term_cause = cause;
	ev("{\"k\":\"term\",\"cause\":%d}", (int)cause);
	if (fi->fsm->cleanup)
		fi->fsm->cleanup(fi, cause);
	/* the real library frees fi here; we keep it to report the status */
}

/* ---- timers, fds, sockets --------------------------------------------- */
/* libosmocore keeps every armed timer linked in its timer tree and looks at it on each pass of
 * the main loop: the stand-in remembers the armed timer and looks at it after every operation,
 * so a timer left armed inside memory that has been freed is a use after free here as well */
static struct osmo_timer_list *armed;
void osmo_timer_schedule(struct osmo_timer_list *t, int s, int us) { timer_armed = 1; armed = t; }
void osmo_timer_del(struct osmo_timer_list *t) { timer_armed = 0; if (armed == t) armed = NULL; }
static void timer_pass(void)
{
	if (armed) {
		void (*volatile cb)(void *) = armed->cb;
		void *volatile data = armed->data;
		(void)cb; (void)data;
	}
}
void osmo_fd_unregister(struct osmo_fd *fd) { }

int osmo_sock_init2_ofd(struct osmo_fd *ofd, int family, int type, int proto,
			const char *lh, uint16_t lp, const char *rh, uint16_t rp, unsigned int flags)
{
	int sv[2];
	if (n_socks >= 2 || socketpair(AF_UNIX, SOCK_DGRAM, 0, sv) < 0)
		return -1;
	fcntl(sv[1], F_SETFL, O_NONBLOCK);
	fcntl(sv[0], F_SETFL, O_NONBLOCK);
	ofd->fd = sv[0];
	peer_fd[n_socks] = sv[1];
	ev("{\"k\":\"sock\",\"i\":%d,\"lport\":%u,\"rport\":%u}", n_socks, lp, rp);
	n_socks++;
	return sv[0];
}

uint16_t gsm_freq102arfcn(uint16_t freq10, int uplink)
{
	unsigned int a;
	for (a = 0; a < 1024; a++)
		if (gsm_arfcn2freq10(a, uplink) == freq10)
			return a;
	for (a = 512; a <= 810; a++)
		if (gsm_arfcn2freq10(a | ARFCN_PCS, uplink) == freq10)
			return a | ARFCN_PCS;
	return 0xffff;
}

/* ---- PHYIF callbacks -------------------------------------------------- */
int trxcon_phyif_handle_burst_ind(void *priv, const struct trxcon_phyif_burst_ind *bi)
{
	unsigned int i;
	ev("{\"k\":\"burst_ind\",\"fn\":%u,\"tn\":%u,\"rssi\":%d,\"toa\":%d,\"bits\":[", bi->fn, bi->tn, bi->rssi, bi->toa256);
	for (i = 0; i < bi->burst_len; i++)
		evlen += snprintf(evbuf + evlen, sizeof(evbuf) - evlen, "%s%d", i ? "," : "", bi->burst[i]);
	evlen += snprintf(evbuf + evlen, sizeof(evbuf) - evlen, "]}");
	return 0;
}

static uint8_t ul_bits[1024];
static size_t ul_n;
static unsigned int ul_pwr;

int trxcon_phyif_handle_rts_ind(void *priv, const struct trxcon_phyif_rts_ind *rts)
{
	ev("{\"k\":\"rts_ind\",\"fn\":%u,\"tn\":%u}", rts->fn, rts->tn);
	if (ul_n && trx) {
		/* trxcon: RTS.ind -> l1sched_pull_burst() -> BURST.req, synchronously */
		struct trxcon_phyif_burst_req br = {
			.fn = rts->fn, .tn = rts->tn, .pwr = ul_pwr, .burst = ul_bits, .burst_len = ul_n,
		};
		int rc = trx_if_handle_phyif_burst_req(trx, &br);
		ev("{\"k\":\"ul_req\",\"fn\":%u,\"tn\":%u,\"rc\":%d}", br.fn, br.tn, rc);
	}
	return 0;
}

int trxcon_phyif_handle_rsp(void *priv, const struct trxcon_phyif_rsp *rsp)
{
	ev("{\"k\":\"rsp\",\"type\":%d,\"arfcn\":%u,\"dbm\":%d}", (int)rsp->type, rsp->param.measure.band_arfcn, rsp->param.measure.dbm);
	return 0;
}

/* ---- helpers ----------------------------------------------------------- */
static int hexval(int c)
{
	if (c >= '0' && c <= '9') return c - '0';
	if (c >= 'a' && c <= 'f') return c - 'a' + 10;
	if (c >= 'A' && c <= 'F') return c - 'A' + 10;
	return -1;
}

static size_t parse_hex(const char *s, uint8_t *out, size_t max)
{
	size_t n = 0;
	while (*s == ' ') s++;
	while (*s && hexval(s[0]) >= 0 && hexval(s[1]) >= 0 && n < max) {
		out[n++] = (uint8_t)(hexval(s[0]) * 16 + hexval(s[1]));
		s += 2;
	}
	return n;
}

static void drain(int fd, const char *key)
{
	static uint8_t buf[70000];
	int first = 1;
	printf(",\"%s\":[", key);
	if (fd >= 0) {
		for (;;) {
			ssize_t n = recv(fd, buf, sizeof(buf), 0);
			ssize_t i;
			if (n < 0)
				break;
			printf("%s[", first ? "" : ",");
			first = 0;
			for (i = 0; i < n; i++)
				printf("%s%u", i ? "," : "", buf[i]);
			printf("]");
		}
	}
	printf("]");
}

static unsigned int qlen(void)
{
	struct llist_head *le;
	unsigned int n = 0;
	if (!the_fi || the_fi->terminated || !trx)
		return 0;
	llist_for_each(le, &trx->trx_ctrl_list)
		n++;
	return n;
}

static void status(const char *op, int rc)
{
	timer_pass();
	printf("{\"op\":\"%s\",\"rc\":%d,\"st\":%d,\"term\":%d,\"q\":%u,\"timer\":%d,\"illegal\":%d",
	       op, rc, the_fi ? (int)the_fi->state : -1, the_fi ? the_fi->terminated : 1, qlen(), timer_armed,
	       the_fi ? the_fi->illegal_transition : 0);
	drain(peer_fd[0], "sent");
	drain(peer_fd[1], "dsent");
	printf(",\"ev\":[%s]}\n", evbuf);
	fflush(stdout);
	evlen = 0; evcount = 0; evbuf[0] = 0;
}

int main(void)
{
	static char line[1 << 18];
	static uint8_t buf[1 << 16];
	static uint16_t ma[256];
	struct trx_if_params params = {
		.local_host = "127.0.0.1", .remote_host = "127.0.0.1", .base_port = 6700,
		.fn_advance = 3, .instance = 0, .parent_fi = NULL, .parent_term_event = 0, .priv = NULL,
	};
	int dead = 0;

	trx = trx_if_open(&params);
	status("OPEN", trx ? 0 : -1);
	if (!trx)
		return 1;

	while (fgets(line, sizeof(line), stdin)) {
		char *p = line;
		size_t n;
		int rc = 0;
		line[strcspn(line, "\r\n")] = 0;
		if (dead) {
			printf("{\"op\":\"DEAD\"}\n");
			fflush(stdout);
			continue;
		}
		if (!strncmp(p, "CMD ", 4)) {
			struct trxcon_phyif_cmd cmd;
			char *a = p + 4;
			memset(&cmd, 0, sizeof(cmd));
			if (!strncmp(a, "RESET", 5)) cmd.type = TRXCON_PHYIF_CMDT_RESET;
			else if (!strncmp(a, "POWERON", 7)) cmd.type = TRXCON_PHYIF_CMDT_POWERON;
			else if (!strncmp(a, "POWEROFF", 8)) cmd.type = TRXCON_PHYIF_CMDT_POWEROFF;
			else if (!strncmp(a, "MEASURE", 7)) { cmd.type = TRXCON_PHYIF_CMDT_MEASURE; cmd.param.measure.band_arfcn = strtoul(a + 7, NULL, 10); }
			else if (!strncmp(a, "H0", 2)) { cmd.type = TRXCON_PHYIF_CMDT_SETFREQ_H0; cmd.param.setfreq_h0.band_arfcn = strtoul(a + 2, NULL, 10); }
			else if (!strncmp(a, "H1", 2)) {
				char *e = a + 2;
				unsigned int k = 0;
				cmd.type = TRXCON_PHYIF_CMDT_SETFREQ_H1;
				cmd.param.setfreq_h1.hsn = strtoul(e, &e, 10);
				cmd.param.setfreq_h1.maio = strtoul(e, &e, 10);
				for (;;) {
					char *e2;
					unsigned long v = strtoul(e, &e2, 10);
					if (e2 == e || k >= 256) break;
					ma[k++] = v; e = e2;
				}
				cmd.param.setfreq_h1.ma = ma;
				cmd.param.setfreq_h1.ma_len = k;
			}
			else if (!strncmp(a, "SETSLOT", 7)) { char *e = a + 7; cmd.type = TRXCON_PHYIF_CMDT_SETSLOT; cmd.param.setslot.tn = strtoul(e, &e, 10); cmd.param.setslot.pchan = strtoul(e, &e, 10); }
			else if (!strncmp(a, "SETTA", 5)) { cmd.type = TRXCON_PHYIF_CMDT_SETTA; cmd.param.setta.ta = strtol(a + 5, NULL, 10); }
			else { printf("{\"op\":\"BAD\"}\n"); fflush(stdout); continue; }
			rc = trx_if_handle_phyif_cmd(trx, &cmd);
			status("CMD", rc);
		} else if (!strncmp(p, "RSP ", 4)) {
			n = parse_hex(p + 4, buf, sizeof(buf));
			send(peer_fd[0], buf, n, 0);
			rc = trx->trx_ofd_ctrl.cb(&trx->trx_ofd_ctrl, 1);
			status("RSP", rc);
		} else if (!strncmp(p, "TIMEOUT", 7)) {
			if (timer_armed && trx->trx_ctrl_timer.cb) {
				timer_armed = 0;
				trx->trx_ctrl_timer.cb(trx->trx_ctrl_timer.data);
			}
			status("TIMEOUT", 0);
		} else if (!strncmp(p, "DATA ", 5)) {
			n = parse_hex(p + 5, buf, sizeof(buf));
			send(peer_fd[1], buf, n, 0);
			rc = trx->trx_ofd_data.cb(&trx->trx_ofd_data, 1);
			status("DATA", rc);
		} else if (!strncmp(p, "BURST ", 6)) {
			struct trxcon_phyif_burst_req br;
			char *e = p + 6;
			size_t k;
			br.fn = strtoul(e, &e, 10);
			br.tn = strtoul(e, &e, 10);
			br.pwr = strtoul(e, &e, 10);
			n = parse_hex(e, buf, sizeof(buf));
			for (k = 0; k < n; k++) buf[k] &= 1;
			br.burst = buf;
			br.burst_len = n;
			rc = trx_if_handle_phyif_burst_req(trx, &br);
			status("BURST", rc);
		} else if (!strncmp(p, "UL ", 3)) {
			char *e = p + 3;
			size_t k;
			ul_pwr = strtoul(e, &e, 10);
			ul_n = parse_hex(e, ul_bits, sizeof(ul_bits));
			for (k = 0; k < ul_n; k++) ul_bits[k] &= 1;
			status("UL", 0);
		} else if (!strncmp(p, "FAILSEND ", 9)) {
			char *e = p + 9;
			fail_send_errno = strtol(e, &e, 10);
			fail_send_count = strtol(e, &e, 10);
			status("FAILSEND", 0);
		} else if (!strncmp(p, "CLOSE", 5)) {
			trx_if_close(trx);
			status("CLOSE", 0);
		} else {
			printf("{\"op\":\"BAD\"}\n");
			fflush(stdout);
			continue;
		}
		if (the_fi && the_fi->terminated)
			dead = 1;	/* the real library has freed the instance */
	}
	return 0;
}

void osmo_panic(const char *fmt, ...)
{
	fprintf(stderr, "osmo_panic: %s\n", fmt);
	abort();
}
