/* stand-in for the firmware's <asm/swab.h>: it only provides an ARM assembly
 * __arch_swab32; without it the firmware's own <swab.h> (linked, unmodified)
 * falls back to its portable C expressions, which is what ntohs()/htons() of
 * the firmware's <byteorder.h> use on the host */
#ifndef __ASM_ARM_SWAB_H
#define __ASM_ARM_SWAB_H
#endif
