/* stand-in for the firmware's <asm/system.h> (ARM inline assembly): on the host
 * there are no interrupts to mask; the flags variable is still written so that
 * the callers' code is compiled as it stands */
#ifndef __ASM_ARM_SYSTEM_H
#define __ASM_ARM_SYSTEM_H
#define local_irq_save(x)	do { (x) = 0; } while (0)
#define local_firq_save(x)	do { (x) = 0; } while (0)
#define local_irq_restore(x)	do { (void)(x); } while (0)
#define local_irq_enable()	do { } while (0)
#define local_irq_disable()	do { } while (0)
#endif
