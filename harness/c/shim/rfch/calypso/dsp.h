/* empty stand-in: the Calypso DSP API is not used by layer1/rfch.c; present so
 * that firmware headers which include it still compile on the host */
