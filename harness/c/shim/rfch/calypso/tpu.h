/* empty stand-in: not used by the code C07 talks about (layer1/prim_freq.c includes it); present so that
 * the unmodified file compiles on the host */
