/* empty stand-in: layer1/prim_freq.c includes it, nothing of it is used on the paths C07 drives */
