#pragma once
#include_next <osmocom/core/linuxlist.h>
/* newer libosmocore */
#ifndef llist_first_entry
#define llist_first_entry(ptr, type, member) llist_entry((ptr)->next, type, member)
#endif
#ifndef llist_first_entry_or_null
#define llist_first_entry_or_null(ptr, type, member) \
	(!llist_empty(ptr) ? llist_first_entry(ptr, type, member) : NULL)
#endif
