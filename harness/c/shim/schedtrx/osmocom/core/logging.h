#pragma once
/* Stand-in for libosmocore logging: LOGP() formats its arguments (so that every
 * argument expression is evaluated and every %s pointer is read under ASan) and
 * throws the text away. */
#define DLGLOBAL -1
#define LOGL_DEBUG 1
#define LOGL_INFO 3
#define LOGL_NOTICE 5
#define LOGL_ERROR 7
#define LOGL_FATAL 8
void vf_log(const char *fmt, ...) __attribute__((format(printf, 1, 2)));
#define LOGP(ss, level, fmt, args...) vf_log(fmt, ## args)
