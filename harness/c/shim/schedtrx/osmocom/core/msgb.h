#pragma once
#include_next <osmocom/core/msgb.h>
/* newer libosmocore */
const char *msgb_hexdump_l2(const struct msgb *msg);
