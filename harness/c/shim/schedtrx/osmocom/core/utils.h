#pragma once
#include_next <osmocom/core/utils.h>
#include <stdio.h>
#include <stdlib.h>
#ifndef OSMO_ASSERT
#define OSMO_ASSERT(exp) do { if (!(exp)) { fprintf(stderr, "OSMO_ASSERT failed: %s (%s:%d)\n", #exp, __FILE__, __LINE__); abort(); } } while (0)
#endif
