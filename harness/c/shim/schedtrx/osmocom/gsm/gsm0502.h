#pragma once
/* ../trxcon/osmocom/gsm/gsm0502.h: GSM_TDMA_HYPERFRAME, GSM_TDMA_FN_SUM, GSM_NBITS_NB_* */
#include_next <osmocom/gsm/gsm0502.h>
/* further TDMA helpers of newer libosmocore's gsm0502.h, verbatim */
#ifndef GSM_TDMA_FN_SUB
#define GSM_TDMA_FN_SUB(a, b) (((a) + GSM_TDMA_HYPERFRAME - (b)) % GSM_TDMA_HYPERFRAME)
#endif
#ifndef GSM_TDMA_FN_INC
#define GSM_TDMA_FN_INC(fn) ((fn) = GSM_TDMA_FN_SUM((fn), 1))
#endif
#ifndef GSM_TDMA_FN_DEC
#define GSM_TDMA_FN_DEC(fn) ((fn) = GSM_TDMA_FN_SUB((fn), 1))
#endif
#ifndef GSM_NBITS_NB_GMSK_PAYLOAD
#define GSM_NBITS_NB_GMSK_TAIL 3
#define GSM_NBITS_NB_GMSK_PAYLOAD (2 * 58)
#define GSM_NBITS_NB_8PSK_PAYLOAD (GSM_NBITS_NB_GMSK_PAYLOAD * 3)
#endif
