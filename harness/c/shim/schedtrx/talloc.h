#pragma once
/* sched_trx.c includes the system <talloc.h>; the in-repo libosmocore ships talloc
 * (src/talloc.c is linked into the driver) */
#include <osmocom/core/talloc.h>
