/* Stand-in for <osmocom/gsm/gsm23003.h> of newer libosmocore (C20 driver):
 * only what layer23's sysinfo.h embeds in struct gsm48_sysinfo. */
#pragma once
#include <stdint.h>
#include <stdbool.h>

struct osmo_plmn_id {
	uint16_t mcc;
	uint16_t mnc;
	bool mnc_3_digits;
};

struct osmo_location_area_id {
	struct osmo_plmn_id plmn;
	uint16_t lac;
};
