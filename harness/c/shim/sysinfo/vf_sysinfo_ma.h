/* The header world of the generated slice of sysinfo.c and of
 * harness/c/drv_sysinfo_ma.c (C20, SI1 / SI4 -> hopping list).
 *
 * Real: struct gsm48_sysinfo, FREQ_TYPE_*, the prototypes (layer23 sysinfo.h);
 *       struct gsm48_system_information_type_1/4, gsm48_chan_desc, GSM48_IE_*
 *       (in-repo libosmocore gsm_04_08.h); struct gsm_sysinfo_freq and
 *       gsm48_decode_freq_list() (in-repo libosmocore gsm48_ie.[ch]).
 * Stand-ins (things C20 does not talk about): logging, LAI decoding, rest
 *       octets (see the slice prelude written by vf/props/c20.py).
 */
#pragma once
#include <stdint.h>
#include <stdbool.h>
#include <stdio.h>
#include <stdlib.h>
#include <string.h>
#include <errno.h>
#include <arpa/inet.h>

#include <osmocom/core/utils.h>
#include <osmocom/gsm/protocol/gsm_04_08.h>
#include <osmocom/gsm/gsm48_ie.h>
#include <osmocom/bb/common/sysinfo.h>

/* logging.h of layer23 / libosmocore */
void vf_si_logp(const char *fmt, ...);
#undef LOGP
#undef DRR
#define DRR 0
#ifndef LOGL_INFO
#define LOGL_DEBUG 1
#define LOGL_INFO 3
#define LOGL_NOTICE 5
#define LOGL_ERROR 7
#endif
#define LOGP(ss, level, fmt, args...) vf_si_logp(fmt, ## args)

/* <osmocom/gsm/gsm48.h> of newer libosmocore: LAI decoding (stand-in in the driver) */
void gsm48_decode_lai2(const struct gsm48_loc_area_id *lai, struct osmo_location_area_id *decoded);
