/* Empty stand-in for the firmware's <calypso/dsp.h>: layer1/tdma_sched.c
 * includes it but uses nothing from it.  (The firmware's own include/
 * directory cannot be on the include path of a host build because it shadows
 * the libc headers.) */
#ifndef VERIF_SHIM_CALYPSO_DSP_H
#define VERIF_SHIM_CALYPSO_DSP_H
#endif
