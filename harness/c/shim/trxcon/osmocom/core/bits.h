#pragma once
#include_next <osmocom/core/bits.h>
#include <stdint.h>
/* big-endian load/store helpers of newer libosmocore */
static inline uint32_t osmo_load32be(const void *p)
{
	const uint8_t *q = p;
	return ((uint32_t)q[0] << 24) | ((uint32_t)q[1] << 16) | ((uint32_t)q[2] << 8) | q[3];
}
static inline void osmo_store32be(uint32_t x, void *p)
{
	uint8_t *q = p;
	q[0] = x >> 24; q[1] = x >> 16; q[2] = x >> 8; q[3] = x;
}
