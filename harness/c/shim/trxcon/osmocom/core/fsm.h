/* Stand-in for libosmocore's osmo_fsm API (newer than the in-repo copy).
 * The driver records state changes and termination instead of running a
 * generic FSM; trx_if.c only uses the calls below. */
#pragma once
#include <stdint.h>
#include <stdio.h>
#include <osmocom/core/utils.h>
#include <osmocom/core/linuxlist.h>

enum osmo_fsm_term_cause {
	OSMO_FSM_TERM_PARENT, OSMO_FSM_TERM_REQUEST, OSMO_FSM_TERM_REGULAR,
	OSMO_FSM_TERM_ERROR, OSMO_FSM_TERM_TIMEOUT,
};
struct osmo_fsm_inst;
struct osmo_fsm_state {
	uint32_t in_event_mask;
	uint32_t out_state_mask;
	const char *name;
	void *action, *onenter, *onleave;
};
struct osmo_fsm {
	struct llist_head list, instances;
	const char *name;
	const struct osmo_fsm_state *states;
	unsigned int num_states;
	uint32_t allstate_event_mask;
	void *allstate_action;
	void (*cleanup)(struct osmo_fsm_inst *fi, enum osmo_fsm_term_cause cause);
	void *timer_cb;
	int log_subsys;
	const struct value_string *event_names;
	void *pre_term;
};
struct osmo_fsm_inst {
	struct osmo_fsm *fsm;
	uint32_t state;
	void *priv;
	int terminated;          /* stand-in bookkeeping */
	int term_cause;
	int illegal_transition;
};
struct osmo_fsm_inst *osmo_fsm_inst_alloc_child(struct osmo_fsm *fsm, struct osmo_fsm_inst *parent, uint32_t parent_term_event);
void osmo_fsm_inst_free(struct osmo_fsm_inst *fi);
int osmo_fsm_register(struct osmo_fsm *fsm);
int vf_fsm_state_chg(struct osmo_fsm_inst *fi, uint32_t new_state);
void vf_fsm_term(struct osmo_fsm_inst *fi, enum osmo_fsm_term_cause cause);
#define osmo_fsm_inst_state_chg(fi, st, t, T) vf_fsm_state_chg(fi, st)
#define osmo_fsm_inst_term(fi, cause, data) vf_fsm_term(fi, cause)
void vf_log(const char *fmt, ...) __attribute__((format(printf, 1, 2)));
#define LOGPFSML(fi, level, fmt, args...) vf_log(fmt, ## args)
#define LOGPFSMSL(fi, ss, level, fmt, args...) vf_log(fmt, ## args)
#ifndef OSMO_ASSERT
#define OSMO_ASSERT(exp) do { if (!(exp)) { fprintf(stderr, "OSMO_ASSERT failed: %s\n", #exp); abort(); } } while (0)
#endif
