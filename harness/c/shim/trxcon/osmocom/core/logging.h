#pragma once
/* trx_if.c logs only through LOGPFSML/LOGPFSMSL (see fsm.h stand-in) */
#define LOGL_DEBUG 1
#define LOGL_INFO 3
#define LOGL_NOTICE 5
#define LOGL_ERROR 7
#define LOGL_FATAL 8
