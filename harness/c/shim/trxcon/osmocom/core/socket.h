/* Stand-in: trx_if.c opens its UDP sockets through osmo_sock_init2_ofd();
 * the driver hands out one end of a socketpair(AF_UNIX, SOCK_DGRAM) so that
 * read()/send() in trx_if.c are the real system calls. */
#pragma once
#include <stdint.h>
#include <osmocom/core/select.h>
#define OSMO_SOCK_F_CONNECT	(1 << 0)
#define OSMO_SOCK_F_BIND	(1 << 1)
#define OSMO_SOCK_F_NONBLOCK	(1 << 2)
int osmo_sock_init2_ofd(struct osmo_fd *ofd, int family, int type, int proto,
			const char *local_host, uint16_t local_port,
			const char *remote_host, uint16_t remote_port, unsigned int flags);
