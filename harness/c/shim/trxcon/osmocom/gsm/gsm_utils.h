#pragma once
/* Stand-in for the parts of newer libosmocore's gsm_utils.h that trx_if.c
 * uses.  gsm_arfcn2freq10() is the in-repo libosmocore implementation
 * (gsm_utils.c compiled against its own header); gsm_freq102arfcn() does not
 * exist there and is provided by the driver as its inverse. */
#include <stdint.h>
#include <stdbool.h>
#define ARFCN_PCS	0x8000
#define ARFCN_UPLINK	0x4000
#define ARFCN_FLAG_MASK	0xf000
uint16_t gsm_arfcn2freq10(uint16_t arfcn, int uplink);
uint16_t gsm_freq102arfcn(uint16_t freq10, int uplink);
enum gsm_phys_chan_config {
	GSM_PCHAN_NONE, GSM_PCHAN_CCCH, GSM_PCHAN_CCCH_SDCCH4, GSM_PCHAN_TCH_F, GSM_PCHAN_TCH_H,
	GSM_PCHAN_SDCCH8_SACCH8C, GSM_PCHAN_PDCH, GSM_PCHAN_TCH_F_PDCH, GSM_PCHAN_UNKNOWN,
	GSM_PCHAN_CCCH_SDCCH4_CBCH, GSM_PCHAN_SDCCH8_SACCH8C_CBCH, GSM_PCHAN_OSMO_DYN,
	_GSM_PCHAN_MAX
};
