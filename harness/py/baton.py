"""Deterministic two-thread scheduler for enumerating thread schedules of real
Python code (C03).

Two operations run as real threads under sys.settrace; every source line of the
traced files is a pre-emption point.  A thread owns the baton for a *budget* of
line steps granted by the controller and runs them without further
synchronisation; when the budget is used up it parks until the next grant, so
exactly one thread executes at any time and the order is decided by the
schedule.  `BatonLock` replaces a threading.Lock with the same exclusion
semantics: a thread that finds it taken parks (keeping its remaining budget)
and the controller lets the holder run until the lock is free.

A schedule is (first, k1, k2): thread `first` runs k1 line steps, then the
other thread runs k2, then `first` runs to completion, then the other one
(at most two pre-emptions).  The caller enumerates (first, k1, k2)."""
import sys
import threading

INF = 10 ** 9


class BatonStuck(RuntimeError):
    pass


class Baton:
    patience = 20.0

    def __init__(self, traced_files):
        self.cv = threading.Condition()
        self.owner = None          # thread that may run
        self.budget = {}           # remaining line steps of the owner
        self.parked = set()
        self.finished = set()
        self.blocked = set()
        self.files = tuple(traced_files)
        self.steps = {}
        self.errors = {}
        self.marks = {}
        self.first_acq = {}

    # ---- worker side -------------------------------------------------------
    def _park(self, me, blocked=False):
        with self.cv:
            self.parked.add(me)
            if blocked:
                self.blocked.add(me)
            self.owner = None
            self.cv.notify_all()
            while self.owner != me:
                self.cv.wait()
            self.parked.discard(me)
            self.blocked.discard(me)

    def _line(self, me):
        # called before each traced line is executed
        if self.budget.get(me, 0) > 0:
            self.budget[me] -= 1
            self.steps[me] = self.steps.get(me, 0) + 1
            return
        self._park(me)
        self.budget[me] -= 1
        self.steps[me] = self.steps.get(me, 0) + 1

    def _tracer(self, me):
        files = self.files

        def local(frame, event, arg):
            if event == "line":
                self._line(me)
            return local

        def glob(frame, event, arg):
            if event == "call" and frame.f_code.co_filename.endswith(files):
                return local
            return None
        return glob

    def _worker(self, me, fn):
        self._park(me)                      # wait for the first grant
        sys.settrace(self._tracer(me))
        try:
            fn()
        except BaseException as e:          # recorded, judged by the caller
            self.errors[me] = e
        finally:
            sys.settrace(None)
            with self.cv:
                self.finished.add(me)
                self.owner = None
                self.cv.notify_all()

    # ---- controller side ---------------------------------------------------
    def _wait(self, what):
        # a thread that never comes back (blocked on a mutex the baton does not know) must not hang the check
        if not self.cv.wait(timeout=self.patience):
            raise BatonStuck("thread did not hand the baton back within %.0f s (%s)" % (self.patience, what))

    def _grant(self, me, n):
        """Let `me` execute up to n more line steps; returns when it parked or finished."""
        with self.cv:
            while me not in self.parked and me not in self.finished:
                self._wait("waiting for %s to park" % me)
            if me in self.finished:
                return
            self.budget[me] = n
            self.owner = me
            self.cv.notify_all()
            while not (self.owner is None and (me in self.parked or me in self.finished)):
                self._wait("running %s" % me)

    def run(self, ops, first, k1, k2, k3=None):
        """ops: dict name -> callable (two entries).  Returns line steps per thread.
        With k3: a third pre-emption - `first` runs k3 more steps after the other
        thread's k2 steps, then the other thread runs to completion, then `first`."""
        names = list(ops)
        other = [n for n in names if n != first][0]
        threads = [threading.Thread(target=self._worker, args=(n, ops[n]), daemon=True, name=n) for n in names]
        for t in threads:
            t.start()

        def advance(me, n):
            """n line steps of `me` (INF = to completion).  While `me` is parked on the
            lock the other thread runs, one line at a time, until the lock is free."""
            o = other if me == first else first
            target = self.steps.get(me, 0) + n
            guard = 0
            while me not in self.finished and self.steps.get(me, 0) < target:
                self._grant(me, target - self.steps.get(me, 0))
                if me in self.blocked:
                    guard += 1
                    if o in self.finished or guard > 100000:
                        raise RuntimeError("deadlock: %s blocked, %s finished" % (me, o))
                    self._grant(o, 1)

        advance(first, k1)
        advance(other, k2)
        if k3 is not None:
            advance(first, k3)
            advance(other, INF)
            advance(first, INF)
        else:
            advance(first, INF)
            advance(other, INF)
        for t in threads:
            t.join(timeout=10)
        return dict(self.steps)


class BatonLock:
    """threading.Lock stand-in: same mutual exclusion, but waiting gives the baton away."""

    def __init__(self, baton, name_of_current):
        self.baton = baton
        self.held = None
        self.who = name_of_current

    def acquire(self, blocking=True, timeout=-1):
        me = self.who()
        if not blocking and self.held is not None:
            return False                         # a try-lock finds the mutex taken
        while self.held is not None:
            saved = self.baton.budget.get(me, 0)
            self.baton._park(me, blocked=True)
            self.baton.budget[me] = saved        # a blocked wait is not a line step
        self.held = me
        self.baton.first_acq.setdefault(me, self.baton.steps.get(me, 0))
        return True

    def release(self):
        self.baton.marks[self.held] = self.baton.steps.get(self.held, 0)     # step index of the last release
        self.held = None

    def __enter__(self):
        self.acquire()
        return self

    def __exit__(self, *a):
        self.release()
        return False
