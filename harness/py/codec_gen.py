#!/venv/bin/python
"""C16 driver: seeded generator of protocol definitions (JSON), builder of the
REAL codec.py classes from that JSON, and recorder of what the real
to_bytes()/from_bytes() do on generated inputs.

The JSON definition is the single source: the builder turns it into
subclasses of codec.Envelope / codec.BitFieldSet / codec.Sequence (fresh field
objects per definition, get_pres / get_len / get_val lambdas over earlier
fields, Envelope.f() / Sequence.f() wrappers - the way trxd_proto.py and
test_codec.py compose definitions), spec/Codec.tla interprets the very same
JSON.  There is no Python oracle in here: this file only produces inputs and
records observations; TLC judges them (spec/CodecTrace.tla).

Values in traces are typed records (see Codec.tla):
  int -> {"t":"i","neg":bool,"mag":[big-endian octets]}   bytes -> {"t":"b","o":[..]}
  dict -> {"t":"d","f":{..}}   list -> {"t":"l","s":[..]}  other -> {"t":"x","r":repr}

Excluded from generation (recorded as assumptions by vf/props/c16.py):
  * BitField objects shared between two sets, duplicate field names in one
    envelope, fixed values wider than their bit-field;
  * sequence items that can consume no octet (from_bytes never terminates);
  * presence/length callbacks over optional, signed-negative or wide fields.
"""
import argparse
import copy
import importlib
import json
import random
import signal
import sys

ALWAYS = {"op": "always", "field": "", "const": 0}
NONE = {"op": "none", "field": "", "const": 0}


# ------------------------------------------------------------------ values
def typed(v):
    if type(v) is int:
        a = abs(v)
        return {"t": "i", "neg": v < 0, "mag": list(a.to_bytes((a.bit_length() + 7) // 8, "big"))}
    if isinstance(v, (bytes, bytearray)):
        return {"t": "b", "o": list(v)}
    if isinstance(v, dict):
        return {"t": "d", "f": {str(k): typed(x) for k, x in v.items()}}
    if isinstance(v, list):
        return {"t": "l", "s": [typed(x) for x in v]}
    return {"t": "x", "r": repr(v)[:80]}


def untyped(t):
    k = t["t"]
    if k == "i":
        n = int.from_bytes(bytes(t["mag"]), "big")
        return -n if t["neg"] else n
    if k == "b":
        return bytes(t["o"])
    if k == "d":
        return {n: untyped(x) for n, x in t["f"].items()}
    if k == "l":
        return [untyped(x) for x in t["s"]]
    raise ValueError("cannot rebuild %r" % (t,))


# ------------------------------------------------------------- definitions
def bs_len(f):
    if f["len"]:
        return f["len"]
    return (sum(b["bl"] for b in f["fields"]) + 7) // 8


def is_rest(f):
    return f["k"] in ("buf", "spare", "env", "seq") and f["len"] == 0 and f["lenfrom"]["op"] == "none"


def static_size(env):
    """Octets of an envelope whose length does not depend on values, else None."""
    n = 0
    for f in env["fields"]:
        if f["pres"]["op"] != "always" or f["lenfrom"]["op"] != "none":
            return None
        if f["k"] == "uint":
            n += f["len"]
        elif f["k"] == "bitset":
            n += bs_len(f)
        elif f["len"] > 0:
            n += f["len"]
        else:
            return None
    return n


def greedy(env):
    """The envelope ends in a field that takes all remaining octets."""
    return bool(env["fields"]) and is_rest(env["fields"][-1])


def int_range(f):
    bits = 8 * f["len"]
    return (-(1 << (bits - 1)), (1 << (bits - 1)) - 1) if f["signed"] else (0, (1 << bits) - 1)


class DefGen:
    """Seeded random composition of definitions."""

    def __init__(self, rng, maxdepth=3):
        self.rng = rng
        self.maxdepth = maxdepth
        self.n = 0

    def name(self):
        self.n += 1
        return "f%d" % self.n

    def pick(self, pairs):
        tot = sum(w for _, w in pairs)
        x = self.rng.random() * tot
        for v, w in pairs:
            x -= w
            if x < 0:
                return v
        return pairs[-1][0]

    # -- leaves
    def uint(self):
        r = self.rng
        ln = self.pick([(1, 25), (2, 25), (3, 8), (4, 20), (5, 4), (6, 4), (7, 4), (8, 10)])
        return {"k": "uint", "name": self.name(), "len": ln, "bo": r.choice(["big", "little"]),
                "signed": r.random() < 0.35,
                "offset": 0 if r.random() < 0.7 else r.choice([1, 5, -3, 100, -110, 1000, 65536, -70000]),
                "mult": 1 if r.random() < 0.7 else r.choice([-1, 2, 3, 10, -5, 256, 1000]),
                "form": r.choice(["named", "generic"]),
                "pres": ALWAYS, "lenfrom": NONE, "valfrom": NONE}

    def bitset(self):
        r = self.rng
        nocts = self.pick([(1, 45), (2, 30), (3, 10), (4, 15)])
        total = 8 * nocts
        if r.random() < 0.3:
            total -= r.randint(1, 7)            # unused low bits
        parts = []
        left = total
        while left > 0:
            if r.random() < 0.08:
                w = left
            else:
                w = min(left, self.pick([(1, 30), (2, 12), (3, 12), (4, 14), (5, 5), (6, 6), (7, 4), (8, 8),
                                         (r.randint(9, 32), 9)]))
            parts.append(w)
            left -= w
        fields = []
        for w in parts:
            x = r.random()
            if x < 0.15:
                fields.append({"name": "", "bl": w, "fixed": False, "val": typed(0)})
            elif x < 0.28:
                v = r.choice([0, (1 << w) - 1, r.randrange(1 << w)])
                fields.append({"name": self.name(), "bl": w, "fixed": True, "val": typed(v)})
            else:
                fields.append({"name": self.name(), "bl": w, "fixed": False, "val": typed(0)})
        if all(b["name"] == "" for b in fields):
            fields[0]["name"] = self.name()
        need = (total + 7) // 8
        ln = 0
        if r.random() < 0.35:
            ln = need if r.random() < 0.6 else r.randint(need, 4)     # explicit, maybe longer
        order = r.choice(["msb", "lsb"])
        okw = r.choice(["lsb", "little"]) if order == "lsb" else r.choice(["", "msb", "big"])
        return {"k": "bitset", "len": ln, "order": order, "okw": okw,
                "form": r.choice(["kw", "subclass"]), "fields": fields, "pres": ALWAYS, "lenfrom": NONE}

    # -- governors: earlier unconditional integers of the same envelope
    def governors(self, fields):
        out = []
        for f in fields:
            if f["pres"]["op"] != "always":
                continue
            if f["k"] == "uint" and f["valfrom"]["op"] == "none" and f["len"] <= 2 and abs(f["mult"]) <= 10:
                out.append(("uint", f))
            elif f["k"] == "bitset":
                for b in f["fields"]:
                    if b["name"] and not b["fixed"] and b["bl"] <= 8:
                        out.append(("bit", b))
        return out

    def add_pres(self, f, fields, roles):
        r = self.rng
        cands = [(k, g) for k, g in self.governors(fields)
                 if roles.get(g["name"], "flag") == "flag"]
        if not cands or r.random() > 0.22:
            return
        k, g = r.choice(cands)
        op = r.choice(["nz", "z", "eq", "ne"])
        if k == "bit":
            const = r.randrange(1 << g["bl"])
        else:
            lo, hi = int_range(g)
            const = r.choice([lo, hi, 0, 1, r.randint(lo, hi)]) * g["mult"] + g["offset"]
            if abs(const) >= 1 << 30:
                const = g["offset"]
        roles[g["name"]] = "flag"
        f["pres"] = {"op": op, "field": g["name"], "const": const if op in ("eq", "ne") else 0}

    def add_lenfrom(self, f, fields, roles, wrap):
        """Give f a governed length; returns True on success."""
        r = self.rng
        cands = []
        for k, g in self.governors(fields):
            role = roles.get(g["name"])
            if role not in ((None,) if wrap else (None, "len")):
                continue
            if k == "uint" and (g["signed"] or g["mult"] < 1 or not 0 <= g["offset"] <= 8 or g["mult"] > 10):
                continue
            if k == "bit" and g["bl"] < 2:
                continue
            cands.append((k, g))
        if not cands:
            return False
        k, g = r.choice(cands)
        fresh = roles.get(g["name"]) is None
        op = "field" if wrap and r.random() < 0.8 else self.pick([("field", 70), ("mul", 0 if wrap else 15), ("add", 15)])
        const = 0 if op == "field" else (r.randint(2, 4) if op == "mul" else r.randint(1, 3))
        f["lenfrom"] = {"op": op, "field": g["name"], "const": const}
        f["len"] = 0
        f["lenauto"] = False
        roles[g["name"]] = "wrap" if wrap else "len"
        if (fresh and not wrap and f["k"] == "buf" and k == "uint" and op == "field" and g["offset"] == 0
                and g["mult"] == 1 and r.random() < 0.5):
            # like test_codec.py: the length field takes its value from the buffer on encode
            g["valfrom"] = {"op": "len", "field": f["name"], "const": 0}
            f["lenauto"] = True
            roles[g["name"]] = "auto"
        return True

    # -- envelopes
    def envelope(self, depth, nmax, item=False, static=False):
        r = self.rng
        n = r.randint(1, nmax)
        fields, roles = [], {}
        for i in range(n):
            last = i == n - 1
            may_rest = (last or r.random() < 0.04) and not static
            kinds = [("uint", 30), ("buf", 14), ("spare", 6), ("bitset", 18)]
            if depth < self.maxdepth:
                kinds += [("env", 11), ("seq", 8)]
            k = self.pick(kinds)
            if item and i == 0:
                k = self.pick([("uint", 50), ("bitset", 30), ("buf", 15), ("spare", 5)])
            if k == "uint":
                f = self.uint()
            elif k == "bitset":
                f = self.bitset()
            elif k == "buf":
                f = {"k": "buf", "name": self.name(), "len": r.randint(1, 8), "pres": ALWAYS, "lenfrom": NONE,
                     "lenauto": False}
                x = r.random()
                if not (item and i == 0) and not static:
                    if x < 0.35:
                        self.add_lenfrom(f, fields, roles, wrap=False)
                    elif x < 0.6 and may_rest:
                        f["len"] = 0
            elif k == "spare":
                f = {"k": "spare", "name": self.name(), "len": r.randint(1, 4),
                     "filler": r.choice([0, 0, 0xff, 0xaa, 0x2b]), "pres": ALWAYS, "lenfrom": NONE}
                x = r.random()
                if not (item and i == 0) and not static:
                    if x < 0.25:
                        self.add_lenfrom(f, fields, roles, wrap=False)
                    elif x < 0.32 and may_rest:
                        f["len"] = 0
            elif k == "env":
                f = self.wrapper("env", depth, fields, roles, may_rest, static)
            else:
                f = self.wrapper("seq", depth, fields, roles, may_rest, static)
            if not (item and i == 0) and not static:
                self.add_pres(f, fields, roles)
            fields.append(f)
        return {"check_len": r.random() < 0.7, "fields": fields}

    def wrapper(self, k, depth, fields, roles, may_rest, static):
        r = self.rng
        name = self.name()
        inner = self.envelope(depth + 1, 3 if k == "seq" else 4, item=(k == "seq"), static=static)
        f = {"k": k, "name": name, "len": 0, "pres": ALWAYS, "lenfrom": NONE, "lenauto": False,
             "form": r.choice(["kw", "subclass"])}
        f["item" if k == "seq" else "def"] = inner
        s = static_size(inner)
        mode = self.pick([("rest", 35 if may_rest else 0), ("lenfrom", 0 if static else 35), ("fixed", 30)])
        if mode == "lenfrom" and self.add_lenfrom(f, fields, roles, wrap=True):
            return f
        if mode == "rest" and may_rest:
            return f
        # fixed length
        if s is None:
            if k == "env" and greedy(inner):
                f["len"] = r.randint(1, 12)
                return f
            if may_rest:
                return f
            inner = self.envelope(depth + 1, 3, item=(k == "seq"), static=True)
            f["item" if k == "seq" else "def"] = inner
            s = static_size(inner)
        if k == "env":
            f["len"] = s if r.random() < 0.85 or s <= 1 else s + r.choice([-1, 1])     # 15 %: inconsistent wrapper
        else:
            f["len"] = s * r.randint(1, 3) if r.random() < 0.9 else s * r.randint(1, 3) + 1
        if f["len"] == 0:       # an all-absent static inner envelope cannot occur; keep fixed wrappers non-rest
            f["len"] = 1
        return f

    def definition(self):
        self.n = 0
        return self.envelope(1, 6)


# ------------------------------------------------------------------ builder
_cls = [0]


def _cname(p):
    _cls[0] += 1
    return "%s%d" % (p, _cls[0])


def mk_pres(e):
    op, fld, c = e["op"], e["field"], e["const"]
    if op == "nz":
        return lambda v: v[fld] != 0
    if op == "z":
        return lambda v: not v[fld]
    if op == "eq":
        return lambda v: v[fld] == c
    if op == "ne":
        return lambda v: v[fld] != c
    raise ValueError(op)


def mk_len(e):
    op, fld, c = e["op"], e["field"], e["const"]
    if op == "field":
        return lambda v, _: v[fld]
    if op == "mul":
        return lambda v, _: v[fld] * c
    if op == "add":
        return lambda v, _: v[fld] + c
    raise ValueError(op)


NAMED = {(1, False): "Uint", (1, True): "Int",
         (2, "big", False): "Uint16BE", (2, "little", False): "Uint16LE",
         (2, "big", True): "Int16BE", (2, "little", True): "Int16LE",
         (4, "big", False): "Uint32BE", (4, "little", False): "Uint32LE",
         (4, "big", True): "Int32BE", (4, "little", True): "Int32LE"}


def build_field(codec, f):
    k = f["k"]
    if k == "uint":
        kw = {}
        if f["offset"] != 0:
            kw["offset"] = f["offset"]
        if f["mult"] != 1:
            kw["mult"] = f["mult"]
        key = (1, f["signed"]) if f["len"] == 1 and f["bo"] == "big" else (f["len"], f["bo"], f["signed"])
        if f.get("form") == "named" and key in NAMED:
            o = getattr(codec, NAMED[key])(f["name"], **kw)
        else:
            cls = type(_cname("I"), (codec.Int if f["signed"] else codec.Uint,), {"BO": f["bo"]})
            o = cls(f["name"], len=f["len"], **kw)
        if f["valfrom"]["op"] == "len":
            tgt = f["valfrom"]["field"]
            o.get_val = lambda v: len(v[tgt])
    elif k == "buf":
        o = codec.Buf(f["name"], len=f["len"]) if f["len"] else codec.Buf(f["name"])
    elif k == "spare":
        kw = {"filler": bytes([f["filler"]])} if f["filler"] else {}
        if f["len"]:
            kw["len"] = f["len"]
        o = codec.Spare(f["name"], **kw)
    elif k == "bitset":
        # fresh BitField objects for every set; the tuple is allocated the way a literal in a class body
        # is (exact size at once), so that definitions built one after the other meet recycled objects
        bfs = tuple([codec.BitField.Spare(bl=b["bl"]) if b["name"] == "" else
                     codec.BitField(b["name"], bl=b["bl"], **({"val": untyped(b["val"])} if b["fixed"] else {}))
                     for b in f["fields"]])
        kw = {}
        okw = f.get("okw", "lsb" if f["order"] == "lsb" else "")
        if okw:
            kw["order"] = okw
        if f.get("form") == "subclass":
            attrs = {"STRUCT": bfs}
            if f["len"]:
                attrs["DEF_LEN"] = f["len"]
            o = type(_cname("BS"), (codec.BitFieldSet,), attrs)(**kw)
        else:
            if f["len"]:
                kw["len"] = f["len"]
            o = codec.BitFieldSet(set=bfs, **kw)
    elif k == "env":
        inner = build_env(codec, f["def"])
        o = inner.f(f["name"], len=f["len"]) if f["len"] else inner.f(f["name"])
    elif k == "seq":
        item = build_env(codec, f["item"])
        if f.get("form") == "subclass":
            s = type(_cname("S"), (codec.Sequence,), {"ITEM": item})()
        else:
            s = codec.Sequence(item=item)
        o = s.f(f["name"], len=f["len"]) if f["len"] else s.f(f["name"])
    else:
        raise ValueError(k)
    if f["pres"]["op"] != "always":
        o.get_pres = mk_pres(f["pres"])
    if f["lenfrom"]["op"] != "none":
        o.get_len = mk_len(f["lenfrom"])
    return o


def build_env(codec, d):
    cls = type(_cname("E"), (codec.Envelope,), {"STRUCT": tuple(build_field(codec, f) for f in d["fields"])})
    return cls(check_len=d["check_len"])


# ------------------------------------------------------- value generation
class Retry(Exception):
    pass


def ev_pres(e, vals):
    op = e["op"]
    if op == "always":
        return True
    x = vals[e["field"]]
    return {"nz": x != 0, "z": x == 0, "eq": x == e["const"], "ne": x != e["const"]}[op]


def ev_len(e, vals):
    x = vals[e["field"]]
    return {"field": x, "mul": x * e["const"], "add": x + e["const"]}[e["op"]]


def roles_of(env):
    """name -> list of (role, governed field) for the governors of one envelope."""
    out = {}
    for f in env["fields"]:
        if f["pres"]["op"] != "always":
            out.setdefault(f["pres"]["field"], []).append(("flag", f))
        if f["lenfrom"]["op"] != "none":
            out.setdefault(f["lenfrom"]["field"], []).append(("wrap" if f["k"] in ("env", "seq") or f.get("lenauto") else "len", f))
    return out


def size_of(env, vals):
    n = 0
    for f in env["fields"]:
        if not ev_pres(f["pres"], vals):
            continue
        k = f["k"]
        if k == "uint":
            n += f["len"]
        elif k == "bitset":
            n += bs_len(f)
        elif k == "spare":
            n += ev_len(f["lenfrom"], vals) if f["lenfrom"]["op"] != "none" else f["len"]
        elif k == "buf":
            n += len(vals[f["name"]])
        elif k == "env":
            n += f["len"] if f["len"] else size_of(f["def"], vals[f["name"]])
        elif k == "seq":
            n += f["len"] if f["len"] else sum(size_of(f["item"], v) for v in vals[f["name"]])
    return n


class ValGen:
    def __init__(self, rng):
        self.rng = rng
        self.consistent = True       # every wrapper length could be met

    def raw_int(self, f, roles):
        r = self.rng
        lo, hi = int_range(f)
        kinds = [x[0] for x in roles]
        if "len" in kinds:
            for _ in range(8):
                raw = r.randint(0, min(hi, 6))
                v = raw * f["mult"] + f["offset"]
                if all(0 <= ev_len(g["lenfrom"], {f["name"]: v}) <= 14 for kk, g in roles if kk == "len"):
                    return raw
            return 0
        if "flag" in kinds:
            consts = [g["pres"]["const"] for kk, g in roles if kk == "flag" and g["pres"]["op"] in ("eq", "ne")]
            cand = [0, 1, r.randint(lo, hi)]
            for c in consts:
                if (c - f["offset"]) % f["mult"] == 0 and lo <= (c - f["offset"]) // f["mult"] <= hi:
                    cand += [(c - f["offset"]) // f["mult"]] * 2
            if (0 - f["offset"]) % f["mult"] == 0 and lo <= (0 - f["offset"]) // f["mult"] <= hi:
                cand += [(0 - f["offset"]) // f["mult"]] * 2
            return r.choice([c for c in cand if lo <= c <= hi])
        x = r.random()
        if x < 0.4:
            return r.choice([c for c in (0, 1, hi, hi - 1, lo, lo + 1, -1, hi // 2 + 1) if lo <= c <= hi])
        if x < 0.6:
            return r.randint(max(lo, -300), min(hi, 300))
        return r.randint(lo, hi)

    def bits(self, b, roles):
        r = self.rng
        hi = (1 << b["bl"]) - 1
        kinds = [x[0] for x in roles]
        if "len" in kinds:
            for _ in range(8):
                v = r.randint(0, min(hi, 6))
                if all(0 <= ev_len(g["lenfrom"], {b["name"]: v}) <= 14 for kk, g in roles if kk == "len"):
                    return v
            return 0
        if "flag" in kinds:
            consts = [g["pres"]["const"] for kk, g in roles if kk == "flag" and g["pres"]["op"] in ("eq", "ne")]
            return r.choice([0, 0, 1, r.randint(0, hi)] + [c for c in consts if 0 <= c <= hi] * 2)
        return r.choice([0, hi, 1, r.randint(0, hi), r.randint(0, hi)])

    def set_governor(self, env, vals, f, n):
        """Make the governing field of f's length agree with the actual length n."""
        e = f["lenfrom"]
        v = n if e["op"] == "field" else (n - e["const"] if e["op"] == "add" else None)
        if e["op"] == "mul":
            if n % e["const"]:
                raise Retry
            v = n // e["const"]
        for g in env["fields"]:
            if g["k"] == "uint" and g["name"] == e["field"]:
                lo, hi = int_range(g)
                if (v - g["offset"]) % g["mult"] or not lo <= (v - g["offset"]) // g["mult"] <= hi:
                    raise Retry
                vals[g["name"]] = v
                return
            if g["k"] == "bitset":
                for b in g["fields"]:
                    if b["name"] == e["field"]:
                        if not 0 <= v < (1 << b["bl"]):
                            raise Retry
                        vals[b["name"]] = v
                        return
        raise Retry

    def fit(self, env, vals, target):
        """Adjust a trailing rest-buffer so that the envelope is `target` octets long."""
        s = size_of(env, vals)
        if s == target:
            return True
        last = env["fields"][-1]
        if last["k"] == "buf" and is_rest(last) and last["name"] in vals and target - s + len(vals[last["name"]]) >= 0:
            n = target - s + len(vals[last["name"]])
            vals[last["name"]] = bytes(self.rng.randrange(256) for _ in range(n))
            return size_of(env, vals) == target
        return False

    def env_vals(self, env, small=0):
        r = self.rng
        roles = roles_of(env)
        vals = {}
        for f in env["fields"]:
            if not ev_pres(f["pres"], vals):
                continue
            k = f["k"]
            if k == "uint":
                vals[f["name"]] = self.raw_int(f, roles.get(f["name"], [])) * f["mult"] + f["offset"]
            elif k == "bitset":
                for b in f["fields"]:
                    if b["name"]:
                        vals[b["name"]] = untyped(b["val"]) if b["fixed"] else self.bits(b, roles.get(b["name"], []))
            elif k == "buf":
                if f["lenfrom"]["op"] != "none" and not f["lenauto"]:
                    n = ev_len(f["lenfrom"], vals)
                elif f["len"]:
                    n = f["len"]
                else:
                    n = r.choice([0, 1, 2, r.randint(0, 10 >> small)])
                vals[f["name"]] = bytes(r.choice([0, 0xff, r.randrange(256), r.randrange(256)]) for _ in range(n))
                if f["lenauto"]:
                    self.set_governor(env, vals, f, n)
            elif k == "spare":
                pass
            elif k == "env":
                inner = self.env_vals(f["def"], small)
                vals[f["name"]] = inner
                if f["len"]:
                    if not self.fit(f["def"], inner, f["len"]):
                        self.consistent = False
                elif f["lenfrom"]["op"] != "none":
                    self.set_governor(env, vals, f, size_of(f["def"], inner))
            elif k == "seq":
                item = f["item"]
                s = static_size(item)
                if f["len"] and s:
                    cnt = f["len"] // s
                    if f["len"] % s:
                        self.consistent = False
                elif greedy(item):
                    cnt = r.randint(0, 1)
                else:
                    cnt = r.choice([0, 1, 2, 3 >> small])
                items = [self.env_vals(item, small) for _ in range(cnt)]
                vals[f["name"]] = items
                n = sum(size_of(item, v) for v in items)
                if f["len"]:
                    if n != f["len"]:
                        self.consistent = False
                elif f["lenfrom"]["op"] != "none":
                    self.set_governor(env, vals, f, n)
        return vals


def gen_vals(env, rng):
    """(vals, consistent) - a complete in-range assignment, or None."""
    for attempt in range(24):
        g = ValGen(rng)
        try:
            v = g.env_vals(env, small=min(3, attempt // 6))
            return v, g.consistent
        except Retry:
            continue
    return None


def leaves(env, vals, out, gov=None):
    """Present integer / buffer / bit-field leaves: (kind, def, container, key, is_governor)."""
    governing = set(roles_of(env))
    for f in env["fields"]:
        try:
            if not ev_pres(f["pres"], vals):
                continue
        except KeyError:
            continue
        k = f["k"]
        if k == "uint" and f["name"] in vals:
            out.append(("uint", f, vals, f["name"], f["name"] in governing))
        elif k == "buf" and f["name"] in vals:
            out.append(("buf", f, vals, f["name"], False))
        elif k == "bitset":
            for b in f["fields"]:
                if b["name"] and b["name"] in vals:
                    out.append(("bit", b, vals, b["name"], b["name"] in governing))
        elif k == "env" and isinstance(vals.get(f["name"]), dict):
            leaves(f["def"], vals[f["name"]], out)
        elif k == "seq" and isinstance(vals.get(f["name"]), list):
            for v in vals[f["name"]]:
                leaves(f["item"], v, out)
    return out


def fixed_paths(env, path=()):
    """Paths (index lists) to fixed bit-fields of a definition."""
    out = []
    for i, f in enumerate(env["fields"]):
        if f["k"] == "bitset":
            for j, b in enumerate(f["fields"]):
                if b["fixed"]:
                    out.append(path + (i, j))
        elif f["k"] == "env":
            out += fixed_paths(f["def"], path + (i, "def"))
        elif f["k"] == "seq":
            out += fixed_paths(f["item"], path + (i, "item"))
    return out


def degenerate(env):
    """A rest-length field that is not the last one (later fields starve)."""
    fs = env["fields"]
    for i, f in enumerate(fs):
        if is_rest(f) and i != len(fs) - 1:
            return True
        if f["k"] == "env" and degenerate(f["def"]):
            return True
        if f["k"] == "seq" and degenerate(f["item"]):
            return True
    return False


# ------------------------------------------------------------------ driver
class Timeout(BaseException):
    pass


def _alarm(signum, frame):
    raise Timeout()


def _morph(cur, new):
    """Make container cur equal to new without replacing cur (or the containers inside it that new
    has at the same place)."""
    if isinstance(cur, dict) and isinstance(new, dict):
        for k in list(cur):
            if k not in new:
                del cur[k]
        for k, v in new.items():
            if k in cur and type(cur[k]) is type(v) and isinstance(v, (dict, list, bytearray)):
                _morph(cur[k], v)
            else:
                cur[k] = v
    elif isinstance(cur, list) and isinstance(new, list):
        for i in range(min(len(cur), len(new))):
            if type(cur[i]) is type(new[i]) and isinstance(new[i], (dict, list, bytearray)):
                _morph(cur[i], new[i])
            else:
                cur[i] = new[i]
        del cur[len(new):]
        cur.extend(new[len(cur):])
    elif isinstance(cur, bytearray):
        cur[:] = new
    else:
        raise TypeError("cannot morph")


class Driver:
    def __init__(self, codec, d):
        self.codec = codec
        self.env = build_env(codec, d)

    def cls(self, e):
        if type(e) is self.codec.DecodeError:
            return "DecodeError"
        if type(e) is self.codec.EncodeError:
            return "EncodeError"
        n = type(e).__name__
        return n if n not in ("DecodeError", "EncodeError") else "foreign-" + n

    def enc(self, vals):
        self.env.c = copy.deepcopy(vals)
        signal.setitimer(signal.ITIMER_VIRTUAL, 1.0)
        try:
            b = self.env.to_bytes()
            signal.setitimer(signal.ITIMER_VIRTUAL, 0)
            if not isinstance(b, (bytes, bytearray)):
                return False, [], "not-bytes"
            return True, list(b), ""
        except Timeout:
            return False, [], "Timeout"
        except Exception as e:      # noqa
            signal.setitimer(signal.ITIMER_VIRTUAL, 0)
            return False, [], self.cls(e)
        finally:
            signal.setitimer(signal.ITIMER_VIRTUAL, 0)

    def enc_inplace(self, a, b):
        """Encode a, then turn the object's values into b WHERE THEY ARE (nested dicts updated, lists
        edited, bytearrays overwritten - what a caller does that keeps a message and changes a field of
        a part), and encode again: the octets are those of b."""
        ok, _, err = self.enc(a)
        if not ok:
            return None
        try:
            _morph(self.env.c, copy.deepcopy(b))
        except Exception:
            return None
        signal.setitimer(signal.ITIMER_VIRTUAL, 1.0)
        try:
            r = self.env.to_bytes()
            signal.setitimer(signal.ITIMER_VIRTUAL, 0)
            if not isinstance(r, (bytes, bytearray)):
                return False, [], "not-bytes"
            return True, list(r), ""
        except Timeout:
            return False, [], "Timeout"
        except Exception as e:      # noqa
            signal.setitimer(signal.ITIMER_VIRTUAL, 0)
            return False, [], self.cls(e)
        finally:
            signal.setitimer(signal.ITIMER_VIRTUAL, 0)

    def dec(self, raw):
        signal.setitimer(signal.ITIMER_VIRTUAL, 1.0)
        try:
            n = self.env.from_bytes(bytes(raw))
            signal.setitimer(signal.ITIMER_VIRTUAL, 0)
            vals = copy.deepcopy(self.env.c)
            if type(n) is not int or not -(1 << 30) < n < (1 << 30):
                return False, None, 0, "consumed-not-int"
            return True, vals, n, ""
        except Timeout:
            return False, None, 0, "Timeout"
        except Exception as e:      # noqa
            signal.setitimer(signal.ITIMER_VIRTUAL, 0)
            return False, None, 0, self.cls(e)
        finally:
            signal.setitimer(signal.ITIMER_VIRTUAL, 0)


def ev_enc(kind, vals, res):
    ok, raw, err = res
    return {"e": "enc", "kind": kind, "vals": typed(vals), "ok": ok, "raw": raw, "err": err}


def ev_dec(kind, raw, res):
    ok, vals, used, err = res
    return {"e": "dec", "kind": kind, "raw": list(raw), "ok": ok,
            "vals": typed(vals) if ok else typed({}), "used": used, "err": err}


def events_for(codec, d, rng, k_rand=3, n_short=6):
    """Run the real codec built from definition d on generated inputs."""
    drv = Driver(codec, d)
    ev = []
    degen = degenerate(d)
    valid = []          # (vals, raw) of successful encodings

    def decode(kind, raw):
        res = drv.dec(raw)
        ev.append(ev_dec(kind, raw, res))
        if res[0]:
            ok2, raw2, err2 = drv.enc(res[1])
            ev.append({"e": "rtb", "kind": kind, "raw": list(raw), "ok2": ok2, "raw2": raw2, "err2": err2})
        return res

    samples = []
    for _ in range(k_rand):
        g = gen_vals(d, rng)
        if g is None:
            continue
        vals, consistent = g
        samples.append(vals)
        res = drv.enc(vals)
        ev.append(ev_enc("in-range" if consistent else "wrapper-length-unmet", vals, res))
        if res[0]:
            valid.append((vals, res[1]))
            if len(valid) >= 2:
                r2 = drv.enc_inplace(valid[-2][0], vals)
                if r2 is not None:
                    ev.append(ev_enc("in-range" if consistent else "wrapper-length-unmet", vals, r2))
            dres = decode("valid", res[1])
            if dres[0] and consistent and not degen:
                ev.append({"e": "rt", "kind": "in-range", "vals": typed(vals), "raw": res[1],
                           "vals2": typed(dres[1]), "used2": dres[2]})
    # ---- values that must be rejected / truncated -----------------------
    if samples:
        base = samples[0]
        lv = leaves(d, base, [])
        ints = [x for x in lv if x[0] == "uint"]
        bufs = [x for x in lv if x[0] == "buf" and x[1]["len"] > 0]
        bits = [x for x in lv if x[0] == "bit" and not x[1]["fixed"] and not x[4]]
        nm = [x for x in ints if abs(x[1]["mult"]) > 1 and not x[4] and x[1]["valfrom"]["op"] == "none"]

        def variant(kind, leaf, newval):
            _, f, cont, key, _g = leaf
            old = cont[key]
            cont[key] = newval
            v = copy.deepcopy(base)
            cont[key] = old
            ev.append(ev_enc(kind, v, drv.enc(v)))

        for leaf in rng.sample(ints, min(2, len(ints))):
            f = leaf[1]
            lo, hi = int_range(f)
            if rng.random() < 0.5:
                variant("int-too-big", leaf, (hi + rng.choice([1, 1, 2, 1 << 8 * f["len"]])) * f["mult"] + f["offset"])
            else:
                variant("int-too-small", leaf, (lo - rng.choice([1, 1, 2, 1 << 8 * f["len"]])) * f["mult"] + f["offset"])
        for leaf in rng.sample(bufs, min(1, len(bufs))):
            old = leaf[2][leaf[3]]
            variant("buf-wrong-length", leaf, old + bytes([rng.randrange(256)] * rng.randint(1, 2))
                    if rng.random() < 0.5 else old[:-rng.randint(1, min(2, len(old)))])
        for leaf in rng.sample(bits, min(2, len(bits))):
            b = leaf[1]
            variant("overwide", leaf, leaf[2][leaf[3]] | (rng.choice([1, 3, rng.randint(1, 255), 1 << 33]) << b["bl"]))
        for leaf in rng.sample(nm, min(1, len(nm))):
            variant("non-multiple", leaf, leaf[2][leaf[3]] + 1)
        # derived length field omitted from the values (get_val computes it)
        autos = [x for x in ints if x[1]["valfrom"]["op"] != "none" and x[2] is base]
        if autos:
            v = copy.deepcopy(base)
            for x in autos:
                v.pop(x[3], None)
            ev.append(ev_enc("derived-omitted", v, drv.enc(v)))
    # ---- octet strings --------------------------------------------------
    if valid:
        vals0, raw0 = valid[0]
        n = len(raw0)
        ks = list(range(n)) if n <= n_short else sorted(set([0, n - 1] + rng.sample(range(n), n_short - 2)))
        for k in ks:
            decode("short", raw0[:k])
        for extra in (1, rng.randint(2, 4)):
            decode("trailing", raw0 + [rng.randrange(256) for _ in range(extra)])
        if n:
            for _ in range(2):
                r2 = list(raw0)
                i = rng.randrange(n)
                r2[i] ^= 1 << rng.randrange(8)
                decode("bitflip", r2)
        decode("random", [rng.randrange(256) for _ in range(rng.randint(0, n + 3))])
    else:
        decode("random", [rng.randrange(256) for _ in range(rng.randint(0, 12))])
    # ---- fixed-value mismatch: encode with a twin definition whose field is free
    fp = fixed_paths(d)
    if fp and samples:
        path = rng.choice(fp)
        twin = copy.deepcopy(d)
        node = twin
        for p in path[:-2]:
            node = node["fields"][p] if isinstance(p, int) else node[p]
        bf = node["fields"][path[-2]]["fields"][path[-1]]
        bf["fixed"] = False
        want = untyped(bf["val"])
        tdrv = Driver(codec, twin)
        for vals in samples[:2]:
            v = copy.deepcopy(vals)
            hit = [x for x in leaves(twin, v, []) if x[0] == "bit" and x[3] == bf["name"]]
            if not hit:
                continue
            for x in hit:
                x[2][x[3]] = (want + rng.randint(1, (1 << bf["bl"]) - 1)) % (1 << bf["bl"]) if bf["bl"] < 40 else want ^ 1
            ok, raw, _ = tdrv.enc(v)
            if ok:
                decode("fixed-mismatch", raw)
                break
    return ev


def _u(name, ln, pres=None, bo="big"):
    return {"k": "uint", "name": name, "len": ln, "bo": bo, "signed": False, "offset": 0, "mult": 1, "form": "named",
            "pres": pres or dict(ALWAYS), "lenfrom": dict(NONE), "valfrom": dict(NONE)}


def _b(name, ln, pres=None):
    return {"k": "buf", "name": name, "len": ln, "pres": pres or dict(ALWAYS), "lenfrom": dict(NONE), "lenauto": False}


def _seq(name, fields, form="subclass"):
    return {"k": "seq", "name": name, "len": 0, "pres": dict(ALWAYS), "lenfrom": dict(NONE), "lenauto": False, "form": form,
            "item": {"check_len": True, "fields": fields}}


# Definitions written by hand for shapes the random generator meets rarely: sequences whose items consist of
# fixed-length fields only, one of them optional (records of two sizes in one sequence).
CRAFTED = [
    {"check_len": True, "fields": [_seq("f1", [_u("f2", 1), _u("f3", 2, {"op": "z", "field": "f2", "const": 0}), _b("f4", 2)])]},
    {"check_len": True, "fields": [_u("f1", 1), _seq("f2", [_u("f3", 1), _b("f4", 3, {"op": "nz", "field": "f3", "const": 0})], form="kw")]},
    {"check_len": True, "fields": [_seq("f1", [_u("f2", 1, bo="little"), _u("f3", 1, {"op": "ne", "field": "f2", "const": 7})])]},
]


def make_traces(toolkit, seed, start, count, k_rand, maxdepth=3):
    sys.path.insert(0, toolkit)
    codec = importlib.import_module("codec")
    signal.signal(signal.SIGVTALRM, _alarm)
    traces, failures = [], []
    for i in range(start, start + count):
        rng = random.Random("%d/%d" % (seed, i))
        d = copy.deepcopy(CRAFTED[i]) if i < len(CRAFTED) else DefGen(rng, maxdepth).definition()
        tid = "s%d-%d" % (seed, i)
        try:
            ev = events_for(codec, d, rng, k_rand)
        except Timeout:
            failures.append({"id": tid, "def": d, "exc": "Timeout"})
            continue
        except Exception as e:      # the definition could not be built / driven
            import traceback
            failures.append({"id": tid, "def": d, "exc": type(e).__name__, "tb": traceback.format_exc()[-1500:]})
            continue
        traces.append({"id": tid, "cfg": {"def": d}, "ev": ev})
    return traces, failures


def mc_traces(toolkit, path, seed, start, count, per):
    """GEN (spec -> code): definitions exported by TLC from MC_Codec.tla, octet
    strings over the family's alphabet through the real from_bytes()/to_bytes()."""
    sys.path.insert(0, toolkit)
    codec = importlib.import_module("codec")
    signal.signal(signal.SIGVTALRM, _alarm)
    with open(path) as f:
        entries = json.load(f)
    traces, failures = [], []
    for i in range(start, min(len(entries), start + count)):
        e = entries[i]
        d = e["def"]
        rng = random.Random("mc/%d/%d" % (seed, i))
        tid = "mc-%s-%d" % (e["fam"], i)
        strings = [[rng.choice(e["alpha"]) for _ in range(rng.randint(0, e["maxin"]))] for _ in range(per)]
        try:
            drv = Driver(codec, d)
            ev = []
            for raw in strings:
                res = drv.dec(raw)
                ev.append(ev_dec("mc-string", raw, res))
                if res[0]:
                    ok2, raw2, err2 = drv.enc(res[1])
                    ev.append({"e": "rtb", "kind": "mc-string", "raw": list(raw), "ok2": ok2, "raw2": raw2, "err2": err2})
        except Timeout:
            failures.append({"id": tid, "def": d, "exc": "Timeout"})
            continue
        except Exception as ex:
            import traceback
            failures.append({"id": tid, "def": d, "exc": type(ex).__name__, "tb": traceback.format_exc()[-1500:]})
            continue
        traces.append({"id": tid, "cfg": {"def": d}, "ev": ev})
    return traces, failures


def replay(toolkit, d, events):
    """Re-run recorded inputs (enc: vals, dec/rtb: raw) through the current code."""
    sys.path.insert(0, toolkit)
    codec = importlib.import_module("codec")
    signal.signal(signal.SIGVTALRM, _alarm)
    drv = Driver(codec, d)
    out = []
    for e in events:
        if e["e"] == "enc":
            out.append(ev_enc(e["kind"], untyped(e["vals"]), drv.enc(untyped(e["vals"]))))
        elif e["e"] == "dec":
            out.append(ev_dec(e["kind"], e["raw"], drv.dec(e["raw"])))
        elif e["e"] == "rtb":
            res = drv.dec(e["raw"])
            if res[0]:
                ok2, raw2, err2 = drv.enc(res[1])
                out.append({"e": "rtb", "kind": e["kind"], "raw": e["raw"], "ok2": ok2, "raw2": raw2, "err2": err2})
        elif e["e"] == "rt":
            v = untyped(e["vals"])
            r1 = drv.enc(v)
            if r1[0]:
                r2 = drv.dec(r1[1])
                if r2[0]:
                    out.append({"e": "rt", "kind": e["kind"], "vals": typed(v), "raw": r1[1],
                                "vals2": typed(r2[1]), "used2": r2[2]})
    return out


def main():
    ap = argparse.ArgumentParser()
    ap.add_argument("--toolkit", required=True)
    ap.add_argument("--seed", type=int, default=1)
    ap.add_argument("--start", type=int, default=0)
    ap.add_argument("--count", type=int, default=10)
    ap.add_argument("--k", type=int, default=3)
    ap.add_argument("--out", required=True)
    ap.add_argument("--replay")
    ap.add_argument("--mcdefs")
    a = ap.parse_args()
    if a.mcdefs:
        traces, failures = mc_traces(a.toolkit, a.mcdefs, a.seed, a.start, a.count, a.k)
        with open(a.out, "w") as f:
            json.dump({"traces": traces, "failures": failures}, f, separators=(",", ":"))
        return
    if a.replay:
        with open(a.replay) as f:
            rp = json.load(f)
        ev = replay(a.toolkit, rp["def"], rp["ev"])
        with open(a.out, "w") as f:
            json.dump({"traces": [{"id": "replay", "cfg": {"def": rp["def"]}, "ev": ev}], "failures": []}, f)
        return
    traces, failures = make_traces(a.toolkit, a.seed, a.start, a.count, a.k)
    with open(a.out, "w") as f:
        json.dump({"traces": traces, "failures": failures}, f, separators=(",", ":"))


if __name__ == "__main__":
    main()
