"""Driver for trx_toolkit/gsm_shared.py HoppingParams (C07), same protocol as
harness/c/drv_rfch.c.  argv[1] = trx_toolkit directory (imported fresh).

  M maio a0 a1 ...      mobile allocation and MAIO
  Q hsn fn [hsn fn ..]  resolve(fn) per pair on a long-lived HoppingParams object per
                        (configuration, HSN), as Transceiver keeps one between SETFH commands
  F hsn fn [hsn fn ..]  the same on a freshly constructed object per pair
  T h k                 table pass (HSN = h, T1 = T1R + 64 k) over T1R, T2, T3
"""
import sys

sys.path.insert(0, sys.argv[1])
import gsm_shared  # noqa: E402

HP = gsm_shared.HoppingParams
ERR = [0]


def safe(fn_, *a):
    """An exception escaping the code under test is reported as channel -1."""
    try:
        return fn_(*a)
    except Exception as e:          # noqa: BLE001
        if ERR[0] < 5:
            sys.stderr.write("EXC %s: %s args=%r\n" % (type(e).__name__, e, a))
        ERR[0] += 1
        return -1


def main():
    ma = []
    maio = 0
    kept = {}
    out = sys.stdout
    for line in sys.stdin:
        op = line[:1]
        f = line[1:].split()
        if op == "M":
            maio = int(f[0])
            ma = [int(x) for x in f[1:]]
            kept = {}
            out.write("M %d\n" % len(ma))
        elif op == "F":
            res = []
            for i in range(0, len(f) - 1, 2):
                res.append(safe(lambda h_, f_: HP(h_, maio, ma).resolve(f_), int(f[i]), int(f[i + 1])))
            out.write("Q " + " ".join(map(str, res)) + "\n")
        elif op == "Q":
            res = []

            def reused(h_, f_):
                hp = kept.get(h_)
                if hp is None:
                    hp = kept[h_] = HP(h_, maio, ma)
                return hp.resolve(f_)
            for i in range(0, len(f) - 1, 2):
                res.append(safe(reused, int(f[i]), int(f[i + 1])))
            out.write("Q " + " ".join(map(str, res)) + "\n")
        elif op == "T":
            h, k = int(f[0]), int(f[1])
            hp = HP(h, maio, ma)
            resolve = hp.resolve
            res = []
            s = 0
            for t1r in range(64):
                base = 26 * 51 * (t1r + 64 * k)
                for t2 in range(26):
                    for t3 in range(51):
                        # TS 45.002 4.3.3 (harness arithmetic; the C driver uses gsm_gsmtime2fn,
                        # both sums are compared)
                        fn = 51 * ((t3 - t2) % 26) + t3 + base
                        s = (s + fn) & 0x7fffffff
                        res.append(safe(resolve, fn))
            out.write("T %d " % s + " ".join(map(str, res)) + "\n")
        elif line.strip() == "" or op == "#":
            continue
        else:
            sys.stderr.write("bad op: %s" % line[:40])
            sys.exit(3)
        out.flush()


main()
