"""Driver for the path by which a hopping configuration reaches the simulator's
hopping sequence generator (C07, spec/HopCfg.tla / HopCfgTrace.tla).

The real fake_trx application runs in-process on fake sockets (faketrx_drv.Sim);
configurations arrive as real TRXC datagrams on the control socket of one of its
transceivers ("CMD SETFH <hsn> <maio> <rx1> <tx1> ...", RXTUNE, TXTUNE, POWERON,
POWEROFF), the status is read from the RSP datagram the application sends back,
and the per-frame frequencies are asked the way burst_fwd asks them:
trx.get_rx_freq(fn) / trx.get_tx_freq(fn).

argv[1] = /verif root.  stdin: one JSON scenario per line
    {"id": str, "argv": [fake_trx options], "trx": index, "ops": [op...]}
    op = ["tune", "rx"|"tx", kHz] | ["setfh", hsn, maio, [kHz...]]
       | ["poweron"] | ["poweroff"] | ["query", "rx"|"tx", [fn...]]
stdout: one JSON line per scenario {"id", "ev": [events of HopCfgTrace.tla], "exc": [...]}
The application object is kept as long as the options stay the same (a
transceiver lives through many configurations)."""
import json
import os
import re
import sys

ROOT = sys.argv[1]
sys.path.insert(0, ROOT)
sys.path.insert(0, os.path.join(ROOT, "harness", "py"))

import faketrx_drv as F        # noqa: E402

_RSP = re.compile(r"^RSP (\S+) (-?\d+)")


def status(ev, verb):
    """Status code of the RSP datagram answering the command (-99: none)."""
    for o in ev["outs"]:
        if o["kind"] != "ctrl":
            continue
        m = _RSP.match(bytes(o["raw"]).decode("ascii", "replace"))
        if m and m.group(1) == verb:
            return int(m.group(2))
    return -99


def ask(fn_, fn, exc):
    try:
        v = fn_(fn)
    except Exception as e:              # noqa: BLE001
        if len(exc) < 5:
            exc.append("%s: %s (fn=%d)" % (type(e).__name__, e, fn))
        return -1
    if isinstance(v, bool) or not isinstance(v, int):
        if len(exc) < 5:
            exc.append("answer %r (fn=%d)" % (v, fn))
        return -2
    return v


def main():
    sim = None
    sim_argv = None
    out = sys.stdout
    for line in sys.stdin:
        if not line.strip():
            continue
        scn = json.loads(line)
        if sim is None or sim_argv != scn["argv"]:
            sim = F.Sim(scn["argv"])
            sim_argv = scn["argv"]
        t = scn["trx"] % len(sim.trx)
        trx = sim.trx[t]
        ev = []
        exc = []

        def cmd(text, verb):
            r = sim.cmd(t, text.encode() + b"\0")
            if r["exc"] and len(exc) < 5:
                exc.append("%s on %s" % (r["exc"], text[:60]))
            return status(r, verb)
        for op in scn["ops"]:
            k = op[0]
            if k == "tune":
                verb = "RXTUNE" if op[1] == "rx" else "TXTUNE"
                ev.append(dict(e="tune", which=op[1], khz=op[2], rsp=cmd("CMD %s %d" % (verb, op[2]), verb)))
            elif k == "setfh":
                text = "CMD SETFH %d %d %s" % (op[1], op[2], " ".join(map(str, op[3])))
                ev.append(dict(e="setfh", hsn=op[1], maio=op[2], vals=op[3], rsp=cmd(text.rstrip(), "SETFH")))
            elif k == "poweron":
                ev.append(dict(e="poweron", rsp=cmd("CMD POWERON", "POWERON")))
            elif k == "poweroff":
                ev.append(dict(e="poweroff", rsp=cmd("CMD POWEROFF", "POWEROFF")))
            elif k == "query":
                get = trx.get_rx_freq if op[1] == "rx" else trx.get_tx_freq
                for fn in op[2]:
                    ev.append(dict(e="query", which=op[1], fn=fn, got=ask(get, fn, exc)))
            else:
                sys.stderr.write("bad op %r\n" % (op,))
                sys.exit(3)
        out.write(json.dumps(dict(id=scn["id"], ev=ev, exc=exc), separators=(",", ":")) + "\n")
        out.flush()


main()
