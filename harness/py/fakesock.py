"""Stand-in for the `socket` module as used by trx_toolkit/udp_link.py.

Install with `udp_link.socket = fakesock.Net()` before any UDPLink is created.
Every socket records bind(), every sendto() goes to Net.log, recvfrom(n) serves
datagrams the driver put into the socket's inbox and truncates to n like a real
UDP socket."""
import collections


class FakeSocket:
    def __init__(self, net, family, typ):
        self.net = net
        self.family = family
        self.type = typ
        self.bound = None
        self.opts = []
        self.blocking = True
        self.inbox = collections.deque()
        self.closed = False
        self.sent = []

    def setsockopt(self, *a):
        self.opts.append(a)

    def bind(self, addr):
        self.bound = tuple(addr)
        self.net.by_port[self.bound[1]] = self

    def setblocking(self, flag):
        self.blocking = flag

    def getsockname(self):
        return self.bound or ("0.0.0.0", 0)

    def fileno(self):
        return id(self) % 100000

    def close(self):
        self.closed = True

    def sendto(self, data, addr):
        rec = (self, bytes(data), tuple(addr))
        self.sent.append(rec)
        self.net.log.append(rec)
        if self.net.hook is not None:
            self.net.hook(self, bytes(data), tuple(addr))
        return len(data)

    def recvfrom(self, n):
        if not self.inbox:
            raise BlockingIOError
        data, addr = self.inbox.popleft()
        return bytes(data[:n]), addr

    # driver side
    def feed(self, data, addr=("127.0.0.1", 40000)):
        self.inbox.append((bytes(data), tuple(addr)))


class Net:
    AF_INET = 2
    SOCK_DGRAM = 2
    SOL_SOCKET = 1
    SO_REUSEADDR = 2

    def __init__(self):
        self.hook = None       # optional callback(socket, data, destination) at send time
        self.log = []          # (socket, data, destination) in send order
        self.by_port = {}
        self.sockets = []

    def socket(self, family, typ):
        s = FakeSocket(self, family, typ)
        self.sockets.append(s)
        return s

    def take(self):
        out, self.log = self.log, []
        return out
