"""Stand-in for the `socket` module as used by trx_toolkit/udp_link.py.

Install with `udp_link.socket = fakesock.Net()` before any UDPLink is created.
Every socket records bind(), every sendto() goes to Net.log, recvfrom(n) serves
datagrams the driver put into the socket's inbox and truncates to n like a real
UDP socket."""
import collections


class FakeSocket:
    def __init__(self, net, family, typ):
        self.net = net
        self.family = family
        self.type = typ
        self.bound = None
        self.opts = []
        self.blocking = True
        self.inbox = collections.deque()
        self.closed = False
        self.sent = []
        self.peer = None
        self.pending_err = False

    def setsockopt(self, *a):
        self.opts.append(a)

    def bind(self, addr):
        self.bound = tuple(addr)
        self.net.by_port[self.bound[1]] = self

    def setblocking(self, flag):
        self.blocking = flag

    def getsockname(self):
        return self.bound or ("0.0.0.0", 0)

    def fileno(self):
        return id(self) % 100000

    def close(self):
        self.closed = True

    def sendto(self, data, addr):
        rec = (self, bytes(data), tuple(addr))
        self.sent.append(rec)
        self.net.log.append(rec)
        if self.net.hook is not None:
            self.net.hook(self, bytes(data), tuple(addr))
        if self.peer is not None and tuple(addr)[1] in self.net.dead:
            self.pending_err = True      # ICMP port unreachable comes back to a connected socket
        return len(data)

    def recvfrom(self, n):
        self._raise_pending()
        if not self.inbox:
            raise BlockingIOError
        data, addr = self.inbox.popleft()
        return bytes(data[:n]), addr

    # the connected flavour of the same calls (a code base may migrate to it): Linux semantics - only
    # datagrams from the peer are received, and an ICMP error caused by an earlier send is reported
    # by the next call on the socket
    def connect(self, addr):
        self.peer = tuple(addr)

    def getpeername(self):
        if self.peer is None:
            raise OSError(107, "Transport endpoint is not connected")
        return self.peer

    def _raise_pending(self):
        if self.pending_err:
            self.pending_err = False
            raise ConnectionRefusedError(111, "Connection refused")

    def send(self, data, flags=0):
        if self.peer is None:
            raise OSError(89, "Destination address required")
        self._raise_pending()
        return self.sendto(data, self.peer)

    def recv(self, n, flags=0):
        return self.recvfrom(n)[0]

    def settimeout(self, t):
        self.timeout = t

    def gettimeout(self):
        return getattr(self, "timeout", None)

    # driver side
    def feed(self, data, addr=("127.0.0.1", 40000)):
        if self.peer is not None and tuple(addr) != self.peer and self.peer[0] not in ("0.0.0.0", ""):
            if tuple(addr)[1] != self.peer[1]:
                return                   # the kernel does not deliver foreign datagrams to a connected socket
        self.inbox.append((bytes(data), tuple(addr)))


class Net:
    AF_INET = 2
    SOCK_DGRAM = 2
    SOL_SOCKET = 1
    SO_REUSEADDR = 2

    def __init__(self):
        self.hook = None       # optional callback(socket, data, destination) at send time
        self.log = []          # (socket, data, destination) in send order
        self.by_port = {}
        self.sockets = []
        self.dead = set()      # destination ports nobody listens on (a peer that died): see FakeSocket.sendto

    def __getattr__(self, name):
        # constants and exception classes of the real module (socket.timeout, MSG_DONTWAIT, ...)
        import socket as _real
        return getattr(_real, name)

    def socket(self, family, typ):
        s = FakeSocket(self, family, typ)
        self.sockets.append(s)
        return s

    def take(self):
        out, self.log = self.log, []
        return out
