"""In-process driver for the real fake_trx.Application.

The application object, its transceivers, the burst forwarder and the clock
generator are the toolkit's own; only the environment is replaced:
  * udp_link.socket      -> fakesock.Net (datagrams recorded / injected)
  * clck_gen.threading   -> a stand-in whose Thread is "alive" between start()
                            and join() but never runs: the driver calls
                            CLCKGen.send_clck_ind() itself, one call per tick,
                            which is exactly what the clock thread does
  * ctrl_if.time.sleep   -> recorded, not slept (FAKE_TRXC_DELAY)
  * signal.signal, logging set-up, copyright banner -> no-ops
Events are recorded in the vocabulary of spec/FakeTrx.tla."""
import contextlib
import io
import logging
import os
import re
import sys

from vf.core import TOOLKIT

if TOOLKIT not in sys.path:
    sys.path.insert(0, TOOLKIT)

import fakesock                      # noqa: E402
import udp_link                      # noqa: E402
import clck_gen                      # noqa: E402
import ctrl_if                       # noqa: E402
import app_common                    # noqa: E402
import fake_trx                      # noqa: E402
import data_msg                      # noqa: E402


class _FakeThread:
    instances = []

    def __init__(self, target=None, **kw):
        self.target = target
        self.alive = False
        self.daemon = False
        _FakeThread.instances.append(self)
        del _FakeThread.instances[:-8]

    def start(self):
        self.alive = True

    def is_alive(self):
        return self.alive

    def join(self, timeout=None):
        self.alive = False


class _FakeEvent:
    def __init__(self):
        self.flag = False

    def set(self):
        self.flag = True
        # the only event of clck_gen is the worker's breaker: a worker that is asked to stop
        # does so (the ticks are driven by the harness), so code that polls is_alive() ends
        for t in _FakeThread.instances:
            t.alive = False

    def clear(self):
        self.flag = False

    def wait(self, timeout=None):
        return self.flag

    def is_set(self):
        return self.flag


class _FakeThreading:
    Thread = _FakeThread
    Event = _FakeEvent

    @staticmethod
    def Lock():
        import threading
        return threading.Lock()


class _FakeTime:
    def __init__(self):
        self.slept = []

    def sleep(self, s):
        self.slept.append(s)

    def __getattr__(self, k):
        import time
        return getattr(time, k)


class _FakeSignal:
    SIGINT = 2

    @staticmethod
    def signal(*a):
        return None


class _Capture(logging.Handler):
    def __init__(self):
        logging.Handler.__init__(self, logging.DEBUG)
        self.records = []

    def emit(self, record):
        if record.levelno >= logging.WARNING:
            try:
                self.records.append((record.levelno, record.getMessage(), os.path.basename(record.pathname or "")))
            except Exception:
                self.records.append((record.levelno, str(record.msg), os.path.basename(record.pathname or "")))


_STALE = re.compile(r"^\((.+?)\) Stale TRXD message \(fn=(\d+)\): (.*)$")


class Sim:
    """One fake_trx application instance."""

    def __init__(self, argv=()):
        self.net = fakesock.Net()
        udp_link.socket = self.net
        clck_gen.threading = _FakeThreading
        self.time = _FakeTime()
        ctrl_if.time = self.time
        fake_trx.signal = _FakeSignal
        app_common.ApplicationBase.app_init_logging = lambda self_, argv_: None
        self.cap = _Capture()
        root = logging.getLogger()
        for h in list(root.handlers):
            if isinstance(h, _Capture):
                root.removeHandler(h)
        root.addHandler(self.cap)
        root.setLevel(logging.WARNING)
        old = sys.argv
        sys.argv = ["fake_trx"] + list(argv)
        try:
            with contextlib.redirect_stdout(io.StringIO()):
                self.app = fake_trx.Application()
        finally:
            sys.argv = old
        self.trx = list(self.app.trx_list.trx_list)
        self.shadow = [dict(ver=0, rx=None, tx=None) for _ in self.trx]
        self.unobs_seen = set()
        self._unobs = set()
        self.name2idx = {str(t): i for i, t in enumerate(self.trx)}
        self.sock2 = {}
        for i, t in enumerate(self.trx):
            self.sock2[id(t.ctrl_if.sock)] = (i, "ctrl")
            self.sock2[id(t.data_if.sock)] = (i, "data")
            if t.clck_gen is not None:
                self.sock2[id(t.clck_if.sock)] = (i, "clck")
        self.net.take()

    # ---------------------------------------------------------------- config
    def cfg(self):
        out = []
        for i, t in enumerate(self.trx):
            parent = 0
            for j, p in enumerate(self.trx):
                if t in p.child_trx_list.trx_list:
                    parent = j + 1
            d = dict(name=t.name or "", base=t.base_port, child=t.child_idx, mgt=bool(t.child_mgt),
                     clk=t.clck_gen is not None, parent=parent, pm=t.pwr_meas is not None,
                     ports=dict(ctrl=[t.ctrl_if.sock.bound[1], t.ctrl_if.remote_port],
                                data=[t.data_if.sock.bound[1], t.data_if.remote_port],
                                clck=([t.clck_if.sock.bound[1], t.clck_if.remote_port] if t.clck_gen is not None else [])))
            out.append(d)
        return out

    # ------------------------------------------------------------ projection
    @staticmethod
    def _opt(x):
        return [] if x is None else [x]

    # The projection reads the application's state.  Public attributes are part of what the rest of
    # the toolkit uses; the underscore-prefixed ones (tuned frequencies, header version, the queue) are
    # a maintainer's to rename or re-represent.  A component that cannot be read is reported as
    # unobservable ("unobs") and the trace specification does not compare it - what the property
    # is about stays visible on the wire (replies, forwarded bursts, ports).  Values handed to the
    # generators (header version, tuning) then come from a shadow kept from the replies seen.
    def _try(self, field, fn, default):
        try:
            return fn()
        except (AttributeError, TypeError, KeyError, IndexError, ValueError):
            self._unobs.add(field)
            return default

    def ver(self, t):
        """Header version of transceiver t's data link (0-based t)."""
        d = self.trx[t].data_if
        for name in ("_hdr_ver", "hdr_ver"):
            v = getattr(d, name, None)
            if isinstance(v, int) and not isinstance(v, bool):
                return v
        return self.shadow[t]["ver"]

    def tuned(self, t):
        """(rx, tx) in Hz the transceiver was last tuned to (None: never)."""
        trx = self.trx[t]
        if hasattr(trx, "_rx_freq") and hasattr(trx, "_tx_freq"):
            return trx._rx_freq, trx._tx_freq
        return self.shadow[t]["rx"], self.shadow[t]["tx"]

    def _queue(self, trx):
        q = trx._tx_queue
        return [[m.fn, m.tn] for m in list(q)]

    def queue(self, t):
        """[[fn, tn], ...] pending on transceiver t, or None when not observable."""
        try:
            return self._queue(self.trx[t])
        except (AttributeError, TypeError):
            return None

    def _rxtx(self, trx, which):
        if getattr(trx, "fh") is None:
            # not hopping: the public accessor answers with the tuned frequency
            return self._opt(trx.get_rx_freq(0) if which == "rx" else trx.get_tx_freq(0))
        return self._opt(getattr(trx, "_rx_freq" if which == "rx" else "_tx_freq"))

    def _ver_strict(self, trx):
        d = trx.data_if
        for name in ("_hdr_ver", "hdr_ver"):
            v = getattr(d, name, None)
            if isinstance(v, int) and not isinstance(v, bool):
                return v
        raise AttributeError("header version")

    def proj(self):
        out = []
        self._unobs = set()
        T = self._try
        for t in self.trx:
            fh = []
            if t.fh is not None:
                fh = [dict(hsn=t.fh.hsn, maio=t.fh.maio, ma=[[a, b] for (a, b) in t.fh.ma])]
            out.append(dict(run=bool(t.running),
                            rx=T("rx", lambda: self._rxtx(t, "rx"), []), tx=T("tx", lambda: self._rxtx(t, "tx"), []), fh=fh,
                            ver=T("ver", lambda: self._ver_strict(t), 0), q=T("q", lambda: self._queue(t), []),
                            muted=bool(t.rf_muted), ta=t.ta, att=t.tx_att_base, nompwr=t.tx_power_base,
                            frssi=dict(on=bool(t.fake_rssi_enabled), base=t.rssi_base, thr=t.rssi_rand_threshold),
                            toa=dict(base=t.toa256_base, thr=t.toa256_rand_threshold),
                            ci=dict(base=t.ci_base, thr=t.ci_rand_threshold),
                            drop=dict(n=t.burst_drop_amount, period=t.burst_drop_period),
                            delay=t.ctrl_if.rsp_delay_ms))
        g = self.app.clck_gen
        links = [i + 1 for i, t in enumerate(self.trx) if t.clck_gen is not None and t.clck_if in g.clck_links]
        self.unobs_seen |= self._unobs
        return dict(trx=out, unobs=sorted(self._unobs),
                    clk=dict(run=bool(g.running), links=links,
                             src=getattr(g, "clck_src", 0) if g.running else 0))

    # ---------------------------------------------------------------- events
    def _outs(self):
        outs = []
        for sock, data, dst in self.net.take():
            i, kind = self.sock2.get(id(sock), (-1, "?"))
            outs.append(dict(t=i + 1, kind=kind, port=dst[1], host=dst[0], raw=list(data)))
        return outs

    def cmd(self, t, raw, remote=("127.0.0.1", 45000)):
        """A datagram arrives on the control socket of transceiver t (0-based)."""
        self.trx[t].ctrl_if.sock.feed(raw, remote)
        e = self._serve_ctrl(t, raw, remote)
        self.trx[t].ctrl_if.sock.inbox.clear()
        return e

    def _serve_ctrl(self, t, raw, remote):
        trx = self.trx[t]
        self.time.slept = []
        exc = ""
        if trx.ctrl_if.sock.inbox:              # readable: select() would wake the main loop
            try:
                trx.ctrl_if.handle_rx()
            except Exception as e:
                exc = type(e).__name__
        outs = self._outs()
        for o in outs:                      # shadow of what the replies say (see ver() / tuned())
            if o["kind"] == "ctrl" and o["t"] == t + 1:
                w = bytes(o["raw"]).rstrip(b"\0").split(b" ")
                try:
                    if w[:2] == [b"RSP", b"SETFORMAT"] and len(w) == 4 and w[2] == w[3]:
                        self.shadow[t]["ver"] = int(w[2])
                    elif w[:3] == [b"RSP", b"RXTUNE", b"0"] and len(w) == 4:
                        self.shadow[t]["rx"] = int(w[3]) * 1000
                    elif w[:3] == [b"RSP", b"TXTUNE", b"0"] and len(w) == 4:
                        self.shadow[t]["tx"] = int(w[3]) * 1000
                except ValueError:
                    pass
        return dict(e="cmd", t=t + 1, raw=list(raw), rport=remote[1], rhost=remote[0], exc=exc, outs=outs,
                    slept=[int(round(s * 1000)) for s in self.time.slept])

    def data(self, t, raw, remote=None):
        """A datagram arrives on the data socket of transceiver t: from its L1 (the address the
        application was configured with) unless another source is given."""
        trx = self.trx[t]
        if not hasattr(self, "_l1addr"):
            self._l1addr = {}
        if t not in self._l1addr:
            self._l1addr[t] = (trx.data_if.remote_addr, trx.data_if.remote_port)
        trx.data_if.sock.feed(raw, remote or self._l1addr[t])
        exc = ""
        acc = False
        try:
            acc = trx.recv_data_msg() is not None
        except Exception as e:
            exc = type(e).__name__
        trx.data_if.sock.inbox.clear()
        return dict(e="data", t=t + 1, raw=list(raw), acc=acc, exc=exc, outs=self._outs())

    def tick(self):
        """One iteration of the clock thread's loop body (only while the
        generator is running)."""
        g = self.app.clck_gen
        if not g.running:
            return None
        fn = g.clck_src
        self.cap.records = []
        exc = ""
        try:
            g.send_clck_ind()
        except Exception as e:
            exc = type(e).__name__
        stales = []
        other = []
        sunobs = False
        for lvl, msg, src in self.cap.records:
            m = _STALE.match(msg)
            if m:
                desc = m.group(3)
                mf = re.search(r"\bfn=(\d+)", desc)
                mt = re.search(r"\btn=(\d+)", desc)
                stales.append(dict(t=self.name2idx.get(m.group(1), -1) + 1, tick=int(m.group(2)),
                                   fn=int(mf.group(1)) if mf else -1, tn=int(mt.group(1)) if mt else -1))
                continue
            if lvl >= logging.WARNING and src == "transceiver.py":
                # (warnings from other files - the send path refusing to encode, say - are no reports about
                # queued bursts) the wording of the report is the maintainer's: any warning of a tick that names a
                # transceiver and a burst (fn=, tn= of its header description) is a report about that
                # burst; a warning that cannot be read this way makes the reports of this tick
                # unobservable (the specification then does not judge them)
                mn = re.match(r"^\((.+?)\)", msg)
                fns = re.findall(r"\bfn=(\d+)", msg)
                tns = re.findall(r"\btn=(\d+)", msg)
                if mn and mn.group(1) in self.name2idx and fns and tns:
                    stales.append(dict(t=self.name2idx[mn.group(1)] + 1, tick=fn, fn=int(fns[-1]), tn=int(tns[-1])))
                    continue
                sunobs = True
            other.append(msg[:120])
        return dict(e="tick", fn=fn, exc=exc, outs=self._outs(), stales=stales, sunobs=sunobs, logs=other)
