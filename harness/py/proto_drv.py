"""Driving the real declarative PDU definitions (trxd_proto.py)."""
import sys

from vf.core import TOOLKIT

if TOOLKIT not in sys.path:
    sys.path.insert(0, TOOLKIT)

import codec          # noqa: E402
import trxd_proto     # noqa: E402

GB = 148
CLASSES = dict(v0Rx=trxd_proto.PDUv0Rx, v0Tx=trxd_proto.PDUv0Tx, v1Rx=trxd_proto.PDUv1Rx,
               v1Tx=trxd_proto.PDUv1Tx, v2Rx=trxd_proto.PDUv2Rx, v2Tx=trxd_proto.PDUv2Tx)
MODLEN = {0: 1, 1: 1, 2: 1, 3: 1, 4: 3, 5: 3, 6: 1, 7: 1, 8: 4, 9: 4, 10: 5, 11: 5, 12: 2, 13: 2}
RENAME = {"soft-bits": "soft", "hard-bits": "hard"}
# a long-running tool creates one PDU object per datagram: nothing may accumulate across objects
for _cls in CLASSES.values():
    for _ in range(1300):
        _cls()
BACK = {v: k for k, v in RENAME.items()}


def to_py(vals):
    """JSON-ish vals -> dict for the real codec (bytes for buffers)."""
    out = {}
    for k, v in vals.items():
        if k == "bpdu":
            out[k] = [to_py(x) for x in v]
        elif k in ("soft", "hard", "pad"):
            out[BACK.get(k, k)] = bytes(v)
        else:
            out[k] = v
    for part, src in [(out, vals)] + list(zip(out.get("bpdu", []), vals.get("bpdu", []))):
        part.pop("stale", None)
        if part.get("nope") == 1:
            part.pop("soft-bits", None)
            part.pop("hard-bits", None)
            if src.get("stale"):
                # content reused after a normal burst: the burst value is still in the dict, the
                # NOPE flag says it is not part of the PDU
                part["soft-bits" if "soft" in src else "hard-bits"] = bytes(src["stale"])
    return out


def clean(vals):
    """vals without the driver-only "stale" entries (a burst value left in the content of a NOPE part)."""
    out = {k: v for k, v in vals.items() if k != "stale"}
    if "bpdu" in out:
        out["bpdu"] = [clean(x) for x in out["bpdu"]]
    return out


def from_py(cls, c):
    out = {}
    for k, v in c.items():
        if k == "bpdu":
            # (more than 8 batched parts are never encoded here; a longer decoded list is wrong anyway -
            #  cap it so that one faulty decode cannot blow up the trace file)
            out[k] = [from_py(cls, x) for x in v[:12]]
        elif isinstance(v, (bytes, bytearray)):
            out[RENAME.get(k, k)] = list(v)
        else:
            out[k] = v
    key = "soft" if cls.endswith("Rx") else "hard"
    if key not in out:
        out[key] = []
    return out


def decode(cls, raw):
    pdu = CLASSES[cls]()
    try:
        pdu.from_bytes(bytes(raw))
    except codec.DecodeError:
        return dict(ok=False, exc="DecodeError")
    except Exception as e:
        return dict(ok=False, exc=type(e).__name__)
    return dict(ok=True, exc="", vals=from_py(cls, pdu.c))


def encode(cls, vals):
    pdu = CLASSES[cls]()
    pdu.c = to_py(vals)
    try:
        return list(pdu.to_bytes()), ""
    except Exception as e:
        return [], type(e).__name__


def rand_part(rng, rx, batched, ver, mod=None):
    if mod is None and rng.random() < 0.1:
        # degenerate content: every field zero and an all-zero burst (octets that look like padding), or
        # every field at its other end
        z = rng.random() < 0.7
        n = GB
        p = dict(tn=0 if z else 7, batch=0 if z else 1, trxn=0 if z else 63, nope=0, mod=0, tsc=0 if z else 7)
        if rx:
            p.update(rssi=0 if z else -255, toa256=0 if z else -1, cir=0 if z else -1, soft=[0 if z else 254] * n)
        else:
            p.update(pwr=0 if z else 255, scpir=0 if z else -1, hard=[0 if z else 1] * n)
        if batched:
            p["shadow"] = 0 if z else 1
        else:
            p["ver"] = 2
            p["fn"] = 0 if z else 2 ** 31 - 1
        return p
    forced = mod is not None
    mod = rng.choice(sorted(MODLEN)) if mod is None else mod
    nope = 1 if (rng.random() < 0.15 and not forced) else 0
    if nope and rng.random() < 0.5:
        mod = rng.randrange(16)          # the modulation bits of a NOPE part are meaningless, any value
    n = MODLEN.get(mod, 0) * GB
    bits = [] if nope else ([rng.randrange(255) for _ in range(n)] if rx else [rng.getrandbits(1) for _ in range(n)])
    stale = []
    if nope and rng.random() < 0.5:
        stale = [rng.randrange(255) if rx else rng.getrandbits(1) for _ in range(rng.choice([GB, 3 * GB, 7]))]
    p = dict(tn=rng.randrange(8), batch=rng.getrandbits(1), trxn=rng.randrange(64), nope=nope, mod=mod, tsc=rng.randrange(8))
    if stale:
        p["stale"] = stale
    if rx:
        p.update(rssi=-rng.choice([0, 1, 47, 120, 254, 255, rng.randrange(256)]),
                 toa256=rng.choice([-32768, 32767, -1, 0, rng.randint(-32768, 32767)]),
                 cir=rng.choice([-32768, 32767, -1280, 1280, rng.randint(-32768, 32767)]), soft=bits)
    else:
        p.update(pwr=rng.choice([0, 255, rng.randrange(256)]), scpir=rng.choice([-128, 127, 0, rng.randint(-128, 127)]), hard=bits)
    if batched:
        p["shadow"] = rng.getrandbits(1)
    else:
        p["ver"] = 2
        p["fn"] = rng.choice([0, 2715647, 2 ** 31 - 1, rng.randrange(2715648)])
    return p


def rand_vals(rng, cls):
    fn = rng.choice([0, 2715647, 2 ** 31 - 1, 255, 256, 65536, rng.randrange(2715648)])
    tn = rng.randrange(8)
    if cls in ("v0Tx", "v1Tx"):
        n = rng.choice([GB, 3 * GB, GB, 0, 1])
        return dict(ver=int(cls[1]), tn=tn, fn=fn, pwr=rng.choice([0, 255, rng.randrange(256)]),
                    hard=[rng.getrandbits(1) for _ in range(n)])
    if cls == "v0Rx":
        n = rng.choice([GB, 3 * GB])
        return dict(ver=0, tn=tn, fn=fn, rssi=-rng.randrange(256), toa256=rng.randint(-32768, 32767),
                    soft=[rng.randrange(255) for _ in range(n)], pad=rng.choice([[], [0, 0], [0, 0]]))
    if cls == "v1Rx":
        p = rand_part(rng, True, False, 1)
        for k in ("batch", "trxn"):
            p.pop(k)
        p.update(ver=1, fn=fn, tn=tn)
        return p
    rx = cls == "v2Rx"
    if rng.random() < 0.05:
        # the longest datagram there is: nine parts (the first and eight batched ones) of the longest burst
        p = rand_part(rng, rx, False, 2, mod=rng.choice([10, 11]))
        p["bpdu"] = [rand_part(rng, rx, True, 2, mod=rng.choice([10, 11])) for _ in range(8)]
        return p
    p = rand_part(rng, rx, False, 2)
    p["bpdu"] = [rand_part(rng, rx, True, 2) for _ in range(rng.choice([0, 0, 1, 2, 3, 8, rng.randint(0, 8)]))]
    return p


def reserved_positions(cls, vals):
    """(offset, mask) of reserved bits in the encoding of vals."""
    pos = [(0, 0x08)]
    if cls in ("v2Rx", "v2Tx"):
        pos.append((1, 0x40))
        hl = 12
        off = hl + (0 if vals["nope"] else MODLEN[vals["mod"]] * GB)
        if cls == "v2Tx":
            pos += [(5, 0xff), (6, 0xff), (7, 0xff)]
        for b in vals["bpdu"]:
            pos += [(off, 0xf0), (off, 0x08)]
            if cls == "v2Tx":
                pos += [(off + 5, 0xff), (off + 6, 0xff), (off + 7, 0xff)]
            off += 8 + (0 if b["nope"] else MODLEN[b["mod"]] * GB)
    return pos
