"""Build and drive the unmodified trxcon/src/trx_if.c (see harness/c/drv_trxcon.c)."""
import json
import os
import subprocess

from vf import cbuild
from vf.core import REPO


def build(ctx):
    exe = os.path.join(ctx.scratch, "drv_trxcon")
    if os.path.exists(exe):
        return exe
    L = os.path.join(REPO, "src/shared/libosmocore")
    T = os.path.join(REPO, "src/host/trxcon")
    cfgdir = os.path.join(ctx.scratch, "cfg/x/y")
    os.makedirs(cfgdir, exist_ok=True)
    open(os.path.join(ctx.scratch, "cfg/config.h"), "w").close()
    # in-repo gsm_utils.c against its own header (gsm_arfcn2freq10)
    obj = os.path.join(ctx.scratch, "gsm_utils.o")
    cbuild.cc(obj, [L + "/src/gsm/gsm_utils.c"], includes=[L + "/include", cfgdir], extra=["-c"])
    cbuild.cc(exe, [T + "/src/trx_if.c", cbuild.HC + "/drv_trxcon.c", L + "/src/talloc.c", obj],
              includes=[cbuild.HC + "/shim/trxcon", T + "/include", L + "/include"],
              defines=["_GNU_SOURCE"], extra=["-Wl,--wrap=send"])
    return exe


def hexs(b):
    return "".join("%02x" % x for x in b)


class Trxcon:
    """One trx_if instance in its own process."""

    def __init__(self, exe):
        env = dict(os.environ, ASAN_OPTIONS="detect_leaks=0:exitcode=99",
                   UBSAN_OPTIONS="print_stacktrace=1:halt_on_error=1:exitcode=98")
        self.p = subprocess.Popen([exe], stdin=subprocess.PIPE, stdout=subprocess.PIPE,
                                  stderr=subprocess.PIPE, text=True, env=env)
        self.crashed = None
        self.open = self._read()

    def _read(self):
        ln = self.p.stdout.readline()
        if not ln:
            self.p.wait()
            self.crashed = (self.p.returncode, self.p.stderr.read()[-4000:])
            return None
        return json.loads(ln)

    def op(self, line):
        if self.crashed:
            return None
        try:
            self.p.stdin.write(line + "\n")
            self.p.stdin.flush()
        except BrokenPipeError:
            self.p.wait()
            self.crashed = (self.p.returncode, self.p.stderr.read()[-4000:])
            return None
        return self._read()

    def cmd(self, *a):
        return self.op("CMD " + " ".join(str(x) for x in a))

    def rsp(self, data):
        return self.op("RSP " + hexs(data))

    def data(self, data):
        return self.op("DATA " + hexs(data))

    def burst(self, fn, tn, pwr, bits):
        return self.op("BURST %d %d %d %s" % (fn, tn, pwr, hexs(bits)))

    def failsend(self, err, count):
        return self.op("FAILSEND %d %d" % (err, count))

    def uplink(self, pwr, bits):
        return self.op("UL %d %s" % (pwr, hexs(bits)))

    def timeout(self):
        return self.op("TIMEOUT")

    def close(self):
        try:
            self.p.stdin.close()
        except Exception:
            pass
        try:
            self.p.wait(timeout=10)
        except Exception:
            self.p.kill()
        if self.p.returncode not in (0, None) and not self.crashed:
            self.crashed = (self.p.returncode, self.p.stderr.read()[-4000:])
        for f in (self.p.stdout, self.p.stderr):
            try:
                f.close()
            except Exception:
                pass
