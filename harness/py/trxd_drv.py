"""Driving the real TRXD message codec (data_msg.py) and recording what it did
in the vocabulary of spec/TrxdPdu.tla.  Nothing of the codec is re-implemented
here: messages are built with the toolkit's own classes and only *projected*
to JSON records."""
import sys
from array import array

from vf.core import TOOLKIT

if TOOLKIT not in sys.path:
    sys.path.insert(0, TOOLKIT)

import data_msg            # noqa: E402  (the code under test)
import gsm_shared          # noqa: E402

Modulation = data_msg.Modulation
MODNAME = {Modulation.ModGMSK: "GMSK", Modulation.Mod8PSK: "8PSK", Modulation.ModGMSK_AB: "GMSK_AB",
           Modulation.Mod16QAM: "16QAM", Modulation.Mod32QAM: "32QAM", Modulation.ModAQPSK: "AQPSK"}
MODOF = {v: k for k, v in MODNAME.items()}
MODK = {"GMSK": 1, "8PSK": 3, "GMSK_AB": 1, "16QAM": 4, "32QAM": 5, "AQPSK": 2}
GB = 148
HYPER = 2715648


def burst_to_json(b):
    if b is None:
        return dict(has=False, bits=[])
    return dict(has=True, bits=[int(x) for x in b])


def fnb(fn):
    return list(int(fn).to_bytes(4, "big", signed=False)) if 0 <= fn < 2 ** 32 else [-1]


def tx_orig(m):
    return dict(cls="tx", ver=m.ver, fn=m.fn, tn=m.tn, pwr=m.pwr, burst=burst_to_json(m.burst))


def rx_orig(m):
    d = dict(cls="rx", ver=m.ver, fn=m.fn, tn=m.tn, rssi=m.rssi, toa=m.toa256, burst=burst_to_json(m.burst))
    if m.ver >= 1:
        d.update(nope=bool(m.nope_ind), mod=MODNAME.get(m.mod_type, "GMSK"),
                 tscset=m.tsc_set if m.tsc_set is not None else 0,
                 tsc=m.tsc if m.tsc is not None else 0, ci=m.ci)
    return d


def num(x, bad=-99999):
    """A field the code left unset (None) or of another type is logged as a number no
    range contains, so that the record is judged (and rejected) instead of breaking TLC's JSON reader."""
    return int(x) if isinstance(x, int) and -2 ** 31 < x < 2 ** 31 else bad


def tx_decoded(m):
    return dict(ver=num(m.ver), tn=num(m.tn), fnb=fnb(m.fn) if isinstance(m.fn, int) else [-1], pwr=num(m.pwr),
                burst=burst_to_json(m.burst))


def rx_decoded(m):
    d = dict(ver=num(m.ver), tn=num(m.tn), fnb=fnb(m.fn) if isinstance(m.fn, int) else [-1], rssi=num(m.rssi),
             toa=num(m.toa256), burst=burst_to_json(m.burst))
    if m.ver == 0:
        # parse_msg leaves the class default in place when there is no burst
        d["mod"] = MODNAME.get(m.mod_type, "unknown") if m.burst is not None else "unset"
    else:
        d["nope"] = bool(m.nope_ind)
        if m.nope_ind:
            d.update(mod="none", tscset=-1, tsc=-1)
        else:
            d.update(mod=MODNAME.get(m.mod_type, "unknown"), tscset=num(m.tsc_set), tsc=num(m.tsc))
        d["ci"] = num(m.ci)
    return d


def mk_tx(d):
    m = data_msg.TxMsg(fn=d["fn"], tn=d["tn"], ver=d["ver"])
    m.pwr = d["pwr"]
    m.burst = bytearray(d["burst"]["bits"]) if d["burst"]["has"] else None
    return m


def mk_rx(d):
    m = data_msg.RxMsg(fn=d["fn"], tn=d["tn"], ver=d["ver"])
    m.rssi = d["rssi"]
    m.toa256 = d["toa"]
    if d["ver"] >= 1:
        m.nope_ind = d["nope"]
        m.mod_type = MODOF[d["mod"]]
        m.tsc_set = d["tscset"]
        m.tsc = d["tsc"]
        m.ci = d["ci"]
    m.burst = array("b", d["burst"]["bits"]) if d["burst"]["has"] else None
    return m


# ------------------------------------------------------------------ generators
def pick_edge(rng, lo, hi, extra=()):
    r = rng.random()
    if r < 0.25:
        return rng.choice([lo, hi, lo + 1, hi - 1] + list(extra))
    return rng.randint(lo, hi)


def rand_bits(rng, n):
    style = rng.random()
    if style < 0.1:
        return [0] * n
    if style < 0.2:
        return [1] * n
    if style < 0.3:
        return [i % 2 for i in range(n)]
    if style < 0.4:
        k = rng.randrange(n)
        return [1 if i == k else 0 for i in range(n)]
    x = rng.getrandbits(n)
    return [(x >> i) & 1 for i in range(n)]


def rand_soft(rng, n):
    style = rng.random()
    if style < 0.1:
        return [rng.choice([-127, 127, 0, -1, 1, -126, 126])] * n
    if style < 0.25:
        return [rng.choice([-127, 127]) for _ in range(n)]
    if style < 0.35:
        k = rng.randrange(n)
        return [-127 if i == k else 127 for i in range(n)]
    return [rng.randint(-127, 127) for _ in range(n)]


def rand_tx(rng):
    fn = pick_edge(rng, 0, HYPER - 1, (255, 256, 65535, 65536, 16777215 % HYPER))
    n = rng.choice([GB, GB, 3 * GB])
    return dict(cls="tx", ver=rng.choice([0, 1]), fn=fn, tn=rng.randint(0, 7),
                pwr=pick_edge(rng, 0, 255), burst=dict(has=True, bits=rand_bits(rng, n)))


def rand_rx(rng):
    ver = rng.choice([0, 1])
    fn = pick_edge(rng, 0, HYPER - 1, (255, 256, 65535, 65536))
    d = dict(cls="rx", ver=ver, fn=fn, tn=rng.randint(0, 7), rssi=pick_edge(rng, -120, -47),
             toa=pick_edge(rng, -32768, 32767, (-1, 0, 1, 255, 256, -256, -257)))
    if ver == 0:
        n = rng.choice([GB, GB, 3 * GB])
        d["burst"] = dict(has=True, bits=rand_soft(rng, n))
    else:
        nope = rng.random() < 0.15
        mod = rng.choice(sorted(MODK))
        d.update(nope=nope, mod=mod, tscset=rng.randint(0, 3 if mod == "GMSK" else 1),
                 tsc=rng.randint(0, 7), ci=pick_edge(rng, -1280, 1280, (-1, 0, 1, 255, 256, -256)))
        d["burst"] = dict(has=False, bits=[]) if nope else dict(has=True, bits=rand_soft(rng, MODK[mod] * GB))
    return d


_TWICE = [0]


def enc_record(rid, d, legacy):
    """Encode with the real gen_msg, decode the result with the real parse_msg."""
    m = mk_tx(d) if d["cls"] == "tx" else mk_rx(d)
    rec = dict(id=rid, e="enc", cls=d["cls"], m=d, legacy=bool(legacy))
    try:
        raw = m.gen_msg(legacy)
        if _TWICE[0] % 2:
            raw = m.gen_msg(legacy)       # encoding leaves the message as it was: the second encoding is the same
        _TWICE[0] += 1
    except Exception as e:       # a valid message must encode
        rec.update(raw=[], err=type(e).__name__, dec=dict(ok=False))
        return rec, None
    rec["raw"] = list(raw)
    rec["err"] = ""
    rec["dec"] = parse_any(d["cls"], bytes(raw))
    return rec, bytes(raw)


def acc_record(rid, d, legacy):
    """A candidate outside the documented ranges: a record only if the toolkit's own validate()
    accepts it (then it must survive encode/decode like every message the toolkit calls valid)."""
    m = mk_tx(d) if d["cls"] == "tx" else mk_rx(d)
    try:
        m.validate()
    except Exception:
        return None
    rec = dict(id=rid, e="acc", cls=d["cls"], m=d, legacy=bool(legacy))
    try:
        raw = m.gen_msg(legacy)
    except Exception as e:
        rec.update(raw=[], err=type(e).__name__, dec=dict(ok=False))
        return rec
    rec.update(raw=list(raw), err="", dec=parse_any(d["cls"], bytes(raw)))
    return rec


def poison(m, rng):
    """Make the next gen_msg() of this object fail after validation (a burst the encoder cannot
    convert); returns a function that undoes it."""
    old = m.burst
    n = len(old) if old is not None else GB
    if isinstance(m, data_msg.TxMsg):
        m.burst = [0] * (n - 1) + [rng.choice([256, 999, -1])]
    else:
        m.burst = rng.choice([[0] * (n - 1) + ["x"], [0] * (n - 1) + [None], [0] * (n - 1) + [10 ** 6]])

    def undo():
        m.burst = None
    return undo


def assign(m, d):
    """Bring an existing message object to the field values of d by plain assignment;
    a burst of the same length is changed in place."""
    m.ver, m.fn, m.tn = d["ver"], d["fn"], d["tn"]
    new = d["burst"]["bits"] if d["burst"]["has"] else None
    if d["cls"] == "tx":
        m.pwr = d["pwr"]
        if new is not None and m.burst is not None and len(m.burst) == len(new):
            for i, b in enumerate(new):
                m.burst[i] = b
        else:
            m.burst = bytearray(new) if new is not None else None
    else:
        m.rssi, m.toa256 = d["rssi"], d["toa"]
        if d["ver"] >= 1:
            m.nope_ind, m.mod_type, m.tsc_set, m.tsc, m.ci = d["nope"], MODOF[d["mod"]], d["tscset"], d["tsc"], d["ci"]
        if new is not None and m.burst is not None and len(m.burst) == len(new):
            for i, b in enumerate(new):
                m.burst[i] = b
        else:
            m.burst = array("b", new) if new is not None else None


_DECODERS = {}


def parse_reused(cls, raw):
    """Parse with a long-lived decoder object (one per class), as a tool that keeps
    one message object around would."""
    m = _DECODERS.get(cls)
    if m is None:
        m = _DECODERS[cls] = data_msg.TxMsg() if cls == "tx" else data_msg.RxMsg()
    try:
        m.parse_msg(bytearray(raw))
    except ValueError:
        return dict(ok=False, exc="ValueError")
    except Exception as e:
        return dict(ok=False, exc=type(e).__name__)
    return dict(ok=True, exc="", m=tx_decoded(m) if cls == "tx" else rx_decoded(m))


def enc_record_reused(rid, m, d, legacy):
    """Re-encode an existing message object after its fields were re-assigned to d."""
    assign(m, d)
    rec = dict(id=rid, e="enc", cls=d["cls"], m=d, legacy=bool(legacy), reused=True)
    try:
        raw = m.gen_msg(legacy)
    except Exception as e:
        rec.update(raw=[], err=type(e).__name__, dec=dict(ok=False))
        return rec
    rec["raw"] = list(raw)
    rec["err"] = ""
    # a receiver that post-processes a decoded burst in place, then meets the same octets again:
    # what it decodes the second time is still what the octets say
    parse_reused(d["cls"], bytes(raw))
    dm = _DECODERS.get(d["cls"])
    if dm is not None and dm.burst is not None:
        try:
            for i in range(0, len(dm.burst), 3):
                dm.burst[i] = 1 if d["cls"] == "tx" else -5
        except Exception:
            pass
    rec["dec"] = parse_reused(d["cls"], bytes(raw))
    return rec


def reenc_record(rid, d, legacy1, legacy2):
    """A message that came out of parse_msg() is encoded again (what a forwarder / sniffer / dump tool
    does): the octets are those of the layout for its values, whatever the first datagram looked like."""
    m = mk_tx(d) if d["cls"] == "tx" else mk_rx(d)
    try:
        raw1 = m.gen_msg(legacy1)
        m2 = data_msg.TxMsg() if d["cls"] == "tx" else data_msg.RxMsg()
        m2.parse_msg(bytearray(raw1))
    except Exception:
        return None                       # judged by the plain enc records
    rec = dict(id=rid, e="enc", cls=d["cls"], m=d, legacy=bool(legacy2), reused=True)
    try:
        raw = m2.gen_msg(legacy2)
    except Exception as e:
        rec.update(raw=[], err=type(e).__name__, dec=dict(ok=False))
        return rec
    rec["raw"] = list(raw)
    rec["err"] = ""
    rec["dec"] = parse_any(d["cls"], bytes(raw))
    return rec


def parse_any(cls, raw):
    m = data_msg.TxMsg() if cls == "tx" else data_msg.RxMsg()
    try:
        m.parse_msg(bytearray(raw))
    except ValueError:
        return dict(ok=False, exc="ValueError")
    except Exception as e:
        return dict(ok=False, exc=type(e).__name__)
    return dict(ok=True, exc="", m=tx_decoded(m) if cls == "tx" else rx_decoded(m))


def dec_record(rid, cls, raw):
    return dict(id=rid, e="dec", cls=cls, raw=list(raw), dec=parse_any(cls, raw))


def mutate(rng, raw):
    """Mutations of a valid datagram for the parser side of C04."""
    b = bytearray(raw)
    r = rng.random()
    if r < 0.25 and len(b) > 0:
        return bytes(b[:rng.randint(0, len(b))])
    if r < 0.45:
        return bytes(b + bytes(rng.randrange(256) for _ in range(rng.choice([1, 2, 3, 148, 296]))))
    if r < 0.7 and len(b) > 0:
        for _ in range(rng.randint(1, 4)):
            i = rng.randrange(min(len(b), 12)) if rng.random() < 0.7 else rng.randrange(len(b))
            b[i] ^= 1 << rng.randrange(8)
        return bytes(b)
    if r < 0.8 and len(b) > 0:
        b[0] = (rng.randrange(16) << 4) | (b[0] & 0x0f)
        return bytes(b)
    return bytes(rng.randrange(256) for _ in range(rng.choice([0, 1, 4, 5, 6, 7, 8, 10, 11, 12, 154, 156, 159, 161])))
