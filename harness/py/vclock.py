"""Virtual time for trx_toolkit/clck_gen.py (property C09).

The real module is imported fresh from <toolkit>/clck_gen.py; two of its
module attributes are replaced:

  clck_gen.time       -> FakeTime: monotonic_ns() reads the virtual clock
  clck_gen.threading  -> FakeThreading: Thread.start() runs the target
                         synchronously (so CLCKGen.start() returns when the
                         real _worker() loop has left through its `break`);
                         Event.wait(dt) advances the virtual clock and returns
                         True at the point where the script says "stop() is
                         called by another thread here".

Nothing of CLCKGen is re-implemented: start(), stop(), _worker() and
send_clck_ind() are the code's own.  The rig only
  * serves the clock,
  * installs the clock handler (which consumes the scripted duration),
  * provides fake links whose send() records the octets a UDPLink would put
    on the wire (payload.encode()),
  * turns "time overrun" warnings into events.

A script is
  {"id": str, "t0": ns, "epochs": [
      {"pause": ns, "fn": clck_start, "period": ind_period, "links": [ids],
       "durs": [ns, ...],          # handler duration per tick; the wait after
                                   # the last one returns True (stop)
       "stop": [num, den],         # part of that wait that elapses first
       "relink": {"<tick index>": [ids]}}]}   # handler replaces clck_links
and the result the trace {"id", "cfg": {"T": first interval in ns}, "ev": [...]}.
"""
import importlib
import logging
import sys
import types

VT_LIMIT = 1800 * 1000 * 1000      # force a stop beyond this virtual time (JSON/TLC ints are 32 bit)
MAX_STEP = 300 * 1000 * 1000       # largest single handler duration / pause a script may ask for


class RigError(Exception):
    """The code under test did something the stand-ins cannot represent."""


class Rig:
    def __init__(self, t0=0, max_waits=2000):
        self.ns = t0
        self.ev = []
        self.T = None              # the code's own first interval
        self.nwaits = 0
        self.max_waits = max_waits
        self.on_wait = None        # callable(dt_ns) -> (advance_ns, stop)
        self.anomalies = []
        self.threads_started = 0

    def log(self, e, **kw):
        d = dict(e=e)
        d.update(kw)
        self.ev.append(d)


class FakeTime:
    """Stand-in for the `time` module as seen by clck_gen."""

    def __init__(self, rig):
        self._rig = rig

    def monotonic_ns(self):
        return self._rig.ns

    def monotonic(self):
        return self._rig.ns * 1e-9

    def time(self):
        return self._rig.ns * 1e-9

    def sleep(self, s):
        self._rig.ns += max(0, round(s * 1e9))


def to_ns(timeout, rig):
    """Event.wait() gets float seconds = ns * 1e-9; recover the integer."""
    x = timeout * 1e9
    n = round(x)
    if abs(x - n) > 1e-3:
        rig.anomalies.append("wait-timeout-not-integral-ns:%r" % (timeout,))
    return n


def make_threading(rig):
    class Event:
        def __init__(self):
            self._flag = False

        def is_set(self):
            return self._flag

        isSet = is_set

        def set(self):
            self._flag = True

        def clear(self):
            self._flag = False

        def wait(self, timeout=None):
            rig.nwaits += 1
            if rig.nwaits > rig.max_waits:
                raise RigError("runaway: more than %d waits" % rig.max_waits)
            if self._flag:
                return True
            if timeout is None:
                raise RigError("Event.wait() without timeout would block forever")
            dt = to_ns(timeout, rig)
            if rig.T is None:
                rig.T = dt
            if dt < 0:
                dt = 0                       # threading.Event.wait: a negative timeout does not block
            adv, stop = rig.on_wait(dt)
            rig.ns += adv
            if stop:
                # another thread's stop() has executed self._breaker.set() by now
                self._flag = True
                rig.log("stop", vt=rig.ns)
                return True
            return False

    class Thread:
        def __init__(self, group=None, target=None, name=None, args=(), kwargs=None, daemon=None):
            self._target = target
            self._args = args
            self._kwargs = kwargs or {}
            self.daemon = daemon
            self.name = name or "vthread"
            self._started = False
            self._alive = False

        def start(self):
            if self._started:
                raise RuntimeError("threads can only be started once")
            self._started = True
            self._alive = True
            rig.threads_started += 1
            try:
                if self._target is not None:
                    self._target(*self._args, **self._kwargs)
            finally:
                self._alive = False

        def join(self, timeout=None):
            if self._alive:
                raise RigError("join() of the running virtual thread")

        def is_alive(self):
            return self._alive

    mod = types.ModuleType("threading(virtual)")
    mod.Event = Event
    mod.Thread = Thread
    return mod


class FakeLink:
    def __init__(self, rig, ident):
        self.rig = rig
        self.ident = ident

    def send(self, payload):
        raw = payload.encode() if isinstance(payload, str) else bytes(payload)
        self.rig.log("ind", link=self.ident, raw=list(raw), vt=self.rig.ns)

    def sendto(self, payload, remote):
        self.send(payload)


class _Overruns(logging.Handler):
    def __init__(self, rig):
        super().__init__(level=logging.WARNING)
        self.rig = rig

    def emit(self, record):
        try:
            msg = record.getMessage()
        except Exception:
            msg = str(record.msg)
        if "overrun" in msg:
            self.rig.log("overrun", vt=self.rig.ns)


def load_clck_gen(toolkit):
    """Import clck_gen (and what it imports) fresh from `toolkit`."""
    for name in ("clck_gen", "app_common", "udp_link", "gsm_shared"):
        sys.modules.pop(name, None)
    if sys.path[0] != toolkit:
        sys.path.insert(0, toolkit)
    importlib.invalidate_caches()
    mod = importlib.import_module("clck_gen")
    got = getattr(mod, "__file__", "")
    if not got.startswith(toolkit):
        raise RigError("clck_gen imported from %s, expected %s" % (got, toolkit))
    return mod


def run_script(mod, script):
    """Execute one script against the real CLCKGen on virtual time."""
    rig = Rig(t0=script.get("t0", 0))
    saved = (mod.time, mod.threading)
    mod.time = FakeTime(rig)
    mod.threading = make_threading(rig)
    root = logging.getLogger()
    h = _Overruns(rig)
    root.addHandler(h)
    old_level = root.level
    if root.level > logging.WARNING or root.level == logging.NOTSET:
        root.setLevel(logging.WARNING)
    crash = None
    try:
        pool = {}

        def link(i):
            if i not in pool:
                pool[i] = FakeLink(rig, i)
            return pool[i]

        first = script["epochs"][0]
        gen = mod.CLCKGen([link(i) for i in first["links"]], clck_start=first["fn"],
                          ind_period=first["period"])
        state = dict(ep=None, i=0)

        def handler(fn):
            ep = state["ep"]
            i = state["i"]
            state["i"] = i + 1
            if i > len(ep["durs"]) + 2:
                raise RigError("runaway: handler still called after stop()")
            dur = ep["durs"][i] if i < len(ep["durs"]) else 0
            rig.log("tick", fn=fn, vt=rig.ns, dur=dur)
            rig.ns += dur
            new = ep.get("relink", {}).get(str(i))
            if new is not None:
                gen.clck_links[:] = [link(x) for x in new]
                rig.log("links", links=list(new))

        def on_wait(dt):
            ep = state["ep"]
            if state["i"] >= len(ep["durs"]) or rig.ns > VT_LIMIT:
                num, den = ep.get("stop", [1, 1])
                return (dt * num) // den, True
            return dt, False

        rig.on_wait = on_wait
        gen.clck_handler = handler
        for n, ep in enumerate(script["epochs"]):
            state["ep"] = ep
            state["i"] = 0
            rig.ns += ep.get("pause", 0)
            if n > 0:
                gen.clck_start = ep["fn"]
                gen.ind_period = ep["period"]
                gen.clck_links[:] = [link(x) for x in ep["links"]]
            rig.log("start", vt=rig.ns, fn=gen.clck_start, period=gen.ind_period,
                    links=[getattr(x, "ident", -1) for x in gen.clck_links])
            gen.start()              # the real start(): runs the real _worker() until its break
            if gen.running:
                rig.anomalies.append("running-after-worker-exit")
            gen.stop()               # the real stop(): set, join, reset
            # (private attributes, read by name when they exist: a stop() that does not reset also shows
            # in the next epoch, which start() then refuses)
            th, br = getattr(gen, "_thread", None), getattr(gen, "_breaker", None)
            if th is not None or (br is not None and br.is_set()):
                rig.anomalies.append("stop-did-not-reset")
            if rig.ns > VT_LIMIT:
                break
    except Exception as e:                       # noqa: the code under test may be a mutant
        crash = "%s: %s" % (type(e).__name__, e)
    finally:
        root.removeHandler(h)
        root.setLevel(old_level)
        mod.time, mod.threading = saved
    tr = dict(id=script["id"], cfg=dict(T=rig.T if rig.T is not None else -1), ev=rig.ev)
    return tr, crash, rig.anomalies


def calibrate(mod):
    """The code's own frame interval: the first timeout it hands to wait()."""
    tr, crash, _ = run_script(mod, dict(id="cal", t0=0, epochs=[
        dict(pause=0, fn=0, period=1, links=[], durs=[0], stop=[0, 1])]))
    if crash:
        raise RigError("calibration run crashed: %s" % crash)
    return tr["cfg"]["T"]


if __name__ == "__main__":
    import json
    toolkit = sys.argv[1]
    m = load_clck_gen(toolkit)
    out = []
    for s in json.load(sys.stdin):
        tr, crash, anomalies = run_script(m, s)
        out.append(dict(trace=tr, crash=crash, anomalies=anomalies))
    json.dump(out, sys.stdout)


def run_long(mod, start_fn, period, nticks, every=256, windows=()):
    """A very long uninterrupted run of the real worker (more than one hyperframe of ticks) on
    virtual time with an instantaneous handler.  Logged sparsely: every `every`-th tick, every
    tick inside the given windows of tick indices, every indication and every overrun warning;
    a logged tick carries the number of ticks (k) and the virtual time (dt, ns) since the
    previously logged tick, so all numbers stay small."""
    rig = Rig(t0=0, max_waits=nticks + 10)
    saved = (mod.time, mod.threading)
    mod.time = FakeTime(rig)
    mod.threading = make_threading(rig)
    root = logging.getLogger()
    state = dict(i=0, last_i=0, last_ns=0, ind=0)
    ev = []

    class Warn(logging.Handler):
        def emit(self, record):
            try:
                msg = record.getMessage()
            except Exception:
                msg = str(record.msg)
            if "overrun" in msg:
                ev.append(dict(e="overrun", i=state["i"] % (2 ** 30)))
    h = Warn(level=logging.WARNING)
    root.addHandler(h)
    old_level = root.level
    if root.level > logging.WARNING or root.level == logging.NOTSET:
        root.setLevel(logging.WARNING)

    class Link:
        def send(self, payload):
            raw = payload.encode() if isinstance(payload, str) else bytes(payload)
            state["ind"] += 1
            state["last_ind"] = list(raw)

        def sendto(self, payload, remote):
            self.send(payload)

    wins = sorted(windows)

    def in_window(i):
        for lo, hi in wins:
            if lo <= i <= hi:
                return True
        return False

    crash = None
    try:
        gen = mod.CLCKGen([Link()], clck_start=start_fn, ind_period=period)

        def handler(fn):
            i = state["i"]
            if i % every == 0 or in_window(i):
                ev.append(dict(e="tick", fn=fn, k=i - state["last_i"], dt=rig.ns - state["last_ns"],
                               inds=state["ind"], first=(i == 0)))
                state["last_i"], state["last_ns"], state["ind"] = i, rig.ns, 0
            state["i"] = i + 1
        gen.clck_handler = handler

        def on_wait(dt):
            if state["i"] >= nticks:
                return 0, True
            return dt, False
        rig.on_wait = on_wait
        gen.start()
        try:
            gen.stop()
        except Exception:
            pass
    except RigError:
        raise
    except Exception as e:
        crash = "%s: %s" % (type(e).__name__, e)
    finally:
        root.removeHandler(h)
        root.setLevel(old_level)
        mod.time, mod.threading = saved
    return dict(ev=ev, crash=crash, ticks=state["i"], T=rig.T)
