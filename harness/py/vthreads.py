"""Virtual threads for trx_toolkit/clck_gen.py (property C09, two-thread view).

harness/py/vclock.py runs CLCKGen._worker() synchronously inside Thread.start()
and lets stop() happen only while the worker sleeps.  In the application
stop() is called by ANOTHER thread and may arrive at any instant, also while the
worker is inside the frame handler.  This rig is a deterministic discrete-event
simulator for exactly that:

  * the REAL start() / stop() / _worker() / send_clck_ind() run on real Python
    threads (one per Thread.start() of the code, plus the controller = the
    calling thread), exactly ONE of which executes at any time (baton passing
    over semaphores), under a virtual monotonic clock (integer ns);
  * two module attributes of the freshly imported clck_gen are replaced:
      clck_gen.time       -> monotonic_ns / monotonic / time / sleep on the virtual clock
      clck_gen.threading  -> Event (wait(timeout) returns True as soon as the event is
                             set, else False after `timeout` of virtual time; set /
                             clear / is_set), Thread (start spawns a simulated thread,
                             join(timeout=None) blocks until the target finished or the
                             virtual timeout elapsed, is_alive)
    every blocking point hands control to the scheduler;
  * the scheduler always resumes the blocked thread with the earliest wake-up
    instant (an event that is set / a thread that finished wakes its waiters at
    the current instant); ties are broken by a fixed priority: the controller
    first or last (script["tie"]), then workers in the order they were started.
    Code between two blocking points takes no virtual time.  Nothing depends on
    real time: a run is reproducible event for event;
  * the frame handler installed by the rig consumes a scripted virtual duration
    (a blocking point too) and logs the call and its return;
  * runaway guards: cap on virtual time and on the number of blocking calls,
    deadlock detection, daemon threads, and a real-time watchdog on the
    controller's semaphore (Stuck: the simulation itself hangs - a machinery
    failure for the caller, never a hang).

Nothing of CLCKGen is re-implemented.

A script:
  {"id": str, "t0": ns, "tie": "ctl-first" | "ctl-last", "tail": ns,
   "ops": [op, ...]}
  op = {"op": "start", <when>, "fn": clck_start, "period": ind_period, "links": [ids],
        "durs": [ns, ...], "dflt": ns}      # handler duration per tick of this epoch
     | {"op": "stop", <when>}
     | {"op": "links", <when>, "links": [ids]}
  <when> = "at": absolute virtual ns | "dt": ns after the previous op completed
         | "tick": k, "off": ns   (ns after the k-th handler call since the last start)
  an instant already past means "now".  After the last op the controller idles
  for "tail" ns (a zombie shows itself), then the simulation is torn down.

Result: the trace {"id", "cfg": {"T": first timeout handed to Event.wait(), ns}, "ev": [...]}
(events: see spec/ClckGenThreadsTrace.tla), a crash description or None, anomalies.
"""
import importlib
import sys
import threading as _rt
import types

VT_LIMIT = 1800 * 1000 * 1000      # virtual ns (JSON / TLC integers are 32 bit)
MAX_BLOCKS = 20000                 # blocking calls per run
WATCHDOG_S = 60.0                  # real seconds the controller waits for the baton


class RigError(Exception):
    """The code under test did something the stand-ins cannot represent."""


class Stuck(RigError):
    """The simulation itself does not make progress (real-time watchdog)."""


class _Shutdown(BaseException):
    """Raised inside a simulated thread when the simulation is torn down."""


class _Abort(Exception):
    """Raised in the controller when the simulation cannot continue."""


class _Task:
    def __init__(self, name, prio, wid):
        self.name = name
        self.prio = prio
        self.wid = wid                  # 0 = controller, 1.. = order of Thread.start()
        self.sem = _rt.Semaphore(0)
        self.blocked = False
        self.done = False
        self.kill = False
        self.deadline = None            # None = no timeout
        self.cond = None
        self.thread = None
        self.finished = _rt.Event()


class Sim:
    def __init__(self, t0=0, tie="ctl-first", vt_limit=VT_LIMIT, max_blocks=MAX_BLOCKS, watchdog=WATCHDOG_S):
        self.now = t0
        self.vt_limit = vt_limit
        self.max_blocks = max_blocks
        self.watchdog = watchdog
        self.main = _Task("controller", 0 if tie == "ctl-first" else 1000000, 0)
        self.main.thread = _rt.current_thread()
        self.current = self.main
        self.tasks = [self.main]
        self.nworkers = 0
        self.nblocks = 0
        self.abort = None
        self.down = False
        self.crashes = []
        self.leaked = 0
        self.on_exit = None             # callable(task): a simulated thread's target returned

    # ---- scheduling -----------------------------------------------------------
    def _pick(self):
        best = None
        for t in self.tasks:
            if t.done or not t.blocked:
                continue
            if t.cond is not None and t.cond():
                ready = self.now
            elif t.deadline is None:
                continue
            else:
                ready = max(t.deadline, self.now)
            key = (ready, t.prio)
            if best is None or key < best[0]:
                best = (key, t)
        return best

    def _give_up(self, me, reason):
        """The simulation cannot continue: the controller gets the baton and is told."""
        if self.abort is None:
            self.abort = reason
        me.blocked = False
        if me is self.main:
            raise _Abort(reason)
        self.current = self.main
        self.main.blocked = False
        self.main.sem.release()
        if me.done:
            return None                 # a thread that just finished: nothing to park
        me.sem.acquire()                # parked until the tear-down
        raise _Shutdown()

    def _pass_baton(self, me):
        """Resume the task that is due next; returns it (it may be `me`)."""
        nxt = self._pick()
        if nxt is None:
            return self._give_up(me, "deadlock")
        (when, _), t = nxt
        if when > self.vt_limit:
            return self._give_up(me, "vt-limit")
        self.now = when
        t.blocked = False
        self.current = t
        if t is not me:
            t.sem.release()
        return t

    def block(self, deadline, cond=None):
        """Block the calling simulated thread until `deadline` (None: for ever) or until cond() holds."""
        me = self.current
        if _rt.current_thread() is not me.thread:
            raise RigError("blocking call from a thread that does not hold the baton")
        if self.down or me.kill:
            raise _Shutdown()
        self.nblocks += 1
        if self.nblocks > self.max_blocks:
            self._give_up(me, "event-cap")
        me.deadline = deadline
        me.cond = cond
        me.blocked = True
        if self._pass_baton(me) is me:
            return
        if me is self.main:
            if not me.sem.acquire(timeout=self.watchdog):
                self.down = True
                raise Stuck("no simulated thread reached a blocking point within %.0f s of real time" % self.watchdog)
            if self.abort is not None:
                me.blocked = False
                raise _Abort(self.abort)
        else:
            me.sem.acquire()
            if me.kill:
                raise _Shutdown()

    def sleep_ns(self, ns):
        self.block(self.now + max(0, int(ns)))

    def sleep_until(self, t):
        if t > self.now:
            self.block(int(t))

    def spawn(self, name, fn):
        self.nworkers += 1
        task = _Task(name, 10 + self.nworkers, self.nworkers)
        task.blocked = True
        task.deadline = self.now            # runnable at once, after whoever is running blocks
        self.tasks.append(task)

        def run():
            task.sem.acquire()
            try:
                if not task.kill:
                    fn()
                    if not self.down and self.on_exit is not None:
                        self.on_exit(task)
            except _Shutdown:
                pass
            except BaseException as e:      # noqa: the code under test may be a mutant
                if not self.down:
                    self.crashes.append("worker-%d %s: %s" % (task.wid, type(e).__name__, e))
                    if self.on_exit is not None:
                        self.on_exit(task)
            finally:
                task.done = True
                task.blocked = False
                if not self.down and not task.kill:
                    try:
                        self._pass_baton(task)
                    except _Shutdown:
                        pass
                task.finished.set()

        th = _rt.Thread(target=run, name="vthread-" + name)
        th.daemon = True
        task.thread = th
        th.start()
        return task

    def shutdown(self):
        """Tear down: every simulated thread still alive is unwound, one at a time."""
        self.down = True
        for t in self.tasks:
            if t is self.main or t.done:
                continue
            t.kill = True
            t.sem.release()
            if not t.finished.wait(10.0):
                self.leaked += 1


def to_ns(timeout, anomalies):
    """Timeouts arrive as float seconds = ns * 1e-9; recover the integer."""
    x = timeout * 1e9
    n = round(x)
    if abs(x - n) > 1e-3:
        anomalies.append("wait-timeout-not-integral-ns:%r" % (timeout,))
    return n


class Rig:
    def __init__(self, sim):
        self.sim = sim
        self.ev = []
        self.T = None                   # the first timeout a worker hands to Event.wait() (or time.sleep())
        self.anomalies = []

    def log(self, e, **kw):
        d = dict(e=e, t=self.sim.now)
        d.update(kw)
        self.ev.append(d)


def make_time(rig):
    sim = rig.sim
    mod = types.ModuleType("time(virtual)")
    mod.monotonic_ns = lambda: sim.now
    mod.perf_counter_ns = lambda: sim.now
    mod.time_ns = lambda: sim.now
    mod.monotonic = lambda: sim.now * 1e-9
    mod.perf_counter = lambda: sim.now * 1e-9
    mod.time = lambda: sim.now * 1e-9

    def sleep(s):
        dt = to_ns(s, rig.anomalies)
        if rig.T is None and sim.current.wid > 0:
            rig.T = dt                  # a worker that paces itself with sleep() instead of Event.wait()
        sim.sleep_ns(dt)
    mod.sleep = sleep
    return mod


def make_threading(rig):
    sim = rig.sim

    class Event:
        def __init__(self):
            self._flag = False

        def is_set(self):
            return self._flag

        isSet = is_set

        def set(self):
            self._flag = True           # waiters become runnable at the current instant

        def clear(self):
            self._flag = False

        def wait(self, timeout=None):
            if timeout is None:
                deadline = None
            else:
                dt = to_ns(timeout, rig.anomalies)
                if rig.T is None and sim.current.wid > 0:
                    rig.T = dt
                deadline = sim.now + max(0, dt)     # a negative timeout does not block
            if self._flag:
                return True
            sim.block(deadline, lambda: self._flag)
            return self._flag

    class Thread:
        def __init__(self, group=None, target=None, name=None, args=(), kwargs=None, daemon=None):
            self._target = target
            self._args = args
            self._kwargs = kwargs or {}
            self.daemon = daemon
            self.name = name or "vthread"
            self._task = None

        def run(self):
            if self._target is not None:
                self._target(*self._args, **self._kwargs)

        def start(self):
            if self._task is not None:
                raise RuntimeError("threads can only be started once")
            self._task = sim.spawn(self.name, self.run)

        def join(self, timeout=None):
            if self._task is None:
                raise RuntimeError("cannot join thread before it is started")
            if self._task is sim.current:
                raise RuntimeError("cannot join current thread")
            if self._task.done:
                return
            deadline = None if timeout is None else sim.now + max(0, to_ns(timeout, rig.anomalies))
            task = self._task
            sim.block(deadline, lambda: task.done)

        def is_alive(self):
            return self._task is not None and not self._task.done

        isAlive = is_alive

        @property
        def ident(self):
            return None if self._task is None else self._task.wid

    mod = types.ModuleType("threading(virtual)")
    mod.Event = Event
    mod.Thread = Thread
    return mod


def num(x):
    """Projection of a value the code handed out to a JSON/TLC integer."""
    if isinstance(x, bool) or not isinstance(x, int) or not (-2 ** 31 < x < 2 ** 31):
        return -1
    return x


class FakeLink:
    def __init__(self, rig, ident):
        self.rig = rig
        self.ident = ident

    def send(self, payload):
        raw = payload.encode() if isinstance(payload, str) else bytes(payload)
        self.rig.log("ind", worker=self.rig.sim.current.wid, link=self.ident, raw=list(raw))

    def sendto(self, payload, remote):
        self.send(payload)


def load_clck_gen(toolkit):
    """Import clck_gen (and what it imports) fresh from `toolkit`."""
    for name in ("clck_gen", "app_common", "udp_link", "gsm_shared"):
        sys.modules.pop(name, None)
    if sys.path[0] != toolkit:
        sys.path.insert(0, toolkit)
    importlib.invalidate_caches()
    mod = importlib.import_module("clck_gen")
    got = getattr(mod, "__file__", "")
    if not got.startswith(toolkit):
        raise RigError("clck_gen imported from %s, expected %s" % (got, toolkit))
    return mod


def run_script(mod, script, vt_limit=VT_LIMIT, max_blocks=MAX_BLOCKS, watchdog=WATCHDOG_S):
    """Execute one script against the real CLCKGen on simulated threads."""
    sim = Sim(t0=script.get("t0", 0), tie=script.get("tie", "ctl-first"), vt_limit=vt_limit,
              max_blocks=max_blocks, watchdog=watchdog)
    rig = Rig(sim)
    saved = (mod.time, mod.threading)
    mod.time = make_time(rig)
    mod.threading = make_threading(rig)
    crash = None
    state = dict(i=0, durs=[], dflt=0, tt=[])
    try:
        pool = {}

        def link(i):
            if i not in pool:
                pool[i] = FakeLink(rig, i)
            return pool[i]

        def handler(fn):
            w = sim.current.wid
            i = state["i"]
            state["i"] = i + 1
            dur = state["durs"][i] if i < len(state["durs"]) else state["dflt"]
            state["tt"].append(sim.now)
            rig.log("tick", worker=w, fn=num(fn), dur=dur)
            sim.block(sim.now + dur)
            rig.log("hret", worker=w)

        sim.on_exit = lambda task: rig.log("worker-exit", worker=task.wid)

        def goto(op):
            if "at" in op:
                sim.sleep_until(op["at"])
            elif "tick" in op:
                k = op["tick"]
                if len(state["tt"]) < k:
                    sim.block(None, lambda: len(state["tt"]) >= k)
                sim.sleep_until(state["tt"][k - 1] + op.get("off", 0))
            else:
                sim.sleep_ns(op.get("dt", 0))

        ops = script["ops"]
        first = next((o for o in ops if o["op"] == "start"), dict(links=[], fn=0, period=1))
        gen = mod.CLCKGen([link(i) for i in first["links"]], clck_start=first["fn"], ind_period=first["period"])
        gen.clck_handler = handler
        try:
            for op in ops:
                goto(op)
                if op["op"] == "start":
                    gen.clck_start = op["fn"]
                    gen.ind_period = op["period"]
                    gen.clck_links[:] = [link(x) for x in op["links"]]
                    state.update(i=0, durs=list(op.get("durs", [])), dflt=op.get("dflt", 0), tt=[])
                    rig.log("start-call", fn=num(gen.clck_start), period=num(gen.ind_period),
                            links=[getattr(x, "ident", -1) for x in gen.clck_links])
                    gen.start()
                elif op["op"] == "stop":
                    rig.log("stop-call")
                    gen.stop()
                    rig.log("stop-return", running=bool(gen.running))
                elif op["op"] == "links":
                    gen.clck_links[:] = [link(x) for x in op["links"]]
                    rig.log("links", links=list(op["links"]))
            sim.sleep_ns(script.get("tail", 0))
        except _Abort as e:
            rig.anomalies.append("sim-%s" % e)
        except Stuck:
            raise
        except Exception as e:                   # noqa: the code under test may be a mutant
            crash = "%s: %s" % (type(e).__name__, e)
        rig.log("end")
    finally:
        try:
            sim.shutdown()
        finally:
            mod.time, mod.threading = saved
    if sim.crashes and crash is None:
        crash = sim.crashes[0]
    if sim.leaked:
        rig.anomalies.append("threads-not-unwound:%d" % sim.leaked)
    tr = dict(id=script["id"], cfg=dict(T=rig.T if rig.T is not None else -1, workers=sim.nworkers,
                                         blocks=sim.nblocks), ev=rig.ev)
    return tr, crash, rig.anomalies


def calibrate(mod):
    """The code's own frame interval: the first timeout it hands to wait()."""
    tr, crash, _ = run_script(mod, dict(id="cal", t0=0, tie="ctl-first", tail=0, ops=[
        dict(op="start", at=0, fn=0, period=1, links=[], durs=[0], dflt=0),
        dict(op="stop", tick=1, off=1)]))
    if crash:
        raise RigError("calibration run crashed: %s" % crash)
    return tr["cfg"]["T"]


if __name__ == "__main__":
    import json
    toolkit = sys.argv[1]
    m = load_clck_gen(toolkit)
    out = []
    for s in json.load(sys.stdin):
        tr, crash, anomalies = run_script(m, s)
        out.append(dict(trace=tr, crash=crash, anomalies=anomalies))
    json.dump(out, sys.stdout)
