----------------------------- MODULE BurstSend -----------------------------
(* Growth beyond the listed properties: the capture replay tool burst_send.py
   on top of DataDump (reader) and TrxdPdu (codec).  Given a capture file and
   the command line (connection mode, --skip / --count, timeslot and frame
   number filters) the tool sends, in file order, one datagram per message of
   the selected slice that passes the filters, re-encoded without legacy
   padding, to base+2 (mode TRX; only L1 -> TRX messages) or base+102 (mode L1;
   only TRX -> L1 messages).  A skip beyond the capture sends nothing.       *)
EXTENDS DataDump

\* positions of the records the tool reads: parse_all(skip, count); -1 = absent
Selected(f, skip, count) == LET r == ParseAll(f, Len(f), skip, count) IN IF r.t = "list" THEN r.at ELSE <<>>

Cls(f, pos) == ClsOf(f[pos + 1])
FnAt(f, pos) == FromU32(SubSeq(f, pos + HdrLen + 2, pos + HdrLen + 5))     \* (frame numbers below 2^31)
TnAt(f, pos) == f[pos + HdrLen + 1] % 8

Passes(f, pos, a) ==
  /\ (a.mode = "TRX") = (Cls(f, pos) = "tx")
  /\ (a.tn >= 0 => TnAt(f, pos) = a.tn)
  /\ (a.fnlt >= 0 => FnAt(f, pos) <= a.fnlt)
  /\ (a.fngt >= 0 => FnAt(f, pos) >= a.fngt)

\* the datagrams: the stored message octets (dump_msg stores gen_msg() without
\* padding, and a parsed valid message re-encodes to the same octets)
Sent(f, a) == LET sel == SelectSeq(Selected(f, a.skip, a.count), LAMBDA p : Passes(f, p, a))
              IN [k \in 1..Len(sel) |-> Body(f, sel[k])]
Port(a) == IF a.mode = "TRX" THEN a.base + 2 ELSE a.base + 102
BindPort(a) == IF a.mode = "TRX" THEN a.base + 102 ELSE a.base + 2
=============================================================================
