SPECIFICATION TSpec
CONSTANTS
  GB = 148
POSTCONDITION Post
CHECK_DEADLOCK FALSE
