--------------------------- MODULE BurstSendTrace ---------------------------
(* One trace per capture file (cfg.file); events: run {args, outs:[{port, raw}],
   bind, rc} - one invocation of the real burst_send.Application.             *)
EXTENDS BurstSend, TraceKit

VARIABLE z
F == T.cfg.file
TRun ==
  /\ IsEv("run")
  /\ Tag("growth.burst_send.exit", Ev.rc = (IF ParseAll(F, Len(F), Ev.args.skip, Ev.args.count).t = "false" THEN 1 ELSE 0))
  /\ Tag("growth.burst_send.datagrams", [k \in 1..Len(Ev.outs) |-> Ev.outs[k].raw] = (IF Ev.rc = 0 THEN Sent(F, Ev.args) ELSE <<>>))
  /\ Tag("growth.burst_send.ports", Ev.bind = BindPort(Ev.args) /\ {k \in 1..Len(Ev.outs) : Ev.outs[k].port # Port(Ev.args)} = {})
  /\ UNCHANGED z /\ Adv
TInit == KInit /\ z = 0
TSpec == TInit /\ [][TRun]_<<z, kvars>>
Post == WriteVerdicts
=============================================================================
