------------------------------ MODULE ClckGen ------------------------------
(* C09 - the TDMA frame clock source (trx_toolkit/clck_gen.py, class CLCKGen).

   One action per phase of the code's loop:

     Start      start():   clck_src = clck_start ; _worker: t_next = monotonic_ns()
     LoopIter   t_next += t_tick ; dt = t_next - now ;
                if dt < 0: (overrun) t_next = now ; dt = 0
     WaitDone   _breaker.wait(dt) timed out after exactly dt
     WaitStop   _breaker.wait(dt) returned True after w <= dt  (stop() anywhere:
                w = 0 is "stop() was called while the handler ran")
     Tick       send_clck_ind(): period filter, payload to every link, handler
                (takes d), clck_src = (clck_src + 1) % GSM_HYPERFRAME
     Relink     a clock link is attached / detached between two ticks
                (transceiver.py does that while the generator runs)

   Time is the virtual monotonic clock `now`; it advances only in WaitDone /
   WaitStop (by the waited amount), in Tick (by the handler duration d) and
   while the generator is stopped (Start takes the time of the call).

   The C09 clauses are stated over HISTORY variables that record what an
   observer sees (handler calls with their time, octets sent on links), not
   over the loop variables, so they are not tautologies of the actions.

   NB: this module is EXTENDed together with TraceKit, which owns the names
   T, Ev, Tag, Adv, l, tid - hence FrameT for the frame period.            *)
EXTENDS Integers, Sequences, FiniteSets, TLC

CONSTANTS FrameT,      \* one TDMA frame period in clock units (the statement's 4.615 ms)
          H,           \* hyperframe (2715648; 3 in the exhaustive model so the wrap is explored)
          \* ---- environment of the closed model (MC / simulation only) ----
          Durations,   \* handler durations explored
          Starts,      \* configured start frames
          Periods,     \* indication periods
          LinkSets,    \* sequences of link ids
          Pauses,      \* time spent stopped before a start()
          Quotas,      \* stop() is not called before that many ticks of an epoch (shapes simulation; {0} = anywhere)
          MaxTicks, MaxEpochs, MaxRelinks

VARIABLES
  \* ---- the generator ----
  now,      \* virtual monotonic clock
  pc,       \* "off" | "top" | "wait" | "tick"
  tNext,    \* t_next: the absolute deadline
  dt,       \* the timeout handed to _breaker.wait()
  ov,       \* the last LoopIter took the overrun branch
  src,      \* clck_src
  startFn,  \* clck_start      } configuration in force
  period,   \* ind_period      }
  links,    \* clck_links (sequence of link ids)
  \* ---- history (observer's view) ----
  epoch,    \* number of start() calls so far
  t0,       \* time of the last start()
  ideal,    \* t0 + k * FrameT for the k handler calls of this epoch (kept incrementally)
  sched,    \* (last resynchronisation point: start or overrun tick) + (ticks since) * FrameT
  resynced, \* an overrun was observed in this epoch
  last,     \* the latest handler call of this epoch (k = 0: none yet)
  \* ---- bounds / replay script of the closed model ----
  nt, nrl,  \* ticks, relinks so far
  quota,    \* the environment's choice from Quotas for this epoch
  ops       \* the environment's choices, for spec -> code replay (hidden by VIEW)

gvars == <<now, pc, tNext, dt, ov, src, startFn, period, links>>
hvars == <<epoch, t0, ideal, sched, resynced, last>>
mvars == <<nt, nrl, quota, ops>>
vars  == <<gvars, hvars, mvars>>

\* VIEW for exhaustive checking.  Every action and every clause is invariant
\* under a shift of the time axis, so times are taken relative to `now`; a
\* history value is dropped once no clause can read it any more (t0 and ideal
\* after a resynchronisation, t0 not before the second tick), and the replay
\* script is not part of the state.  Checked on a small instance: the 35245
\* reachable states collapse to 1315 views and states with equal views have
\* equal sets of successor views (the count is the same for 1, 4, 8 workers).
MCView ==
  <<pc, tNext - now, dt, ov, src, startFn, period, links, epoch, resynced, nt, nrl, quota,
    IF last.k <= 1 \/ ~resynced THEN t0 - now ELSE 0,
    IF resynced THEN 0 ELSE ideal - now,
    sched - now,
    IF last.k = 0 THEN <<>>
    ELSE <<last.k, last.fn, last.t - now, last.end - now, last.sent, last.links,
           last.prevT - now, last.prevEnd - now>> >>

----------------------------------------------------------------------------
(* Octets of an indication: "IND CLOCK %u\0" *)
Prefix == <<73, 78, 68, 32, 67, 76, 79, 67, 75, 32>>      \* "IND CLOCK "

RECURSIVE Dec(_)                                           \* decimal rendering, no leading zeros
Dec(n) == IF n < 10 THEN <<48 + n>> ELSE Append(Dec(n \div 10), 48 + (n % 10))

Payload(fn) == Prefix \o Dec(fn) \o <<0>>

\* what send_clck_ind() puts on the links for the current frame, in list order
Sends == IF src % period = 0 THEN [i \in 1..Len(links) |-> <<links[i], Payload(src)>>] ELSE <<>>

NoTick == [k |-> 0, fn |-> 0, t |-> 0, end |-> 0, sent |-> <<>>, links |-> <<>>, prevT |-> 0, prevEnd |-> 0]

----------------------------------------------------------------------------
(* Actions of the generator *)

Start(tm, s, p, ls) ==
  /\ pc = "off" /\ tm >= now
  /\ now' = tm
  /\ startFn' = s /\ period' = p /\ links' = ls
  /\ src' = s                       \* start(): (re)set the clock counter
  /\ tNext' = tm                    \* _worker: t_next = time.monotonic_ns()
  /\ dt' = 0 /\ ov' = FALSE
  /\ pc' = "top"
  /\ epoch' = epoch + 1 /\ t0' = tm /\ ideal' = tm /\ sched' = tm /\ resynced' = FALSE /\ last' = NoTick

LoopIter ==
  /\ pc = "top"
  /\ LET tn == tNext + FrameT IN
       IF tn < now
       THEN /\ ov' = TRUE  /\ tNext' = now /\ dt' = 0          \* time overrun: reset the clock
       ELSE /\ ov' = FALSE /\ tNext' = tn  /\ dt' = tn - now
  /\ pc' = "wait"
  /\ UNCHANGED <<now, src, startFn, period, links, hvars>>

WaitDone ==
  /\ pc = "wait"
  /\ now' = now + dt
  /\ pc' = "tick"
  /\ UNCHANGED <<tNext, dt, ov, src, startFn, period, links, hvars>>

WaitStop(w) ==
  /\ pc = "wait" /\ w \in 0..dt
  /\ now' = now + w
  /\ pc' = "off"
  /\ UNCHANGED <<tNext, dt, ov, src, startFn, period, links, hvars>>

\* `snt` is what was put on the links in this tick (the model passes Sends, a
\* trace passes what was observed), d the time the handler takes.
Tick(d, snt) ==
  /\ pc = "tick"
  /\ LET obsOv == last.k > 0 /\ last.end > last.t + FrameT IN    \* observer's definition of an overrun
       /\ sched' = IF obsOv THEN now ELSE sched + FrameT
       /\ resynced' = (resynced \/ obsOv)
  /\ ideal' = ideal + FrameT
  /\ last' = [k |-> last.k + 1, fn |-> src, t |-> now, end |-> now + d, sent |-> snt, links |-> links,
              prevT |-> IF last.k = 0 THEN t0 ELSE last.t,
              prevEnd |-> IF last.k = 0 THEN t0 ELSE last.end]
  /\ now' = now + d
  /\ src' = (src + 1) % H
  /\ pc' = "top"
  /\ UNCHANGED <<tNext, dt, ov, startFn, period, links, epoch, t0>>

Relink(ls) ==
  /\ pc = "top"
  /\ links' = ls
  /\ UNCHANGED <<now, pc, tNext, dt, ov, src, startFn, period, hvars>>

----------------------------------------------------------------------------
(* Closed model: the environment chooses start frames, periods, link sets,
   handler durations, stop points (any wait, after any part of it), pauses. *)

Init ==
  /\ now = 0 /\ pc = "off" /\ tNext = 0 /\ dt = 0 /\ ov = FALSE /\ src = 0
  /\ startFn = 0 /\ period = 1 /\ links = <<>>
  /\ epoch = 0 /\ t0 = 0 /\ ideal = 0 /\ sched = 0 /\ resynced = FALSE /\ last = NoTick
  /\ nt = 0 /\ nrl = 0 /\ quota = 0 /\ ops = <<>>

EStart(pz, s, p, ls, q) ==
  /\ epoch < MaxEpochs /\ nt < MaxTicks
  /\ epoch > 0 => (p = period /\ ls = links)      \* restarts may change the start frame only
  /\ Start(now + pz, s, p, ls)
  /\ quota' = q
  /\ ops' = Append(ops, <<"start", pz, s, p, ls>>)
  /\ UNCHANGED <<nt, nrl>>

ETick(d) ==
  /\ nt < MaxTicks
  /\ Tick(d, Sends)
  /\ nt' = nt + 1
  /\ ops' = Append(ops, <<"tick", d>>)
  /\ UNCHANGED <<nrl, quota>>

EStop(w) ==
  /\ (last.k >= quota \/ nt >= MaxTicks)
  /\ WaitStop(w)
  /\ ops' = Append(ops, <<"stop", w, dt>>)
  /\ UNCHANGED <<nt, nrl, quota>>

ERelink(ls) ==
  /\ nrl < MaxRelinks /\ ls # links /\ last.k > 0
  /\ Relink(ls)
  /\ nrl' = nrl + 1
  /\ ops' = Append(ops, <<"links", ls>>)
  /\ UNCHANGED <<nt, quota>>

ELoop == LoopIter /\ UNCHANGED mvars
EWait == nt < MaxTicks /\ WaitDone /\ UNCHANGED mvars     \* at the tick bound only stop() remains

EStopAny == \E w \in 0..dt : EStop(w)

Running ==
  \/ ELoop
  \/ EWait
  \/ EStopAny
  \/ \E d \in Durations : ETick(d)
  \/ \E ls \in LinkSets : ERelink(ls)

Next ==
  \/ \E pz \in Pauses, s \in Starts, p \in Periods, ls \in LinkSets, q \in Quotas : EStart(pz, s, p, ls, q)
  \/ Running

Spec == Init /\ [][Next]_vars

\* For tlc -simulate only: the start parameters are drawn, not enumerated
\* (thousands of successors per start() otherwise).
SimNext ==
  \/ EStart(RandomElement(Pauses), RandomElement(Starts), RandomElement(Periods),
            RandomElement(LinkSets), RandomElement(Quotas))
  \/ Running
SimSpec == Init /\ [][SimNext]_vars

\* link sets of the closed models (a .cfg file cannot spell a tuple)
MCLinkSets  == {<<>>, <<1>>, <<1, 2>>}
SimLinkSets == {<<>>, <<1>>, <<1, 2>>, <<2, 3, 1>>, <<3>>}

----------------------------------------------------------------------------
(* C09 clauses *)

TypeOK ==
  /\ pc \in {"off", "top", "wait", "tick"}
  /\ now \in Nat /\ tNext \in Nat /\ dt \in Nat /\ src \in 0..H-1

\* Consecutive: the k-th handler call since start() carries start + (k-1) mod H.
Consecutive == last.k > 0 => last.fn = (startFn + last.k - 1) % H

\* RestartFromStart: whatever happened before, the first frame after (every)
\* start() is the configured start frame, one frame period after the call.
RestartFromStart == last.k = 1 => (last.fn = startFn /\ last.t = t0 + FrameT)

\* IndicationExact, stated by PARSING the octets (independent of Dec/Payload):
DecVal(s) == LET RECURSIVE V(_)
                 V(i) == IF i = 0 THEN 0 ELSE 10 * V(i - 1) + (s[i] - 48)
             IN V(Len(s))
WellFormedInd(raw, fn) ==
  LET n == Len(raw) IN
    /\ n >= Len(Prefix) + 2
    /\ SubSeq(raw, 1, Len(Prefix)) = Prefix
    /\ raw[n] = 0
    /\ LET ds == SubSeq(raw, Len(Prefix) + 1, n - 1) IN
         /\ {i \in 1..Len(ds) : ds[i] \notin 48..57} = {}
         /\ (Len(ds) > 1 => ds[1] # 48)
         /\ DecVal(ds) = fn
IndWhen  == last.k > 0 => ((last.sent # <<>>) <=> (last.fn % period = 0 /\ last.links # <<>>))
IndLinks == (last.k > 0 /\ last.fn % period = 0) =>
              /\ Len(last.sent) = Len(last.links)
              /\ \A i \in 1..Len(last.links) :
                    Cardinality({j \in 1..Len(last.sent) : last.sent[j][1] = last.links[i]}) = 1
IndOctets == last.k > 0 => \A j \in 1..Len(last.sent) : WellFormedInd(last.sent[j][2], last.fn)
IndicationExact == IndWhen /\ IndLinks /\ IndOctets

\* NoDrift: a tick happens at (last resynchronisation point) + (ticks since) * FrameT,
\* whatever the handlers took; without any overrun that is t0 + k * FrameT.
NoDrift == last.k > 0 => last.t = sched
NoDriftFromStart == (last.k > 0 /\ ~resynced) => (last.t = ideal /\ ideal = t0 + last.k * FrameT)

\* ResyncNoCatchUp: an overrun (the previous handler ended after the next
\* frame boundary) is answered by exactly one immediate tick, and two ticks
\* are never closer than one frame period: no burst of catch-up ticks, the
\* next deadline is that tick + FrameT.
MinSpacing      == last.k > 0 => last.t - last.prevT >= FrameT
ResyncImmediate == (last.k > 1 /\ last.prevEnd > last.prevT + FrameT) => last.t = last.prevEnd
OnTimeOtherwise == (last.k > 0 /\ last.prevEnd <= last.prevT + FrameT) => last.t = last.prevT + FrameT
ResyncNoCatchUp == MinSpacing /\ ResyncImmediate /\ OnTimeOtherwise

\* The loop variables agree with the observer's notions.
DeadlineFromTickStart == pc = "top" => tNext = (IF last.k = 0 THEN t0 ELSE last.t)
OverrunAgrees == pc \in {"wait", "tick"} => (ov <=> (last.k > 0 /\ last.end > last.t + FrameT))

\* start() resets the counter and re-bases the deadline (action property).
StartResets == [][(pc = "off" /\ pc' # "off") => (src' = startFn' /\ tNext' = now' /\ last'.k = 0)]_vars

\* one handler call per tick, frame numbers step by one modulo H (action property)
OnePerTick == [][(last'.k # last.k /\ last'.k > 1) => (last'.k = last.k + 1 /\ last'.fn = (last.fn + 1) % H)]_vars
=============================================================================
