---------------------------- MODULE ClckGenLong ----------------------------
(* C09 on a very long uninterrupted run (more than one hyperframe of ticks): the rig
   (harness/py/vclock.py run_long) logs a tick every 256 ticks and every tick in windows around
   the points where counters wrap; a logged tick carries the number of ticks k and the virtual
   time dt since the previously logged tick.  With an instantaneous handler every tick is on
   schedule: frame numbers advance by k modulo the hyperframe, time by exactly k frame periods,
   no overrun is ever reported, and the number of indications sent in between is the number of
   frames divisible by the period.  (A deviation inside an unlogged stretch that cancels out
   before the next logged tick is not seen here; the dense scripts cover short ranges.)      *)
EXTENDS Integers, Sequences, FiniteSets, TraceKit

Hyper == 2715648
VARIABLES fn, started
lvars == <<fn, started>>

TInit == KInit /\ fn = 0 /\ started = FALSE

\* frames divisible by p among the k frames (f+1 .. f+k) mod Hyper, plus frame f+... : the
\* indication is sent at the tick itself, before the handler, so the count covers the k ticks
\* that end with this one
DivCount(f, k, p) == Cardinality({j \in 1..k : ((f + j) % Hyper) % p = 0})

TTick ==
  /\ IsEv("tick")
  /\ IF Ev.first
     THEN /\ Tag("C09.long.start-frame", Ev.fn = T.cfg.start /\ Ev.k = 0)
          /\ Tag("C09.long.indications", Ev.inds = (IF T.cfg.start % T.cfg.period = 0 THEN 1 ELSE 0))
     ELSE /\ Tag("C09.long.guard", started /\ Ev.k \in 1..400)
          /\ Tag("C09.long.frame-number", Ev.fn = (fn + Ev.k) % Hyper)
          /\ Tag("C09.long.no-drift", Ev.dt = Ev.k * T.cfg.T)
          /\ Tag("C09.long.indications", Ev.inds = DivCount(fn, Ev.k, T.cfg.period))
  /\ fn' = Ev.fn /\ started' = TRUE
  /\ Adv

\* an overrun warning never matches: the handler takes no time
TOverrun == IsEv("overrun") /\ Tag("C09.long.no-overrun", FALSE) /\ UNCHANGED lvars /\ Adv

TNext == TTick \/ TOverrun
TSpec == TInit /\ [][TNext]_<<lvars, kvars>>
Post == WriteVerdicts
=============================================================================
