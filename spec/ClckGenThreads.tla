--------------------------- MODULE ClckGenThreads ---------------------------
(* C09, two-thread view of the TDMA frame clock source (trx_toolkit/clck_gen.py).

   ClckGen.tla describes CLCKGen as ONE sequential loop in which stop() can
   only happen while the worker sleeps.  In the application stop() is called
   by ANOTHER thread (the control-socket thread, on POWEROFF) and may arrive
   at any instant, also while the worker is inside the frame handler.  This
   module is that view: a controller (start() / stop() / re-linking, an
   unconstrained environment acting at any instant) and worker threads
   (one per start()), all under one virtual monotonic clock `now`.

   The code, by phase (a worker w is a record of wk):

     StartCall   start():  assert _thread is None ; clck_src = clck_start ;
                           _thread = Thread(_worker).start()        st = "top", tn = now
     WLoop       _worker:  t_next += t_tick ; dt = t_next - now ;
                           if dt < 0: t_next = now, dt = 0 ;
                           _breaker.wait(dt):  set  -> the worker leaves   st = "exited"
                                               else -> sleeps until `at`   st = "sleep"
     SleepStop   the breaker is set while the worker sleeps: wait() returns
                 True at once, the worker leaves WITHOUT a tick
     TickBegin   wait() timed out: send_clck_ind(): indications for clck_src,
                 the handler is called with clck_src and takes d       st = "handler"
     HandlerEnd  the handler returned: clck_src = (clck_src + 1) % H    st = "top"
                 (then WLoop: a breaker set meanwhile ends the worker WITHOUT
                 another tick - the handler that was running completes)
     StopCall    stop(): _breaker.set()                               gen = "stopping"
     StopReturn  ... _thread.join() returned ; _thread = None ;
                 _breaker.clear()                                     gen = "stopped"
                 enabled only when the worker has exited - that is what join()
                 without a timeout gives.  With the model switch JoinTimeout the
                 join gives up after JoinFrames frame periods (the hazard: the
                 breaker is cleared before the worker has looked at it, the worker
                 survives as a zombie, the next start() adds a second worker
                 sharing clck_src).

   Time: every action carries its instant tm (now' = tm).  A worker event
   happens exactly at its due instant, a controller action at any instant up to
   the earliest due worker event (Horizon) - before or after it when they
   coincide, both orders are behaviours.  Python code between two blocking
   points takes no virtual time.

   The clauses are stated over what an observer sees: the history variables of
   ClckGen (last handler call, the ideal schedule, ...) - the clause texts
   themselves are ClckGen's, evaluated through INSTANCE - plus three flags
   recording a tick that should not have happened.

   NB: EXTENDed together with TraceKit (which owns T, Ev, Tag, Adv, l, tid).  *)
EXTENDS Integers, Sequences, FiniteSets, TLC

CONSTANTS FrameT, H,
          Durations, Starts, Periods, LinkSets,     \* environment of the closed model
          MaxTicks, MaxEpochs, MaxRelinks,
          JoinTimeout,                              \* model switch: stop() joins with a timeout
          JoinFrames                                \* ... of that many frame periods

VARIABLES
  now,      \* virtual monotonic clock
  gen,      \* the controller's view: "stopped" | "running" | "stopping" (inside stop())
  brk,      \* _breaker
  cur,      \* _thread: index into wk, 0 = None
  wk,       \* all workers ever started: Seq([st, tn, at, rt])
            \*   st  "top" | "sleep" | "handler" | "exited"
            \*   tn  t_next
            \*   at  sleep: end of the wait, handler: return of the handler
            \*   rt  instant of the stop() that asked this worker to leave, -1 = none yet
  jdl,      \* JoinTimeout: the instant the pending join gives up
  src,      \* clck_src (shared by all workers)
  startFn, period, links,
  \* ---- history (observer's view), as in ClckGen: ticks since the last start(), by whichever worker
  epoch, t0, ideal, sched, resynced, last,
  tws,      \* a tick happened while the generator was stopped
  stale,    \* a tick was fired by a worker other than the one of the latest start()
  tas,      \* a tick became due and fired after stop() had been called
  nt, nrl   \* bounds of the closed model

gvars == <<now, gen, brk, cur, wk, jdl, src, startFn, period, links>>
hvars == <<epoch, t0, ideal, sched, resynced, last>>
fvars == <<tws, stale, tas>>
bvars == <<nt, nrl>>
tvarsAll == <<gvars, hvars, fvars, bvars>>

\* ClckGen's clauses and payload definitions over this module's history
G == INSTANCE ClckGen WITH pc <- "off", tNext <- 0, dt <- 0, ov <- FALSE,
                           quota <- 0, ops <- <<>>, Pauses <- {}, Quotas <- {}

----------------------------------------------------------------------------
Alive == {w \in DOMAIN wk : wk[w].st # "exited"}
Gone  == [st |-> "exited", tn |-> 0, at |-> 0, rt |-> 0]

\* the loop iteration of a worker whose t_next is tn, at instant tm: the sleep it enters
SleepRec(w, tm) ==
  LET tn2 == wk[w].tn + FrameT
      tn3 == IF tn2 < tm THEN tm ELSE tn2          \* time overrun: reset the clock
  IN [wk[w] EXCEPT !.st = "sleep", !.tn = tn3, !.at = tn3]

----------------------------------------------------------------------------
(* Controller *)

StartCall(tm, s, p, ls) ==
  /\ gen = "stopped" /\ tm >= now
  /\ now' = tm
  /\ gen' = "running"
  /\ startFn' = s /\ period' = p /\ links' = ls
  /\ src' = s
  /\ wk' = Append(wk, [st |-> "top", tn |-> tm, at |-> tm, rt |-> -1])
  /\ cur' = Len(wk) + 1
  /\ epoch' = epoch + 1 /\ t0' = tm /\ ideal' = tm /\ sched' = tm /\ resynced' = FALSE /\ last' = G!NoTick
  /\ UNCHANGED <<brk, jdl, fvars>>

\* stop() with _thread = None returns at once and touches nothing
StopCall(tm) ==
  /\ gen \in {"running", "stopped"} /\ tm >= now
  /\ now' = tm
  /\ gen' = "stopping"
  /\ brk' = (brk \/ cur # 0)
  /\ jdl' = tm + JoinFrames * FrameT
  /\ wk' = IF cur = 0 THEN wk
           ELSE [w \in DOMAIN wk |-> IF wk[w].st # "exited" /\ wk[w].rt < 0 THEN [wk[w] EXCEPT !.rt = tm] ELSE wk[w]]
  /\ UNCHANGED <<cur, src, startFn, period, links, hvars, fvars>>

StopReturnEff(tm) ==
  /\ gen = "stopping" /\ tm >= now
  /\ now' = tm
  /\ gen' = "stopped"
  /\ cur' = 0
  /\ brk' = IF cur = 0 THEN brk ELSE FALSE
  /\ UNCHANGED <<wk, jdl, src, startFn, period, links, hvars, fvars>>

Joined == IF cur = 0 THEN TRUE ELSE wk[cur].st = "exited"
StopReturn(tm) ==
  /\ (Joined \/ (JoinTimeout /\ tm = jdl))
  /\ StopReturnEff(tm)

Relink(tm, ls) ==
  /\ tm >= now
  /\ now' = tm
  /\ links' = ls
  /\ UNCHANGED <<gen, brk, cur, wk, jdl, src, startFn, period, hvars, fvars>>

----------------------------------------------------------------------------
(* Workers *)

LoopSleep(w) ==                     \* wait(dt) found the breaker clear
  /\ wk[w].st = "top"
  /\ wk' = [wk EXCEPT ![w] = SleepRec(w, now)]
  /\ UNCHANGED <<now, gen, brk, cur, jdl, src, startFn, period, links, hvars, fvars>>

WExit(w, tm) ==                     \* wait(dt) returned True
  /\ wk[w].st \in {"top", "sleep"} /\ tm >= now
  /\ now' = tm
  /\ wk' = [wk EXCEPT ![w] = Gone]
  /\ UNCHANGED <<gen, brk, cur, jdl, src, startFn, period, links, hvars, fvars>>

WLoop(w) == wk[w].st = "top" /\ IF brk THEN WExit(w, now) ELSE LoopSleep(w)

SleepStop(w) == wk[w].st = "sleep" /\ brk /\ WExit(w, now)

\* send_clck_ind() up to the handler call.  snt: what was put on the links (the
\* closed model passes G!Sends, a trace what was observed); d: the handler's time.
TickBegin(w, tm, d, snt) ==
  /\ wk[w].st = "sleep" /\ tm >= now
  /\ now' = tm
  /\ wk' = [wk EXCEPT ![w] = [@ EXCEPT !.st = "handler", !.at = tm + d]]
  /\ LET obsOv == last.k > 0 /\ last.end > last.t + FrameT IN     \* as ClckGen!Tick
       /\ sched' = IF obsOv THEN tm ELSE sched + FrameT
       /\ resynced' = (resynced \/ obsOv)
  /\ ideal' = ideal + FrameT
  /\ last' = [k |-> last.k + 1, fn |-> src, t |-> tm, end |-> tm + d, sent |-> snt, links |-> links,
              prevT |-> IF last.k = 0 THEN t0 ELSE last.t,
              prevEnd |-> IF last.k = 0 THEN t0 ELSE last.end]
  /\ tws' = (tws \/ gen = "stopped")
  /\ stale' = (stale \/ w # cur)
  /\ tas' = (tas \/ (wk[w].rt >= 0 /\ tm > wk[w].rt))
  /\ UNCHANGED <<gen, brk, cur, jdl, src, startFn, period, links, epoch, t0>>

HandlerEnd(w, tm) ==
  /\ wk[w].st = "handler" /\ tm >= now
  /\ now' = tm
  /\ src' = (src + 1) % H
  /\ wk' = [wk EXCEPT ![w] = [@ EXCEPT !.st = "top"]]
  /\ UNCHANGED <<gen, brk, cur, jdl, startFn, period, links, hvars, fvars>>

----------------------------------------------------------------------------
(* Closed model *)

Init ==
  /\ now = 0 /\ gen = "stopped" /\ brk = FALSE /\ cur = 0 /\ wk = <<>> /\ jdl = 0
  /\ src = 0 /\ startFn = 0 /\ period = 1 /\ links = <<>>
  /\ epoch = 0 /\ t0 = 0 /\ ideal = 0 /\ sched = 0 /\ resynced = FALSE /\ last = G!NoTick
  /\ tws = FALSE /\ stale = FALSE /\ tas = FALSE
  /\ nt = 0 /\ nrl = 0

\* a worker event is due ...
Due(w) == IF wk[w].st = "top" \/ (wk[w].st = "sleep" /\ brk) THEN now ELSE wk[w].at
JoinPending == JoinTimeout /\ gen = "stopping" /\ ~Joined
DueSet == {Due(w) : w \in Alive} \cup (IF JoinPending THEN {jdl} ELSE {})
Horizon == IF DueSet = {} THEN now ELSE CHOOSE x \in DueSet : \A y \in DueSet : x <= y
CtlTimes == now..Horizon

EStart(tm, s, p, ls) ==
  /\ epoch < MaxEpochs /\ nt < MaxTicks
  /\ epoch > 0 => (p = period /\ ls = links)          \* restarts may change the start frame only
  /\ StartCall(tm, s, p, ls)
  /\ UNCHANGED bvars

EStopCall(tm) == gen = "running" /\ StopCall(tm) /\ UNCHANGED bvars
\* join() returns as soon as the worker is gone, or when it gives up
EStopReturn == StopReturn(IF Joined THEN now ELSE jdl) /\ (~Joined => jdl = Horizon) /\ UNCHANGED bvars

ERelink(tm, ls) ==
  /\ nrl < MaxRelinks /\ ls # links /\ gen = "running"
  /\ Relink(tm, ls)
  /\ nrl' = nrl + 1 /\ UNCHANGED nt

ELoop(w) == WLoop(w) /\ UNCHANGED bvars
ESleepStop(w) == SleepStop(w) /\ UNCHANGED bvars
\* a tick that was already due at the instant of stop() may still fire (tie)
ETick(w, d) ==
  /\ nt < MaxTicks
  /\ wk[w].st = "sleep" /\ wk[w].at = Horizon
  /\ (~brk \/ wk[w].rt = wk[w].at)
  /\ TickBegin(w, wk[w].at, d, G!Sends)
  /\ nt' = nt + 1 /\ UNCHANGED nrl
EHandlerEnd(w) ==
  /\ wk[w].st = "handler" /\ wk[w].at = Horizon
  /\ HandlerEnd(w, wk[w].at)
  /\ UNCHANGED bvars

NStart    == \E tm \in CtlTimes, s \in Starts, p \in Periods, ls \in LinkSets : EStart(tm, s, p, ls)
NStopCall == \E tm \in CtlTimes : EStopCall(tm)
NRelink   == \E tm \in CtlTimes, ls \in LinkSets : ERelink(tm, ls)
NLoop     == \E w \in Alive : ELoop(w)
NSleepStop == \E w \in Alive : ESleepStop(w)
NTick     == \E w \in Alive, d \in Durations : ETick(w, d)
NHandlerEnd == \E w \in Alive : EHandlerEnd(w)

Next == NStart \/ NStopCall \/ NRelink \/ EStopReturn \/ NLoop \/ NSleepStop \/ NTick \/ NHandlerEnd

Spec == Init /\ [][Next]_tvarsAll

MCLinkSets == {<<>>, <<1>>, <<1, 2>>}

\* VIEW: every action and clause is invariant under a shift of the time axis
\* (cf. ClckGen!MCView); exited workers carry no information.
MCView ==
  <<gen, brk, cur, src, startFn, period, links, epoch, resynced, nt, nrl, tws, stale, tas,
    [w \in DOMAIN wk |-> IF wk[w].st = "exited" THEN <<"exited">>
                         ELSE <<wk[w].st, wk[w].tn - now, wk[w].at - now,
                                IF wk[w].rt < 0 THEN -1 ELSE now - wk[w].rt>>],
    IF gen = "stopping" /\ JoinTimeout THEN jdl - now ELSE 0,
    IF last.k <= 1 \/ ~resynced THEN t0 - now ELSE 0,
    IF resynced THEN 0 ELSE ideal - now,
    sched - now,
    IF last.k = 0 THEN <<>>
    ELSE <<last.k, last.fn, last.t - now, last.end - now, last.sent, last.links,
           last.prevT - now, last.prevEnd - now>> >>

----------------------------------------------------------------------------
(* Clauses (tags C09.threads.<what> in the trace specification) *)

TypeOK ==
  /\ gen \in {"stopped", "running", "stopping"} /\ brk \in BOOLEAN
  /\ cur \in 0..Len(wk) /\ src \in 0..H-1 /\ now \in Nat
  /\ \A w \in DOMAIN wk : wk[w].st \in {"top", "sleep", "handler", "exited"}

\* tick-while-stopped: no handler call / indication between the return of stop() and the next start()
NoTickWhileStopped == ~tws
\* single-worker: at most one worker alive, ever; only the worker of the latest start() ticks
SingleWorker == Cardinality(Alive) <= 1 /\ ~stale
\* stop() returns only after the worker has left (what join() without timeout gives)
QuiescentWhenStopped == gen = "stopped" => Alive = {}
\* what the code does beyond the statement: once stop() is called no tick becomes due any more;
\* the handler that is running completes, then the worker leaves
NoTickAfterStopCall == ~tas
\* restart-sequence: after (every) start() the ticks carry start, start+1, ... (mod H)
RestartSequence == G!Consecutive /\ (last.k = 1 => last.fn = startFn)
\* tick-time: one per frame period from the instant of start(), never closer, immediate
\* resynchronisation after an overrun - ClckGen's clauses on the two-thread history
TickTime == /\ G!RestartFromStart /\ G!NoDrift /\ G!NoDriftFromStart
            /\ G!MinSpacing /\ G!ResyncImmediate /\ G!OnTimeOtherwise
\* indications exactly at multiples of the period, to every link, well-formed
Indications == G!IndWhen /\ G!IndLinks /\ G!IndOctets

\* the worker of a stopped generator left without ticking again (action property):
\* between StopCall and StopReturn the tick count grows only by a tick due at the call instant
StopIsPrompt == [][(gen = "stopping" /\ last'.k # last.k) => last'.t = wk[cur].rt]_tvarsAll
=============================================================================
