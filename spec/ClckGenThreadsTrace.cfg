\* Trace validation of the real clck_gen.py running on real threads under the discrete-event
\* simulator harness/py/vthreads.py (virtual ns).  FrameT = cfg.T of the batch; one T per batch.
SPECIFICATION TSpec
CONSTANTS
  FrameT <- BatchFrameT
  H = 2715648
  Durations = {}
  Starts = {}
  Periods = {}
  LinkSets = {}
  MaxTicks = 0
  MaxEpochs = 0
  MaxRelinks = 0
  JoinTimeout = FALSE
  JoinFrames = 2
POSTCONDITION Post
CHECK_DEADLOCK FALSE
