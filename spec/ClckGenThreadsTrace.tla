------------------------ MODULE ClckGenThreadsTrace ------------------------
(* Validates event logs of the real CLCKGen (clck_gen.py: start(), stop(),
   _worker(), send_clck_ind(), all unmodified) running on REAL Python threads
   under the deterministic discrete-event simulator harness/py/vthreads.py
   (one thread executes at a time, virtual monotonic clock) against
   ClckGenThreads.  Events, in execution order, every one with its virtual
   instant t (ns):

     start-call{t, fn, period, links}  the controller thread calls start()
     ind{t, worker, link, raw}         link.send(payload) by worker thread `worker`
     tick{t, worker, fn, dur}          the frame handler is called with fn; it will take dur
     hret{t, worker}                   ... and returned (logged by the rig's handler)
     worker-exit{t, worker}            _worker() returned
     stop-call{t}                      the controller thread calls stop()
     stop-return{t}                    ... and it returned
     links{t, links}                   the controller thread replaced clck_links
     end{t}                            end of the observation

   Worker numbers are the order of Thread.start() calls (= index into wk).

   The only step the log cannot show is the loop iteration of a worker that goes
   to sleep (SLoop); the instant of every tick is COMPUTED by the specification
   (wk[w].at) and compared with the observed one, and no event may be later than
   a tick that is due (Punctual): a missing tick is noticed at the next event.

   What is judged is what an observer can see (never more than the statement):
     C09.threads.tick-while-stopped  a handler call / indication between the return
                                     of stop() and the next start()
     C09.threads.single-worker       a tick fired by a worker other than the one
                                     of the latest start() (a second worker lives)
     C09.threads.stop-returns        stop() had not returned when the observation ended
                                     (the rig ends it early only when virtual time runs
                                     away: about twice what the script needs)
     C09.threads.restart-sequence    ticks after a restart are not start, start+1, ..
     C09.threads.consecutive         same in the first epoch
     C09.threads.tick-time           a tick not at its instant / missing / ClckGen's
                                     NoDrift, ResyncNoCatchUp clauses on this history
     C09.threads.indication.*        ClckGen's IndicationExact clauses
     C09.threads.worker-exit         a worker left although nobody called stop()
   Don't-cares: WHEN stop() returns and whether the old worker is still inside its
   handler at that moment (StopReturnEff is used without the Joined guard: a zombie
   is judged by what it DOES), when a worker that was asked to leave actually does,
   the order in which the links of one frame are served, and ticks WHILE stop() is in
   progress: the statement draws the line at the return of stop(), so a tick of the
   current worker between stop-call and stop-return is accepted if it is on schedule
   and in sequence.  (The code itself is stricter - the handler that is running
   completes, then the worker leaves without another tick: ClckGenThreads models
   exactly that and MC_ClckGenThreads checks it as NoTickAfterStopCall / StopIsPrompt;
   the rig counts such ticks for the evidence.)

   FrameT = cfg.T of the batch (the code's own first wait), as in ClckGenTrace. *)
EXTENDS ClckGenThreads, TraceKit

VARIABLE pend      \* indications seen since the last handler call: Seq(<<link, raw>>)

BatchFrameT == Traces[1].cfg.T
NominalT == 4615000
PeriodOK == (FrameT - NominalT) \in -499..499

xvars == <<tvarsAll, pend, kvars>>

TInit == KInit /\ Init /\ pend = <<>>

Known(w) == w \in DOMAIN wk
AskedToLeave(w) == wk[w].rt >= 0

\* no event is later than something that is due: a handler return, or the tick of a
\* sleeping worker that nobody asked to leave
Late == {w \in Alive : \/ (wk[w].st = "handler" /\ wk[w].at < Ev.t)
                       \/ (wk[w].st = "sleep" /\ ~AskedToLeave(w) /\ wk[w].at < Ev.t)}
Punctual ==
  /\ Tag("C09.threads.rig.time-monotonic", Ev.t >= now)
  /\ Tag("C09.threads.tick-time", Late = {})

\* ---- internal step ----------------------------------------------------------
SLoop ==
  /\ \E w \in Alive :
       /\ wk[w].st = "top"
       /\ ~(IsEv("worker-exit") /\ Ev.worker = w)
       /\ LoopSleep(w)
  /\ UNCHANGED <<bvars, pend, kvars>>

\* ---- controller ---------------------------------------------------------------
TStartCall ==
  /\ IsEv("start-call")
  /\ Punctual
  /\ Tag("C09.threads.rig.start-when-stopped", gen = "stopped" /\ Ev.period >= 1)
  /\ Tag("C09.batch.same-T", T.cfg.T = FrameT)
  /\ Tag("C09.period", PeriodOK)
  /\ StartCall(Ev.t, Ev.fn, Ev.period, Ev.links)
  /\ UNCHANGED <<bvars, pend>>
  /\ Adv

TStopCall ==
  /\ IsEv("stop-call")
  /\ Punctual
  /\ StopCall(Ev.t)
  /\ UNCHANGED <<bvars, pend>>
  /\ Adv

TStopReturn ==
  /\ IsEv("stop-return")
  /\ Punctual
  /\ StopReturnEff(Ev.t)
  /\ UNCHANGED <<bvars, pend>>
  /\ Adv

TRelink ==
  /\ IsEv("links")
  /\ Punctual
  /\ Relink(Ev.t, Ev.links)
  /\ UNCHANGED <<bvars, pend>>
  /\ Adv

TEnd ==
  /\ IsEv("end")
  /\ Punctual
  /\ Tag("C09.threads.stop-returns", gen # "stopping")
  /\ UNCHANGED <<tvarsAll, pend>>
  /\ Adv

\* ---- workers --------------------------------------------------------------------
\* the instant of a tick, observed at the handler call or at an indication of that tick
TickInstant(w) ==
  /\ Tag("C09.threads.rig.worker", Known(w))
  /\ wk[w].st = "sleep"
  /\ Tag("C09.threads.tick-while-stopped", gen # "stopped")
  /\ Tag("C09.threads.single-worker", w = cur)
  /\ Tag("C09.threads.tick-time", Ev.t = wk[w].at)
  /\ Punctual

TInd ==
  /\ IsEv("ind")
  /\ TickInstant(Ev.worker)
  /\ Tag("C09.threads.indication.when", src % period = 0)
  /\ pend' = Append(pend, <<Ev.link, Ev.raw>>)
  /\ UNCHANGED <<tvarsAll>>
  /\ Adv

SameSends(a, b) ==
  /\ Len(a) = Len(b)
  /\ \A i \in 1..Len(a) : Cardinality({j \in 1..Len(a) : a[j] = a[i]}) = Cardinality({j \in 1..Len(b) : b[j] = a[i]})

TTick ==
  /\ IsEv("tick")
  /\ TickInstant(Ev.worker)
  /\ Tag(IF epoch > 1 THEN "C09.threads.restart-sequence" ELSE "C09.threads.consecutive",
         Ev.fn = (startFn + last.k) % H)
  /\ Tag("C09.threads.model.clck-src", Ev.fn = src)
  /\ Tag("C09.threads.rig.handler-duration", Ev.dur >= 0)
  /\ TickBegin(Ev.worker, Ev.t, Ev.dur, pend)
  /\ pend' = <<>>
  /\ UNCHANGED bvars
  /\ Tag("C09.threads.tick-while-stopped", NoTickWhileStopped')
  /\ Tag("C09.threads.single-worker", ~stale')
  /\ Tag("C09.threads.indication.when", G!IndWhen')
  /\ Tag("C09.threads.indication.links", G!IndLinks')
  /\ Tag("C09.threads.indication.octets", G!IndOctets')
  /\ Tag("C09.threads.indication.conformance", SameSends(G!Sends, pend))
  /\ Tag(IF epoch > 1 THEN "C09.threads.restart-sequence" ELSE "C09.threads.consecutive", RestartSequence')
  /\ Tag("C09.threads.tick-time", TickTime')
  /\ Adv

THRet ==
  /\ IsEv("hret")
  /\ Tag("C09.threads.rig.worker", Known(Ev.worker))
  /\ wk[Ev.worker].st = "handler"
  /\ Tag("C09.threads.rig.handler-return", Ev.t = wk[Ev.worker].at)
  /\ Punctual
  /\ Tag("C09.threads.indication.when", pend = <<>>)
  /\ HandlerEnd(Ev.worker, Ev.t)
  /\ UNCHANGED <<bvars, pend>>
  /\ Adv

TExit ==
  /\ IsEv("worker-exit")
  /\ Tag("C09.threads.rig.worker", Known(Ev.worker))
  /\ wk[Ev.worker].st \in {"top", "sleep"}
  /\ Punctual
  /\ Tag("C09.threads.worker-exit", AskedToLeave(Ev.worker))
  /\ Tag("C09.threads.indication.when", pend = <<>>)
  /\ WExit(Ev.worker, Ev.t)
  /\ UNCHANGED <<bvars, pend>>
  /\ Adv

TNext == TStartCall \/ TStopCall \/ TStopReturn \/ TRelink \/ TEnd \/ TInd \/ TTick \/ THRet \/ TExit \/ SLoop
TSpec == TInit /\ [][TNext]_xvars
Post == WriteVerdicts
=============================================================================
