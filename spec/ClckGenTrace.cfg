\* Trace validation of the real clck_gen.py on virtual time (ns).
\* FrameT = cfg.T of the batch (the code's own first interval); one T per batch.
SPECIFICATION TSpec
CONSTANTS
  FrameT <- BatchFrameT
  H = 2715648
  Durations = {}
  Starts = {}
  Periods = {}
  LinkSets = {}
  Pauses = {}
  Quotas = {}
  MaxTicks = 0
  MaxEpochs = 0
  MaxRelinks = 0
POSTCONDITION Post
CHECK_DEADLOCK FALSE
