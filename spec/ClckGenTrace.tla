--------------------------- MODULE ClckGenTrace ---------------------------
(* Validates traces of the real CLCKGen (clck_gen.py: start(), stop(),
   _worker(), send_clck_ind()) running on a VIRTUAL monotonic clock against
   ClckGen.  Events, in execution order:

     start{vt, fn, period, links}   driver calls start(); fn/period/links are
                                    clck_start / ind_period / ids of clck_links
     ind{link, raw, vt}             link.send(payload); raw = payload.encode()
     tick{fn, vt, dur}              the clock handler was called with fn at vt
                                    and will take dur
     links{links}                   the handler attached / detached links
     overrun{vt}                    a "time overrun" warning was logged
     stop{vt}                       _breaker.wait() returned True at vt

   The loop phases the log cannot show (LoopIter, WaitDone) are internal
   steps of this spec: between two events the base actions run on their own,
   so the time of every tick is COMPUTED by the specification from the
   handler durations alone and compared with the observed virtual time.

   FrameT is a parameter of the traces (cfg.T = the code's own first interval,
   in ns).  TLC only substitutes constant-level expressions for a CONSTANT,
   so the .cfg substitutes BatchFrameT = cfg.T of the first trace of the batch
   and the driver puts traces with different cfg.T into different batches
   (TStart rejects a trace whose cfg.T differs).  The statement gives
   the frame period as 4.615 ms, i.e. to the microsecond: a trace is accepted
   iff |T - 4615000 ns| < 500 ns, i.e. T rounds to 4615 us.  The code's
   4614999 ns (float floor of 4615.0 / 1e6 // 1e-9) is inside, 4616000 and
   4600000 are outside.

   Don't-cares (the statement is silent, the spec accepts all):
     * the order in which the links of one frame are served;
     * whether, when and how often an overrun warning is logged (`overrun`
       events are skipped; the resynchronisation itself is judged from the
       tick times);
     * how much of a wait elapses before stop() takes effect (0..dt);
     * anything about the generator while it is stopped.                    *)
EXTENDS ClckGen, TraceKit

VARIABLE pend      \* indications seen since the last handler call: Seq(<<link, raw>>)

BatchFrameT == Traces[1].cfg.T
NominalT == 4615000
PeriodOK == (FrameT - NominalT) \in -499..499

tvars == <<vars, pend, kvars>>

TInit == KInit /\ Init /\ pend = <<>>

\* ---- internal steps -------------------------------------------------------
SLoop == /\ pc = "top" /\ ~IsEv("links") /\ ~IsEv("overrun")
         /\ LoopIter /\ UNCHANGED <<mvars, pend, kvars>>
SWait == /\ pc = "wait" /\ ~IsEv("stop") /\ ~IsEv("overrun")
         /\ WaitDone /\ UNCHANGED <<mvars, pend, kvars>>

\* ---- events ---------------------------------------------------------------
TStart ==
  /\ IsEv("start")
  /\ Tag("C09.start.enabled", pc = "off" /\ Ev.vt >= now /\ Ev.period >= 1)
  /\ Tag("C09.batch.same-T", T.cfg.T = FrameT)
  /\ Tag("C09.period", PeriodOK)
  /\ Start(Ev.vt, Ev.fn, Ev.period, Ev.links)
  /\ UNCHANGED <<mvars, pend>>
  /\ Adv

TOverrun == IsEv("overrun") /\ UNCHANGED <<vars, pend>> /\ Adv

ObsOverrun == last.k > 0 /\ last.end > last.t + FrameT

\* The instant of a tick (observed at the handler call or at an indication
\* sent in that tick) against the instant the specification computed.
TickInstant(vt) ==
  /\ Tag("C09.resync-no-catch-up", last.k > 0 => vt - last.t >= FrameT)
  /\ IF ObsOverrun THEN Tag("C09.resync-immediate", vt = now) ELSE Tag("C09.no-drift", vt = now)

TInd ==
  /\ IsEv("ind") /\ pc = "tick"
  /\ Tag("C09.indication.when", src % period = 0)
  /\ TickInstant(Ev.vt)
  /\ pend' = Append(pend, <<Ev.link, Ev.raw>>)
  /\ UNCHANGED vars
  /\ Adv

\* b is a permutation of a
SameSends(a, b) ==
  /\ Len(a) = Len(b)
  /\ \A i \in 1..Len(a) : Cardinality({j \in 1..Len(a) : a[j] = a[i]}) = Cardinality({j \in 1..Len(b) : b[j] = a[i]})

TTick ==
  /\ IsEv("tick") /\ pc = "tick"
  /\ IF last.k > 0 THEN Tag("C09.consecutive", Ev.fn = src)
     ELSE IF epoch > 1 THEN Tag("C09.restart-from-start", Ev.fn = startFn)
     ELSE Tag("C09.start-frame", Ev.fn = startFn)
  /\ TickInstant(Ev.vt)
  /\ Tag("C09.handler-duration", Ev.dur >= 0)
  /\ Tick(Ev.dur, pend)
  /\ pend' = <<>>
  /\ UNCHANGED mvars
  /\ Tag("C09.indication.when", IndWhen')
  /\ Tag("C09.indication.links", IndLinks')
  /\ Tag("C09.indication.octets", IndOctets')
  /\ Tag("C09.indication.conformance", SameSends(Sends, pend))
  /\ Tag("C09.consecutive", Consecutive' /\ RestartFromStart')
  /\ Tag("C09.no-drift", NoDrift' /\ NoDriftFromStart')
  /\ Tag("C09.resync-no-catch-up", ResyncNoCatchUp')
  /\ Adv

TRelink ==
  /\ IsEv("links") /\ pc = "top"
  /\ Relink(Ev.links)
  /\ UNCHANGED <<mvars, pend>>
  /\ Adv

TStop ==
  /\ IsEv("stop") /\ pc = "wait"
  \* the wait that stop() interrupts may not outlast the deadline
  /\ IF ObsOverrun THEN Tag("C09.resync-immediate", Ev.vt = now) ELSE Tag("C09.no-drift", (Ev.vt - now) \in 0..dt)
  /\ Tag("C09.indication.when", pend = <<>>)
  /\ WaitStop(Ev.vt - now)
  /\ UNCHANGED <<mvars, pend>>
  /\ Adv

TNext == TStart \/ TOverrun \/ TInd \/ TTick \/ TRelink \/ TStop \/ SLoop \/ SWait
TSpec == TInit /\ [][TNext]_tvars
Post == WriteVerdicts
=============================================================================
