----------------------------- MODULE ClckLinks -----------------------------
(* Growth beyond the listed properties: the clock thread walks the list of clock links
   (clck_gen.py: `for link in self.clck_links: link.send(...)`) while the main thread attaches and
   detaches links on POWERON / POWEROFF (transceiver.py: clck_links.append / .remove).  Neither C09
   (virtual clock, link sets) nor C12 (command sequences) quantifies over that schedule; this module
   says what it can do.

   Iter = "live":     the walk indexes the list itself, as a Python `for` over a list does
   Iter = "snapshot": the walk runs over a copy taken when the tick starts

   NoSkip: a link that is attached from the start of a tick to its end gets the indication of that
   tick.  Holds for "snapshot"; violated for "live" (detaching the link just served shifts the one
   behind it under the iterator).  NoStray: a link detached before the tick started gets nothing.  *)
EXTENDS Integers, Sequences, FiniteSets

CONSTANTS Links, Iter
VARIABLES list, walk, pos, sent, stable, ticking
vars == <<list, walk, pos, sent, stable, ticking>>

Remove(s, x) == SelectSeq(s, LAMBDA y : y # x)
Perms == {<<>>} \cup {<<a>> : a \in Links}
         \cup {<<p[1], p[2]>> : p \in {q \in Links \X Links : q[1] # q[2]}}
         \cup {<<p[1], p[2], p[3]>> : p \in {q \in Links \X Links \X Links : q[1] # q[2] /\ q[1] # q[3] /\ q[2] # q[3]}}
Init == /\ list \in Perms
        /\ walk = <<>> /\ pos = 0 /\ sent = {} /\ stable = {} /\ ticking = FALSE

Cur == IF Iter = "live" THEN list ELSE walk

TickStart == /\ ~ticking /\ ticking' = TRUE /\ pos' = 1 /\ sent' = {}
             /\ walk' = list /\ stable' = {list[k] : k \in 1..Len(list)}
             /\ UNCHANGED list
TickStep  == /\ ticking /\ pos <= Len(Cur)
             /\ sent' = sent \cup {Cur[pos]} /\ pos' = pos + 1
             /\ UNCHANGED <<list, walk, stable, ticking>>
TickEnd   == /\ ticking /\ pos > Len(Cur) /\ ticking' = FALSE
             /\ UNCHANGED <<list, walk, pos, sent, stable>>
Detach(l) == /\ \E k \in 1..Len(list) : list[k] = l
             /\ list' = Remove(list, l) /\ stable' = stable \ {l}
             /\ UNCHANGED <<walk, pos, sent, ticking>>
Attach(l) == /\ \A k \in 1..Len(list) : list[k] # l
             /\ list' = Append(list, l)
             /\ UNCHANGED <<walk, pos, sent, stable, ticking>>

Next == TickStart \/ TickStep \/ TickEnd \/ \E l \in Links : Detach(l) \/ Attach(l)
Spec == Init /\ [][Next]_vars

\* judged when the walk is over
NoSkip == (ticking /\ pos > Len(Cur)) => stable \subseteq sent
TypeOK == pos \in 0..(Cardinality(Links) + 2) /\ sent \subseteq Links
=============================================================================
