------------------------------- MODULE Codec -------------------------------
(* C16 - the declarative codec of trx_toolkit/codec.py as an INTERPRETER of
   protocol definitions given as DATA.

   A definition is a tree (the JSON the generator emits, see
   harness/py/codec_gen.py):
     envelope = [check_len, fields]
     field    = [k |-> "uint",  name, len 1..8, bo "big"|"little", signed,
                                offset, mult, pres, lenfrom(none), valfrom]
              | [k |-> "buf",   name, len (0 = rest / governed), pres, lenfrom, lenauto]
              | [k |-> "spare", name, len, filler, pres, lenfrom]
              | [k |-> "bitset", len (0 = auto), order "msb"|"lsb", pres, lenfrom(none),
                                fields : Seq([name ("" = spare bits), bl, fixed, val])]
              | [k |-> "env",   name, def : envelope, len, pres, lenfrom, lenauto]
              | [k |-> "seq",   name, item : envelope, len, pres, lenfrom, lenauto]
     pres     = [op |-> "always"|"nz"|"z"|"eq"|"ne", field, const]
     lenfrom  = [op |-> "none"|"field"|"mul"|"add", field, const]
     valfrom  = [op |-> "none"|"len", field, const]   (value derived on encode)

   Values are typed records so that any two values can be compared in TLC:
     integer  [t |-> "i", neg, mag]   sign + big-endian base-256 magnitude
                                      without leading zeros (TLC integers are
                                      32 bit; 8-octet fields times a
                                      multiplier are exact this way)
     octets   [t |-> "b", o]
     envelope [t |-> "d", f]          f : name -> value
     sequence [t |-> "l", s]

   Dec(def, octets) and Enc(def, vals) return result records; `any = TRUE`
   marks inputs on which the property statement says nothing (listed at the
   end of this module) - every observed behaviour is accepted there.       *)
EXTENDS Integers, Sequences, FiniteSets, TLC

Zeros(n) == [i \in 1..n |-> 0]
Rep(x, n) == [i \in 1..n |-> x]
Rev(s) == [i \in 1..Len(s) |-> s[Len(s) + 1 - i]]
Take(s, k) == SubSeq(s, 1, k)
Drop(s, k) == SubSeq(s, k + 1, Len(s))
Abs(x) == IF x < 0 THEN -x ELSE x

(* ------------------------------------------------------------------ *)
(* Magnitudes: big-endian base-256 digit sequences, <<>> is zero.      *)
RECURSIVE Strip(_)
Strip(a) == IF Len(a) = 0 THEN <<>> ELSE IF a[1] # 0 THEN a ELSE Strip(Tail(a))
PadTo(a, n) == IF Len(a) >= n THEN a ELSE Zeros(n - Len(a)) \o a

RECURSIVE NatToMag(_)
NatToMag(n) == IF n = 0 THEN <<>> ELSE NatToMag(n \div 256) \o <<n % 256>>
RECURSIVE MagToNat(_)
MagToNat(a) == IF Len(a) = 0 THEN 0 ELSE MagToNat(Take(a, Len(a) - 1)) * 256 + a[Len(a)]

MagCmp(a, b) ==      \* canonical arguments; -1 / 0 / 1
  IF Len(a) # Len(b) THEN (IF Len(a) < Len(b) THEN -1 ELSE 1)
  ELSE LET d == {i \in 1..Len(a) : a[i] # b[i]} IN
       IF d = {} THEN 0
       ELSE LET k == CHOOSE i \in d : \A j \in d : i <= j IN IF a[k] < b[k] THEN -1 ELSE 1

MagAdd(a, b) ==
  LET n == IF Len(a) > Len(b) THEN Len(a) ELSE Len(b)
      x == PadTo(a, n)
      y == PadTo(b, n)
      RECURSIVE Go(_, _, _)
      Go(i, c, acc) == IF i = 0 THEN <<c>> \o acc
                       ELSE LET s == x[i] + y[i] + c IN Go(i - 1, s \div 256, <<s % 256>> \o acc)
  IN Strip(Go(n, 0, <<>>))

MagSub(a, b) ==      \* requires a >= b
  LET n == IF Len(a) > Len(b) THEN Len(a) ELSE Len(b)
      x == PadTo(a, n)
      y == PadTo(b, n)
      RECURSIVE Go(_, _, _)
      Go(i, br, acc) == IF i = 0 THEN acc
                        ELSE LET d == x[i] - y[i] - br IN
                             IF d < 0 THEN Go(i - 1, 1, <<d + 256>> \o acc) ELSE Go(i - 1, 0, <<d>> \o acc)
  IN Strip(Go(n, 0, <<>>))

MagMulSmall(a, m) ==     \* 0 <= m < 2^22
  LET RECURSIVE Go(_, _, _)
      Go(i, c, acc) == IF i = 0 THEN NatToMag(c) \o acc
                       ELSE LET p == a[i] * m + c IN Go(i - 1, p \div 256, <<p % 256>> \o acc)
  IN Strip(Go(Len(a), 0, <<>>))

MagDivSmall(a, m) ==     \* 0 < m < 2^22; quotient and remainder
  LET RECURSIVE Go(_, _, _)
      Go(i, rem, acc) == IF i > Len(a) THEN [q |-> Strip(acc), r |-> rem]
                         ELSE LET cur == rem * 256 + a[i] IN Go(i + 1, cur % m, Append(acc, cur \div m))
  IN Go(1, 0, <<>>)

(* Signed wide integers.                                               *)
W(neg, mag) == [t |-> "i", neg |-> neg /\ Len(mag) # 0, mag |-> mag]
WOfInt(n) == IF n < 0 THEN W(TRUE, NatToMag(-n)) ELSE W(FALSE, NatToMag(n))
WSmall(w) == Len(w.mag) <= 3
WToInt(w) == IF w.neg THEN -MagToNat(w.mag) ELSE MagToNat(w.mag)
WAdd(u, v) ==
  IF u.neg = v.neg THEN W(u.neg, MagAdd(u.mag, v.mag))
  ELSE IF MagCmp(u.mag, v.mag) >= 0 THEN W(u.neg, MagSub(u.mag, v.mag))
  ELSE W(v.neg, MagSub(v.mag, u.mag))
WMulSmall(w, m) == IF m < 0 THEN W(~w.neg, MagMulSmall(w.mag, -m)) ELSE W(w.neg, MagMulSmall(w.mag, m))

(* Octets <-> raw integer of an integer field (two's complement when
   signed), independent of Python's int.from_bytes / int.to_bytes.       *)
RawOfOctets(octs, bo, signed) ==
  LET be == IF bo = "little" THEN Rev(octs) ELSE octs
      n == Len(be)
  IN IF signed /\ n > 0 /\ be[1] >= 128 THEN W(TRUE, MagSub(<<1>> \o Zeros(n), Strip(be)))
     ELSE W(FALSE, Strip(be))

OctetsOfRaw(w, n, bo, signed) ==
  LET m == w.mag
      fits == IF ~signed THEN ~w.neg /\ Len(m) <= n
              ELSE IF ~w.neg THEN Len(m) < n \/ (Len(m) = n /\ m[1] < 128)
              ELSE Len(m) < n \/ (Len(m) = n /\ (m[1] < 128 \/ (m[1] = 128 /\ {i \in 2..n : m[i] # 0} = {})))
      be == IF w.neg THEN PadTo(MagSub(<<1>> \o Zeros(n), m), n) ELSE PadTo(m, n)
  IN IF fits THEN [ok |-> TRUE, octs |-> IF bo = "little" THEN Rev(be) ELSE be]
     ELSE [ok |-> FALSE, octs |-> <<>>]

(* Bits, MSB first.                                                    *)
P2 == <<1, 2, 4, 8, 16, 32, 64, 128>>
BitsOfOctets(octs) == [i \in 1..(8 * Len(octs)) |-> (octs[((i - 1) \div 8) + 1] \div P2[8 - ((i - 1) % 8)]) % 2]
OctetsOfBits(b) ==     \* Len(b) is a multiple of 8
  [k \in 1..(Len(b) \div 8) |-> b[8*k-7] * 128 + b[8*k-6] * 64 + b[8*k-5] * 32 + b[8*k-4] * 16
                                 + b[8*k-3] * 8 + b[8*k-2] * 4 + b[8*k-1] * 2 + b[8*k]]
ValOfBits(b) == W(FALSE, Strip(OctetsOfBits(Zeros((8 - (Len(b) % 8)) % 8) \o b)))
BitsOfVal(v, bl) ==    \* the low `bl` bits of a non-negative value: truncation to the width
  LET all == BitsOfOctets(v.mag)
      n == Len(all)
  IN IF n >= bl THEN SubSeq(all, n - bl + 1, n) ELSE Zeros(bl - n) \o all

(* ------------------------------------------------------------------ *)
(* Presence and length expressions over earlier values of the envelope. *)
HasRef(e) == e.op \notin {"always", "none"}
RefOk(e, vals) == ~HasRef(e) \/ (e.field \in DOMAIN vals /\ vals[e.field].t = "i" /\ WSmall(vals[e.field]))
Present(e, vals) ==
  IF e.op = "always" THEN TRUE
  ELSE LET x == WToInt(vals[e.field]) IN
       CASE e.op = "nz" -> x # 0
         [] e.op = "z"  -> x = 0
         [] e.op = "eq" -> x = e.const
         [] e.op = "ne" -> x # e.const
LenOf(e, vals) ==
  LET x == WToInt(vals[e.field]) IN
  CASE e.op = "field" -> x
    [] e.op = "mul" -> x * e.const
    [] e.op = "add" -> x + e.const

(* ------------------------------------------------------------------ *)
(* Bit-field sets.  "LSB first is basically reversed order": the fields
   are laid out from the most significant bit of the `len` octets in the
   (possibly reversed) order; bits not covered by a field are unused.    *)
BsFields(f) == IF f.order = "lsb" THEN Rev(f.fields) ELSE f.fields
BsSum(fs) == LET S[i \in 0..Len(fs)] == IF i = 0 THEN 0 ELSE S[i - 1] + fs[i].bl IN S[Len(fs)]
BsLen(f) == IF f.len = 0 THEN (BsSum(f.fields) + 7) \div 8 ELSE f.len
BsStart(fs) == LET S[i \in 1..Len(fs)] == IF i = 1 THEN 0 ELSE S[i - 1] + fs[i - 1].bl IN S

(* ------------------------------------------------------------------ *)
(* Results.                                                             *)
DOk(vals, used, canon, cok) ==
  [ok |-> TRUE, any |-> FALSE, vals |-> vals, used |-> used, canon |-> canon, cok |-> cok,
   err |-> "", why |-> ""]
DErr(why) == [ok |-> FALSE, any |-> FALSE, vals |-> <<>>, used |-> 0, canon |-> <<>>, cok |-> TRUE,
              err |-> "DecodeError", why |-> why]
DAny(why) == [DErr(why) EXCEPT !.any = TRUE]
EOk(raw) == [ok |-> TRUE, any |-> FALSE, raw |-> raw, err |-> "", why |-> ""]
EErr(why) == [ok |-> FALSE, any |-> FALSE, raw |-> <<>>, err |-> "EncodeError", why |-> why]
EAny(why) == [EErr(why) EXCEPT !.any = TRUE]
In(prefix, r) == [r EXCEPT !.why = prefix \o r.why]

(* ------------------------------------------------------------------ *)
(* Decoding.  `canon` is the canonical form of the consumed octets, built
   directly from the octets by masking (spare octets -> filler, spare and
   unused bits -> 0, octets skipped by a wrapper dropped): it is what
   re-encoding the decoded values must reproduce.  `cok` is FALSE when a
   fixed-length wrapper holds content whose canonical form is shorter
   (re-encoding is then a length mismatch).                             *)
RECURSIVE DecEnv(_, _), DecFields(_, _, _, _, _, _, _), DecField(_, _, _), DecSeq(_, _, _, _, _, _)

DecInt(f, d) == WAdd(WMulSmall(RawOfOctets(d, f.bo, f.signed), f.mult), WOfInt(f.offset))

DecBitset(f, vals, d) ==
  LET fs == BsFields(f)
      st == BsStart(fs)
      B == BitsOfOctets(d)
      Slice(i) == SubSeq(B, st[i] + 1, st[i] + fs[i].bl)
      named == {i \in 1..Len(fs) : fs[i].name # ""}
      bad == {i \in named : fs[i].fixed /\ ValOfBits(Slice(i)) # fs[i].val}
      new == [n \in {fs[i].name : i \in named} |-> ValOfBits(Slice(CHOOSE i \in named : fs[i].name = n))]
      RECURSIVE Cat(_)
      Cat(i) == IF i > Len(fs) THEN Zeros(8 * Len(d) - BsSum(fs))
                ELSE (IF fs[i].name = "" THEN Zeros(fs[i].bl) ELSE Slice(i)) \o Cat(i + 1)
  IN IF bad # {} THEN DErr("fixed") ELSE DOk(new @@ vals, Len(d), OctetsOfBits(Cat(1)), TRUE)

FLen(f, vals, data) ==
  CASE f.k = "uint" -> f.len
    [] f.k = "bitset" -> BsLen(f)
    [] OTHER -> IF f.lenfrom.op # "none" THEN LenOf(f.lenfrom, vals)
                ELSE IF f.len = 0 THEN Len(data) ELSE f.len

SpareEncLen(f, vals) == IF f.lenfrom.op # "none" THEN LenOf(f.lenfrom, vals) ELSE f.len

DecField(f, vals, data) ==
  IF ~RefOk(f.pres, vals) THEN DAny("pres-ref")
  ELSE IF ~Present(f.pres, vals) THEN DOk(vals, 0, <<>>, TRUE)
  ELSE IF ~RefOk(f.lenfrom, vals) THEN DAny("len-ref")
  ELSE LET n == FLen(f, vals, data) IN
    IF n < 0 THEN DAny("negative-length")
    ELSE IF Len(data) < n THEN DErr("short")
    ELSE LET d == Take(data, n) IN
      CASE f.k = "uint" -> DOk((f.name :> DecInt(f, d)) @@ vals, n, d, TRUE)
        [] f.k = "buf" -> DOk((f.name :> [t |-> "b", o |-> d]) @@ vals, n, d, TRUE)
        [] f.k = "spare" -> DOk(vals, n, Rep(f.filler, SpareEncLen(f, vals)), TRUE)
        [] f.k = "bitset" -> DecBitset(f, vals, d)
        [] f.k = "env" ->
             LET r == DecEnv(f.def, d) IN
             IF ~r.ok THEN In("env:", r)
             ELSE DOk((f.name :> [t |-> "d", f |-> r.vals]) @@ vals, n, r.canon,
                      r.cok /\ (f.len = 0 \/ Len(r.canon) = f.len))
        [] f.k = "seq" ->
             LET r == DecSeq([f.item EXCEPT !.check_len = FALSE], d, 0, <<>>, <<>>, TRUE) IN
             IF ~r.ok THEN In("seq:", r)
             ELSE DOk((f.name :> [t |-> "l", s |-> r.vals]) @@ vals, n, r.canon,
                      r.cok /\ (f.len = 0 \/ Len(r.canon) = f.len))

DecFields(fields, i, vals, data, off, canon, cok) ==
  IF i > Len(fields) THEN DOk(vals, off, canon, cok)
  ELSE LET r == DecField(fields[i], vals, Drop(data, off)) IN
       IF ~r.ok THEN r
       ELSE DecFields(fields, i + 1, r.vals, data, off + r.used, canon \o r.canon, cok /\ r.cok)

DecEnv(env, data) ==
  LET r == DecFields(env.fields, 1, <<>>, data, 0, <<>>, TRUE) IN
  IF ~r.ok THEN r
  ELSE IF env.check_len /\ r.used # Len(data) THEN DErr("tail")
  ELSE r

DecSeq(item, data, off, acc, canon, cok) ==
  IF off >= Len(data) THEN DOk(acc, Len(data), canon, cok)
  ELSE LET r == DecEnv(item, Drop(data, off)) IN
       IF ~r.ok THEN r
       ELSE IF r.used = 0 THEN DAny("empty-item")       \* from_bytes never terminates: excluded
       ELSE DecSeq(item, data, off + r.used, Append(acc, [t |-> "d", f |-> r.vals]), canon \o r.canon, cok /\ r.cok)

Dec(def, data) == DecEnv(def, data)

(* ------------------------------------------------------------------ *)
(* Encoding.                                                            *)
RECURSIVE EncEnv(_, _), EncFields(_, _, _, _), EncField(_, _), EncSeq(_, _, _, _)

EncInt(f, v) ==
  LET t == WAdd(v, WOfInt(-f.offset))
      qr == MagDivSmall(t.mag, Abs(f.mult))
      raw == W((t.neg /\ f.mult > 0) \/ (~t.neg /\ f.mult < 0), qr.q)
      o == OctetsOfRaw(raw, f.len, f.bo, f.signed)
  IN IF qr.r # 0 THEN EAny("non-multiple")        \* (v - offset) not divisible by mult: not "in range"
     ELSE IF ~o.ok THEN EErr("int-range")
     ELSE EOk(o.octs)

EncBitset(f, vals) ==
  LET fs == BsFields(f)
      n == BsLen(f)
      named == {i \in 1..Len(fs) : fs[i].name # ""}
      missing == {i \in named : ~fs[i].fixed /\ fs[i].name \notin DOMAIN vals}
      V(i) == IF fs[i].fixed THEN fs[i].val ELSE vals[fs[i].name]
      odd == {i \in named \ missing : V(i).t # "i" \/ V(i).neg}
      RECURSIVE Cat(_)
      Cat(i) == IF i > Len(fs) THEN Zeros(8 * n - BsSum(fs))
                ELSE (IF fs[i].name = "" THEN Zeros(fs[i].bl) ELSE BitsOfVal(V(i), fs[i].bl)) \o Cat(i + 1)
  IN IF missing # {} THEN EAny("missing")
     ELSE IF odd # {} THEN EAny("bitfield-negative-or-not-integer")
     ELSE EOk(OctetsOfBits(Cat(1)))

Inconsistent(f, vals, n) ==      \* a user-supplied governing length that disagrees with the value
  /\ f.lenfrom.op # "none" /\ ~f.lenauto
  /\ (~RefOk(f.lenfrom, vals) \/ LenOf(f.lenfrom, vals) # n)

EncField(f, vals) ==
  IF ~RefOk(f.pres, vals) THEN EAny("pres-ref")
  ELSE IF ~Present(f.pres, vals) THEN EOk(<<>>)
  ELSE
    CASE f.k = "uint" ->
           IF f.valfrom.op = "len"
           THEN IF f.valfrom.field \in DOMAIN vals /\ vals[f.valfrom.field].t = "b"
                THEN EncInt(f, WOfInt(Len(vals[f.valfrom.field].o)))
                ELSE EAny("valfrom-ref")
           ELSE IF f.name \notin DOMAIN vals THEN EAny("missing")
           ELSE IF vals[f.name].t # "i" THEN EAny("type")
           ELSE EncInt(f, vals[f.name])
      [] f.k = "buf" ->
           IF f.name \notin DOMAIN vals THEN EAny("missing")
           ELSE IF vals[f.name].t # "b" THEN EAny("type")
           ELSE LET o == vals[f.name].o IN
                IF f.len > 0 /\ Len(o) # f.len THEN EErr("buf-len")
                ELSE IF Inconsistent(f, vals, Len(o)) THEN EAny("length-field-disagrees")
                ELSE EOk(o)
      [] f.k = "spare" ->
           IF ~RefOk(f.lenfrom, vals) THEN EAny("len-ref")
           ELSE LET n == SpareEncLen(f, vals) IN
                IF n < 0 THEN EAny("negative-length") ELSE EOk(Rep(f.filler, n))
      [] f.k = "bitset" -> EncBitset(f, vals)
      [] f.k = "env" ->
           IF f.name \notin DOMAIN vals THEN EAny("missing")
           ELSE IF vals[f.name].t # "d" THEN EAny("type")
           ELSE LET r == EncEnv(f.def, vals[f.name].f) IN
                IF ~r.ok THEN In("env:", r)
                ELSE IF f.len > 0 /\ Len(r.raw) # f.len THEN EErr("env-len")
                ELSE IF Inconsistent(f, vals, Len(r.raw)) THEN EAny("length-field-disagrees")
                ELSE r
      [] f.k = "seq" ->
           IF f.name \notin DOMAIN vals THEN EAny("missing")
           ELSE IF vals[f.name].t # "l" THEN EAny("type")
           ELSE LET r == EncSeq(f.item, vals[f.name].s, 1, <<>>) IN
                IF ~r.ok THEN In("seq:", r)
                ELSE IF f.len > 0 /\ Len(r.raw) # f.len THEN EErr("seq-len")
                ELSE IF Inconsistent(f, vals, Len(r.raw)) THEN EAny("length-field-disagrees")
                ELSE r

EncFields(fields, i, vals, acc) ==
  IF i > Len(fields) THEN EOk(acc)
  ELSE LET r == EncField(fields[i], vals) IN
       IF ~r.ok THEN r ELSE EncFields(fields, i + 1, vals, acc \o r.raw)

EncEnv(env, vals) == EncFields(env.fields, 1, vals, <<>>)

EncSeq(item, s, i, acc) ==
  IF i > Len(s) THEN EOk(acc)
  ELSE IF s[i].t # "d" THEN EAny("type")
  ELSE LET r == EncEnv(item, s[i].f) IN
       IF ~r.ok THEN r ELSE EncSeq(item, s, i + 1, acc \o r.raw)

Enc(def, v) == IF v.t # "d" THEN EAny("type") ELSE EncEnv(def, v.f)

(* ------------------------------------------------------------------ *)
(* Descriptors used to name the building block a mismatch belongs to
   (only evaluated when a clause has already failed).                   *)
IntDescr(f) == "int-" \o (IF f.bo = "little" THEN "le" ELSE "be") \o (IF f.signed THEN "-signed" ELSE "-unsigned")
               \o (IF f.offset # 0 \/ f.mult # 1 THEN "-scaled" ELSE "")
Descr(f) ==
  CASE f.k = "uint" -> IntDescr(f)
    [] f.k = "bitset" -> "bitset-" \o f.order
    [] OTHER -> f.k

RECURSIVE EncWhere(_, _, _), EncWhereF(_, _, _, _)
\* the building block that produces octet number `pos` of Enc(env, vals)
EncWhereF(fields, i, vals, pos) ==
  IF i > Len(fields) THEN "length"
  ELSE LET f == fields[i]
           r == EncField(f, vals)
       IN IF ~r.ok THEN "error"
          ELSE IF pos > Len(r.raw) THEN EncWhereF(fields, i + 1, vals, pos - Len(r.raw))
          ELSE IF f.k = "env" THEN "env>" \o EncWhere(f.def, vals[f.name].f, pos)
          ELSE IF f.k = "seq" THEN
               LET RECURSIVE Item(_, _)
                   Item(j, p) == IF j > Len(vals[f.name].s) THEN "length"
                                 ELSE LET e == EncEnv(f.item, vals[f.name].s[j].f) IN
                                      IF p > Len(e.raw) THEN Item(j + 1, p - Len(e.raw))
                                      ELSE EncWhere(f.item, vals[f.name].s[j].f, p)
               IN "seq>" \o Item(1, pos)
          ELSE Descr(f)
EncWhere(env, vals, pos) == EncWhereF(env.fields, 1, vals, pos)

FirstDiff(a, b) ==
  LET n == IF Len(a) < Len(b) THEN Len(a) ELSE Len(b)
      d == {i \in 1..n : a[i] # b[i]}
  IN IF d = {} THEN n + 1 ELSE CHOOSE i \in d : \A j \in d : i <= j

\* the building block whose decoded value differs between spec and log
RECURSIVE DecWhere(_, _, _)
DecWhere(env, sv, lv) ==
  LET Names(f) == IF f.k = "bitset" THEN {f.fields[i].name : i \in 1..Len(f.fields)} \ {""}
                  ELSE IF f.k = "spare" THEN {} ELSE {f.name}
      Differs(f) == \E n \in Names(f) :
                       \/ (n \in DOMAIN sv) # (n \in DOMAIN lv)
                       \/ (n \in DOMAIN sv /\ n \in DOMAIN lv /\ sv[n] # lv[n])
      bad == {i \in 1..Len(env.fields) : Differs(env.fields[i])}
  IN IF bad = {} THEN "unexpected-key"
     ELSE LET i == CHOOSE i \in bad : \A j \in bad : i <= j
              f == env.fields[i]
          IN IF f.k = "env" /\ f.name \in DOMAIN sv /\ f.name \in DOMAIN lv /\ lv[f.name].t = "d"
             THEN "env>" \o DecWhere(f.def, sv[f.name].f, lv[f.name].f)
             ELSE IF f.k = "seq" /\ f.name \in DOMAIN sv /\ f.name \in DOMAIN lv /\ lv[f.name].t = "l"
             THEN LET a == sv[f.name].s
                      b == lv[f.name].s
                      k == FirstDiff(a, b)
                  IN IF k > Len(a) \/ k > Len(b) \/ b[k].t # "d" THEN "seq-items"
                     ELSE "seq>" \o DecWhere(f.item, a[k].f, b[k].f)
             ELSE Descr(f)

(* ------------------------------------------------------------------ *)
(* Laws (model-checked by MC_Codec over all small definitions).         *)

\* Length the definition declares for the values `vals`, recomputed from the
\* values alone; -1 where the definition leaves it open (a trailing spare of
\* "rest" length; a wrapper around an envelope that does not check its length).
RECURSIVE DeclLen(_, _), DeclLenF(_, _, _), DeclLenS(_, _, _)
DeclField(f, vals) ==
  IF ~Present(f.pres, vals) THEN 0
  ELSE CASE f.k = "uint" -> f.len
         [] f.k = "bitset" -> BsLen(f)
         [] f.k = "buf" -> IF f.lenfrom.op # "none" THEN LenOf(f.lenfrom, vals)
                           ELSE IF f.len > 0 THEN f.len ELSE Len(vals[f.name].o)
         [] f.k = "spare" -> IF f.lenfrom.op # "none" THEN LenOf(f.lenfrom, vals)
                             ELSE IF f.len > 0 THEN f.len ELSE -1
         [] f.k = "env" -> IF f.lenfrom.op # "none" THEN LenOf(f.lenfrom, vals)
                           ELSE IF f.len > 0 THEN f.len
                           ELSE IF f.def.check_len THEN DeclLen(f.def, vals[f.name].f) ELSE -1
         [] f.k = "seq" -> IF f.lenfrom.op # "none" THEN LenOf(f.lenfrom, vals)
                           ELSE IF f.len > 0 THEN f.len ELSE DeclLenS(f.item, vals[f.name].s, 1)
DeclLenF(fields, i, vals) ==
  IF i > Len(fields) THEN 0
  ELSE LET a == DeclField(fields[i], vals)
           b == DeclLenF(fields, i + 1, vals)
       IN IF a < 0 \/ b < 0 THEN -1 ELSE a + b
DeclLen(env, vals) == DeclLenF(env.fields, 1, vals)
DeclLenS(item, s, i) ==
  IF i > Len(s) THEN 0
  ELSE LET a == DeclLen(item, s[i].f)
           b == DeclLenS(item, s, i + 1)
       IN IF a < 0 \/ b < 0 THEN -1 ELSE a + b

\* Enc(Dec(b)) = Canon(b): re-encoding reproduces the canonical octets.
LawReencode(def, b) ==
  LET r == Dec(def, b) IN
  (r.ok /\ ~r.any) =>
     LET e == EncEnv(def, r.vals) IN
     e.any \/ IF r.cok THEN e.ok /\ e.raw = r.canon ELSE (~e.ok /\ e.err = "EncodeError")

\* Dec(Enc(v)) = v for every in-range v (v = the values of any successful
\* decode; the canonical octets are Enc(v)), and it consumes all of Enc(v).
LawRoundTrip(def, b) ==
  LET r == Dec(def, b) IN
  (r.ok /\ ~r.any /\ r.cok /\ Len(r.canon) = r.used) =>
     LET d == Dec(def, r.canon) IN
     d.any \/ (d.ok /\ d.vals = r.vals /\ d.used = Len(r.canon) /\ d.canon = r.canon)

\* decoding consumes exactly the octets the definition declares
LawConsumed(def, b) ==
  LET r == Dec(def, b) IN
  (r.ok /\ ~r.any) =>
     /\ r.used <= Len(b)
     /\ def.check_len => r.used = Len(b)
     /\ LET n == DeclLen(def, r.vals) IN n < 0 \/ n = r.used

\* every input is either decoded or rejected with DecodeError
LawTotal(def, b) == LET r == Dec(def, b) IN r.any \/ r.ok \/ r.err = "DecodeError"

(* Perturbations of in-range values: an integer just outside the range of
   its field and a buffer of the wrong length must be rejected with
   EncodeError; an over-wide bit-field value must give the same octets
   (bit-fields read by a presence/length callback are left alone: the
   callback sees the untruncated value, which is the callback's business). *)
Governing(env) == {env.fields[i].pres.field : i \in 1..Len(env.fields)} \cup {env.fields[i].lenfrom.field : i \in 1..Len(env.fields)}
RECURSIVE Perturb(_, _)
Perturb(env, vals) ==
  UNION {
    LET f == env.fields[i] IN
    IF ~RefOk(f.pres, vals) \/ ~Present(f.pres, vals) THEN {}
    ELSE CASE f.k = "uint" ->
           IF f.valfrom.op # "none" THEN {}
           ELSE LET hi == IF f.signed THEN 2^(8 * f.len - 1) ELSE 2^(8 * f.len)
                    lo == IF f.signed THEN -(2^(8 * f.len - 1)) - 1 ELSE -1
                IN {[v |-> (f.name :> WOfInt(hi * f.mult + f.offset)) @@ vals, expect |-> "reject"],
                    [v |-> (f.name :> WOfInt(lo * f.mult + f.offset)) @@ vals, expect |-> "reject"]}
         [] f.k = "buf" ->
           IF f.len = 0 THEN {}
           ELSE {[v |-> (f.name :> [t |-> "b", o |-> Append(vals[f.name].o, 0)]) @@ vals, expect |-> "reject"],
                 [v |-> (f.name :> [t |-> "b", o |-> Tail(vals[f.name].o)]) @@ vals, expect |-> "reject"]}
         [] f.k = "bitset" ->
           {[v |-> (f.fields[j].name :> WAdd(vals[f.fields[j].name], WOfInt(2^f.fields[j].bl))) @@ vals, expect |-> "same"]
              : j \in {j \in 1..Len(f.fields) : f.fields[j].name # "" /\ ~f.fields[j].fixed
                                                 /\ f.fields[j].name \notin Governing(env)}}
         [] f.k = "env" ->
           {[v |-> (f.name :> [t |-> "d", f |-> p.v]) @@ vals, expect |-> p.expect] : p \in Perturb(f.def, vals[f.name].f)}
         [] f.k = "seq" ->
           IF Len(vals[f.name].s) = 0 THEN {}
           ELSE {[v |-> (f.name :> [t |-> "l", s |-> [vals[f.name].s EXCEPT ![1] = [t |-> "d", f |-> p.v]]]) @@ vals,
                  expect |-> p.expect] : p \in Perturb(f.item, vals[f.name].s[1].f)}
         [] OTHER -> {}
    : i \in 1..Len(env.fields) }

LawReject(def, b) ==
  LET r == Dec(def, b) IN
  (r.ok /\ ~r.any /\ r.cok) =>
     LET e == EncEnv(def, r.vals) IN
     \A p \in Perturb(def, r.vals) :
        LET q == EncEnv(def, p.v) IN
        q.any \/ IF p.expect = "reject" THEN ~q.ok /\ q.err = "EncodeError"
                 ELSE q.ok /\ q.raw = e.raw

(* Don't-care inputs (`any`):
   - a presence/length expression over a field that is absent, not an integer
     or wider than 3 octets; a negative governed length;
   - a sequence item that consumes no octet (from_bytes does not terminate);
   - encode: (v - offset) not divisible by mult; a value missing for a present
     field or of the wrong type; a negative bit-field value; a user-supplied
     length field that disagrees with the actual length of the governed
     buffer / envelope / sequence (codec.py emits the octets unchecked, the
     statement neither requires nor forbids an EncodeError).              *)
=============================================================================
