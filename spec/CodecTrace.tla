---------------------------- MODULE CodecTrace ----------------------------
(* C16 trace validation: each trace carries ONE protocol definition
   (T.cfg.def, the JSON the real codec classes were built from) and a list
   of independent records of what the real codec.py did with it:
     enc {kind, vals, ok, raw | err}            Envelope.to_bytes()
     dec {kind, raw, ok, vals, used | err}      Envelope.from_bytes()
     rt  {vals, raw, vals2, used2}              v -> to_bytes -> from_bytes, v in range and complete
     rtb {raw, ok2, raw2 | err2}                b -> from_bytes -> to_bytes
   The interpreter of Codec.tla evaluates the same definition; pure-function
   style: the state is unchanged, one tagged clause per part of C16.  A tag
   "clause|discriminator" names the building block at fault.              *)
EXTENDS Codec, TraceKit

VARIABLE dummy

Def == T.cfg.def

TInit == KInit /\ dummy = 0

TEnc ==
  /\ IsEv("enc")
  /\ LET r == Enc(Def, Ev.vals) IN
     IF r.any THEN TRUE
     ELSE IF r.ok
     THEN /\ Tag("C16.enc.spurious-error|" \o Ev.err, Ev.ok)
          /\ Tag((IF Ev.kind = "overwide" THEN "C16.bitfield.truncation|" ELSE "C16.enc.octets|")
                 \o EncWhere(Def, Ev.vals.f, FirstDiff(r.raw, Ev.raw)), Ev.raw = r.raw)
     ELSE /\ Tag("C16.err.not-rejected|" \o r.why, ~Ev.ok)
          /\ Tag("C16.err.class|" \o r.why, Ev.err = r.err)
  /\ UNCHANGED dummy
  /\ Adv

TDec ==
  /\ IsEv("dec")
  /\ LET r == Dec(Def, Ev.raw) IN
     IF r.any THEN TRUE
     ELSE IF r.ok
     THEN /\ Tag("C16.dec.spurious-error|" \o Ev.err, Ev.ok)
          /\ Tag("C16.dec.values|" \o (IF Ev.vals.t = "d" THEN DecWhere(Def, r.vals, Ev.vals.f) ELSE "not-a-dict"),
                 Ev.vals = [t |-> "d", f |-> r.vals])
          /\ Tag("C16.dec.consumed|", Ev.used = r.used)
     ELSE /\ Tag("C16.err.not-rejected|" \o r.why, ~Ev.ok)
          /\ Tag("C16.err.class|" \o r.why, Ev.err = r.err)
  /\ UNCHANGED dummy
  /\ Adv

\* Dec(Enc(v)) = v, consuming exactly Enc(v): stated on the observed values.
TRt ==
  /\ IsEv("rt")
  /\ Tag("C16.roundtrip.values|" \o (IF Ev.vals2.t = "d" THEN DecWhere(Def, Ev.vals.f, Ev.vals2.f) ELSE "not-a-dict"),
         Ev.vals2 = Ev.vals)
  /\ Tag("C16.roundtrip.consumed|", Ev.used2 = Len(Ev.raw))
  /\ UNCHANGED dummy
  /\ Adv

\* Enc(Dec(b)) = Canon(b); Canon comes from the specification's decoder.
TRtb ==
  /\ IsEv("rtb")
  /\ LET r == Dec(Def, Ev.raw) IN
     IF r.any \/ ~r.ok THEN TRUE
     ELSE LET e == EncEnv(Def, r.vals) IN
          IF e.any THEN TRUE
          ELSE IF r.cok
          THEN /\ Tag("C16.roundtrip.reencode-error|" \o Ev.err2, Ev.ok2)
               /\ Tag("C16.roundtrip.canon|" \o EncWhere(Def, r.vals, FirstDiff(r.canon, Ev.raw2)), Ev.raw2 = r.canon)
          ELSE Tag("C16.roundtrip.canon|wrapper-length", ~Ev.ok2 /\ Ev.err2 = "EncodeError")
  /\ UNCHANGED dummy
  /\ Adv

TNext == TEnc \/ TDec \/ TRt \/ TRtb
TSpec == TInit /\ [][TNext]_<<dummy, kvars>>
Post == WriteVerdicts
=============================================================================
