----------------------------- MODULE DataDump -----------------------------
(* Capture files of the TRX toolkit (data_dump.py): a file is a sequence of
   records  tag (1 = Tx, 2 = Rx) | length, 16 bit big endian | TRXD message.
   Writer: Append(m).  Crash: the file is cut at any byte offset.
   Reader, structured like the code:
     Seek(k)      walk k record headers from the start, skipping bodies by
                  their stored length without looking at them
     ReadOne(pos) header, then body; EOF / unknown tag / short body end the
                  read, a body the TRXD parser rejects is skipped
   The C15 statement is expressed over Complete(file, cut): the messages
   whose record lies entirely before the cut.                               *)
EXTENDS TrxdPdu, FiniteSets

HdrLen == 3
TagOf(cls) == IF cls = "tx" THEN 1 ELSE 2
ClsOf(tag) == IF tag = 1 THEN "tx" ELSE "rx"
Record(cls, body) == <<TagOf(cls), Len(body) \div 256, Len(body) % 256>> \o body

\* cheap acceptance test of the TRXD parsers (no burst conversion)
BodyOk(cls, b) ==
  /\ Len(b) >= 5 /\ (b[1] \div 16) \in KnownVersions
  /\ IF cls = "tx" THEN Len(b) >= TxHdrLen
     ELSE /\ Len(b) >= RxHdrLen(b[1] \div 16)
          /\ (b[1] \div 16 = 0 /\ Len(b) > RxHdrLen(0)) =>
               LET n == Len(b) - RxHdrLen(0) IN ModOfLen(n) # "unknown" \/ ModOfLen(n - 2) # "unknown"

(* Reading a file f of which only the first `cut` octets exist.  A position is
   the 0-based offset of a record header. *)
HeaderAt(f, cut, pos) == pos + HdrLen <= cut /\ f[pos + 1] \in {1, 2}
BodyLen(f, pos) == f[pos + 2] * 256 + f[pos + 3]
BodyAt(f, cut, pos) == HeaderAt(f, cut, pos) /\ pos + HdrLen + BodyLen(f, pos) <= cut
Body(f, pos) == SubSeq(f, pos + HdrLen + 1, pos + HdrLen + BodyLen(f, pos))
NextPos(f, pos) == pos + HdrLen + BodyLen(f, pos)

\* _seek2msg(k): -1 when a header cannot be read (EOF or unknown tag), else the position
RECURSIVE Seek(_, _, _, _)
Seek(f, cut, pos, k) ==
  IF k = 0 THEN pos
  ELSE IF ~HeaderAt(f, cut, pos) THEN -1
  ELSE Seek(f, cut, NextPos(f, pos), k - 1)

\* the reading loop of parse_all: positions of the records it returns (bodies
\* the parser rejects are skipped), at most `count` of them (count = -1: no limit)
RECURSIVE ReadFrom(_, _, _, _)
ReadFrom(f, cut, pos, count) ==
  IF count = 0 \/ ~BodyAt(f, cut, pos) THEN <<>>
  ELSE IF BodyOk(ClsOf(f[pos + 1]), Body(f, pos))
       THEN <<pos>> \o ReadFrom(f, cut, NextPos(f, pos), IF count < 0 THEN count ELSE count - 1)
       ELSE ReadFrom(f, cut, NextPos(f, pos), count)

\* parse_all(skip, count): [t |-> "false"] or [t |-> "list", at |-> positions]; skip = -1: absent
ParseAll(f, cut, skip, count) ==
  LET start == IF skip < 0 THEN 0 ELSE Seek(f, cut, 0, skip) IN
  IF start < 0 THEN [t |-> "false", at |-> <<>>]
  ELSE [t |-> "list", at |-> ReadFrom(f, cut, start, count)]

\* parse_msg(idx): "none" (not found / EOF), "false" (unparsable), or the position
ParseIdx(f, cut, idx) ==
  LET start == Seek(f, cut, 0, idx) IN
  IF start < 0 \/ ~BodyAt(f, cut, start) THEN [t |-> "none", at |-> <<>>]
  ELSE IF BodyOk(ClsOf(f[start + 1]), Body(f, start)) THEN [t |-> "msg", at |-> <<start>>]
  ELSE [t |-> "false", at |-> <<>>]

----------------------------------------------------------------------------
(* The statement.  starts = offsets of the records as written. *)
Complete(starts, lens, cut) ==
  SelectSeq(starts, LAMBDA p : \E k \in 1..Len(starts) : starts[k] = p /\ p + HdrLen + lens[k] <= cut)

Slice(s, skip, count) ==
  LET a == IF skip < 0 THEN 0 ELSE skip
      rest == IF a >= Len(s) THEN <<>> ELSE SubSeq(s, a + 1, Len(s))
  IN IF count < 0 \/ count >= Len(rest) THEN rest ELSE SubSeq(rest, 1, count)

\* what C15 demands of parse_all on a (possibly truncated) file of valid messages;
\* skipping past the last complete message may answer "false" (range error) or an empty list
AllOk(res, starts, lens, cut, skip, count) ==
  LET c == Complete(starts, lens, cut) IN
  IF skip > Len(c) THEN (res.t = "false" \/ (res.t = "list" /\ res.at = <<>>))
  ELSE res.t = "list" /\ res.at = Slice(c, skip, count)

IdxOk(res, starts, lens, cut, idx) ==
  LET c == Complete(starts, lens, cut) IN
  IF idx < Len(c) THEN res.t = "msg" /\ res.at = <<c[idx + 1]>> ELSE res.t = "none"
=============================================================================
