---------------------------- MODULE DataDumpMC ----------------------------
(* Exhaustive check (C15): for every file of up to MaxMsgs messages from a
   small pool of valid TRXD messages (scaled layout), every truncation offset,
   every (skip, count) pair and every index, the reader as the code is
   structured returns exactly what the statement demands.                  *)
EXTENDS DataDump, TLC

CONSTANTS MaxMsgs

Pool == {
  [cls |-> "tx", b |-> EncTx([ver |-> 0, fn |-> 7, tn |-> 1, pwr |-> 3, burst |-> Burst(<<1, 0, 1>>)], FALSE)],
  [cls |-> "tx", b |-> EncTx([ver |-> 1, fn |-> 65536, tn |-> 7, pwr |-> 255, burst |-> Burst(<<1, 0, 1, 1, 1, 0, 0, 0, 1>>)], FALSE)],
  [cls |-> "rx", b |-> EncRx([ver |-> 0, fn |-> 300, tn |-> 2, rssi |-> -60, toa |-> -5, burst |-> Burst(<<-127, 0, 127>>)], FALSE)],
  [cls |-> "rx", b |-> EncRx([ver |-> 1, fn |-> 2715647, tn |-> 0, rssi |-> -110, toa |-> 0, nope |-> TRUE,
                              mod |-> "GMSK", tscset |-> 0, tsc |-> 0, ci |-> -30, burst |-> NoBurst], FALSE)],
  [cls |-> "rx", b |-> EncRx([ver |-> 1, fn |-> 1, tn |-> 5, rssi |-> -47, toa |-> 32767, nope |-> FALSE,
                              mod |-> "AQPSK", tscset |-> 1, tsc |-> 7, ci |-> 1280, burst |-> Burst(<<1, -1, 0, 5, -5, 127>>)], FALSE)] }

VARIABLES msgs, cut
vars == <<msgs, cut>>

RECURSIVE Cat(_)
Cat(s) == IF s = <<>> THEN <<>> ELSE Record(s[1].cls, s[1].b) \o Cat(Tail(s))
File == Cat(msgs)
RECURSIVE StartsOf(_, _)
StartsOf(s, pos) == IF s = <<>> THEN <<>> ELSE <<pos>> \o StartsOf(Tail(s), pos + HdrLen + Len(s[1].b))
Starts == StartsOf(msgs, 0)
Lens == [k \in 1..Len(msgs) |-> Len(msgs[k].b)]

Init == msgs \in UNION {[1..n -> Pool] : n \in 0..MaxMsgs} /\ cut = Len(Cat(msgs))
Crash == cut > 0 /\ cut' = cut - 1 /\ UNCHANGED msgs     \* every shorter file is reached
Next == Crash
Spec == Init /\ [][Next]_vars

Skips == -1..(MaxMsgs + 1)
Counts == {-1} \cup 1..(MaxMsgs + 1)

FullRead == ParseAll(File, cut, -1, -1).at = Complete(Starts, Lens, cut)
Slices == \A s \in Skips, c \in Counts : AllOk(ParseAll(File, cut, s, c), Starts, Lens, cut, s, c)
Random == \A i \in 0..(MaxMsgs + 1) : IdxOk(ParseIdx(File, cut, i), Starts, Lens, cut, i)
=============================================================================
