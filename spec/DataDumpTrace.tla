--------------------------- MODULE DataDumpTrace ---------------------------
(* Reads of real (truncated) capture files by data_dump.py, judged against
   DataDump.  One trace per file: cfg = {file, starts, lens, cls, orig};
   events:
     full {msgs}                       parse_all() on the whole file, every field
     read {cut, kind, skip, count, idx, res:{t, at}, eq}
          kind "all": parse_all(skip, count), kind "idx": parse_msg(idx);
          res.at = offsets of the records the returned messages were written
          as (matched by the driver), eq = they equal the written messages  *)
EXTENDS DataDump, TraceKit

VARIABLE z
F == T.cfg.file

\* record framing as written: tag, 16-bit big-endian length, body
FramingOk ==
  \A k \in 1..Len(T.cfg.starts) :
    LET p == T.cfg.starts[k] IN
    /\ p + HdrLen + T.cfg.lens[k] <= Len(F)
    /\ SubSeq(F, p + 1, p + 3) = <<TagOf(T.cfg.cls[k]), T.cfg.lens[k] \div 256, T.cfg.lens[k] % 256>>

BodyK(k) == SubSeq(F, T.cfg.starts[k] + HdrLen + 1, T.cfg.starts[k] + HdrLen + T.cfg.lens[k])
FullOk ==
  /\ Len(Ev.msgs) = Len(T.cfg.starts)
  /\ \A k \in 1..Len(Ev.msgs) :
       LET d == IF T.cfg.cls[k] = "tx" THEN DecTx(BodyK(k)) ELSE DecRx(BodyK(k)) IN
       /\ d.ok /\ Ev.msgs[k] = d.m
       /\ IF T.cfg.cls[k] = "tx" THEN SameTx(T.cfg.orig[k], Ev.msgs[k]) ELSE SameRx(T.cfg.orig[k], Ev.msgs[k])

TFull == IsEv("full") /\ Tag("C15.record-framing", FramingOk) /\ Tag("C15.full-read.every-field", FullOk) /\ UNCHANGED z /\ Adv

TRead ==
  /\ IsEv("read")
  /\ Tag("C15.returned-equals-stored", Ev.eq)
  /\ IF Ev.kind = "all"
     THEN /\ Tag("C15.parse_all.statement", AllOk(Ev.res, T.cfg.starts, T.cfg.lens, Ev.cut, Ev.skip, Ev.count))
          /\ Tag("C15.parse_all.conforms", Ev.res = ParseAll(F, Ev.cut, Ev.skip, Ev.count))
     ELSE /\ Tag("C15.parse_msg.statement", IdxOk(Ev.res, T.cfg.starts, T.cfg.lens, Ev.cut, Ev.idx))
          /\ Tag("C15.parse_msg.conforms", Ev.res = ParseIdx(F, Ev.cut, Ev.idx))
  /\ UNCHANGED z /\ Adv

\* C14: reads of corrupted files - number and kind of result as the reader model says
TReadN ==
  /\ IsEv("readn")
  /\ Tag("C14.capture.no-exception", Ev.exc = "")
  /\ IF Ev.kind = "all"
     THEN Tag("C14.capture.parse_all", LET r == ParseAll(F, Len(F), Ev.skip, Ev.count) IN r.t = Ev.res.t /\ Len(r.at) = Ev.res.n)
     ELSE Tag("C14.capture.parse_msg", ParseIdx(F, Len(F), Ev.idx).t = Ev.res.t)
  /\ UNCHANGED z /\ Adv

TInit == KInit /\ z = 0
TNext == TFull \/ TRead \/ TReadN
TSpec == TInit /\ [][TNext]_<<z, kvars>>
Post == WriteVerdicts
=============================================================================
