------------------------------ MODULE FakeTrx ------------------------------
(* The fake transceiver (virtual Um interface) of the TRX toolkit: a set of
   transceivers wired by fake_trx.Application, each with a control socket
   (TRXC commands), a data socket (bursts from L1) and a transmit queue; one
   shared clock generator.  One action per entry point of the code:

     Cmd(t, verb, args)   CTRLInterfaceTRX.parse_cmd + FakeTRX.ctrl_cmd_handler
     Arrive(t, raw)       Transceiver.recv_data_msg
     Tick                 CLCKGen.send_clck_ind -> Application.clck_handler ->
                          Transceiver.clck_tick -> BurstForwarder.forward_msg ->
                          FakeTRX.handle_data_msg

   Outputs of the last action are in `out` so that trace validation can
   compare them with what the real code emitted.  Optional values are
   sequences: <<>> = unset, <<v>> = v.                                      *)
EXTENDS TrxdPdu, FiniteSets

CONSTANTS Hyper        \* frames per hyperframe (2715648; small for model checking)

Hop == INSTANCE HoppingStd

VARIABLES wire,    \* static wiring: Seq of [parent, mgt, clk, child]
          trx,     \* Seq of transceiver records (see InitTrx)
          clk,     \* shared clock generator [run, links, src, period (indication period), start (first frame)]
          out      \* outputs of the last action
vars == <<wire, trx, clk, out>>

N == Len(wire)
Ids == 1..N
Children(t) == {c \in Ids : wire[c].parent = t}

PathLoss == 110
InitTrx == [run |-> FALSE, rx |-> <<>>, tx |-> <<>>, fh |-> <<>>, ver |-> 0, q |-> <<>>,
            muted |-> FALSE, ta |-> 0, att |-> 0, nompwr |-> 50,
            frssi |-> [on |-> FALSE, base |-> -60, thr |-> 0],
            toa |-> [base |-> 0, thr |-> 0], ci |-> [base |-> 90, thr |-> 0],
            drop |-> [n |-> 0, period |-> 1], delay |-> 0]
NoOut == [rsp |-> <<>>, dl |-> <<>>, stale |-> <<>>, ind |-> {}]

Init(w, period, start) ==
  /\ wire = w /\ trx = [t \in 1..Len(w) |-> InitTrx]
  /\ clk = [run |-> FALSE, links |-> {}, src |-> start, period |-> period, start |-> start] /\ out = NoOut

Ready(s) == (s.rx # <<>> /\ s.tx # <<>>) \/ s.fh # <<>>
Mai(fh, fn) == Hop!MAI_Std(fh.hsn, fh.maio, Len(fh.ma), fn)
RxFreq(s, fn) == IF s.fh = <<>> THEN s.rx ELSE <<s.fh[1].ma[Mai(s.fh[1], fn) + 1][1]>>
TxFreq(s, fn) == IF s.fh = <<>> THEN s.tx ELSE <<s.fh[1].ma[Mai(s.fh[1], fn) + 1][2]>>

----------------------------------------------------------------------------
(* Power events (Transceiver.power_event_handler) *)
PowerTargets(t) == IF wire[t].mgt /\ wire[t].child = 0 THEN {t} \cup Children(t) ELSE {t}

PowerTrx(t, on) ==
  [u \in Ids |-> IF u \in PowerTargets(t)
                 THEN (IF on THEN [trx[u] EXCEPT !.run = TRUE]
                       ELSE [trx[u] EXCEPT !.run = FALSE, !.q = <<>>, !.fh = <<>>])
                 ELSE trx[u]]

PowerClk(t, on) ==
  IF ~wire[t].clk THEN clk
  ELSE LET links == IF on THEN clk.links \cup {t} ELSE clk.links \ {t} IN
       IF ~clk.run /\ links # {} THEN [clk EXCEPT !.run = TRUE, !.links = links, !.src = clk.start]
       ELSE IF clk.run /\ links = {} THEN [clk EXCEPT !.run = FALSE, !.links = links]
       ELSE [clk EXCEPT !.links = links]

----------------------------------------------------------------------------
(* TRXC commands.  Result: [trx, clk, st (status), res (results), any (set of
   admissible measurement results, {} if none)].                            *)
R(tr, ck, st) == [trx |-> tr, clk |-> ck, st |-> st, res |-> <<>>, win |-> <<>>]
Upd(t, s) == [trx EXCEPT ![t] = s]
Same(st) == R(trx, clk, st)

PmWindow(freq) ==   \* FakePM.measure: a running, non-hopping transceiver transmitting there?
  IF \E u \in Ids : trx[u].run /\ trx[u].fh = <<>> /\ trx[u].tx = <<freq>> THEN <<-75, -50>> ELSE <<-120, -105>>

Pairs(a) == [k \in 1..(Len(a) \div 2) |-> <<a[2 * k - 1] * 1000, a[2 * k] * 1000>>]

CmdResult(t, verb, a) ==
  LET s == trx[t] n == Len(a) IN
  CASE verb = "SETTA" /\ n = 1 -> R(Upd(t, [s EXCEPT !.ta = a[1]]), clk, 0)
    [] verb = "FAKE_TOA" /\ n = 2 ->
         IF a[2] < 0 THEN Same(-1) ELSE R(Upd(t, [s EXCEPT !.toa = [base |-> a[1], thr |-> a[2]]]), clk, 0)
    [] verb = "FAKE_TOA" /\ n = 1 -> R(Upd(t, [s EXCEPT !.toa.base = @ + a[1]]), clk, 0)
    [] verb = "FAKE_RSSI" /\ n = 2 ->
         IF a[2] < 0 THEN R(Upd(t, [s EXCEPT !.frssi.on = FALSE]), clk, 0)
         ELSE R(Upd(t, [s EXCEPT !.frssi = [on |-> TRUE, base |-> a[1], thr |-> a[2]]]), clk, 0)
    [] verb = "FAKE_RSSI" /\ n = 1 -> R(Upd(t, [s EXCEPT !.frssi.base = @ + a[1]]), clk, 0)
    [] verb = "FAKE_CI" /\ n = 2 ->
         IF a[2] < 0 THEN Same(-1) ELSE R(Upd(t, [s EXCEPT !.ci = [base |-> a[1], thr |-> a[2]]]), clk, 0)
    [] verb = "FAKE_CI" /\ n = 1 -> R(Upd(t, [s EXCEPT !.ci.base = @ + a[1]]), clk, 0)
    [] verb = "FAKE_DROP" /\ n = 1 ->
         IF a[1] < 0 THEN Same(-1) ELSE R(Upd(t, [s EXCEPT !.drop = [n |-> a[1], period |-> 1]]), clk, 0)
    [] verb = "FAKE_DROP" /\ n = 2 ->
         IF a[1] < 0 \/ a[2] <= 0 THEN Same(-1)
         ELSE R(Upd(t, [s EXCEPT !.drop = [n |-> a[1], period |-> a[2]]]), clk, 0)
    [] verb = "FAKE_TRXC_DELAY" /\ n = 1 -> R(Upd(t, [s EXCEPT !.delay = a[1]]), clk, 0)
    [] verb = "POWERON" /\ n = 0 ->
         IF s.run \/ ~Ready(s) THEN Same(-1) ELSE R(PowerTrx(t, TRUE), PowerClk(t, TRUE), 0)
    [] verb = "POWEROFF" /\ n = 0 -> R(PowerTrx(t, FALSE), PowerClk(t, FALSE), 0)
    [] verb = "RXTUNE" /\ n = 1 -> R(Upd(t, [s EXCEPT !.rx = <<a[1] * 1000>>]), clk, 0)
    [] verb = "TXTUNE" /\ n = 1 -> R(Upd(t, [s EXCEPT !.tx = <<a[1] * 1000>>]), clk, 0)
    [] verb = "MEASURE" /\ n = 1 -> [Same(0) EXCEPT !.win = PmWindow(a[1] * 1000)]
    [] verb = "SETFH" /\ n >= 4 ->
         IF a[1] < 0 \/ a[1] > 63 THEN Same(-1) ELSE     \* HSN is a 6-bit value (45.002)
         R(Upd(t, [s EXCEPT !.fh = <<[hsn |-> a[1], maio |-> a[2], ma |-> Pairs(SubSeq(a, 3, n))]>>]), clk, 0)
    [] verb = "SETFORMAT" /\ n = 1 ->
         IF a[1] < 0 \/ a[1] > 15 THEN Same(-1)
         ELSE IF a[1] \in KnownVersions THEN R(Upd(t, [s EXCEPT !.ver = a[1]]), clk, a[1])
         ELSE Same(1)           \* the highest supported version below the request
    [] verb = "SETPOWER" /\ n = 1 -> R(Upd(t, [s EXCEPT !.att = a[1]]), clk, 0)
    [] verb = "NOMTXPOWER" /\ n = 0 -> [Same(0) EXCEPT !.res = <<s.nompwr>>]
    [] verb = "RFMUTE" /\ n = 1 -> R(Upd(t, [s EXCEPT !.muted = (a[1] > 0)]), clk, 0)
    [] OTHER -> Same(0)         \* unknown verb / undocumented argument count: acknowledged, no effect

Cmd(t, verb, a) ==
  LET r == CmdResult(t, verb, a) IN
  /\ trx' = r.trx /\ clk' = r.clk
  /\ out' = [NoOut EXCEPT !.rsp = <<[st |-> r.st, res |-> r.res, win |-> r.win]>>]
  /\ UNCHANGED wire

----------------------------------------------------------------------------
(* Burst arrival from L1 *)
Accepts(t, d) == d.ok /\ d.m.ver = trx[t].ver /\ trx[t].run
QMsg(m) == [fn |-> FromU32(m.fnb), tn |-> m.tn, pwr |-> m.pwr, burst |-> m.burst]

Arrive(t, raw) ==
  LET d == DecTx(raw) IN
  /\ trx' = IF Accepts(t, d) THEN [trx EXCEPT ![t].q = Append(@, QMsg(d.m))] ELSE trx
  /\ out' = [NoOut EXCEPT !.rsp = IF Accepts(t, d) THEN <<1>> ELSE <<0>>]
  /\ UNCHANGED <<wire, clk>>

----------------------------------------------------------------------------
(* Training sequences (3GPP TS 45.002 5.2.3 / 5.2.5 / 5.2.7), TSC set 0 *)
B(s) == s   \* (sequences are written as tuples of bits below)
NB_TS == << <<0,0,1,0,0,1,0,1,1,1,0,0,0,0,1,0,0,0,1,0,0,1,0,1,1,1>>,
            <<0,0,1,0,1,1,0,1,1,1,0,1,1,1,1,0,0,0,1,0,1,1,0,1,1,1>>,
            <<0,1,0,0,0,0,1,1,1,0,1,1,1,0,1,0,0,1,0,0,0,0,1,1,1,0>>,
            <<0,1,0,0,0,1,1,1,1,0,1,1,0,1,0,0,0,1,0,0,0,1,1,1,1,0>>,
            <<0,0,0,1,1,0,1,0,1,1,1,0,0,1,0,0,0,0,0,1,1,0,1,0,1,1>>,
            <<0,1,0,0,1,1,1,0,1,0,1,1,0,0,0,0,0,1,0,0,1,1,1,0,1,0>>,
            <<1,0,1,0,0,1,1,1,1,1,0,1,1,0,0,0,1,0,1,0,0,1,1,1,1,1>>,
            <<1,1,1,0,1,1,1,1,0,0,0,1,0,0,1,0,1,1,1,0,1,1,1,1,0,0>> >>
SB_TS == << <<1,0,1,1,1,0,0,1,0,1,1,0,0,0,1,0,0,0,0,0,0,1,0,0,0,0,0,0,1,1,1,1,0,0,1,0,1,1,0,1,0,1,0,0,0,1,0,1,0,1,1,1,0,1,1,0,0,0,0,1,1,0,1,1>>,
            <<1,1,1,0,1,1,1,0,0,1,1,0,1,0,1,1,0,0,1,0,1,0,0,0,0,0,1,1,1,1,1,0,1,1,1,1,0,1,0,0,0,1,1,1,1,1,1,0,1,1,0,0,1,0,1,1,0,0,0,1,0,1,0,1>>,
            <<1,1,1,0,1,1,0,0,0,0,1,1,0,1,1,1,0,1,0,1,0,0,0,1,0,1,0,1,1,0,1,0,0,1,1,1,1,0,0,0,0,0,0,1,0,0,0,0,0,0,1,0,0,0,1,1,0,1,0,0,1,1,1,0>>,
            <<1,0,1,1,1,0,1,0,0,0,1,1,1,1,0,1,1,1,0,1,0,1,1,0,1,1,1,1,0,1,0,0,1,0,0,0,1,0,1,1,0,1,0,0,0,0,0,0,1,0,0,0,1,1,1,0,1,0,0,1,1,0,0,0>> >>
AB_TS == << <<0,1,0,0,1,0,1,1,0,1,1,1,1,1,1,1,1,0,0,1,1,0,0,1,1,0,1,0,1,0,1,0,0,0,1,1,1,1,0,0,0>>,
            <<0,1,0,1,0,1,0,0,1,1,1,1,1,0,0,0,1,0,0,0,0,1,1,0,0,0,1,0,1,1,1,1,0,0,1,0,0,1,1,0,1>>,
            <<1,1,1,0,1,1,1,1,0,0,1,0,0,1,1,1,0,1,0,1,0,1,1,0,0,0,0,0,1,1,0,1,1,0,1,1,1,0,1,1,1>>,
            <<1,0,0,0,1,0,0,0,1,1,1,0,1,0,1,1,1,0,1,1,0,1,0,0,0,0,0,1,0,0,0,0,1,0,1,1,0,0,0,1,0>>,
            <<1,1,0,0,1,0,0,1,1,1,0,0,0,1,0,0,1,1,1,0,0,0,0,0,0,0,0,0,1,1,0,1,0,1,0,1,1,0,0,1,0>>,
            <<0,1,0,1,0,0,0,0,1,1,1,1,1,1,1,1,0,1,0,1,1,1,0,1,0,1,1,0,1,1,0,0,1,1,0,0,1,0,1,0,0>>,
            <<0,1,0,1,1,1,1,0,0,1,1,1,0,1,0,1,1,1,1,0,1,1,0,1,0,0,0,1,0,0,1,1,0,0,0,0,1,0,1,1,1>>,
            <<0,1,0,0,0,0,1,0,1,1,0,0,0,0,0,1,1,1,0,1,0,0,1,0,1,0,1,1,1,0,1,1,1,0,0,0,1,0,0,0,0>> >>

Slice(b, off, len) == IF off + len <= Len(b) THEN SubSeq(b, off + 1, off + len) ELSE <<>>
\* TSCs of the training sequences present in a GMSK burst (NB at bit 61, SB at 42, AB at 8)
TscPresent(b) ==
  {k - 1 : k \in {k \in 1..8 : Slice(b, 61, 26) = NB_TS[k]}}
  \cup {k - 1 : k \in {k \in 1..4 : Slice(b, 42, 64) = SB_TS[k]}}
  \cup {k - 1 : k \in {k \in 1..8 : Slice(b, 8, 41) = AB_TS[k]}}

----------------------------------------------------------------------------
(* Delivery of one transmitted burst to one recipient (FakeTRX.handle_data_msg).
   dr = current burst-drop state of the recipient.  Result: [dr, dl] with dl a
   sequence of 0 or 1 expected datagrams.  Randomised values are windows.    *)
Win(base, thr) == IF thr = 0 THEN <<base, base>> ELSE <<base - thr, base + thr>>

Drops(dr, fn) == dr.n # 0 /\ fn % dr.period = 0

Delivery(src, dst, m, dr) ==
  LET s == trx[src] d == trx[dst]
      srcNope == s.muted \/ ~m.burst.has      \* burst stripped by the forwarder, or a header-only message from L1
      dropped == ~d.muted /\ ~srcNope /\ Drops(dr, m.fn)
      nope == d.muted \/ srcNope \/ dropped
      dr2 == IF dropped THEN [dr EXCEPT !.n = @ - 1] ELSE dr
      toaW == Win(d.toa.base, d.toa.thr)
      taShift == s.ta * 256
      rssiW == IF d.frssi.on THEN Win(d.frssi.base, d.frssi.thr)
               ELSE <<s.nompwr - s.att - m.pwr - PathLoss, s.nompwr - s.att - m.pwr - PathLoss>>
      bl == Len(m.burst.bits)
      mod == ModOfLen(bl)
  IN IF nope
     THEN [dr |-> dr2,
           dl |-> <<[dst |-> dst, kind |-> IF d.ver < 1 THEN "none" ELSE "nope", ver |-> d.ver, fn |-> m.fn, tn |-> m.tn,
                          rssi |-> <<-110, -110>>, toa |-> <<0, 0>>, ci |-> <<-30, -30>>,
                          mod |-> "none", tscs |-> {-1},
                          \* (for a burst suppressed on a version-0 link: the bits that must NOT appear)
                          bits |-> IF d.ver < 1 /\ m.burst.has THEN MapSeq(SoftOfHard, m.burst.bits) ELSE <<>>]>>]
     ELSE [dr |-> dr2,
           dl |-> <<[dst |-> dst, kind |-> "burst", ver |-> d.ver, fn |-> m.fn, tn |-> m.tn,
                     rssi |-> rssiW, toa |-> <<toaW[1] - taShift, toaW[2] - taShift>>,
                     ci |-> Win(d.ci.base, d.ci.thr),
                     mod |-> mod,
                     tscs |-> IF mod = "GMSK" /\ TscPresent(m.burst.bits) # {} THEN TscPresent(m.burst.bits) ELSE {0},
                     bits |-> MapSeq(SoftOfHard, m.burst.bits)]>>]

\* Is the datagram sent at all?  (gen_msg validates: C13)
RangeAll(w, lo, hi) == w[1] >= lo /\ w[2] <= hi
RangeNone(w, lo, hi) == w[2] < lo \/ w[1] > hi
LenOk(e) == IF e.kind = "nope" THEN TRUE ELSE IF e.kind = "none" THEN FALSE
            ELSE IF e.ver = 0 THEN Len(e.bits) \in {GB, 3 * GB} ELSE e.mod # "unknown"
MustSend(e) == /\ LenOk(e) /\ e.fn < Hyper /\ RangeAll(e.rssi, -120, -47) /\ RangeAll(e.toa, -32768, 32767)
               /\ (e.ver >= 1 => RangeAll(e.ci, -1280, 1280))
MustNotSend(e) == \/ ~LenOk(e) \/ e.fn >= Hyper \/ RangeNone(e.rssi, -120, -47) \/ RangeNone(e.toa, -32768, 32767)
                  \/ (e.ver >= 1 /\ RangeNone(e.ci, -1280, 1280))

\* Routing (BurstForwarder.forward_msg): every other running transceiver whose
\* receive frequency in this frame equals the sender's transmit frequency
Routes(src, fn) == {d \in Ids : d # src /\ trx[d].run /\ RxFreq(trx[d], fn) = TxFreq(trx[src], fn)}

RECURSIVE ForwardTo(_, _, _, _, _)
ForwardTo(src, m, d, drs, acc) ==       \* recipients in list order d..N
  IF d > N THEN [drs |-> drs, dl |-> acc]
  ELSE IF d \in Routes(src, m.fn)
       THEN LET r == Delivery(src, d, m, drs[d]) IN
            ForwardTo(src, m, d + 1, [drs EXCEPT ![d] = r.dr], acc \o r.dl)
       ELSE ForwardTo(src, m, d + 1, drs, acc)

----------------------------------------------------------------------------
(* Clock tick.  The partition of the queue follows the statement of C03:
   with d = (m.fn - fn) mod Hyper, d = 0 is due, a frame up to a quarter
   hyperframe ahead is waiting, up to a quarter behind has passed; in between
   the statement does not say (either outcome).                             *)
Dist(mfn, fn) == (mfn - fn) % Hyper
Due(m, fn) == Dist(m.fn, fn) = 0
MustWait(m, fn) == Dist(m.fn, fn) \in 1..(Hyper \div 4)
MustStale(m, fn) == (Hyper - Dist(m.fn, fn)) \in 1..(Hyper \div 4)

Band(m, fn) == ~Due(m, fn) /\ ~MustWait(m, fn) /\ ~MustStale(m, fn)

\* `st` = set of <<t, i>>: queue entries in the undecided band that are treated as passed
IsStale(t, i, fn, st) == MustStale(trx[t].q[i], fn) \/ (Band(trx[t].q[i], fn) /\ <<t, i>> \in st)
Idx(t) == 1..Len(trx[t].q)
\* the queue entries whose index satisfies P, in queue order
Pick(t, P(_)) == LET q == trx[t].q
                     idx == SelectSeq([i \in 1..Len(q) |-> i], P)
                 IN [k \in 1..Len(idx) |-> q[idx[k]]]
DueSeq(t, fn) == Pick(t, LAMBDA i : Due(trx[t].q[i], fn))
StaleSeq(t, fn, st) == Pick(t, LAMBDA i : IsStale(t, i, fn, st))
WaitSeq(t, fn, st) == Pick(t, LAMBDA i : ~Due(trx[t].q[i], fn) /\ ~IsStale(t, i, fn, st))

RECURSIVE FwdMsgs(_, _, _, _)
FwdMsgs(src, ms, drs, acc) ==
  IF ms = <<>> THEN [drs |-> drs, dl |-> acc]
  ELSE LET r == ForwardTo(src, ms[1], 1, drs, acc) IN FwdMsgs(src, Tail(ms), r.drs, r.dl)

RECURSIVE TickFrom(_, _, _, _)
TickFrom(t, fn, drs, acc) ==        \* transceivers in list order
  IF t > N THEN [drs |-> drs, dl |-> acc]
  ELSE IF ~trx[t].run THEN TickFrom(t + 1, fn, drs, acc)
  ELSE LET r == FwdMsgs(t, DueSeq(t, fn), drs, acc) IN TickFrom(t + 1, fn, r.drs, r.dl)

RECURSIVE StalesFrom(_, _, _)
StalesFrom(t, fn, st) ==
  IF t > N THEN <<>>
  ELSE (IF trx[t].run THEN [k \in 1..Len(StaleSeq(t, fn, st)) |->
                              [t |-> t, fn |-> StaleSeq(t, fn, st)[k].fn, tn |-> StaleSeq(t, fn, st)[k].tn]]
        ELSE <<>>) \o StalesFrom(t + 1, fn, st)

Tick(st) ==
  /\ clk.run
  /\ LET fn == clk.src
         r == TickFrom(1, fn, [t \in Ids |-> trx[t].drop], <<>>)
     IN /\ trx' = [t \in Ids |-> IF trx[t].run THEN [trx[t] EXCEPT !.q = WaitSeq(t, fn, st), !.drop = r.drs[t]]
                                  ELSE [trx[t] EXCEPT !.drop = r.drs[t]]]
        /\ out' = [NoOut EXCEPT !.dl = r.dl, !.stale = StalesFrom(1, fn, st),
                                !.ind = IF fn % clk.period = 0 THEN clk.links ELSE {}]
        /\ clk' = [clk EXCEPT !.src = (fn + 1) % Hyper]
  /\ UNCHANGED wire
=============================================================================
