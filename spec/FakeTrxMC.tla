----------------------------- MODULE FakeTrxMC -----------------------------
(* Exhaustive exploration of FakeTrx with small constants, history variables
   and the clauses of C03, C05, C12, C18 as invariants / action properties.
   Mode "power": BTS + child, MS + child; every POWERON / POWEROFF / tuning /
                 SETFH history (C12, C05 power-on guard).
   Mode "flow":  three tuned transceivers (BTS, BTS child, MS on the same
                 frequencies), Hyper = 4 so that the wrap is explored; burst
                 arrivals, ticks, POWEROFF/POWERON, SETFORMAT, FAKE_DROP,
                 RFMUTE (C03, C18, C02, C05 format negotiation).              *)
EXTENDS FakeTrx, TLC

CONSTANTS Mode, MaxSteps

\* wiring in the order fake_trx.Application builds it: BTS, MS, then --trx children
W4 == << [parent |-> 0, mgt |-> TRUE,  clk |-> TRUE,  child |-> 0],
         [parent |-> 0, mgt |-> FALSE, clk |-> TRUE,  child |-> 0],
         [parent |-> 1, mgt |-> TRUE,  clk |-> FALSE, child |-> 1],
         [parent |-> 2, mgt |-> TRUE,  clk |-> FALSE, child |-> 1] >>
W3 == << [parent |-> 0, mgt |-> TRUE,  clk |-> TRUE,  child |-> 0],
         [parent |-> 0, mgt |-> FALSE, clk |-> TRUE,  child |-> 0],
         [parent |-> 1, mgt |-> TRUE,  clk |-> FALSE, child |-> 1] >>

VARIABLES steps,
          hp,        \* C12 history: last effective power command per transceiver ("on"/"off")
          acc,       \* C03 history: per transceiver, number of bursts accepted
          fate,      \* C03 history: per transceiver, Seq of [m, kind, at]
          dropped,   \* C18 history: per transceiver, bursts suppressed by FAKE_DROP since the last FAKE_DROP command
          armed,     \* C18 history: per transceiver, amount requested by the last accepted FAKE_DROP
          ops        \* the operation sequence (for spec -> code replay; hidden by VIEW NoOps)
hvars == <<steps, hp, acc, fate, dropped, armed>>
mvars == <<vars, hvars, ops>>
NoOps == <<vars, hvars>>

Cmds == IF Mode = "power"
        THEN {[v |-> "POWERON", a |-> <<>>], [v |-> "POWEROFF", a |-> <<>>], [v |-> "RXTUNE", a |-> <<1>>],
              [v |-> "TXTUNE", a |-> <<1>>], [v |-> "SETFH", a |-> <<1, 0, 1, 2, 2, 1>>]}
        ELSE IF Mode = "sim"
        THEN {[v |-> "POWERON", a |-> <<>>], [v |-> "POWEROFF", a |-> <<>>], [v |-> "NOMTXPOWER", a |-> <<>>]}
             \cup {[v |-> x, a |-> <<k>>] : x \in {"SETFORMAT", "FAKE_DROP", "RFMUTE", "SETTA", "SETPOWER", "FAKE_TOA", "FAKE_RSSI", "FAKE_CI", "RXTUNE", "TXTUNE", "MEASURE"},
                                            k \in {-1, 0, 1, 2, 16}}
             \cup {[v |-> x, a |-> <<k, j>>] : x \in {"FAKE_DROP", "FAKE_TOA", "FAKE_RSSI", "FAKE_CI"}, k \in {-70, 0, 2}, j \in {-1, 0, 2}}
             \cup {[v |-> "SETFH", a |-> <<5, 1, 1, 2, 2, 1>>], [v |-> "SETFH", a |-> <<0, 0, 2, 1>>]}
        ELSE {[v |-> "POWERON", a |-> <<>>], [v |-> "POWEROFF", a |-> <<>>]}
             \cup {[v |-> "SETFORMAT", a |-> <<k>>] : k \in {0, 1, 2}}
             \cup {[v |-> "FAKE_DROP", a |-> <<k>>] : k \in {-1, 1, 2}}
             \cup {[v |-> "FAKE_DROP", a |-> <<1, p>>] : p \in {0, 2}}
             \cup {[v |-> "RFMUTE", a |-> <<k>>] : k \in {0, 1}}

Dgrams == IF Mode = "power" THEN {}
          ELSE {EncTx([ver |-> v, fn |-> f, tn |-> 0, pwr |-> 0, burst |-> Burst(<<1, 0, 1>>)], FALSE) : v \in {0, 1}, f \in 0..(Hyper - 1)}

Tuned(k) == [InitTrx EXCEPT !.rx = <<IF k = 2 THEN 1000 ELSE 2000>>, !.tx = <<IF k = 2 THEN 2000 ELSE 1000>>]

MCInit ==
  /\ IF Mode = "power" THEN Init(W4, 2, 0)
     ELSE /\ wire = W3 /\ trx = [k \in 1..3 |-> Tuned(k)]
          /\ clk = [run |-> FALSE, links |-> {}, src |-> Hyper - 1, period |-> 2, start |-> Hyper - 1] /\ out = NoOut
  /\ ops = <<>>
  /\ steps = 0 /\ hp = [t \in 1..Len(wire) |-> "off"] /\ acc = [t \in 1..Len(wire) |-> 0]
  /\ fate = [t \in 1..Len(wire) |-> <<>>] /\ dropped = [t \in 1..Len(wire) |-> 0] /\ armed = [t \in 1..Len(wire) |-> 0]

\* what the statement of C12 calls the effective power command
Effective(t) == IF wire[t].mgt /\ wire[t].child = 0 THEN {t} \cup Children(t) ELSE {t}

MCmd(t, c) ==
  /\ steps < MaxSteps /\ steps' = steps + 1
  /\ Cmd(t, c.v, c.a)
  /\ hp' = IF c.v = "POWERON" /\ out'.rsp[1].st = 0 THEN [u \in Ids |-> IF u \in Effective(t) THEN "on" ELSE hp[u]]
           ELSE IF c.v = "POWEROFF" THEN [u \in Ids |-> IF u \in Effective(t) THEN "off" ELSE hp[u]]
           ELSE hp
  /\ fate' = [u \in Ids |-> IF c.v = "POWEROFF" /\ u \in Effective(t)
                            THEN fate[u] \o [k \in 1..Len(trx[u].q) |-> [m |-> trx[u].q[k], kind |-> "cleared", at |-> 0]]
                            ELSE fate[u]]
  /\ armed' = IF c.v = "FAKE_DROP" /\ out'.rsp[1].st = 0 THEN [armed EXCEPT ![t] = c.a[1]] ELSE armed
  /\ dropped' = IF c.v = "FAKE_DROP" /\ out'.rsp[1].st = 0 THEN [dropped EXCEPT ![t] = 0] ELSE dropped
  /\ ops' = Append(ops, [op |-> "cmd", t |-> t, v |-> c.v, a |-> c.a])
  /\ UNCHANGED acc

MArrive(t, raw) ==
  /\ steps < MaxSteps /\ steps' = steps + 1
  /\ Arrive(t, raw)
  /\ acc' = IF out'.rsp = <<1>> THEN [acc EXCEPT ![t] = @ + 1] ELSE acc
  /\ ops' = Append(ops, [op |-> "data", t |-> t, raw |-> raw])
  /\ UNCHANGED <<hp, fate, dropped, armed>>

BandEntries == {<<t, i>> \in UNION {{<<t, i>> : i \in 1..Len(trx[t].q)} : t \in Ids} : Band(trx[t].q[i], clk.src)}

MTick(st) ==
  /\ steps < MaxSteps /\ steps' = steps + 1
  /\ Tick(st)
  /\ fate' = [u \in Ids |-> IF ~trx[u].run THEN fate[u]
                            ELSE fate[u]
                                 \o [k \in 1..Len(DueSeq(u, clk.src)) |-> [m |-> DueSeq(u, clk.src)[k], kind |-> "sent", at |-> clk.src]]
                                 \o [k \in 1..Len(StaleSeq(u, clk.src, st)) |-> [m |-> StaleSeq(u, clk.src, st)[k], kind |-> "stale", at |-> clk.src]]]
  /\ dropped' = [u \in Ids |-> dropped[u] + (trx[u].drop.n - trx'[u].drop.n)]
  /\ ops' = Append(ops, [op |-> "tick"])
  /\ UNCHANGED <<hp, acc, armed>>

MCNext == \/ \E t \in Ids, c \in Cmds : MCmd(t, c)
          \/ \E t \in Ids, raw \in Dgrams : MArrive(t, raw)
          \/ \E st \in SUBSET BandEntries : MTick(st)
MCSpec == MCInit /\ [][MCNext]_mvars

----------------------------------------------------------------------------
(* C12 *)
RunningIffLastPower == \A t \in Ids : trx[t].run = (hp[t] = "on")
ClockLinksExact == clk.links = {t \in Ids : wire[t].clk /\ trx[t].run}
ClockRunsIffNeeded == clk.run = (clk.links # {})
IdleHasNoQueue == \A t \in Ids : ~trx[t].run => trx[t].q = <<>>
PowerOffForgets == [][\A t \in Ids : (trx[t].run /\ ~trx'[t].run) => (trx'[t].fh = <<>> /\ trx'[t].q = <<>>)]_mvars
(* C05 *)
PowerOnGuard == [][\A t \in Ids : (~trx[t].run /\ trx'[t].run /\ wire[t].child = 0) => Ready(trx[t])]_mvars
VersionKnown == \A t \in Ids : trx[t].ver \in KnownVersions
(* C03 *)
NoSilentLoss == \A t \in Ids : acc[t] = Len(trx[t].q) + Len(fate[t])
SentInOwnFrame == \A t \in Ids : \A k \in 1..Len(fate[t]) : fate[t][k].kind = "sent" => fate[t][k].at = fate[t][k].m.fn
StaleOnlyIfPassed == \A t \in Ids : \A k \in 1..Len(fate[t]) :
                       fate[t][k].kind = "stale" => (~Due(fate[t][k].m, fate[t][k].at) /\ ~MustWait(fate[t][k].m, fate[t][k].at))
QueueOnlyFuture == \A t \in Ids : \A k \in 1..Len(trx[t].q) : TRUE
(* C18: never more bursts suppressed than requested by the last accepted FAKE_DROP;
   the counter is what remains *)
DropAccounting == \A t \in Ids : dropped[t] <= armed[t] /\ (armed[t] > 0 => trx[t].drop.n = armed[t] - dropped[t])
DropNeverNegative == \A t \in Ids : trx[t].drop.n >= 0 /\ trx[t].drop.period >= 1
=============================================================================
