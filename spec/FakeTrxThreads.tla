--------------------------- MODULE FakeTrxThreads ---------------------------
(* The transmit queue of one transceiver shared by two threads (C03):
     socket thread:  one operation - a burst arrival (recv_data_msg),
                     POWEROFF or POWERON (power_event_handler)
     clock thread:   one tick (clck_tick)
   Every statement group that the queue mutex does or does not protect is its
   own step, so TLC explores all interleavings.  Messages are [id, fn].      *)
EXTENDS Integers, Sequences, FiniteSets

CONSTANTS Hyper

VARIABLES run, q, lock,          \* shared: running flag, queue, mutex holder ("none" | "sock" | "clk")
          sop, spc, smsg,        \* socket thread: operation, program counter, message
          tpc, tfn, emit, drop,  \* clock thread: program counter, frame, local lists
          accepted, fate         \* history: accepted messages; Seq of [id, kind, at]
tvars == <<run, q, lock, sop, spc, smsg, tpc, tfn, emit, drop, accepted, fate>>

Dist(mfn, fn) == (mfn - fn) % Hyper
Due(m, fn) == Dist(m.fn, fn) = 0
Stale(m, fn) == Dist(m.fn, fn) >= Hyper \div 2
Sel(s, P(_)) == SelectSeq(s, P)

\* ---- socket thread ---------------------------------------------------------
SockStart(op, m) == /\ spc = "idle" /\ sop' = op /\ smsg' = m /\ spc' = "s1"
                    /\ UNCHANGED <<run, q, lock, tpc, tfn, emit, drop, accepted, fate>>

\* arrival: running check, then append under the mutex
ArrCheck == /\ sop = "arrive" /\ spc = "s1"
            /\ spc' = IF run THEN "s2" ELSE "done"
            /\ UNCHANGED <<run, q, lock, sop, smsg, tpc, tfn, emit, drop, accepted, fate>>
ArrLock  == /\ sop = "arrive" /\ spc = "s2" /\ lock = "none" /\ lock' = "sock" /\ spc' = "s3"
            /\ UNCHANGED <<run, q, sop, smsg, tpc, tfn, emit, drop, accepted, fate>>
ArrAppend == /\ sop = "arrive" /\ spc = "s3" /\ q' = Append(q, smsg) /\ accepted' = accepted \cup {smsg.id}
             /\ lock' = "none" /\ spc' = "acc"
             /\ UNCHANGED <<run, sop, smsg, tpc, tfn, emit, drop, fate>>

\* power off: flag, then clear under the mutex
OffFlag == /\ sop = "off" /\ spc = "s1" /\ run' = FALSE /\ spc' = "s2"
           /\ UNCHANGED <<q, lock, sop, smsg, tpc, tfn, emit, drop, accepted, fate>>
OffLock == /\ sop = "off" /\ spc = "s2" /\ lock = "none" /\ lock' = "sock" /\ spc' = "s3"
           /\ UNCHANGED <<run, q, sop, smsg, tpc, tfn, emit, drop, accepted, fate>>
OffClear == /\ sop = "off" /\ spc = "s3" /\ q' = <<>> /\ lock' = "none" /\ spc' = "done"
            /\ fate' = fate \o [k \in 1..Len(q) |-> [id |-> q[k].id, fn |-> q[k].fn, kind |-> "cleared", at |-> -1]]
            /\ UNCHANGED <<run, sop, smsg, tpc, tfn, emit, drop, accepted>>
OnFlag == /\ sop = "on" /\ spc = "s1" /\ run' = TRUE /\ spc' = "done"
          /\ UNCHANGED <<q, lock, sop, smsg, tpc, tfn, emit, drop, accepted, fate>>

\* ---- clock thread ------------------------------------------------------------
TickStart(fn) == /\ tpc = "idle" /\ tfn' = fn /\ tpc' = "t1"
                 /\ UNCHANGED <<run, q, lock, sop, spc, smsg, emit, drop, accepted, fate>>
TickCheck == /\ tpc = "t1" /\ tpc' = IF run THEN "t2" ELSE "done"
             /\ UNCHANGED <<run, q, lock, sop, spc, smsg, tfn, emit, drop, accepted, fate>>
TickLock == /\ tpc = "t2" /\ lock = "none" /\ lock' = "clk" /\ tpc' = "t3"
            /\ UNCHANGED <<run, q, sop, spc, smsg, tfn, emit, drop, accepted, fate>>
TickPartition ==
  /\ tpc = "t3"
  /\ emit' = Sel(q, LAMBDA m : Due(m, tfn))
  /\ drop' = Sel(q, LAMBDA m : ~Due(m, tfn) /\ Stale(m, tfn))
  /\ q' = Sel(q, LAMBDA m : ~Due(m, tfn) /\ ~Stale(m, tfn))
  /\ lock' = "none" /\ tpc' = "t4"
  /\ UNCHANGED <<run, sop, spc, smsg, tfn, accepted, fate>>
TickSend == /\ tpc = "t4" /\ emit # <<>>
            /\ fate' = Append(fate, [id |-> emit[1].id, fn |-> emit[1].fn, kind |-> "sent", at |-> tfn]) /\ emit' = Tail(emit)
            /\ UNCHANGED <<run, q, lock, sop, spc, smsg, tpc, tfn, drop, accepted>>
TickLog  == /\ tpc = "t4" /\ emit = <<>> /\ drop # <<>>
            /\ fate' = Append(fate, [id |-> drop[1].id, fn |-> drop[1].fn, kind |-> "stale", at |-> tfn]) /\ drop' = Tail(drop)
            /\ UNCHANGED <<run, q, lock, sop, spc, smsg, tpc, tfn, emit, accepted>>
TickEnd  == /\ tpc = "t4" /\ emit = <<>> /\ drop = <<>> /\ tpc' = "done"
            /\ UNCHANGED <<run, q, lock, sop, spc, smsg, tfn, emit, drop, accepted, fate>>

Internal == ArrCheck \/ ArrLock \/ ArrAppend \/ OffFlag \/ OffLock \/ OffClear \/ OnFlag
            \/ TickCheck \/ TickLock \/ TickPartition \/ TickSend \/ TickLog \/ TickEnd

\* ---- C03 clauses ---------------------------------------------------------------
FateIds == {fate[k].id : k \in 1..Len(fate)}
QIds == {q[k].id : k \in 1..Len(q)}
LocalIds == {emit[k].id : k \in 1..Len(emit)} \cup {drop[k].id : k \in 1..Len(drop)}
NoSilentLoss == accepted = QIds \cup LocalIds \cup FateIds
ExactlyOnce == /\ \A i, j \in 1..Len(fate) : fate[i].id = fate[j].id => i = j
               /\ QIds \cap FateIds = {} /\ LocalIds \cap FateIds = {} /\ QIds \cap LocalIds = {}
SentInOwnFrame == \A k \in 1..Len(fate) : fate[k].kind = "sent" => fate[k].at = fate[k].fn
StaleOnlyIfPassed == \A k \in 1..Len(fate) : fate[k].kind = "stale" => (fate[k].fn # fate[k].at /\ Dist(fate[k].fn, fate[k].at) >= Hyper \div 2)
MutexOk == lock \in {"none", "sock", "clk"}
=============================================================================
