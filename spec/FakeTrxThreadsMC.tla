-------------------------- MODULE FakeTrxThreadsMC --------------------------
(* All interleavings of one socket-thread operation with one clock tick, from
   every small initial queue (C03, schedules).                               *)
EXTENDS FakeTrxThreads, TLC

Msgs == {[id |-> i, fn |-> f] : i \in 1..2, f \in 0..(Hyper - 1)}
InitQueues == {<<>>} \cup {<<m>> : m \in {x \in Msgs : x.id = 1}}
              \cup {<<m, n>> : m \in {x \in Msgs : x.id = 1}, n \in {x \in Msgs : x.id = 2}}
New == {[id |-> 3, fn |-> f] : f \in 0..(Hyper - 1)}

MCInit == /\ run \in BOOLEAN /\ q \in InitQueues /\ lock = "none"
          /\ sop = "none" /\ spc = "idle" /\ smsg = [id |-> 0, fn |-> 0]
          /\ tpc = "idle" /\ tfn = 0 /\ emit = <<>> /\ drop = <<>>
          /\ accepted = {q[k].id : k \in 1..Len(q)} /\ fate = <<>>
MCNext == \/ \E m \in New : SockStart("arrive", m)
          \/ SockStart("off", [id |-> 0, fn |-> 0]) \/ SockStart("on", [id |-> 0, fn |-> 0])
          \/ \E f \in 0..(Hyper - 1) : TickStart(f)
          \/ Internal
MCSpec == MCInit /\ [][MCNext]_tvars
Quiescent == spc \in {"acc", "done"} /\ tpc = "done"
AllAccounted == Quiescent => accepted = QIds \cup FateIds
=============================================================================
