SPECIFICATION TSpec
CONSTANTS
  Hyper = 2715648
POSTCONDITION Post
CHECK_DEADLOCK FALSE
