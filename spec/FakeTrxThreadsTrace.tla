------------------------- MODULE FakeTrxThreadsTrace -------------------------
(* Validates one enumerated schedule of the real code per trace: the logged
   events bracket the operations (start / end), report every transmission and
   stale report in execution order, and give the final queue; the steps the
   log cannot show (running check, append / clear / partition under the mutex)
   are internal steps TLC places between the brackets.                      *)
EXTENDS FakeTrxThreads, TraceKit

TInit == /\ KInit
         /\ run = T.cfg.run /\ q = T.cfg.q /\ lock = "none"
         /\ sop = "none" /\ spc = "idle" /\ smsg = [id |-> 0, fn |-> 0]
         /\ tpc = "idle" /\ tfn = 0 /\ emit = <<>> /\ drop = <<>>
         /\ accepted = {T.cfg.q[k].id : k \in 1..Len(T.cfg.q)} /\ fate = <<>>

Props == /\ Tag("C03.no-silent-loss", NoSilentLoss') /\ Tag("C03.exactly-once", ExactlyOnce')
         /\ Tag("C03.sent-in-own-frame", SentInOwnFrame') /\ Tag("C03.stale-only-if-passed", StaleOnlyIfPassed')

\* the socket thread may perform several operations one after the other
TSockStart == /\ IsEv("sockStart") /\ spc \in {"idle", "end"}
              /\ sop' = Ev.op /\ smsg' = Ev.m /\ spc' = "s1"
              /\ UNCHANGED <<run, q, lock, tpc, tfn, emit, drop, accepted, fate>>
              /\ Adv
TSockEnd == /\ IsEv("sockEnd") /\ spc \in {"acc", "done"}
            /\ Tag("C03.accepted-flag", Ev.acc = (spc = "acc"))
            /\ spc' = "end" /\ UNCHANGED <<run, q, lock, sop, smsg, tpc, tfn, emit, drop, accepted, fate>> /\ Adv
TTickStart == IsEv("tickStart") /\ TickStart(Ev.fn) /\ Adv
TSent == IsEv("sent") /\ TickSend /\ Tag("C03.transmitted-burst", fate'[Len(fate')].id = Ev.id) /\ Props /\ Adv
TStale == IsEv("stale") /\ TickLog /\ Tag("C03.stale-burst", fate'[Len(fate')].id = Ev.id) /\ Props /\ Adv
TTickEnd == /\ IsEv("tickEnd") /\ tpc = "done" /\ tpc' = "end"
            /\ UNCHANGED <<run, q, lock, sop, spc, smsg, tfn, emit, drop, accepted, fate>> /\ Adv
TFinal == /\ IsEv("final") /\ spc = "end" /\ tpc = "end"
          /\ Tag("C03.final-queue", (("qunobs" \in DOMAIN Ev /\ Ev.qunobs) \/ [k \in 1..Len(q) |-> q[k].id] = Ev.q) /\ run = Ev.run)
          /\ Tag("C03.no-silent-loss", accepted = QIds \cup FateIds)
          /\ UNCHANGED tvars /\ Adv

\* steps the log cannot show
Silent == /\ (ArrCheck \/ ArrLock \/ ArrAppend \/ OffFlag \/ OffLock \/ OffClear \/ OnFlag
              \/ TickCheck \/ TickLock \/ TickPartition \/ TickEnd)
          /\ UNCHANGED kvars

TNext == TSockStart \/ TSockEnd \/ TTickStart \/ TSent \/ TStale \/ TTickEnd \/ TFinal \/ Silent
TSpec == TInit /\ [][TNext]_<<tvars, kvars>>
Post == WriteVerdicts
=============================================================================
