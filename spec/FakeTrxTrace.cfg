SPECIFICATION TSpec
CONSTANTS
  GB = 148
  Hyper = 2715648
POSTCONDITION Post
CHECK_DEADLOCK FALSE
