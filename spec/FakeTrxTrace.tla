---------------------------- MODULE FakeTrxTrace ----------------------------
(* Validates sessions of the real fake_trx.Application against FakeTrx.
   cfg.wire = the application's wiring as the code built it; events:
     cmd  {t, raw, rport, outs, exc, slept, proj}   a datagram on a control socket
     data {t, raw, acc, outs, exc, proj}            a datagram on a data socket
     tick {fn, outs, stales, exc, proj}             one clock tick
   Every conjunct carries the tag of the property clause it encodes.        *)
EXTENDS FakeTrx, Trxc, TraceKit

fvars == vars
P == Ev.proj

QProj(q) == [k \in 1..Len(q) |-> <<q[k].fn, q[k].tn>>]
RunOk == {t \in Ids : trx'[t].run # P.trx[t].run} = {}
ClkOk == clk'.run = P.clk.run /\ clk'.links = {P.clk.links[k] : k \in 1..Len(P.clk.links)}
         /\ (clk'.run => clk'.src = P.clk.src)
\* state components the harness could not read from the application (a private attribute renamed or
\* re-represented) are not compared; what they cause stays visible in replies and forwarded bursts
Unobs == IF "unobs" \in DOMAIN P THEN {P.unobs[k] : k \in 1..Len(P.unobs)} ELSE {}
QueueOk == "q" \in Unobs \/ {t \in Ids : QProj(trx'[t].q) # P.trx[t].q} = {}
HopOk == {t \in Ids : trx'[t].fh # P.trx[t].fh} = {}
\* the first state component on which code and specification disagree names the clause, so that
\* the properties that depend on that component (routing: rx/tx; delivered values: ver, ta, att,
\* nompwr, frssi, toa, ci) can claim the rejection too
RestFields == ((DOMAIN InitTrx) \ {"run", "fh", "q", "drop", "muted"}) \ Unobs
RestDiff == {f \in RestFields : \E t \in Ids : trx'[t][f] # P.trx[t][f]}
RestOk == RestDiff = {}
Rest(s) == [f \in RestFields |-> s[f]]
QSame(a, b) == "q" \in Unobs \/ QProj(a) = b
RestTag == IF RestDiff = {} THEN "C05.effect" ELSE "C05.effect." \o (CHOOSE f \in RestDiff : TRUE)
DropOk == {t \in Ids : trx'[t].drop # P.trx[t].drop \/ trx'[t].muted # P.trx[t].muted} = {}
ProjOk == /\ Tag("C12.running-state", RunOk) /\ Tag("C12.clock-links", ClkOk)
          /\ Tag("C03.queue", QueueOk)
          /\ Tag(IF \E t \in Ids : trx[t].run /\ ~trx'[t].run THEN "C12.poweroff-forgets-hopping" ELSE "C05.effect.hopping", HopOk)
          /\ Tag("C18.drop-counter-and-mute", DropOk)
          /\ Tag(RestTag, RestOk)

\* clock indications leave only from a clock tick (C09: exactly at frames divisible by the period)
NoClckOut == {k \in 1..Len(Ev.outs) : Ev.outs[k].kind = "clck"} = {}

ReplyOk(toks, r, raw) ==
  IF r.win = <<>> THEN raw = Response(toks, r.st, r.res)
  ELSE \E x \in r.win[1]..r.win[2] : raw = Response(toks, r.st, <<x>>)

TCmd ==
  /\ IsEv("cmd")
  /\ IF ~IsCmd(Ev.raw)
     THEN /\ Tag("C05.no-reply-without-prefix", Ev.outs = <<>> /\ Ev.exc = "")
          /\ UNCHANGED fvars
          /\ Tag("C05.effect", \A t \in Ids : \A f \in (DOMAIN InitTrx) \ ({"q"} \cup Unobs) : trx[t][f] = P.trx[t][f])
     ELSE LET toks == Tokens(Ev.raw) IN
          /\ Tag("harness.wellformed-numbers", AllInts(Tail(toks)))
          /\ Cmd(Ev.t, VerbOf(toks[1]), Ints(Tail(toks)))
          /\ Tag("C09.indication-outside-tick", NoClckOut)
          /\ Tag("C05.exactly-one-reply", Len(Ev.outs) = 1 /\ Ev.exc = "")
          /\ Tag("C05.reply-to-sender", Ev.outs[1].kind = "ctrl" /\ Ev.outs[1].t = Ev.t /\ Ev.outs[1].port = Ev.rport
                                           /\ ("rhost" \in DOMAIN Ev => Ev.outs[1].host = Ev.rhost))
          /\ Tag("C05.reply-octets", ReplyOk(toks, out'.rsp[1], Ev.outs[1].raw))
          /\ Tag("C05.reply-delay", Ev.slept = IF trx'[Ev.t].delay > 0 THEN <<trx'[Ev.t].delay>> ELSE <<>>)
          /\ ProjOk
  /\ Adv

TData ==
  /\ IsEv("data")
  /\ Tag("C14.no-exception", Ev.exc = "")
  /\ Arrive(Ev.t, Ev.raw)
  /\ Tag("C09.indication-outside-tick", NoClckOut)
  /\ Tag("C03.accepted-iff-running-and-version", Ev.acc = (out'.rsp = <<1>>))
  /\ Tag("C03.arrival-sends-nothing", Ev.outs = <<>>)
  /\ ProjOk
  /\ Adv

----------------------------------------------------------------------------
(* tick *)
DataOuts == SelectSeq(Ev.outs, LAMBDA o : o.kind = "data")
ClckOuts == {<<Ev.outs[k].t, Ev.outs[k].port, Ev.outs[k].raw>> : k \in {k \in 1..Len(Ev.outs) : Ev.outs[k].kind = "clck"}}
NClck == Cardinality({k \in 1..Len(Ev.outs) : Ev.outs[k].kind = "clck"})

\* band entries the code reported stale
\* (a tick with a warning the harness could not read as a report about a burst: the reports of that tick
\* are not judged, the specification drops what must be dropped)
SUnobs == "sunobs" \in DOMAIN Ev /\ Ev.sunobs
StaleChoice == {<<t, i>> \in UNION {{<<t, i>> : i \in 1..Len(trx[t].q)} : t \in Ids} :
                  (SUnobs /\ MustStale(trx[t].q[i], clk.src))
                  \/ \E k \in 1..Len(Ev.stales) : Ev.stales[k].t = t /\ Ev.stales[k].fn = trx[t].q[i].fn /\ Ev.stales[k].tn = trx[t].q[i].tn}
StalesLogged == [k \in 1..Len(Ev.stales) |-> [t |-> Ev.stales[k].t, fn |-> Ev.stales[k].fn, tn |-> Ev.stales[k].tn]]

InWin(x, w) == x >= w[1] /\ x <= w[2]
SameSlot(e, g) == LET d == DecRx(g.raw) IN d.ok /\ g.t = e.dst /\ FromU32(d.m.fnb) = e.fn /\ d.m.tn = e.tn

FieldFails(e, g) ==
  LET m == DecRx(g.raw).m IN
  (IF g.port = wire[e.dst].ports.data[2] THEN {} ELSE {"C12.ports"})
  \cup (IF m.ver = e.ver THEN {} ELSE {"C10.version-of-recipient"})
  \cup (IF e.kind = "none" \/ (/\ Len(g.raw) = RxHdrLen(m.ver) + Len(e.bits) + (IF m.ver = 0 THEN 2 ELSE 0)
                                /\ (m.ver = 0 => SubSeq(g.raw, Len(g.raw) - 1, Len(g.raw)) = <<0, 0>>))
        THEN {} ELSE {"C10.legacy-padding"})
  \cup (IF e.kind = "none" THEN {"C18.suppressed-burst-sent-on-v0"} ELSE {})
  \cup (IF e.kind # "nope" THEN {}
        ELSE IF m.ver >= 1 /\ m.nope /\ ~m.burst.has /\ m.rssi = -110 /\ m.toa = 0 /\ m.ci = -30 THEN {} ELSE {"C18.nope-indication"})
  \cup (IF e.kind # "burst" THEN {}
        ELSE IF m.ver >= 1 /\ m.nope THEN {"C18.unrequested-suppression"}     \* a NOPE where the burst was due
        ELSE (IF m.burst.has /\ m.burst.bits = e.bits THEN {} ELSE {"C10.bits"})
             \cup (IF InWin(m.rssi, e.rssi) THEN {} ELSE {"C10.rssi"})
             \cup (IF InWin(m.toa, e.toa) THEN {} ELSE {"C10.toa"})
             \cup (IF m.ver = 0 THEN {}
                   ELSE (IF ~m.nope /\ m.mod = e.mod /\ m.tscset = 0 /\ m.tsc \in e.tscs THEN {} ELSE {"C10.modulation-tsc"})
                        \cup (IF InWin(m.ci, e.ci) THEN {} ELSE {"C10.ci"})))

\* Expected and observed deliveries are aligned in order.  An expected entry that
\* must not be sent (invalid message, C13) or may legitimately be absent (a
\* randomised value of its window is invalid) only matches a datagram that
\* carries exactly its values; a burst suppressed on a version-0 link matches
\* any datagram for its slot.
RECURSIVE Align(_, _)
Align(exp, got) ==
  IF exp = <<>> THEN (IF got = <<>> THEN {} ELSE {"C02.unexpected-delivery"})
  ELSE LET e == exp[1] IN
       IF got # <<>> /\ SameSlot(e, got[1])
          /\ ((~MustSend(e) /\ e.kind # "none") => FieldFails(e, got[1]) \subseteq {"C12.ports"})
          /\ (e.kind = "none" => DecRx(got[1].raw).m.burst.bits = e.bits)
       THEN (IF MustNotSend(e) /\ e.kind # "none" THEN {"C13.invalid-message-sent"} ELSE FieldFails(e, got[1]))
            \cup Align(Tail(exp), Tail(got))
       ELSE IF MustSend(e) THEN {IF e.kind = "nope" THEN "C18.nope-missing" ELSE "C02.missing-delivery"} \cup Align(Tail(exp), got)
       ELSE Align(Tail(exp), got)

AlignTags == {"C02.unexpected-delivery", "C02.missing-delivery", "C18.nope-missing", "C18.suppressed-burst-sent-on-v0",
              "C18.nope-indication", "C18.unrequested-suppression", "C13.invalid-message-sent", "C12.ports", "C10.version-of-recipient",
              "C10.legacy-padding", "C10.bits", "C10.rssi", "C10.toa", "C10.modulation-tsc", "C10.ci"}

TTick ==
  /\ IsEv("tick")
  /\ Tag("C14.no-exception", Ev.exc = "")
  /\ Tag("C09.tick-frame-number", clk.run /\ Ev.fn = clk.src)
  /\ Tick(StaleChoice)
  /\ Tag("C03.stale-report", SUnobs \/ out'.stale = StalesLogged)
  /\ Tag("C12.clock-indications",
         /\ ClckOuts = {<<lk, wire[lk].ports.clck[2], ClockInd(Ev.fn)>> : lk \in out'.ind}
         /\ NClck = Cardinality(out'.ind))
  /\ LET F == Align(out'.dl, DataOuts) IN
     /\ Tag("C02.unexpected-delivery", "C02.unexpected-delivery" \notin F)
     /\ Tag("C02.missing-delivery", "C02.missing-delivery" \notin F)
     /\ Tag("C18.nope-missing", "C18.nope-missing" \notin F)
     /\ Tag("C18.suppressed-burst-sent-on-v0", "C18.suppressed-burst-sent-on-v0" \notin F)
     /\ Tag("C18.nope-indication", "C18.nope-indication" \notin F)
     /\ Tag("C18.unrequested-suppression", "C18.unrequested-suppression" \notin F)
     /\ Tag("C13.invalid-message-sent", "C13.invalid-message-sent" \notin F)
     /\ Tag("C12.ports", "C12.ports" \notin F)
     /\ Tag("C10.version-of-recipient", "C10.version-of-recipient" \notin F)
     /\ Tag("C10.legacy-padding", "C10.legacy-padding" \notin F)
     /\ Tag("C10.bits", "C10.bits" \notin F)
     /\ Tag("C10.rssi", "C10.rssi" \notin F)
     /\ Tag("C10.toa", "C10.toa" \notin F)
     /\ Tag("C10.modulation-tsc", "C10.modulation-tsc" \notin F)
     /\ Tag("C10.ci", "C10.ci" \notin F)
  /\ ProjOk
  /\ Adv

(* Hostile input (C14).  "garbage": a control datagram that is not a well-formed
   documented command (non-text octets, non-numeric arguments, no CMD prefix,
   over-long) - processing returns normally, nothing changes, at most one
   reply, and only to a datagram that starts with CMD.  "wild": a well-formed
   command whose integers exceed what this specification can compute with
   (TLC integers are 32 bit) - processing returns normally with exactly one
   reply, and only the addressed transceiver's tuning / simulation parameters
   may change; the specification continues from the logged values.          *)
SameAsLogged == {t \in Ids : Rest(trx[t]) # Rest(P.trx[t]) \/ trx[t].run # P.trx[t].run \/ trx[t].fh # P.trx[t].fh
                               \/ ~QSame(trx[t].q, P.trx[t].q) \/ trx[t].drop # P.trx[t].drop \/ trx[t].muted # P.trx[t].muted} = {}
TGarbage ==
  /\ IsEv("garbage")
  /\ Tag("C14.no-exception", Ev.exc = "")
  /\ Tag("C14.garbage-has-no-effect", SameAsLogged /\ clk.run = P.clk.run)
  /\ Tag("C14.garbage-reply", IF Ev.sock = "ctrl" /\ IsCmd(Ev.raw)
                                THEN Len(Ev.outs) <= 1 /\ (Len(Ev.outs) = 1 => (Ev.outs[1].kind = "ctrl" /\ Ev.outs[1].t = Ev.t /\ Ev.outs[1].port = Ev.rport
                                                                               /\ SubSeq(Ev.outs[1].raw, 1, 4) = <<82, 83, 80, 32>>))
                                ELSE Ev.outs = <<>>)
  /\ UNCHANGED fvars
  /\ Adv

Tunables == {"rx", "tx", "ver", "ta", "att", "nompwr", "frssi", "toa", "ci", "delay", "drop", "muted"}
TWild ==
  /\ IsEv("wild")
  /\ Tag("C14.no-exception", Ev.exc = "")
  /\ Tag("C14.exactly-one-reply", Len(Ev.outs) = 1 /\ Ev.outs[1].kind = "ctrl" /\ Ev.outs[1].t = Ev.t)
  /\ Tag("C14.wild-touches-only-parameters",
         /\ \A t \in Ids : trx[t].run = P.trx[t].run /\ QSame(trx[t].q, P.trx[t].q)
         /\ \A t \in Ids \ {Ev.t} : Rest(trx[t]) = Rest(P.trx[t]) /\ trx[t].fh = P.trx[t].fh /\ trx[t].drop = P.trx[t].drop
         /\ clk.run = P.clk.run)
  /\ trx' = [trx EXCEPT ![Ev.t] = [f \in DOMAIN trx[Ev.t] |-> IF f \in (Tunables \cup {"fh"}) \ Unobs THEN P.trx[Ev.t][f] ELSE trx[Ev.t][f]]]
  /\ out' = NoOut /\ UNCHANGED <<wire, clk>>
  /\ Adv

\* port plan (C12): checked once, on the wiring the code built
PortsOk ==
  \A t \in Ids : LET w == wire[t] IN
    /\ w.ports.ctrl = <<w.base + 2 * w.child + 1, w.base + 2 * w.child + 101>>
    /\ w.ports.data = <<w.base + 2 * w.child + 2, w.base + 2 * w.child + 102>>
    /\ (w.clk => w.ports.clck = <<w.base, w.base + 100>>)
    /\ (w.child > 0 => ~w.clk)
TPorts == IsEv("ports") /\ Tag("C12.port-plan", PortsOk) /\ UNCHANGED fvars /\ Adv

TInit == KInit /\ Init(T.cfg.wire, T.cfg.period, T.cfg.start)
TNext == TCmd \/ TData \/ TTick \/ TPorts \/ TGarbage \/ TWild
TSpec == TInit /\ [][TNext]_<<fvars, kvars>>
Post == WriteVerdicts
=============================================================================
