\* C16 spec -> code: export all MC definitions as JSON (IOEnv.OUT_FILE)
SPECIFICATION GenSpec
CONSTANTS
  Families = {"one", "two", "three", "gov", "nest"}
  Full = TRUE
CHECK_DEADLOCK FALSE
