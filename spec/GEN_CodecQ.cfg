\* C16 spec -> code: export the quick MC definitions as JSON (IOEnv.OUT_FILE)
SPECIFICATION GenSpec
CONSTANTS
  Families = {"one", "gov", "nest"}
  Full = FALSE
CHECK_DEADLOCK FALSE
