------------------------------ MODULE GsmTime ------------------------------
(* GSM time: the TDMA frame number FN of the hyperframe and its components
   (3GPP TS 45.002 4.3.3):
       T1 = FN div (26 x 51)      T2 = FN mod 26      T3 = FN mod 51
       FN = 51 x ((T3 - T2) mod 26) + T3 + 51 x 26 x T1
   and the 51-multiframe counter TC = (FN div 51) mod 8 the firmware keeps.

   State: the firmware's running time (struct gsm_time: fn, t1, t2, t3, tc).
   Actions, one per path of layer1/sync.c:l1s_time_inc():
     Inc1     delta_fn = 1: incremental update with carries
     IncD(d)  any other delta: add modulo the hyperframe, recompute from FN
   C19 clauses: Consistent (every component is the decomposition of fn),
   RoundTrip (Recomp(Decomp(fn)) = fn), TypeOK (ranges, incl. the wrap
   2715647 -> 0).  GsmTimeTrace.tla validates records of the real code.      *)
EXTENDS Integers

CONSTANTS Deltas,   \* deltas explored through IncD (delta 1 is Inc1)
          Starts    \* initial frame numbers

SUPER == 26 * 51            \* superframe
HYPER == 2048 * SUPER       \* hyperframe = GSM_MAX_FN = 2715648

Decomp(f) == [t1 |-> f \div SUPER, t2 |-> f % 26, t3 |-> f % 51, tc |-> (f \div 51) % 8]
Recomp(g) == 51 * ((g.t3 - g.t2) % 26) + g.t3 + SUPER * g.t1

VARIABLES fn, t1, t2, t3, tc
vars == <<fn, t1, t2, t3, tc>>
Comps == [t1 |-> t1, t2 |-> t2, t3 |-> t3, tc |-> tc]

\* ADD_MODULO(sum, delta, modulo): one conditional subtraction
AddMod(s, d, m) == IF s + d >= m THEN s + d - m ELSE s + d

Init == /\ fn \in Starts
        /\ t1 = Decomp(fn).t1 /\ t2 = Decomp(fn).t2 /\ t3 = Decomp(fn).t3 /\ tc = Decomp(fn).tc

Inc1 ==
  /\ fn' = AddMod(fn, 1, HYPER)
  /\ t2' = AddMod(t2, 1, 26)
  /\ t3' = AddMod(t3, 1, 51)
  /\ tc' = IF t3' = 0 THEN AddMod(tc, 1, 8) ELSE tc                   \* new FN multiple of 51
  /\ t1' = IF t3' = 0 /\ t2' = 0 THEN AddMod(t1, 1, 2048) ELSE t1     \* ... and of 26

IncD(d) ==
  /\ fn' = AddMod(fn, d, HYPER)
  /\ t1' = Decomp(fn').t1 /\ t2' = Decomp(fn').t2 /\ t3' = Decomp(fn').t3 /\ tc' = Decomp(fn').tc

Next == Inc1 \/ \E d \in Deltas : IncD(d)
Spec == Init /\ [][Next]_vars

----------------------------------------------------------------------------
TypeOK     == fn \in 0..HYPER-1 /\ t1 \in 0..2047 /\ t2 \in 0..25 /\ t3 \in 0..50 /\ tc \in 0..7
Consistent == Comps = Decomp(fn)
RoundTrip  == Recomp(Decomp(fn)) = fn
\* the recomposition of the *running* components as well (what gsm_gsmtime2fn
\* is applied to in the firmware)
RoundTripRunning == Recomp(Comps) = fn

\* Quick configuration: only frame numbers within Window of the wrap.
CONSTANT Window
NearWrap == fn < Window \/ fn >= HYPER - Window
=============================================================================
