SPECIFICATION TSpec
CONSTANTS
  Deltas = {}
  Starts = {}
  Window = 0
POSTCONDITION Post
CHECK_DEADLOCK FALSE
