--------------------------- MODULE GsmTimeTrace ---------------------------
(* Validates records of the real code against GsmTime.
   A trace is a walk of the firmware's running time (struct gsm_time):
     {e:"set", fn, after}                 gsm_fn2gsmtime(&time, fn)
     {e:"inc", fn, delta, after, dec, recomp, py}
                                          l1s_time_inc(&time, delta)  (sliced from sync.c)
   fn     = time.fn before the call,
   after  = {fn,t1,t2,t3,tc} of the struct after the call,
   dec    = <<t1,t2,t3,tc>> of gsm_fn2gsmtime(after.fn) on a fresh struct,
   recomp = gsm_gsmtime2fn() of that fresh struct,
   py     = <<t1,t2,t3>> of trx_toolkit HoppingParams.fn2gsm_time(after.fn).
   The specification state follows its own actions Inc1 / IncD; every logged
   component must equal the primed specification variable.                  *)
EXTENDS GsmTime, TraceKit

TInit == KInit /\ fn = 0 /\ t1 = 0 /\ t2 = 0 /\ t3 = 0 /\ tc = 0

After ==
  /\ Tag("C19.step.fn", Ev.after.fn = fn')
  /\ Tag("C19.step.t1", Ev.after.t1 = t1')
  /\ Tag("C19.step.t2", Ev.after.t2 = t2')
  /\ Tag("C19.step.t3", Ev.after.t3 = t3')
  /\ Tag("C19.step.tc", Ev.after.tc = tc')

TSet ==
  /\ IsEv("set")
  /\ Tag("C19.set.range", Ev.fn \in 0..HYPER-1)
  /\ fn' = Ev.fn
  /\ t1' = Decomp(fn').t1 /\ t2' = Decomp(fn').t2 /\ t3' = Decomp(fn').t3 /\ tc' = Decomp(fn').tc
  /\ After
  /\ Adv

TInc ==
  /\ IsEv("inc")
  /\ Tag("C19.chain", Ev.fn = fn /\ Ev.delta \in 1..HYPER-1)
  /\ IF Ev.delta = 1 THEN Inc1 ELSE IncD(Ev.delta)
  /\ After
  /\ Tag("C19.invariant", TypeOK' /\ Consistent' /\ RoundTripRunning')
  /\ Tag("C19.decomp", Ev.dec = <<Decomp(Ev.after.fn).t1, Decomp(Ev.after.fn).t2, Decomp(Ev.after.fn).t3, Decomp(Ev.after.fn).tc>>)
  /\ Tag("C19.recomp", Ev.recomp = Ev.after.fn)
  /\ Tag("C19.python", Ev.py = <<Decomp(Ev.after.fn).t1, Decomp(Ev.after.fn).t2, Decomp(Ev.after.fn).t3>>)
  /\ Adv

TNext == TSet \/ TInc
TSpec == TInit /\ [][TNext]_<<vars, kvars>>
Post == WriteVerdicts
=============================================================================
