---------------------------- MODULE GsmtimeLoop ----------------------------
(* Growth beyond the listed properties: the firmware's one-shot GSM-time events
   (layer1/sched_gsmtime.c) inside the frame interrupt loop, with the frame
   number running modulo the hyperframe (sync.c: l1s_time_inc).  Callers
   (prim_rach.c, prim_freq.c) compute the target frame as (fn + k) mod Hyper.

     Sched(k)   sched_gsmtime(si, (fn + k) % Hyper, ..)  sorted insert, pool of G
     Frame      sched_gsmtime_execute(fn): fire events with e.fn = fn + 2
                (Modular = FALSE: as the code compares, without modulus;
                 Modular = TRUE: compared modulo Hyper), then fn := fn + 1 mod Hyper

   EveryEventFires: an event is executed exactly when the loop reaches its
   frame - 2.  With Modular = FALSE (the code) this does NOT hold across the
   hyperframe wrap: an event for frame 0 or 1 scheduled in the last frames of
   the hyperframe never fires and keeps its pool slot (MC_GsmtimeLoopHazard.cfg,
   reproduced against the real code by the C08 check's driver); 16 of them
   exhaust the pool (-EBUSY).  With Modular = TRUE it holds (MC_GsmtimeLoop.cfg). *)
EXTENDS Integers, Sequences, FiniteSets

CONSTANTS Hyper, G, Ahead, Modular

VARIABLES fn, evs, missed     \* missed: an event's frame was reached without it firing (sticky flag)
gvars == <<fn, evs, missed>>

GInit == fn \in 0..(Hyper - 1) /\ evs = <<>> /\ missed = FALSE

\* sorted insert before the first event with a higher fn (as the code does)
Insert(s, e) ==
  IF \E i \in 1..Len(s) : s[i] > e
  THEN LET i == CHOOSE i \in 1..Len(s) : s[i] > e /\ \A j \in 1..(i - 1) : ~(s[j] > e)
       IN SubSeq(s, 1, i - 1) \o <<e>> \o SubSeq(s, i, Len(s))
  ELSE Append(s, e)

Sched(k) == /\ Len(evs) < G
            /\ evs' = Insert(evs, (fn + k) % Hyper)
            /\ UNCHANGED <<fn, missed>>

Due(e) == IF Modular THEN e = (fn + 2) % Hyper ELSE e = fn + 2
\* the loop stops at the first event later than fn + 2 (the list is ordered)
RECURSIVE Exec(_, _)
Exec(s, n) == IF s = <<>> THEN [rest |-> <<>>, n |-> n]
              ELSE IF Due(s[1]) THEN Exec(Tail(s), n + 1)
              ELSE IF (~Modular /\ s[1] > fn + 2) THEN [rest |-> s, n |-> n]
              ELSE LET r == Exec(Tail(s), n) IN [rest |-> <<s[1]>> \o r.rest, n |-> r.n]

Frame == LET r == Exec(evs, 0)
             \* events whose frame is reached now but that did not fire
             lost == Cardinality({i \in 1..Len(r.rest) : r.rest[i] = (fn + 2) % Hyper})
         IN /\ evs' = r.rest /\ missed' = (missed \/ lost > 0)
            /\ fn' = (fn + 1) % Hyper

GNext == (\E k \in 2..Ahead : Sched(k)) \/ Frame
GSpec == GInit /\ [][GNext]_gvars

EveryEventFires == ~missed
PoolNeverLeaks == \A i \in 1..Len(evs) : (evs[i] - fn) % Hyper <= Ahead
=============================================================================
