------------------------------- MODULE HopCfg -------------------------------
(* How a hopping configuration REACHES the hopping sequence generator (C07).

   HoppingStd.tla says which channel a configuration (HSN, MAIO, MA) selects in
   frame FN.  This module says which configuration answers: the one that was
   sent last and has become active, with the mobile allocation in the order
   it was sent.

     firmware   Establish(c)        L1CTL_DM_EST_REQ  (l1ctl_rx_dm_est_req)
                Redefine(c,st,now)  L1CTL_DM_FREQ_REQ (l1ctl_rx_dm_freq_req ->
                                    l1a_freq_req): c is staged; it becomes active
                                    at once if the starting time st has (nearly)
                                    passed, otherwise when it is reached
                Reach               the scheduled l1s_freq_cmd runs
     simulator  Establish(c)        TRXC SETFH (a second SETFH replaces the
                                    configuration at once); POWEROFF forgets
                                    hopping: Establish of the h = 0 configuration
                                    holding the RXTUNE / TXTUNE values
     both       a query in frame fn answers Chan(act, fn)

   Part 1 (abstract machine, variables act/stg/pend) is what the trace
   specification HopCfgTrace.tla binds to the code.  Part 2 is a memory-level
   model of the firmware's mechanism (two fixed tables of MaxN entries that are
   only partly rewritten, whole-table copy at the starting time) and the closed
   composition checked by MC_HopCfg*.cfg: a query never reads an entry that
   the active configuration did not write (no stale entries) and answers
   act.ma[MAI_Std] at any time, also between request and starting time.      *)
EXTENDS HoppingStd, TLC

CONSTANTS StMod,     \* starting times are frame numbers modulo StMod      (42432)
          StLate,    \* a distance >= StLate means "already elapsed"       (32024)
          StGrace,   \* this distance is too short for the scheduler       (5)
          FnMod      \* frame numbers wrap here                            (2715648)

----------------------------------------------------------------------------
(* Part 1: configurations and the abstract machine *)

\* h = 1: hopping over ma (a sequence of channels, as sent) ; h = 0: the single
\* channel fix ; h = 2: open - the property does not say which channel (a
\* request outside its domain was accepted)
Hop(hsn, maio, ma, fix) == [h |-> 1, hsn |-> hsn, maio |-> maio, ma |-> ma, fix |-> fix]
Fixed(ch)               == [h |-> 0, hsn |-> 0, maio |-> 0, ma |-> <<>>, fix |-> ch]
Open(fix)               == [h |-> 2, hsn |-> 0, maio |-> 0, ma |-> <<>>, fix |-> fix]

InDomain(c) == \/ c.h = 0
               \/ c.h = 1 /\ c.hsn \in 0..63 /\ c.maio \in 0..63 /\ Len(c.ma) \in 1..64

\* the channel configuration c selects in frame fn: MA(MAI), TS 45.002 6.2.3
Chan(c, fn) == IF c.h = 1 THEN c.ma[MAI_Std(c.hsn, c.maio, Len(c.ma), fn) + 1] ELSE c.fix
ChansOf(c)  == IF c.h = 1 THEN {c.ma[i] : i \in 1..Len(c.ma)} ELSE {c.fix}

VARIABLES act,       \* the configuration that answers queries
          stg,       \* the staged configuration (frequency redefinition)
          pend       \* TRUE while stg waits for its starting time
avars == <<act, stg, pend>>

\* l1a_freq_req's rule: distance from now to the starting time, modulo StMod
StDiff(st, now)    == (st - (now % StMod)) % StMod
Immediate(st, now) == StDiff(st, now) = StGrace \/ StDiff(st, now) >= StLate
SchedFn(st, now)   == (now + StDiff(st, now)) % FnMod

AInit(c0) == act = c0 /\ stg = c0 /\ pend = FALSE

Establish(c) == act' = c /\ UNCHANGED <<stg, pend>>

\* (one redefinition at a time: what a second request does to a pending one is
\*  outside the property)
Redefine(c, st, now) ==
  /\ ~pend
  /\ stg' = c
  /\ IF Immediate(st, now) THEN act' = c /\ pend' = FALSE
                           ELSE act' = act /\ pend' = TRUE

Reach == pend /\ act' = stg /\ pend' = FALSE /\ stg' = stg

----------------------------------------------------------------------------
(* Part 2: memory-level mechanism of the firmware and its design check *)
CONSTANTS MaxN,      \* size of the tables (64 in the firmware)
          Chans,     \* channel values
          McHsn, McMaio, McFn, McSt, McNow,
          CopyWhole  \* TRUE: the starting time copies the whole table (as the
                     \* firmware does); FALSE: only the first n \div 2 entries
                     \* (the sensitivity run MC_HopCfgBad.cfg must fail)

Poison == 0          \* content of an entry nobody wrote yet (not in Chans)

VARIABLES am,        \* active  [h, hsn, maio, n, tab, fix]
          sm         \* staged
mvars == <<am, sm>>
vars  == <<avars, mvars>>

\* what a request writes: a hopping configuration rewrites hsn, maio, n and the
\* first n entries; everything else keeps its old content (in the C structure h0
\* and h1 share storage: fields of the mode not in use are not read)
Write(m, c) ==
  IF c.h = 1
  THEN [h |-> 1, hsn |-> c.hsn, maio |-> c.maio, n |-> Len(c.ma),
        tab |-> [i \in 1..MaxN |-> IF i <= Len(c.ma) THEN c.ma[i] ELSE m.tab[i]], fix |-> m.fix]
  ELSE [m EXCEPT !.h = 0, !.fix = c.fix]

\* what the starting time copies from the staged to the active storage
Copy(dst, src) ==
  IF CopyWhole THEN src
  ELSE [src EXCEPT !.tab = [i \in 1..MaxN |-> IF i <= src.n \div 2 THEN src.tab[i] ELSE dst.tab[i]]]

\* Query(fn): what rfch_get_params answers from the memory (a query changes nothing,
\* so the clauses below quantify over the frame number instead of a query step)
MemAnswer(fn) == IF am.h = 1 THEN am.tab[MAI_Std(am.hsn, am.maio, am.n, fn) + 1] ELSE am.fix

RECURSIVE SeqsUpTo(_)
SeqsUpTo(n) == IF n = 0 THEN {} ELSE SeqsUpTo(n - 1) \cup [1..n -> Chans]
McCfgs == {Hop(h, o, ma, 0) : h \in McHsn, o \in McMaio, ma \in SeqsUpTo(MaxN)}
          \cup {Fixed(ch) : ch \in Chans}

Blank == [h |-> 0, hsn |-> 0, maio |-> 0, n |-> 0, tab |-> [i \in 1..MaxN |-> Poison], fix |-> Poison]

Init == /\ \E c \in McCfgs : AInit(c) /\ am = Write(Blank, c)
        /\ sm = Blank

Next ==
  \/ \E c \in McCfgs : Establish(c) /\ am' = Write(am, c) /\ sm' = sm
  \/ \E c \in McCfgs, st \in McSt, now \in McNow :
        /\ Redefine(c, st, now)
        /\ sm' = Write(sm, c)
        /\ am' = IF Immediate(st, now) THEN Copy(am, sm') ELSE am
  \/ Reach /\ am' = Copy(am, sm) /\ sm' = sm

Spec == Init /\ [][Next]_vars

\* ---- clauses (for every frame number of the model) -----------------------
\* the answer is MA(MAI) of the active configuration, MA in the order sent -
\* in particular the old configuration answers until the starting time
QueryRight == \A fn \in McFn : MemAnswer(fn) = Chan(act, fn)
\* it was written by the active configuration (never an unwritten or left-over entry)
NoStale    == \A fn \in McFn : MemAnswer(fn) # Poison /\ MemAnswer(fn) \in ChansOf(act)
\* a staged configuration does not answer before its starting time
NotEarly   == \A fn \in McFn : (pend /\ Chan(stg, fn) # Chan(act, fn)) => MemAnswer(fn) # Chan(stg, fn)
\* the memory holds the active configuration in its first n entries
MemIsAct   == /\ am.h = act.h
              /\ act.h = 1 => /\ am.n = Len(act.ma) /\ am.hsn = act.hsn /\ am.maio = act.maio
                              /\ \A i \in 1..am.n : am.tab[i] = act.ma[i]
              /\ act.h = 0 => am.fix = act.fix
\* the index computed by the generator is inside the written part
IndexInN   == \A fn \in McFn : act.h = 1 => MAI_Std(act.hsn, act.maio, Len(act.ma), fn) + 1 \in 1..Len(act.ma)
=============================================================================
