SPECIFICATION TSpec
CONSTANTS
  StMod = 42432
  StLate = 32024
  StGrace = 5
  FnMod = 2715648
  MaxN = 64
  Chans = {}
  McHsn = {}
  McMaio = {}
  McFn = {}
  McSt = {}
  McNow = {}
  CopyWhole = TRUE
POSTCONDITION Post
CHECK_DEADLOCK FALSE
