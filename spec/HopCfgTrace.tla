---------------------------- MODULE HopCfgTrace ----------------------------
(* Validates recorded runs of the real code against the configuration machine
   of HopCfg.tla (part 1) and MAI_Std (HoppingStd.tla).  One trace = one
   scenario of one implementation, cfg = {impl: "python" | "firmware"}.

   firmware (harness/c/drv_rfch_cfg.c: real L1CTL messages through
   l1ctl_rx_dm_est_req / l1ctl_rx_dm_freq_req sliced from l23_api.c, the whole
   prim_freq.c, queries by rfch_get_params of the unmodified rfch.c):
     {e:"est",   h, hsn, maio, ma:[ARFCN..], arfcn}
     {e:"redef", h, hsn, maio, ma, arfcn, st, now, imm, at}
                  st = starting time in the message, now = l1s.current_time.fn,
                  imm = 1: nothing was scheduled, else at = the scheduled frame
     {e:"reach"}  the recorded tdma_sched_item set was executed
     {e:"query", fn, got}           got = ARFCN of rfch_get_params

   python (harness/py/drv_hopcfg.py: TRXC datagrams to a transceiver of the
   real fake_trx application; channels are pairs <<rx kHz, tx kHz>>):
     {e:"tune", which:"rx"|"tx", khz, rsp}      CMD RXTUNE / TXTUNE
     {e:"setfh", hsn, maio, vals:[kHz..], rsp}  CMD SETFH hsn maio vals...
     {e:"poweron", rsp} {e:"poweroff", rsp}
     {e:"query", which:"rx"|"tx", fn, got}      trx.get_rx_freq(fn) / get_tx_freq(fn), Hz

   Clause tags:
     C07.cfg.<impl>.query             the answer is not Chan(act, fn)
     C07.cfg.<impl>.staged-too-early  ... but what the staged configuration selects
     C07.cfg.<impl>.stale-entry       ... but a channel only the previous configuration holds
     C07.cfg.firmware.starting-time   immediate / scheduled differs from l1a_freq_req's rule
     C07.cfg.firmware.scheduled-fn    scheduled for another frame than the starting time
     C07.cfg.python.setfh-status      a configuration inside the property's domain was refused
     C07.cfg.domain / C07.cfg.scope   the harness left the domain of the property      *)
EXTENDS HopCfg, TraceKit

VARIABLES at,        \* frame the pending redefinition was scheduled for
          prev       \* the configuration that was active before the last change
tvars == <<at, prev>>

Py == T.cfg.impl = "python"
TagOf(what) == "C07.cfg." \o T.cfg.impl \o "." \o what

TInit == /\ KInit
         /\ AInit(IF Py THEN Fixed(<<0, 0>>) ELSE Open(0))
         /\ at = 0 /\ prev = act
         /\ am = 0 /\ sm = 0

\* ---- what a query must answer ---------------------------------------------
\* python: channel = <<rx, tx>> in kHz, the transceiver answers in Hz
Side == IF Ev.which = "rx" THEN 1 ELSE 2
Proj(ch) == IF Py THEN 1000 * ch[Side] ELSE ch

TQuery ==
  /\ IsEv("query")
  /\ Tag("C07.cfg.domain", Ev.fn \in 0..2715647)
  /\ IF act.h = 2 THEN TRUE
     ELSE IF Ev.got = Proj(Chan(act, Ev.fn)) THEN TRUE
     ELSE IF pend /\ stg.h # 2 /\ Ev.got = Proj(Chan(stg, Ev.fn)) THEN Tag(TagOf("staged-too-early"), FALSE)
     ELSE IF prev.h # 2 /\ Ev.got \in {Proj(c) : c \in ChansOf(prev)} \ {Proj(c) : c \in ChansOf(act)}
          THEN Tag(TagOf("stale-entry"), FALSE)
     ELSE Tag(TagOf("query"), FALSE)
  /\ UNCHANGED <<avars, tvars, mvars>>
  /\ Adv

\* ---- firmware ---------------------------------------------------------------
EvCfg == IF Ev.h = 1 THEN Hop(Ev.hsn, Ev.maio, Ev.ma, 0) ELSE Fixed(Ev.arfcn)

TEst ==
  /\ IsEv("est")
  /\ Tag("C07.cfg.scope", ~Py /\ Ev.h \in {0, 1})
  /\ Tag("C07.cfg.domain", InDomain(EvCfg))
  /\ Establish(EvCfg)
  /\ prev' = act /\ at' = at
  /\ UNCHANGED mvars
  /\ Adv

TRedef ==
  /\ IsEv("redef")
  /\ Tag("C07.cfg.scope", ~Py /\ ~pend /\ Ev.h \in {0, 1})
  /\ Tag("C07.cfg.domain", InDomain(EvCfg) /\ Ev.st \in 0..(StMod - 1) /\ Ev.now \in 0..(FnMod - 1))
  /\ Redefine(EvCfg, Ev.st, Ev.now)
  /\ Tag("C07.cfg.firmware.starting-time", Ev.imm = IF Immediate(Ev.st, Ev.now) THEN 1 ELSE 0)
  /\ Tag("C07.cfg.firmware.scheduled-fn", Ev.imm = 1 \/ Ev.at = SchedFn(Ev.st, Ev.now))
  /\ prev' = (IF Immediate(Ev.st, Ev.now) THEN act ELSE prev)
  /\ at' = (IF Immediate(Ev.st, Ev.now) THEN at ELSE SchedFn(Ev.st, Ev.now))
  /\ UNCHANGED mvars
  /\ Adv

TReach ==
  /\ IsEv("reach")
  /\ Tag("C07.cfg.scope", ~Py /\ pend)
  /\ Reach
  /\ prev' = act /\ at' = at
  /\ UNCHANGED mvars
  /\ Adv

\* ---- python -------------------------------------------------------------------
Pairs(v) == [i \in 1..(Len(v) \div 2) |-> <<v[2 * i - 1], v[2 * i]>>]
WellFormed == /\ Ev.hsn \in 0..63 /\ Ev.maio \in 0..63
              /\ Len(Ev.vals) % 2 = 0 /\ Len(Ev.vals) \div 2 \in 1..64
              /\ {i \in 1..Len(Ev.vals) : Ev.vals[i] \notin 1..2147483} = {}

TTune ==
  /\ IsEv("tune")
  /\ Tag("C07.cfg.scope", Py /\ Ev.rsp = 0 /\ Ev.khz \in 1..2147483)
  /\ Establish([act EXCEPT !.fix = [act.fix EXCEPT ![Side] = Ev.khz]])
  /\ UNCHANGED <<tvars, mvars>>
  /\ Adv

\* inside the domain: must be accepted and becomes the configuration at once;
\* refused (status # 0): nothing changes; outside the domain and accepted: open
TSetFh ==
  /\ IsEv("setfh")
  /\ Tag("C07.cfg.scope", Py)
  /\ IF WellFormed
     THEN /\ Tag("C07.cfg.python.setfh-status", Ev.rsp = 0)
          /\ Establish(Hop(Ev.hsn, Ev.maio, Pairs(Ev.vals), act.fix))
          /\ prev' = act
     ELSE IF Ev.rsp # 0
     THEN UNCHANGED <<avars, prev>>
     ELSE Establish(Open(act.fix)) /\ prev' = act
  /\ at' = at
  /\ UNCHANGED mvars
  /\ Adv

\* POWEROFF forgets hopping: the RXTUNE / TXTUNE values answer again
TPowerOff ==
  /\ IsEv("poweroff")
  /\ Tag("C07.cfg.scope", Py /\ Ev.rsp = 0)
  /\ Establish(Fixed(act.fix))
  /\ prev' = act /\ at' = at
  /\ UNCHANGED mvars
  /\ Adv

TPowerOn ==
  /\ IsEv("poweron")
  /\ Tag("C07.cfg.scope", Py)
  /\ UNCHANGED <<avars, tvars, mvars>>
  /\ Adv

TNext == TQuery \/ TEst \/ TRedef \/ TReach \/ TTune \/ TSetFh \/ TPowerOff \/ TPowerOn
TSpec == TInit /\ [][TNext]_<<vars, tvars, kvars>>
Post == WriteVerdicts
=============================================================================
