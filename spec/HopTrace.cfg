SPECIFICATION TSpec
CONSTANTS
  GridN = {}
  GridT3 = {}
  GridT1 = {}
  GridT2 = {}
  GridMaio = {}
POSTCONDITION Post
CHECK_DEADLOCK FALSE
