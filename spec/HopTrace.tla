----------------------------- MODULE HopTrace -----------------------------
(* Validates hopping records of the real code directly against MAI_Std
   (3GPP TS 45.002 6.2.3, HoppingStd.tla).
   A trace is one hopping configuration of one implementation:
     cfg = {impl: "python" | "firmware", maio, ma: [ARFCN...]}
     ev  = {e:"hop", hsn, fn, got}      got = the channel (ARFCN) selected
   python   = trx_toolkit HoppingParams(hsn, maio, ma).resolve(fn)
   firmware = layer1/rfch.c rfch_get_params() with l1s.dedicated.h1 = {hsn, maio, n, ma}
   Clause: got = MA[MAI_Std(hsn, maio, N, fn)], N = Len(ma).  Records are
   independent (pure function); the state never changes.                      *)
EXTENDS Hopping, TraceKit

TInit == KInit /\ CaseIdle

Expected == T.cfg.ma[MAI_Std(Ev.hsn, T.cfg.maio, Len(T.cfg.ma), Ev.fn) + 1]

THop ==
  /\ IsEv("hop")
  /\ Tag("C07.domain", /\ Ev.hsn \in 0..63 /\ T.cfg.maio \in 0..63 /\ Len(T.cfg.ma) \in 1..64
                       /\ Ev.fn \in 0..2715647)
  /\ IF T.cfg.impl = "python" THEN Tag("C07.python", Ev.got = Expected)
                               ELSE Tag("C07.firmware", Ev.got = Expected)
  /\ UNCHANGED cvars
  /\ Adv

TSpec == TInit /\ [][THop]_<<cvars, kvars>>
Post == WriteVerdicts
=============================================================================
