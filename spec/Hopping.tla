------------------------------ MODULE Hopping ------------------------------
(* Frequency hopping (3GPP TS 45.002 6.2.3): checks and generators around the
   constant-level definitions of HoppingStd.tla (MAI_Std = the standard's text,
   MAI_Mask = the bit-mask form of the implementations).
   MC_Hopping.cfg checks MAI_Std = MAI_Mask (and the reduction the conformance
   harness uses) exhaustively; GenTables exports expectations computed by
   MAI_Std for the conformance check; HopTrace.tla validates records.        *)
EXTENDS HoppingStd, TLC, Json, IOUtils

\* ---- reduction used by the conformance harness -------------------------
\* For HSN # 0 the result depends on (x, T2, T3, N, MAIO) only, x = HSN xor T1R.
S_Red(x, b, c, N) == S_Std(N, b + RN(x + c), c)
Fin(N, s, maio)   == (s + maio) % N

----------------------------------------------------------------------------
(* Exhaustive design check (MC_Hopping.cfg): every initial state is one case. *)
CONSTANTS GridN, GridT3, GridT1, GridT2, GridMaio     \* grid of the "R" cases
VARIABLES c_k, c_n, c_m, c_t3, c_hsn, c_t1, c_t2, c_maio
cvars == <<c_k, c_n, c_m, c_t3, c_hsn, c_t1, c_t2, c_maio>>

\* 64 initial states ("I", index i = c_n); the cases are their successors, so
\* that TLC's workers share the evaluation:
\*   S: the S computation over all N x M x T3 (N = i)
\*   X: T1R masking over all HSN x T1 (HSN = i - 1)
\*   R: the whole algorithm from a frame number on a grid (HSN = i - 1)
Init == /\ c_k = "I" /\ c_n \in 1..64
        /\ c_m = 0 /\ c_t3 = 0 /\ c_hsn = 0 /\ c_t1 = 0 /\ c_t2 = 0 /\ c_maio = 0
Next ==
  /\ c_k = "I"
  /\ \/ /\ c_k' = "S" /\ c_n' = c_n /\ c_m' \in 0..152 /\ c_t3' \in 0..50
        /\ c_hsn' = 0 /\ c_t1' = 0 /\ c_t2' = 0 /\ c_maio' = 0
     \/ /\ c_k' = "X" /\ c_hsn' = c_n - 1 /\ c_t1' \in 0..2047
        /\ c_n' = 1 /\ c_m' = 0 /\ c_t3' = 0 /\ c_t2' = 0 /\ c_maio' = 0
     \/ /\ c_k' = "R" /\ c_hsn' = c_n - 1
        /\ c_n' \in GridN /\ c_t3' \in GridT3 /\ c_t1' \in GridT1
        /\ c_t2' \in GridT2 /\ c_maio' \in GridMaio /\ c_m' = 0
Spec == Init /\ [][Next]_cvars

\* the mask trick is the standard's modulo 2^NBIN
\* (depend on N only: evaluated once per N)
NBINDef    == (c_k = "S" /\ c_m = 0 /\ c_t3 = 0) =>
                 NBIN(c_n) = CHOOSE b \in 1..8 : Pow2(b - 1) <= c_n /\ c_n < Pow2(b)
MaskIsPow2 == (c_k = "S" /\ c_m = 0 /\ c_t3 = 0) => Mask(c_n) = Pow2(NBIN(c_n)) - 1
\* the two forms agree, and S is an index into the mobile allocation
StdEqMask  == c_k = "S" => LET s == S_Std(c_n, c_m, c_t3) IN s = S_Mask(c_n, c_m, c_t3) /\ s \in 0..c_n-1
T1RMask    == c_k = "X" => Xor(c_hsn, c_t1 % 64) = Xor(c_hsn, And(c_t1, 63)) /\ Xor(c_hsn, c_t1 % 64) \in 0..63
\* whole algorithm from a frame number: standard = mask form = reduced form
FnCase == FnOf(c_t1, c_t2, c_t3)
MAIEq      == c_k = "R" => /\ T1(FnCase) = c_t1 /\ T2(FnCase) = c_t2 /\ T3(FnCase) = c_t3
                         /\ MAI_Std(c_hsn, c_maio, c_n, FnCase) = MAI_Mask(c_hsn, c_maio, c_n, FnCase)
                         /\ MAI_Std(c_hsn, c_maio, c_n, FnCase) \in 0..c_n-1
Reduction  == (c_k = "R" /\ c_hsn # 0) =>
                 MAI_Std(c_hsn, c_maio, c_n, FnCase) = Fin(c_n, S_Red(Xor(c_hsn, c_t1 % 64), c_t2, c_t3, c_n), c_maio)

----------------------------------------------------------------------------
(* Generators (HoppingGen.cfg, POSTCONDITION).  IOEnv.GEN_IN names a JSON file
   {"dir": <output directory>, "ns": [N...], "fin": 0|1, "eval": [[hsn,maio,N,fn]...]}.
     <dir>/S_<N>.json   S_Red for the complete reduced domain of that N:
                        [x+1][T2+1][T3+1], x = HSN xor T1R
     <dir>/fin.json     RNTABLE and Fin: [N][S+1][MAIO+1], N 1..64, MAIO 0..63
     <dir>/eval.json    for every listed tuple <<MAI_Std, Branch, M', T'>>      *)
GenIn == JsonDeserialize(IOEnv.GEN_IN)

STable(N) == [x \in 1..64 |-> [b \in 1..26 |-> [t \in 1..51 |-> S_Red(x - 1, b - 1, t - 1, N)]]]
FinTable  == [n \in 1..64 |-> [s \in 1..n |-> [o \in 1..64 |-> Fin(n, s - 1, o - 1)]]]

EvalOne(q) ==
  LET hsn  == q[1]
      maio == q[2]
      N    == q[3]
      f    == q[4]
      P    == Pow2(NBIN(N))
  IN <<MAI_Std(hsn, maio, N, f), Branch(hsn, N, f),
       IF hsn = 0 THEN 0 ELSE M_Std(hsn, f) % P, IF hsn = 0 THEN 0 ELSE T3(f) % P>>

GenTables ==
  /\ TLCGet(999999)      \* set by GenInit: keeps TLC from evaluating this at start-up as a constant
  /\ RNTableShape
  /\ \A i \in 1..Len(GenIn.ns) :
        JsonSerialize(GenIn.dir \o "/S_" \o ToString(GenIn.ns[i]) \o ".json", STable(GenIn.ns[i]))
  /\ GenIn.fin = 1 => JsonSerialize(GenIn.dir \o "/fin.json", [rn |-> RNTABLE, fin |-> FinTable])
  /\ Len(GenIn.eval) > 0 =>
        JsonSerialize(GenIn.dir \o "/eval.json", [i \in 1..Len(GenIn.eval) |-> EvalOne(GenIn.eval[i])])

CaseIdle == c_k = "G" /\ c_n = 1 /\ c_m = 0 /\ c_t3 = 0 /\ c_hsn = 0 /\ c_t1 = 0 /\ c_t2 = 0 /\ c_maio = 0
GenInit == TLCSet(999999, TRUE) /\ CaseIdle
GenSpec == GenInit /\ [][UNCHANGED cvars]_cvars
=============================================================================
