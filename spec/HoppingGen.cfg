SPECIFICATION GenSpec
CONSTANTS
  GridN = {}
  GridT3 = {}
  GridT1 = {}
  GridT2 = {}
  GridMaio = {}
POSTCONDITION GenTables
CHECK_DEADLOCK FALSE
