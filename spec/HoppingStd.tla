----------------------------- MODULE HoppingStd -----------------------------
(* Frequency hopping sequence generation, 3GPP TS 45.002 (GSM 05.02) 6.2.3,
   written from the text of the standard (constant-level operators only, no
   variables - INSTANCE / EXTENDS freely):

     if HSN = 0 (cyclic hopping):    MAI = (FN + MAIO) modulo N
     else:  M   = T2 + RNTABLE((HSN xor T1R) + T3)          (0..152)
            M'  = M modulo (2 ^ NBIN)
            T'  = T3 modulo (2 ^ NBIN)
            S   = M'                 if M' < N
                  (M'+T') modulo N   otherwise
            MAI = (S + MAIO) modulo N
     NBIN = number of bits required to represent N = INTEGER(log2(N)+1)
     T1R  = T1 modulo 64;  T1 = FN div (26 x 51), T2 = FN mod 26, T3 = FN mod 51
     RFCHN = MA(MAI)

   MAI_Std is that text.  MAI_Mask is the bit-mask form both implementations
   (firmware layer1/rfch.c, trx_toolkit gsm_shared.py) intend:
   2^NBIN - 1 = N | N>>1 | ... | N>>6, "modulo 2^NBIN" = "& mask", T1R = T1 & 63.
   Hopping.tla checks MAI_Std = MAI_Mask exhaustively and exports expectations. *)
EXTENDS Integers, Sequences, FiniteSets

\* 3GPP TS 45.002 table 6 (RNTABLE), addresses 000..113
RNTABLE == <<
   48,  98,  63,   1,  36,  95,  78, 102,  94,  73,
    0,  64,  25,  81,  76,  59, 124,  23, 104, 100,
  101,  47, 118,  85,  18,  56,  96,  86,  54,   2,
   80,  34, 127,  13,   6,  89,  57, 103,  12,  74,
   55, 111,  75,  38, 109,  71, 112,  29,  11,  88,
   87,  19,   3,  68, 110,  26,  33,  31,   8,  45,
   82,  58,  40, 107,  32,   5, 106,  92,  62,  67,
   77, 108, 122,  37,  60,  66, 121,  42,  51, 126,
  117, 114,   4,  90,  43,  52,  53, 113, 120,  72,
   16,  49,   7,  79, 119,  61,  22,  84,   9,  97,
   91,  15,  21,  24,  46,  39,  93, 105,  65,  70,
  125,  99,  17, 123 >>
RN(a) == RNTABLE[a + 1]

\* the table holds 114 different 7-bit values
RNTableShape == /\ Len(RNTABLE) = 114
                /\ \A i \in 1..114 : RNTABLE[i] \in 0..127
                /\ Cardinality({RNTABLE[i] : i \in 1..114}) = 114

T1(f) == f \div (26 * 51)
T2(f) == f % 26
T3(f) == f % 51
T1R(f) == T1(f) % 64
FnOf(a, b, c) == 51 * ((c - b) % 26) + c + 26 * 51 * a     \* TS 45.002 4.3.3

RECURSIVE Pow2(_)
Pow2(k) == IF k = 0 THEN 1 ELSE 2 * Pow2(k - 1)
\* number of bits required to represent N = INTEGER(log2(N)+1); Hopping.tla checks
\* NBIN(N) = the k with 2^(k-1) <= N < 2^k for all N 1..64
RECURSIVE NBIN(_)
NBIN(N) == IF N < 2 THEN 1 ELSE 1 + NBIN(N \div 2)

RECURSIVE Xor(_, _)
Xor(a, b) == IF a = 0 /\ b = 0 THEN 0 ELSE (((a % 2) + (b % 2)) % 2) + 2 * Xor(a \div 2, b \div 2)

\* ---- the standard ----------------------------------------------------
S_Std(N, M, t3) ==
  LET P  == Pow2(NBIN(N))
      Mp == M % P
      Tp == t3 % P
  IN IF Mp < N THEN Mp ELSE (Mp + Tp) % N

M_Std(hsn, f) == T2(f) + RN(Xor(hsn, T1R(f)) + T3(f))

MAI_Std(hsn, maio, N, f) ==
  IF hsn = 0 THEN (f + maio) % N
  ELSE (S_Std(N, M_Std(hsn, f), T3(f)) + maio) % N

\* which arm of the standard's text decides the case (labels for reports)
Branch(hsn, N, f) ==
  IF hsn = 0 THEN "cyclic"
  ELSE LET P  == Pow2(NBIN(N))
           Mp == M_Std(hsn, f) % P
           Tp == T3(f) % P
       IN IF Mp < N THEN "direct" ELSE IF Mp + Tp < P THEN "wrap" ELSE "wrap-overflow"

\* ---- the mask form ---------------------------------------------------
RECURSIVE And(_, _)
And(a, b) == IF a = 0 \/ b = 0 THEN 0 ELSE (a % 2) * (b % 2) + 2 * And(a \div 2, b \div 2)
RECURSIVE Or(_, _)
Or(a, b) == IF a = 0 /\ b = 0 THEN 0 ELSE (IF (a % 2) + (b % 2) > 0 THEN 1 ELSE 0) + 2 * Or(a \div 2, b \div 2)
Shr(a, k) == a \div Pow2(k)
Mask(N) == Or(N, Or(Shr(N, 1), Or(Shr(N, 2), Or(Shr(N, 3), Or(Shr(N, 4), Or(Shr(N, 5), Shr(N, 6)))))))

S_Mask(N, M, t3) ==
  LET pnm == Mask(N)
      mp  == And(M, pnm)
  IN IF mp < N THEN mp ELSE (mp + And(t3, pnm)) % N

MAI_Mask(hsn, maio, N, f) ==
  IF hsn = 0 THEN (f + maio) % N
  ELSE (S_Mask(N, T2(f) + RN(Xor(hsn, And(T1(f), 63)) + T3(f)), T3(f)) + maio) % N
=============================================================================
