------------------------------ MODULE LinkWire ------------------------------
(* What goes out of which socket while a control command is answered by the socket thread and
   the clock thread sends the indications of a tick, for every line-level interleaving of the two
   inside the shared link code (udp_link.py): a clock link carries "IND CLOCK <fn>" + NUL and nothing
   else, the control socket carries the one reply to the command, and nothing is lost.  Events:
     wire {kind: "clck" | "ctrl" | "data", raw: the datagram}    in send order
     done {fn, links: number of attached clock links, cmd: the command text}            *)
EXTENDS Integers, Sequences, TraceKit

VARIABLES nclck, nctrl
wvars == <<nclck, nctrl>>
TInit == KInit /\ nclck = 0 /\ nctrl = 0

RECURSIVE DecP(_)
DecP(n) == IF n < 10 THEN <<48 + n>> ELSE Append(DecP(n \div 10), 48 + (n % 10))
Ind(fn) == <<73, 78, 68, 32, 67, 76, 79, 67, 75, 32>> \o DecP(fn) \o <<0>>
IsRsp(raw) == Len(raw) >= 5 /\ SubSeq(raw, 1, 4) = <<82, 83, 80, 32>> /\ raw[Len(raw)] = 0

TWire ==
  /\ IsEv("wire")
  /\ Tag("C09.wire.clock-link-carries-the-indication", Ev.kind = "clck" => Ev.raw = Ind(T.cfg.fn))
  /\ Tag("C09.wire.control-socket-carries-the-reply", Ev.kind = "ctrl" => IsRsp(Ev.raw))
  /\ nclck' = nclck + (IF Ev.kind = "clck" THEN 1 ELSE 0)
  /\ nctrl' = nctrl + (IF Ev.kind = "ctrl" THEN 1 ELSE 0)
  /\ Adv

TDone ==
  /\ IsEv("done")
  /\ Tag("C09.wire.every-link-served-once", nclck = T.cfg.links)
  /\ Tag("C09.wire.one-reply", nctrl = 1)
  /\ UNCHANGED wvars
  /\ Adv

TNext == TWire \/ TDone
TSpec == TInit /\ [][TNext]_<<wvars, kvars>>
Post == WriteVerdicts
=============================================================================
