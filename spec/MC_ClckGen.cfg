\* C09 exhaustive model: handler durations {0, T/2, T-1, T, T+1, 3T}, <= 6 ticks over <= 3 epochs;
\* FrameT = 4 abstract units; H = 3 so that the hyperframe wrap is explored; start frames {0, H-1};
\* periods {1,2,3}; link lists <<>>, <<1>>, <<1,2>>, changed at most once while running;
\* stop() at any wait after any part of it (w in 0..dt), pauses {0,1,5} before start();
\* restarts may change the start frame.  VIEW MCView: times relative to `now` (see ClckGen.tla).
SPECIFICATION Spec
CONSTANTS
  FrameT = 4
  H = 3
  Durations = {0, 2, 3, 4, 5, 12}
  Starts = {0, 2}
  Periods = {1, 2, 3}
  LinkSets <- MCLinkSets
  Pauses = {0, 1, 5}
  Quotas = {0}
  MaxTicks = 6
  MaxEpochs = 3
  MaxRelinks = 1
INVARIANT TypeOK
INVARIANT Consecutive
INVARIANT RestartFromStart
INVARIANT IndWhen
INVARIANT IndLinks
INVARIANT IndOctets
INVARIANT NoDrift
INVARIANT NoDriftFromStart
INVARIANT MinSpacing
INVARIANT ResyncImmediate
INVARIANT OnTimeOtherwise
INVARIANT DeadlineFromTickStart
INVARIANT OverrunAgrees
PROPERTY StartResets
PROPERTY OnePerTick
VIEW MCView
CHECK_DEADLOCK FALSE
