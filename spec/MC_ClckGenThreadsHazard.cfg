\* Documented hazard (expected to FAIL; sanity check of the model, run in thorough only):
\* with JoinTimeout = TRUE stop() joins the worker for JoinFrames = 2 frame periods only
\* ("the worker checks the breaker at least once per frame").  A stop() arriving while the handler
\* still has more than two periods to run returns with the worker alive and the breaker cleared:
\* TLC finds the zombie (tick while stopped / two workers alive / frame numbers skipping after start()).
SPECIFICATION Spec
CONSTANTS
  FrameT = 4
  H = 3
  Durations = {1, 6, 12}
  Starts = {0, 2}
  Periods = {1, 2}
  LinkSets <- MCLinkSets
  MaxTicks = 5
  MaxEpochs = 2
  MaxRelinks = 1
  JoinTimeout = TRUE
  JoinFrames = 2
INVARIANT NoTickWhileStopped
INVARIANT SingleWorker
INVARIANT RestartSequence
INVARIANT TickTime
VIEW MCView
CHECK_DEADLOCK FALSE
