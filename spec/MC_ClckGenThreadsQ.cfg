\* C09 two-thread model (spec/ClckGenThreads.tla): controller (start / stop / re-link at ANY instant,
\* also inside a handler) against the worker thread(s).  FrameT = 4 abstract units; handler durations
\* {short (1), 1.5 periods (6), 3 periods (12)}; <= 5 ticks over <= 2 epochs (one restart, the start
\* frame may change); H = 3 so that the wrap is explored; periods {1,2}; link lists <<>>, <<1>>, <<1,2>>
\* changed at most once while running.  JoinTimeout = FALSE: stop() joins without timeout (the code).
SPECIFICATION Spec
CONSTANTS
  FrameT = 4
  H = 3
  Durations = {1, 6, 12}
  Starts = {0, 2}
  Periods = {1, 2}
  LinkSets <- MCLinkSets
  MaxTicks = 4
  MaxEpochs = 2
  MaxRelinks = 0
  JoinTimeout = FALSE
  JoinFrames = 2
INVARIANT TypeOK
INVARIANT NoTickWhileStopped
INVARIANT SingleWorker
INVARIANT QuiescentWhenStopped
INVARIANT NoTickAfterStopCall
INVARIANT RestartSequence
INVARIANT TickTime
INVARIANT Indications
PROPERTY StopIsPrompt
VIEW MCView
CHECK_DEADLOCK FALSE
