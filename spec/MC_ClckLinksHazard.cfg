SPECIFICATION Spec
CONSTANTS
  Links = {1, 2, 3}
  Iter = "live"
INVARIANT TypeOK
INVARIANT NoSkip
