SPECIFICATION Spec
CONSTANTS
  Links = {1, 2, 3}
  Iter = "snapshot"
INVARIANT TypeOK
INVARIANT NoSkip
