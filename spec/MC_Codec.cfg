\* C16 thorough: all five families of definitions, complete leaf sets.
SPECIFICATION Spec
CONSTANTS
  Families = {"one", "two", "three", "gov", "nest"}
  Full = TRUE
INVARIANT Reencode
INVARIANT RoundTrip
INVARIANT Consumed
INVARIANT Total
INVARIANT Reject
CHECK_DEADLOCK FALSE
