------------------------------ MODULE MC_Codec ------------------------------
(* C16 exhaustive model: ALL protocol definitions up to a small size are
   initial states (fields <= 2 octets, <= 3 fields per envelope, nesting depth
   <= 2, both bit orders, all byte orders / signs / offset-multiplier pairs,
   governed presence and length, nested envelopes and sequences); the single
   step picks an octet string over a small alphabet.  The laws of Codec.tla
   are invariants of every (definition, octet string) pair.               *)
EXTENDS Codec, Json, IOUtils, SequencesExt

CONSTANTS Families,     \* subset of {"one", "two", "three", "gov", "nest"}
          Full          \* TRUE: the complete leaf sets, FALSE: the reduced ones (quick)

VARIABLES fam, def, inp
vars == <<fam, def, inp>>

Always == [op |-> "always", field |-> "", const |-> 0]
NoLen == [op |-> "none", field |-> "", const |-> 0]
Ex(op, f, c) == [op |-> op, field |-> f, const |-> c]

UInt(n, l, bo, sg, off, mu) ==
  [k |-> "uint", name |-> n, len |-> l, bo |-> bo, signed |-> sg, offset |-> off, mult |-> mu,
   pres |-> Always, lenfrom |-> NoLen, valfrom |-> NoLen]
Buf(n, l) == [k |-> "buf", name |-> n, len |-> l, pres |-> Always, lenfrom |-> NoLen, lenauto |-> FALSE]
Spare(n, l, fl) == [k |-> "spare", name |-> n, len |-> l, filler |-> fl, pres |-> Always, lenfrom |-> NoLen]
BF(n, bl) == [name |-> n, bl |-> bl, fixed |-> FALSE, val |-> WOfInt(0)]
BFix(n, bl, v) == [name |-> n, bl |-> bl, fixed |-> TRUE, val |-> WOfInt(v)]
BSp(bl) == [name |-> "", bl |-> bl, fixed |-> FALSE, val |-> WOfInt(0)]
BitSet(l, ord, fs) == [k |-> "bitset", len |-> l, order |-> ord, fields |-> fs, pres |-> Always, lenfrom |-> NoLen]
EnvF(n, d, l) == [k |-> "env", name |-> n, def |-> d, len |-> l, pres |-> Always, lenfrom |-> NoLen, lenauto |-> FALSE]
SeqF(n, it, l) == [k |-> "seq", name |-> n, item |-> it, len |-> l, pres |-> Always, lenfrom |-> NoLen, lenauto |-> FALSE]
WithPres(f, e) == [f EXCEPT !.pres = e]
WithLen(f, e) == [f EXCEPT !.lenfrom = e, !.len = 0]
E(cl, fs) == [check_len |-> cl, fields |-> fs]

NA == <<"a", "b", "c", "x", "y">>       \* names by position (4, 5: inside a nested envelope)
NB == <<"a2", "b2", "c2", "x2", "y2">>

OM(full) == IF full THEN {<<0, 1>>, <<5, 1>>, <<0, 3>>, <<-2, -1>>, <<7, 10>>} ELSE {<<0, 1>>, <<-2, 3>>}

Ints(p, full) ==
  {UInt(NA[p], 1, "big", sg, om[1], om[2]) : sg \in BOOLEAN, om \in OM(full)}
  \cup {UInt(NA[p], 2, bo, sg, om[1], om[2]) : bo \in {"big", "little"}, sg \in BOOLEAN, om \in OM(full)}

Layouts(p, full) ==
  {<<0, <<BF(NA[p], 3), BF(NB[p], 5)>>>>,                       \* exact octet
   <<0, <<BF(NA[p], 1), BSp(2), BF(NB[p], 5)>>>>,               \* spare bits
   <<0, <<BF(NA[p], 4), BF(NB[p], 12)>>>>}                      \* two octets, field across the octet boundary
  \cup IF full THEN
  {<<0, <<BFix(NA[p], 3, 5), BF(NB[p], 5)>>>>,                  \* fixed value
   <<0, <<BF(NA[p], 4)>>>>,                                     \* 4 unused bits (auto length)
   <<0, <<BF(NA[p], 9), BSp(3), BFix(NB[p], 4, 5)>>>>,
   <<2, <<BF(NA[p], 3), BF(NB[p], 5)>>>>}                       \* explicit length, 8 unused bits
  ELSE {<<0, <<BFix(NA[p], 3, 5), BSp(1), BF(NB[p], 4)>>>>}
Bitsets(p, full) == {BitSet(l[1], ord, l[2]) : l \in Layouts(p, full), ord \in {"msb", "lsb"}}

Bufs(p) == {Buf(NA[p], 1), Buf(NA[p], 2)}
Spares(p, full) == {Spare(NA[p], 1, 0)} \cup IF full THEN {Spare(NA[p], 2, 170)} ELSE {}
Leaves(p, full) == Ints(p, full) \cup Bitsets(p, full) \cup Bufs(p) \cup Spares(p, full)
\* a small cross-section of the kinds for the products
Few(p) == {UInt(NA[p], 1, "big", FALSE, 0, 1), UInt(NA[p], 2, "little", TRUE, -2, 3), Buf(NA[p], 1), Spare(NA[p], 1, 170),
           BitSet(0, "lsb", <<BF(NA[p], 3), BSp(1), BF(NB[p], 4)>>),
           BitSet(0, "msb", <<BF(NA[p], 4), BF(NB[p], 12)>>)}
Rest(p) == {Buf(NA[p], 0)}

\* ---- families of definitions -------------------------------------------
DefsOne == {E(cl, <<f>>) : cl \in BOOLEAN, f \in Leaves(1, Full) \cup Rest(1)}

DefsTwo == {E(cl, <<f, g>>) : cl \in BOOLEAN, f \in Leaves(1, FALSE), g \in Leaves(2, FALSE) \cup Rest(2)}

DefsThree == {E(cl, <<f, g, h>>) : cl \in BOOLEAN, f \in Few(1), g \in Few(2), h \in Few(3) \cup Rest(3)}

\* governors: an 8-bit integer, or a bit-field next to another one, in both orders
Govs == {UInt("a", 1, "big", FALSE, 0, 1), BitSet(0, "lsb", <<BF("a", 2), BF("a2", 6)>>)}
        \cup IF Full THEN {UInt("a", 1, "big", FALSE, 1, 2), BitSet(0, "msb", <<BF("a", 2), BF("a2", 6)>>)} ELSE {}
PresEx == {Ex("nz", "a", 0), Ex("z", "a", 0), Ex("eq", "a", 1), Ex("ne", "a", 3)}
LenEx == {Ex("field", "a", 0), Ex("mul", "a", 2), Ex("add", "a", 1)}
Inner(cl) == {E(cl, <<f>>) : f \in Few(4)} \cup {E(cl, <<UInt("x", 1, "big", FALSE, 0, 1), g>>) : g \in Few(5) \cup Rest(5)}
Items == {E(TRUE, <<f>>) : f \in Few(4)} \cup {E(TRUE, <<UInt("x", 1, "big", TRUE, 0, 1), Buf("y", 1)>>)}
Governed ==
  {WithPres(f, e) : f \in Few(2), e \in PresEx}
  \cup {WithLen(f, e) : f \in {Buf("b", 0), Spare("b", 0, 170)}, e \in LenEx}
  \cup {WithLen(EnvF("b", d, 0), e) : d \in Inner(TRUE) \cup (IF Full THEN Inner(FALSE) ELSE {}), e \in {Ex("field", "a", 0)}}
  \cup {WithLen(SeqF("b", d, 0), e) : d \in Items, e \in {Ex("field", "a", 0), Ex("mul", "a", 2)}}
  \cup {WithPres(EnvF("b", d, 2), Ex("nz", "a", 0)) : d \in Inner(TRUE)}
Thirds == {<<>>, <<Buf("c", 0)>>} \cup IF Full THEN {<<UInt("c", 1, "big", FALSE, 0, 1)>>} ELSE {}
DefsGov ==
  {E(cl, <<g, f>> \o t) : cl \in BOOLEAN, g \in Govs, f \in Governed, t \in Thirds}
  \cup \* the length field takes its value from the buffer on encode (get_val), as in test_codec.py
  {E(cl, <<[UInt("a", 1, "big", FALSE, 0, 1) EXCEPT !.valfrom = Ex("len", "b", 0)],
           [WithLen(Buf("b", 0), Ex("field", "a", 0)) EXCEPT !.lenauto = TRUE]>> \o t) : cl \in BOOLEAN, t \in Thirds}

\* nested envelopes and sequences behind wrappers of every length 0 (rest) .. 3
WrapLens == IF Full THEN 0..3 ELSE {0, 2}
Pre == {<<>>} \cup IF Full THEN {<<UInt("a", 1, "big", FALSE, 0, 1)>>} ELSE {}
DefsNest ==
  {E(cl, pre \o <<EnvF("b", d, l)>> \o post) :
      cl \in BOOLEAN, d \in Inner(TRUE) \cup Inner(FALSE), l \in WrapLens,
      pre \in Pre, post \in {<<>>, <<UInt("c", 1, "big", TRUE, 0, 1)>>}}
  \cup
  {E(cl, pre \o <<SeqF("b", d, l)>> \o post) :
      cl \in BOOLEAN, d \in Items, l \in {0, 2, 3},
      pre \in Pre, post \in {<<>>, <<UInt("c", 1, "big", TRUE, 0, 1)>>}}

DefsOf(f) ==
  CASE f = "one" -> DefsOne [] f = "two" -> DefsTwo [] f = "three" -> DefsThree
    [] f = "gov" -> DefsGov [] f = "nest" -> DefsNest

\* octet alphabets: 0x55 / 0xA5 satisfy the fixed bit-field values above
Alpha(f) ==
  CASE f = "one" -> {0, 1, 85, 128, 165, 255}
    [] f = "two" -> {0, 165, 255}
    [] f = "three" -> {1, 254}
    [] f = "gov" -> IF Full THEN {0, 1, 2, 255} ELSE {0, 1, 255}
    [] f = "nest" -> {0, 129}
MaxIn(f) ==
  CASE f = "one" -> 3 [] f = "two" -> 5 [] f = "three" -> 7 [] f = "gov" -> 4 [] f = "nest" -> 6
Strings(A, n) == UNION {[1..k -> A] : k \in 0..n}

NoInput == <<-1>>
Init == fam \in Families /\ def \in DefsOf(fam) /\ inp = NoInput
Next == inp = NoInput /\ inp' \in Strings(Alpha(fam), MaxIn(fam)) /\ UNCHANGED <<fam, def>>
Spec == Init /\ [][Next]_vars

Chosen == inp # NoInput
Reencode == Chosen => LawReencode(def, inp)
RoundTrip == Chosen => LawRoundTrip(def, inp)
Consumed == Chosen => LawConsumed(def, inp)
Total == Chosen => LawTotal(def, inp)
Reject == Chosen => LawReject(def, inp)

(* GEN (spec -> code): the same definitions exported as JSON; the driver builds
   the real codec.py classes from them and runs octet strings over the
   family's alphabet through from_bytes()/to_bytes() (GEN_Codec*.cfg).      *)
GenDefs ==
  SetToSeq(UNION {{[fam |-> f, def |-> d, alpha |-> SetToSeq(Alpha(f)), maxin |-> MaxIn(f)] : d \in DefsOf(f)}
                  : f \in Families})
GenInit == fam = "" /\ def = <<>> /\ inp = <<>> /\ JsonSerialize(IOEnv.OUT_FILE, GenDefs)
GenSpec == GenInit /\ [][UNCHANGED vars]_vars
=============================================================================
