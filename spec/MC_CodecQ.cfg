\* C16 quick: single fields (reduced leaf sets), governed fields, nesting.
SPECIFICATION Spec
CONSTANTS
  Families = {"one", "gov", "nest"}
  Full = FALSE
INVARIANT Reencode
INVARIANT RoundTrip
INVARIANT Consumed
INVARIANT Total
INVARIANT Reject
CHECK_DEADLOCK FALSE
