SPECIFICATION Spec
CONSTANTS
  GB = 3
  MaxMsgs = 3
INVARIANT FullRead
INVARIANT Slices
INVARIANT Random
CHECK_DEADLOCK FALSE
