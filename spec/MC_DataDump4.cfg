SPECIFICATION Spec
CONSTANTS
  GB = 3
  MaxMsgs = 4
INVARIANT FullRead
INVARIANT Slices
INVARIANT Random
CHECK_DEADLOCK FALSE
