SPECIFICATION MCSpec
CONSTANTS
  GB = 3
  Hyper = 4
  Mode = "power"
  MaxSteps = 7
INVARIANT RunningIffLastPower
INVARIANT ClockLinksExact
INVARIANT ClockRunsIffNeeded
INVARIANT IdleHasNoQueue
INVARIANT VersionKnown
PROPERTY PowerOffForgets
PROPERTY PowerOnGuard
VIEW NoOps
CHECK_DEADLOCK FALSE
