SPECIFICATION MCSpec
CONSTANTS
  Hyper = 4
INVARIANT NoSilentLoss
INVARIANT ExactlyOnce
INVARIANT SentInOwnFrame
INVARIANT StaleOnlyIfPassed
INVARIANT MutexOk
INVARIANT AllAccounted
CHECK_DEADLOCK FALSE
