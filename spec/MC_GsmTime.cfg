\* whole hyperframe: Inc1 and IncD(d), d in {2..20, 26, 51, 52, 59, 60, 1325, 1326, 2715647}, from every frame number
SPECIFICATION Spec
CONSTANTS
  Deltas = {2,3,4,5,6,7,8,9,10,11,12,13,14,15,16,17,18,19,20, 26, 51, 52, 59, 60, 1325, 1326, 2715647}
  Starts = {0}
  Window = 0
INVARIANT TypeOK
INVARIANT Consistent
INVARIANT RoundTrip
INVARIANT RoundTripRunning
CHECK_DEADLOCK FALSE
