\* quick: every delta of the statement from every frame number within
\* +-16000 frames (12 superframes, 3 periods of (T2,T3,TC)) of the hyperframe wrap
SPECIFICATION Spec
CONSTANTS
  Deltas = {2,3,4,5,6,7,8,9,10,11,12,13,14,15,16,17,18,19,20,21,22,23,24,25,26,27,28,29,30,31,32,33,34,35,36,37,38,39,40,41,42,43,44,45,46,47,48,49,50,51,52,53,54,55,56,57,58,59,60, 1325, 1326, 2715647}
  Starts = {2699648}
  Window = 16000
CONSTRAINT NearWrap
INVARIANT TypeOK
INVARIANT Consistent
INVARIANT RoundTrip
INVARIANT RoundTripRunning
CHECK_DEADLOCK FALSE
