SPECIFICATION GSpec
CONSTANTS
  Hyper = 8
  G = 3
  Ahead = 4
  Modular = TRUE
INVARIANT EveryEventFires
INVARIANT PoolNeverLeaks
CHECK_DEADLOCK FALSE
