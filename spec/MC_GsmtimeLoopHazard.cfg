SPECIFICATION GSpec
CONSTANTS
  Hyper = 8
  G = 3
  Ahead = 4
  Modular = FALSE
INVARIANT EveryEventFires
INVARIANT PoolNeverLeaks
CHECK_DEADLOCK FALSE
