\* design check of the configuration machine (HopCfg.tla part 2), scaled:
\* tables of 3 entries over 2 channel values (all mobile allocations of length
\* 1..3, unsorted and with repeated entries included), StMod 8 / StLate 6 / StGrace 2
SPECIFICATION Spec
CONSTANTS
  StMod = 8
  StLate = 6
  StGrace = 2
  FnMod = 16
  MaxN = 3
  Chans = {1, 2}
  McHsn = {0, 1}
  McMaio = {1}
  McFn = {0, 1, 2, 5}
  McSt = {2, 5, 7}
  McNow = {0}
  CopyWhole = TRUE
INVARIANT QueryRight
INVARIANT NoStale
INVARIANT NotEarly
INVARIANT MemIsAct
INVARIANT IndexInN
CHECK_DEADLOCK FALSE
