\* sensitivity: the starting time copies only half of the entries - QueryRight / NoStale MUST fail
\* quick: tables of 2 entries over 2 channel values,
\* StMod 8 / StLate 6 / StGrace 2
SPECIFICATION Spec
CONSTANTS
  StMod = 8
  StLate = 6
  StGrace = 2
  FnMod = 16
  MaxN = 2
  Chans = {1, 2}
  McHsn = {0, 1}
  McMaio = {1}
  McFn = {0, 1, 2, 5}
  McSt = {2, 5, 7}
  McNow = {0}
  CopyWhole = FALSE
INVARIANT QueryRight
INVARIANT NoStale
INVARIANT NotEarly
INVARIANT MemIsAct
INVARIANT IndexInN
CHECK_DEADLOCK FALSE
