\* MAI_Std = MAI_Mask: all N 1..64 x M 0..152 x T3 0..50 (S), all HSN x T1 (T1R mask),
\* and whole-algorithm / reduction identity on a frame-number grid (all HSN)
SPECIFICATION Spec
CONSTANTS
  GridN = {1, 2, 3, 5, 8, 21, 63, 64}
  GridT3 = {0, 1, 17, 31, 50}
  GridT1 = {0, 1, 63, 64, 65, 127, 1000, 2047}
  GridT2 = {0, 13, 25}
  GridMaio = {0, 3, 63}
INVARIANT NBINDef
INVARIANT MaskIsPow2
INVARIANT StdEqMask
INVARIANT T1RMask
INVARIANT MAIEq
INVARIANT Reduction
CHECK_DEADLOCK FALSE
