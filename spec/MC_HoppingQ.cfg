\* quick: as MC_Hopping.cfg (S and X families complete) with a smaller frame-number grid
SPECIFICATION Spec
CONSTANTS
  GridN = {1, 5, 64}
  GridT3 = {0, 17, 50}
  GridT1 = {0, 63, 64, 2047}
  GridT2 = {0, 25}
  GridMaio = {0, 63}
INVARIANT NBINDef
INVARIANT MaskIsPow2
INVARIANT StdEqMask
INVARIANT T1RMask
INVARIANT MAIEq
INVARIANT Reduction
CHECK_DEADLOCK FALSE
