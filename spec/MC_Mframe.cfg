SPECIFICATION Spec
CONSTANTS
  PerTn = FALSE
INVARIANT StartsAgree
INVARIANT BidCyclic
INVARIANT LookupInTable
INVARIANT MaskCovers
INVARIANT LayoutValidForTn
CHECK_DEADLOCK FALSE
