INIT DiagInit
NEXT DiagNext
CONSTANTS
  PerTn = FALSE
CHECK_DEADLOCK FALSE
