INIT DiagInit
NEXT DiagNext
CONSTANTS
  PerTn = FALSE
CHECK_DEADLOCK FALSE
\* DiagInit prints every offending item of StartsAgree, BidCyclic, LookupInTable, MaskCovers,
\* LayoutValidForTn (with frames) and ChanNrTasks (constant-level)
