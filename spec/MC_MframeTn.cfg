SPECIFICATION Spec
CONSTANTS
  PerTn = TRUE
INVARIANT StartsAgree
INVARIANT BidCyclic
INVARIANT LookupInTable
INVARIANT MaskCovers
INVARIANT LayoutValidForTn
CHECK_DEADLOCK FALSE
