SPECIFICATION Spec
CONSTANTS
  PerTn = TRUE
INVARIANT StartsAgree
INVARIANT BidCyclic
INVARIANT LookupInTable
INVARIANT MaskCovers
INVARIANT LayoutValidForTn
INVARIANT ChanNrTasks
INVARIANT HistoryFree
CHECK_DEADLOCK FALSE
