SPECIFICATION MCSpec
CONSTANTS
  MaxArfcn = 5
  OctetBits = 3
  MaxOctets = 2
  Len0Return = FALSE
INVARIANT Refines
INVARIANT DecodeFacts
INVARIANT AscLemma
INVARIANT FWriteInBounds
INVARIANT FReadInBounds
INVARIANT MaReadInBounds
INVARIANT HoppWriteInBounds
INVARIANT FreqIdxInBounds
INVARIANT GenIdxInBounds
INVARIANT JBound
INVARIANT HoppLenBound
CHECK_DEADLOCK FALSE
