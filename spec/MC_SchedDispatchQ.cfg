SPECIFICATION Spec
CONSTANTS
  Hyper = 12
  Tns = {0}
  Cfgs = {1, 2, 3}
  Fns = {0, 1, 2, 3, 4, 5, 6, 7, 8, 9, 10, 11}
  Desc <- MCDesc
  Lookup <- MCLookup
INVARIANT TypeOK
INVARIANT LookupInTable
INVARIANT CallsMatchRow
INVARIANT CallsInMaskActive
INVARIANT MaskGetsState
INVARIANT LayoutValidForTn
INVARIANT InactiveClean
INVARIANT RxCallsOrdered
CHECK_DEADLOCK FALSE
