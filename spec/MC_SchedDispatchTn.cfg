SPECIFICATION Spec
CONSTANTS
  Hyper = 12
  Tns = {0, 1}
  Cfgs = {1, 2, 3}
  Fns = {1, 5, 10}
  Desc <- MCDesc
  Lookup <- MCLookup
INVARIANT TypeOK
INVARIANT LookupInTable
INVARIANT CallsMatchRow
INVARIANT CallsInMaskActive
INVARIANT MaskGetsState
INVARIANT LayoutValidForTn
INVARIANT InactiveClean
INVARIANT RxCallsOrdered
CHECK_DEADLOCK FALSE
