SPECIFICATION WSpec
CONSTANTS
  RxSize = 3
  NDlci = 129
  Handlers = {4, 10}
  EchoDlci = 128
  Alphabet = {126, 125, 0, 94, 65}
  Dlcis = {4, 5, 10}
  MaxMsgs = 2
  MaxLen = 2
  NoiseOctets = {65, 4, 125}
  MaxNoise = 0
  MaxOver = 1
  OverFill = {65, 0}
INVARIANT Transparency
INVARIANT AtMostOnce
INVARIANT ResyncCost
INVARIANT NoBareFlag
INVARIANT Bound
PROPERTY DequeueOrder
VIEW NoOps
CHECK_DEADLOCK FALSE
