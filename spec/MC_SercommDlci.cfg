SPECIFICATION WSpec
CONSTANTS
  RxSize = 3
  NDlci = 129
  EchoDlci = 128
  Handlers = {0, 3, 125, 126, 127}
  Alphabet = {126, 0, 65}
  Dlcis = {0, 3, 125, 126, 127}
  MaxMsgs = 2
  MaxLen = 1
  NoiseOctets = {65}
  MaxNoise = 1
  MaxOver = 0
  OverFill = {65}
INVARIANT Transparency
INVARIANT AtMostOnce
INVARIANT ResyncCost
INVARIANT NoBareFlag
INVARIANT Bound
PROPERTY DequeueOrder
VIEW NoOps
CHECK_DEADLOCK FALSE
