SPECIFICATION WSpec
CONSTANTS
  RxSize = 3
  NDlci = 129
  EchoDlci = 128
  Handlers = {4, 10}
  Alphabet = {126, 65}
  Dlcis = {4, 5}
  MaxMsgs = 2
  MaxLen = 1
  NoiseOctets = {65}
  MaxNoise = 0
  MaxOver = 2
  OverFill = {65}
INVARIANT Transparency
INVARIANT AtMostOnce
INVARIANT ResyncCost
INVARIANT NoBareFlag
INVARIANT Bound
PROPERTY DequeueOrder
VIEW NoOps
CHECK_DEADLOCK FALSE
