SPECIFICATION MCSpec
CONSTANTS
  MaxArfcn = 3
  OctetBits = 2
  MaxOctets = 2
  ReapplyOnSI1 = TRUE
INVARIANT HopIsDecode
INVARIANT InsideCA
INVARIANT NoListBeforeSI1
INVARIANT AtMost64
PROPERTY NotUsableKeepsList
CHECK_DEADLOCK FALSE
