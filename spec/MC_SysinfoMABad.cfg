SPECIFICATION MCSpec
CONSTANTS
  MaxArfcn = 3
  OctetBits = 2
  MaxOctets = 2
  ReapplyOnSI1 = FALSE
INVARIANT HopIsDecode
CHECK_DEADLOCK FALSE
