SPECIFICATION MCSpec
CONSTANTS
  MaxArfcn = 4
  OctetBits = 3
  MaxOctets = 2
  ReapplyOnSI1 = TRUE
INVARIANT HopIsDecode
INVARIANT InsideCA
INVARIANT NoListBeforeSI1
INVARIANT AtMost64
PROPERTY NotUsableKeepsList
CHECK_DEADLOCK FALSE
