SPECIFICATION Spec
CONSTANTS
  D = 2
  K = 3
  G = 2
  Offs = {0, 1}
  Cbs = {1, 2}
  P1s = {1}
  P2s = {2}
  P3s = {7}
  Prios <- PriosTie
  SetLen = 0
  MaxSep = 0
  UseFat = FALSE
  GFns = {}
  NestOffs = {0, 1}
  MaxOpsPerFrame = 0
  MaxResets = 0
INVARIANT RingAgrees
INVARIANT NoneMissed
INVARIANT Capacity
PROPERTY RunsWhenDue
PROPERTY ExactlyOnce
PROPERTY ParamsPreserved
PROPERTY PriorityOrder
PROPERTY BucketEmptyAfter
PROPERTY OverflowReported
PROPERTY Nested
VIEW View
CHECK_DEADLOCK FALSE
