SPECIFICATION Spec
CONSTANTS
  D = 3
  K = 2
  G = 2
  Offs = {0, 1, 2}
  Cbs = {1}
  P1s = {1}
  P2s = {2}
  P3s = {7}
  Prios <- PriosSmall
  SetLen = 3
  MaxSep = 2
  UseFat = FALSE
  GFns = {}
  NestOffs = {}
  MaxOpsPerFrame = 0
  MaxResets = 0
INVARIANT RingAgrees
INVARIANT NoneMissed
INVARIANT Capacity
PROPERTY SetSpread
PROPERTY RunsWhenDue
PROPERTY ExactlyOnce
PROPERTY ParamsPreserved
PROPERTY PriorityOrder
PROPERTY BucketEmptyAfter
PROPERTY OverflowReported
VIEW View
CHECK_DEADLOCK FALSE
