SPECIFICATION LSpec
CONSTANTS
  MaxLoss = 1
  MaxDup = 0
  MaxTimeouts = 2
INVARIANT NoSpuriousTermination
INVARIANT PoweredMeansServerRuns
CHECK_DEADLOCK FALSE
