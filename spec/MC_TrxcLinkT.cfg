SPECIFICATION LSpec
CONSTANTS
  MaxLoss = 2
  MaxDup = 1
  MaxTimeouts = 4
INVARIANT RetryBound
INVARIANT PoweredOnlyWhenTuned
INVARIANT QueueIsScriptSuffix
CHECK_DEADLOCK FALSE
