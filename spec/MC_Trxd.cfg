SPECIFICATION Spec
CONSTANTS
  GB = 3
INVARIANT RoundTrip
INVARIANT Octets
INVARIANT Length
CHECK_DEADLOCK FALSE
