SPECIFICATION Spec
CONSTANTS
  GB = 3
INVARIANT RoundTrip
INVARIANT Octets
CHECK_DEADLOCK FALSE
