------------------------------- MODULE Mframe -------------------------------
(* C11: the firmware multiframe scheduler (layer1/mframe_sched.c) and trxcon's
   multiframe layouts (trxcon/src/sched_mframe.c) map every logical channel
   both implement to the same TDMA frames.

   Both sides enter as constants, produced by drivers that link the
   unmodified C files (IOEnv.DUMP_FILE = {"fw": .., "trx": ..}):
     fw.tasks[k]   = {task, id, chan_nr, calls: [[fn, set, flags, off, p3task]]}
                     every tdma_schedule_set() call mframe_schedule() made while
                     only this task was enabled, for every fn of one cycle;
     trx.lookups   = result of l1sched_mframe_layout(cfg, tn) for every enum
                     value x tn 0..7 (lid = -1: NULL);
     trx.layouts   = the distinct layouts returned (period, slotmask, lchan
                     mask, frames[0..period-1] = [dl_chan, dl_bid, ul_chan, ul_bid]);
     trx.walk      = (thorough) frames[fn % period] evaluated by the driver the
                     way sched_trx.c does, per (cfg, tn, fn);
     fw.channr[c+1] = [c, none_lo, none_hi, pm_lo, pm_hi]: the task mask
                     chan_nr2mf_task_mask(c, mode) of layer1/l23_api.c (what
                     l1ctl_rx_dm_est_req enables for channel number c), modes
                     NEIGH_MODE_NONE / NEIGH_MODE_PM, in 16-bit halves;
     trx.desc[k+1] = {chan_nr, link_id, flags} of the real l1sched_lchan_desc[k].
   `fn` walks one complete 51*26*8 cycle (a multiple of every modulo / period
   on either side); the invariants are evaluated in every state.

   Interpretation (DESIGN.md, C11): a firmware block starts in frame
   call_fn + frame_offset + 1 (tdma_schedule_set(1, ..) runs the set in the
   next frame, the DSP needs one more frame); NB_QUAD_DL sets are downlink
   blocks, NB_QUAD_UL sets uplink blocks, MF_F_SACCH selects the SACCH of the
   task; the TCH set receives and transmits one burst in its frame, TCH_A is
   the SACCH burst, TCH_D the other half-rate sub-channel (nothing for this
   task).  trxcon: a block of lchan X starts in direction D in the frames whose
   D-channel is X with burst id 0.                                          *)
EXTENDS Integers, Sequences, FiniteSets, TLC, Json, IOUtils

CONSTANT PerTn        \* TRUE: one correspondence pair per timeslot (thorough);
                      \* FALSE: pairs that look at the same layout are merged

Dump == JsonDeserialize(IOEnv.DUMP_FILE)
FW   == Dump.fw
TRX  == Dump.trx
Cycle == 51 * 26 * 8
Tns == 0..7
Range(s) == {s[k] : k \in 1..Len(s)}

VARIABLE fn

----------------------------------------------------------------------------
(* trxcon side *)
NChans == Len(TRX.chans)
ChanId(name) == CHOOSE k \in 0..NChans - 1 : TRX.chans[k + 1] = name
ChanName(id) == IF id \in 0..NChans - 1 THEN TRX.chans[id + 1] ELSE "CHAN_OUT_OF_RANGE"
IDLE == ChanId("L1SCHED_IDLE")
CfgNames == Range(TRX.cfgs)
Lids == 0..Len(TRX.layouts) - 1
Layout(lid) == TRX.layouts[lid + 1]
LidOf == [c \in CfgNames, t \in Tns |-> (CHOOSE r \in Range(TRX.lookups) : r.cfg = c /\ r.tn = t).lid]
LayoutLabel(L) == <<L.cfg, L.slotmask>>

NoFrame == <<-1, -1, -1, -1>>
TableOk(L) == L.period > 0 /\ Len(L.frames) = L.period
\* the frame lookup of sched_trx.c: offset = fn % period; frame = &frames[offset]
FrameAt(L, f) == IF TableOk(L) THEN L.frames[(f % L.period) + 1] ELSE NoFrame
Chan(fr, dir) == IF dir = "DL" THEN fr[1] ELSE fr[3]
Bid(fr, dir)  == IF dir = "DL" THEN fr[2] ELSE fr[4]
Enc(fr) == ((fr[1] * 256 + fr[2]) * 64 + fr[3]) * 256 + fr[4]

\* channels transmitted as blocks of several bursts; the others (IDLE, FCCH,
\* SCH, RACH) are single bursts
SingleBurst == {ChanId("L1SCHED_IDLE"), ChanId("L1SCHED_FCCH"), ChanId("L1SCHED_SCH"), ChanId("L1SCHED_RACH")}
BurstsPerBlock(c) == IF c \in {ChanId("L1SCHED_TCHH_0"), ChanId("L1SCHED_TCHH_1")} THEN 2 ELSE 4

\* channel combinations trxcon implements: a layout must exist for every timeslot
Implemented == {"GSM_PCHAN_NONE", "GSM_PCHAN_CCCH", "GSM_PCHAN_CCCH_SDCCH4", "GSM_PCHAN_CCCH_SDCCH4_CBCH",
                "GSM_PCHAN_SDCCH8_SACCH8C", "GSM_PCHAN_SDCCH8_SACCH8C_CBCH", "GSM_PCHAN_TCH_F",
                "GSM_PCHAN_TCH_H", "GSM_PCHAN_PDCH"}
\* GSM_PCHAN_NONE has an empty layout (period 0, no table); trxcon never
\* configures it (trxcon_fsm.c rejects it, l1ctl.c never produces it), so there
\* is no frame lookup to judge for it.
NeverConfigured == {"GSM_PCHAN_NONE"}

----------------------------------------------------------------------------
(* firmware side *)
Task(name) == CHOOSE t \in Range(FW.tasks) : t.task = name
SetName(k) == FW.sets[k + 1]
MF_F_SACCH == 1
StartOf(c) == (c[1] + c[4] + 1) % Cycle
KindOf(c) ==
  LET s == SetName(c[2]) fl == c[3] IN
  CASE s = "NB_DL" /\ fl = 0 -> "DL"
    [] s = "NB_UL" /\ fl = 0 -> "UL"
    [] s = "NB_DL" /\ fl = MF_F_SACCH -> "SACCH_DL"
    [] s = "NB_UL" /\ fl = MF_F_SACCH -> "SACCH_UL"
    [] s = "TCH" /\ fl = 0 -> "TCH"
    [] s = "TCH_A" /\ fl = MF_F_SACCH -> "TSACCH"
    [] s = "TCH_D" /\ fl = 0 -> "TDUMMY"
    [] OTHER -> "UNCLASSIFIED"
Kinds == {"DL", "UL", "SACCH_DL", "SACCH_UL", "TCH", "TSACCH", "TDUMMY", "UNCLASSIFIED"}

----------------------------------------------------------------------------
(* The correspondence table (trusted): firmware task <-> trxcon lchan(s),
   the channel combinations that carry it and the timeslots it applies to.
   Not in the table because only one side implements them: MF_TASK_BCCH_EXT,
   MF_TASK_GPRS_PTCCH (empty in the firmware), the neighbour measurement tasks,
   MF_TASK_UL_ALL_NB; trxcon's RACH/FCCH/SCH (no multiframe task), PTCCH and
   the uplink of PDTCH (the firmware task is receive-only).                  *)
CCCHc == "GSM_PCHAN_CCCH"
SD4   == "GSM_PCHAN_CCCH_SDCCH4"
SD4CB == "GSM_PCHAN_CCCH_SDCCH4_CBCH"
SD8   == "GSM_PCHAN_SDCCH8_SACCH8C"
SD8CB == "GSM_PCHAN_SDCCH8_SACCH8C_CBCH"

Blk(t, main, sacch, ul, cfgs) ==
  [task |-> t, mode |-> "block", main |-> main, sacch |-> sacch, ul |-> ul, cfgs |-> cfgs, tns |-> Tns]
Tch(t, main, sacch, cfgs, tns) ==
  [task |-> t, mode |-> "tch", main |-> main, sacch |-> sacch, ul |-> TRUE, cfgs |-> cfgs, tns |-> tns]

Corr ==
  {Blk("MF_TASK_BCCH_NORM", "L1SCHED_BCCH", "", FALSE, {CCCHc, SD4, SD4CB}),
   Blk("MF_TASK_CCCH", "L1SCHED_CCCH", "", FALSE, {CCCHc}),
   Blk("MF_TASK_CCCH_COMB", "L1SCHED_CCCH", "", FALSE, {SD4, SD4CB}),
   Blk("MF_TASK_SDCCH4_CBCH", "L1SCHED_SDCCH4_CBCH", "", FALSE, {SD4CB}),
   Blk("MF_TASK_SDCCH8_CBCH", "L1SCHED_SDCCH8_CBCH", "", FALSE, {SD8CB}),
   Blk("MF_TASK_GPRS_PDTCH", "L1SCHED_PDTCH", "", FALSE, {"GSM_PCHAN_PDCH"}),
   Tch("MF_TASK_TCH_F_EVEN", "L1SCHED_TCHF", "L1SCHED_SACCHTF", {"GSM_PCHAN_TCH_F"}, {0, 2, 4, 6}),
   Tch("MF_TASK_TCH_F_ODD", "L1SCHED_TCHF", "L1SCHED_SACCHTF", {"GSM_PCHAN_TCH_F"}, {1, 3, 5, 7}),
   Tch("MF_TASK_TCH_H_0", "L1SCHED_TCHH_0", "L1SCHED_SACCHTH_0", {"GSM_PCHAN_TCH_H"}, Tns),
   Tch("MF_TASK_TCH_H_1", "L1SCHED_TCHH_1", "L1SCHED_SACCHTH_1", {"GSM_PCHAN_TCH_H"}, Tns)}
  \cup {Blk("MF_TASK_SDCCH4_" \o d, "L1SCHED_SDCCH4_" \o d, "L1SCHED_SACCH4_" \o d, TRUE,
            IF d = "2" THEN {SD4} ELSE {SD4, SD4CB}) : d \in {"0", "1", "2", "3"}}   \* CBCH replaces sub-channel 2
  \cup {Blk("MF_TASK_SDCCH8_" \o d, "L1SCHED_SDCCH8_" \o d, "L1SCHED_SACCH8_" \o d, TRUE,
            IF d = "2" THEN {SD8} ELSE {SD8, SD8CB}) : d \in {"0", "1", "2", "3", "4", "5", "6", "7"}}

\* (firmware kind, trxcon lchan, direction, how) compared for one table row
\*   how = "start": firmware block starts = frames with burst id 0 of the lchan
\*   how = "own"  : firmware bursts        = frames the layout gives to the lchan
Links(r) ==
  IF r.mode = "block"
  THEN {<<"DL", r.main, "DL", "start", "DL">>}
       \cup (IF r.ul THEN {<<"UL", r.main, "UL", "start", "UL">>} ELSE {})
       \cup (IF r.sacch # "" THEN {<<"SACCH_DL", r.sacch, "DL", "start", "SACCH_DL">>} ELSE {})
       \cup (IF r.sacch # "" /\ r.ul THEN {<<"SACCH_UL", r.sacch, "UL", "start", "SACCH_UL">>} ELSE {})
  ELSE {<<"TCH", r.main, "DL", "own", "TCH_DL">>, <<"TCH", r.main, "UL", "own", "TCH_UL">>,
        <<"TSACCH", r.sacch, "DL", "own", "SACCH_DL">>, <<"TSACCH", r.sacch, "UL", "own", "SACCH_UL">>}
AllowedKinds(r) == {k[1] : k \in Links(r)} \cup (IF r.mode = "tch" THEN {"TDUMMY"} ELSE {})

PairRec(r, k, c, t) ==
  [task |-> r.task, kind |-> k[1], chan |-> ChanId(k[2]), dir |-> k[3], how |-> k[4], label |-> k[5],
   lid |-> LidOf[c, t], tn |-> IF PerTn THEN t ELSE -1, cfg |-> IF PerTn THEN c ELSE ""]
Pairs ==
  UNION {UNION {{PairRec(r, k, c, t) : k \in Links(r), t \in {t2 \in r.tns : LidOf[c, t2] >= 0}} : c \in r.cfgs}
         : r \in Corr}

\* firmware start frames per task and kind (computed once)
FwStarts ==
  [t \in {r.task : r \in Corr} |->
     LET cls == {<<KindOf(c), StartOf(c)>> : c \in Range(Task(t).calls)} IN
     [k \in Kinds |-> {x[2] : x \in {y \in cls : y[1] = k}}]]

TrxHas(p, f) ==
  LET fr == FrameAt(Layout(p.lid), f) IN
  Chan(fr, p.dir) = p.chan /\ (p.how = "start" => Bid(fr, p.dir) = 0)

----------------------------------------------------------------------------
(* The clauses.  XBad(f) is the set of offending items of clause X in frame f;
   the invariant X says XBad(fn) = {}.  Diagnostic mode (MC_MframeDiag.cfg, run
   by the check after an invariant failed) prints, per clause, every offending
   item with the frames it occurs in. *)

StartsAgreeBad(f) ==
  {<<p.task, p.label>> : p \in {q \in Pairs : (f \in FwStarts[q.task][q.kind]) # TrxHas(q, f)}}
  \cup UNION {{<<r.task, "UNEXPECTED_" \o k>> : k \in {k2 \in Kinds \ AllowedKinds(r) : f \in FwStarts[r.task][k2]}}
              : r \in Corr}

\* burst ids of a block channel run 0,1,2,3 (0,1 for TCH/H) cyclically over the
\* frames the channel owns; computed once per layout: offending <<offset, dir, chan>>
Owned(L, dir, c) == SelectSeq([k \in 1..L.period |-> k - 1], LAMBDA o : Chan(L.frames[o + 1], dir) = c)
BadBidOf(L) ==
  IF ~TableOk(L) THEN {} ELSE
  UNION {LET own == Owned(L, dir, c) n == Len(own) IN
         {<<own[k], dir, ChanName(c)>> : k \in {k2 \in 1..n :
              Bid(L.frames[own[(k2 % n) + 1] + 1], dir) # (Bid(L.frames[own[k2] + 1], dir) + 1) % BurstsPerBlock(c)}}
         : dir \in {"DL", "UL"}, c \in ({Chan(L.frames[o + 1], "DL") : o \in 0..L.period - 1}
                                        \cup {Chan(L.frames[o + 1], "UL") : o \in 0..L.period - 1}) \ SingleBurst}
BadBid == [lid \in Lids |-> BadBidOf(Layout(lid))]
BidCyclicBad(f) ==
  UNION {{<<LayoutLabel(Layout(lid)), x[2], x[3]>> : x \in {y \in BadBid[lid] : y[1] = f % Layout(lid).period}}
         : lid \in {l2 \in Lids : TableOk(Layout(l2))}}

\* every lookup a configured timeslot can make stays inside the table
Configurable == {r \in Range(TRX.lookups) : r.lid >= 0 /\ r.cfg \notin NeverConfigured}
\* index of the driver's walk for (cfg, tn) in TRX.walk, 0 if there is none
WalkIdx == [c \in CfgNames, t \in Tns |->
              IF \E k \in 1..Len(TRX.walk) : TRX.walk[k].cfg = c /\ TRX.walk[k].tn = t
              THEN CHOOSE k \in 1..Len(TRX.walk) : TRX.walk[k].cfg = c /\ TRX.walk[k].tn = t ELSE 0]
LookupOk(q, f) ==
  LET L == Layout(q.lid) IN
  /\ TableOk(L)
  /\ (f % L.period) + 1 \in DOMAIN L.frames
  /\ LET fr == FrameAt(L, f) IN
     /\ fr[1] \in 0..NChans - 1 /\ fr[3] \in 0..NChans - 1       \* index into l1sched_lchan_desc[]
     /\ fr[2] >= 0 /\ fr[4] >= 0
     /\ WalkIdx[q.cfg, q.tn] # 0 => TRX.walk[WalkIdx[q.cfg, q.tn]].enc[f + 1] = Enc(fr)   \* the C lookup agrees
LookupInTableBad(f) == {<<r.cfg, r.tn>> : r \in {q \in Configurable : ~LookupOk(q, f)}}

\* every channel a frame uses gets a channel state from l1sched_configure_ts()
MaskCoversBad(f) ==
  UNION {{<<LayoutLabel(Layout(lid)), ChanName(c)>> :
            c \in {Chan(FrameAt(Layout(lid), f), d) : d \in {"DL", "UL"}} \ ({IDLE} \cup Range(Layout(lid).mask))}
         : lid \in {l2 \in Lids : TableOk(Layout(l2))}}

\* l1sched_mframe_layout(cfg, tn): NULL or a layout of that combination valid
\* for that timeslot; never NULL for an implemented combination (the same in every frame)
LayoutValidForTnBad(f) ==
  {<<r.cfg, r.tn>> : r \in {q \in Range(TRX.lookups) :
      ~(/\ q.cfg \in Implemented => q.lid >= 0
        /\ q.lid >= 0 => /\ Layout(q.lid).cfg = q.cfg
                         /\ (Layout(q.lid).slotmask \div (2 ^ q.tn)) % 2 = 1)}}

\* Which tasks the firmware enables for a logical channel.  A dedicated channel is
\* named by its channel number c (C-bits c \div 8, timeslot c % 8) on both sides:
\* the firmware turns it into a task mask (chan_nr2mf_task_mask), trxcon activates
\* the lchans whose descriptor carries that channel number.  Of the tasks of the
\* correspondence table exactly those must be enabled whose trxcon lchan is the
\* one with this channel number (and whose timeslots include this one).  Tasks
\* outside the table (neighbour measurements, PTCCH) are not judged: the statement
\* does not talk about them.  Constant-level: evaluated once.
DedCbits == (1..15) \cup {24, 25, 26}     \* TCH/F, TCH/H, SDCCH/4, SDCCH/8, PDCH, CBCH on SDCCH/4, CBCH on SDCCH/8
DedChanNrs == {c \in 0..255 : (c \div 8) \in DedCbits}
NeighModes == {"NONE", "PM"}
MaskRow(c) == FW.channr[c + 1]
HasBit(row, mode, b) ==
  LET lo == row[IF mode = "NONE" THEN 2 ELSE 4]
      hi == row[IF mode = "NONE" THEN 3 ELSE 5] IN
  IF b < 16 THEN (lo \div (2 ^ b)) % 2 = 1 ELSE (hi \div (2 ^ (b - 16))) % 2 = 1
DescChanNr(name) == TRX.desc[ChanId(name) + 1].chan_nr
FwEnables(c, mode) == {r.task : r \in {q \in Corr : HasBit(MaskRow(c), mode, Task(q.task).id)}}
TrxExpects(c) == {r.task : r \in {q \in Corr : (c % 8) \in q.tns /\ DescChanNr(q.main) = c - (c % 8)}}
ChanNrBad ==
  UNION {{<<c, m, "extra", t>> : t \in FwEnables(c, m) \ TrxExpects(c)}
         \cup {<<c, m, "missing", t>> : t \in TrxExpects(c) \ FwEnables(c, m)}
         : c \in DedChanNrs, m \in NeighModes}
ChanNrJudged == Cardinality(DedChanNrs \X NeighModes)

\* What the firmware schedules in a frame depends on the frame number alone, not on the frame
\* numbers seen before: after the frame number jumped (cell synchronisation) onto any position of
\* the multiframes and was walked on from there (FW.tasks[k].jcalls, frames 0..jmax), the calls
\* are those of the frame-by-frame pass.  Items <<task, "extra"|"missing", call>>.
HistoryBad ==
  UNION {LET jc == Range(t.jcalls)
             cc == {c \in Range(t.calls) : c[1] <= t.jmax}
         IN {<<t.task, "extra-after-jump", c>> : c \in jc \ cc} \cup {<<t.task, "missing-after-jump", c>> : c \in cc \ jc}
         : t \in Range(FW.tasks)}
HistoryFree      == (IF fn >= 0 THEN HistoryBad ELSE {}) = {}

StartsAgree      == StartsAgreeBad(fn) = {}
BidCyclic        == BidCyclicBad(fn) = {}
LookupInTable    == LookupInTableBad(fn) = {}
MaskCovers       == MaskCoversBad(fn) = {}
LayoutValidForTn == LayoutValidForTnBad(fn) = {}
\* (the same in every frame; written over fn because TLC refuses an invariant that is a constant FALSE)
ChanNrTasks      == (IF fn >= 0 THEN ChanNrBad ELSE {}) = {}

----------------------------------------------------------------------------
Init == fn = 0
Next == fn < Cycle - 1 /\ fn' = fn + 1
Spec == Init /\ [][Next]_fn

\* vacuity guards, printed once
ASSUME PrintT(<<"C11-INFO", "pairs", Cardinality(Pairs), "links", Cardinality({<<p.task, p.label>> : p \in Pairs}),
                "layouts", Len(TRX.layouts), "fwtasks", Len(FW.tasks),
                "walks", Len(TRX.walk), "channr", ChanNrJudged,
                "channr_expected", Cardinality({c \in DedChanNrs : TrxExpects(c) # {}}),
                "cycle", FW.cycle, TRX.cycle>>)
ASSUME FW.cycle = Cycle /\ TRX.cycle = Cycle
ASSUME Len(FW.channr) = 256 /\ \A c \in 0..255 : MaskRow(c)[1] = c /\ Len(MaskRow(c)) = 5
ASSUME Len(TRX.desc) = NChans /\ FW.neigh_modes = [NONE |-> 0, PM |-> 1]

\* diagnostic mode: all offending items of a clause with (up to 8 of) their frames
Frames == 0..Cycle - 1
Diag(clause, Bad(_)) ==
  LET all == UNION {{<<f, it>> : it \in Bad(f)} : f \in Frames}      \* evaluated once
      items == {p[2] : p \in all} IN
  PrintT(<<"C11-ALL", clause,
           {LET fs == {p[1] : p \in {q \in all : q[2] = it}}
                f0 == CHOOSE f \in fs : TRUE          \* TLC enumerates a set of integers in ascending order
            IN <<it, Cardinality(fs), {f \in fs : f < f0 + 110}>> : it \in items}>>)
DiagInit ==
  /\ fn = 0
  /\ Diag("StartsAgree", StartsAgreeBad) /\ Diag("BidCyclic", BidCyclicBad) /\ Diag("LookupInTable", LookupInTableBad)
  /\ Diag("MaskCovers", MaskCoversBad) /\ Diag("LayoutValidForTn", LayoutValidForTnBad)
  /\ PrintT(<<"C11-ALL", "ChanNrTasks", {<<it, 0, {}>> : it \in ChanNrBad}>>)     \* not per frame
  /\ PrintT(<<"C11-ALL", "HistoryFree", {<<<<it[1], it[2]>>, Cardinality({x \in HistoryBad : x[1] = it[1] /\ x[2] = it[2]}),
                                          {x[3][1] : x \in {y \in HistoryBad : y[1] = it[1] /\ y[2] = it[2] /\ y[3][1] < 400}}>> : it \in HistoryBad}>>)
DiagNext == FALSE /\ fn' = fn
=============================================================================
