INIT GInit
NEXT GNext
CONSTANTS
  MaxArfcn = 1023
  OctetBits = 8
  MaxOctets = 8
  Len0Return = TRUE
  GenArfcns = {0, 1, 2, 500, 1022, 1023}
  GenOctets = {0, 1, 128, 255, 90}
POSTCONDITION GenPost
CHECK_DEADLOCK FALSE
