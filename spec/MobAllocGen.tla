---------------------------- MODULE MobAllocGen ----------------------------
(* Spec -> code: TLC enumerates a complete boundary universe of Mobile
   Allocation inputs (every subset of GenArfcns as cell allocation x every
   bitmap of GenBitmaps) together with Decode's answer and writes it to
   IOEnv.OUT_FILE; vf/props/c20.py replays every case into the real
   gsm48_decode_mobile_alloc().                                             *)
EXTENDS MobileAlloc, TLC, Json, IOUtils, SequencesExt

CONSTANTS GenArfcns,    \* e.g. {0, 1, 2, 500, 1022, 1023}
          GenOctets     \* octet values used in the two-octet and long bitmaps

GenBitmaps ==
  {<<>>} \cup {<<o>> : o \in Octets}
  \cup {<<a, b>> : a \in GenOctets, b \in GenOctets}
  \cup {[k \in 1..n |-> v] : n \in {MaxOctets, MaxOctets + 1}, v \in GenOctets}

Cases ==
  {[ca |-> SortedAsc(c), bitmap |-> m, ok |-> Decode(c, m).ok, hop |-> Decode(c, m).hop]
     : c \in SUBSET GenArfcns, m \in GenBitmaps}

GInit == AInit({}, <<>>, FALSE, {}, 0)
GNext == UNCHANGED avars
GenPost == JsonSerialize(IOEnv.OUT_FILE, SetToSeq(Cases))
=============================================================================
