SPECIFICATION TSpec
CONSTANTS
  MaxArfcn = 1023
  OctetBits = 8
  MaxOctets = 8
  Len0Return = TRUE
POSTCONDITION Post
CHECK_DEADLOCK FALSE
