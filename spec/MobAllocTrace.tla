--------------------------- MODULE MobAllocTrace ---------------------------
(* Validates the real gsm48_decode_mobile_alloc() (sliced from sysinfo.c, real
   sizes) against MobileAlloc.
   "dec" events are independent records {ca (ascending list), len, bitmap, si4,
   pre, rc, hopping, hoppLen, hoppMask}: the outputs must be Decode's.
   "call" .. "s"/"h"/"x" .. "ret" events are one execution at the granularity
   of the function's own log lines; they must be a run of the Algorithm: "s"
   is the write f[j++] = arfcn, "h" a set bit i, "x" the stop at a bit beyond
   the cell allocation, every other algorithm step is internal.
   Don't-cares: outputs after a rejection (rc # 0); the HOPP flags when si4 = 0
   in "dec" records.                                                        *)
EXTENDS MobileAlloc, TraceKit

VARIABLE oca      \* the ordered cell allocation of the current call (OrdOfAsc of the logged list)

TInit ==
  /\ KInit /\ oca = <<>>
  /\ ca = {} /\ ma = <<>> /\ si4 = FALSE /\ pc = "idle" /\ i = 0 /\ j = 0
  /\ f = <<>> /\ hopping = <<>> /\ hopp_len = 0 /\ hmask = {} /\ rc = NotReturned

WellFormed(ev) ==
  /\ ev.len = Len(ev.bitmap) /\ IsAsc(ev.ca)
  /\ Range(ev.ca) \subseteq Arfcns /\ Range(ev.bitmap) \subseteq Octets

----------------------------------------------------------------------------
TDec ==
  /\ IsEv("dec")
  /\ Tag("C20.record.well-formed", WellFormed(Ev))
  /\ Tag("C20.too-long-accepted", Ev.len > MaxOctets => Ev.rc # 0)
  /\ Tag("C20.valid-rejected", Ev.len <= MaxOctets => Ev.rc = 0)
  /\ Ev.rc = 0 =>
       LET d == DecodeOrd(OrdOfAsc(Ev.ca), Ev.bitmap) IN
       /\ Tag("C20.decode.more-than-64", Ev.hoppLen <= MaxHop)
       /\ Tag("C20.record.hopplen", Len(Ev.hopping) = Ev.hoppLen)
       /\ Tag("C20.decode.outside-ca", Range(Ev.hopping) \subseteq Range(Ev.ca))
       /\ Tag("C20.decode.empty-bitmap", Ev.len = 0 => Ev.hopping = <<>>)
       /\ Tag("C20.decode.set", Range(Ev.hopping) = Range(d.hop))
       /\ Tag("C20.decode.order", Ev.hopping = d.hop)
       /\ Tag("C20.decode.si4-mask", Ev.si4 = 1 => Range(Ev.hoppMask) = Range(d.hop))
  /\ UNCHANGED <<avars, oca>>
  /\ Adv

----------------------------------------------------------------------------
\* what the algorithm waits for in the current state
Expected ==
  CASE pc = "idle" -> "call"
    [] pc = "gen_write" -> "s"
    [] pc = "hop" /\ i < FLen /\ MaBitC(i) -> "h"
    [] pc = "hop_set" /\ i >= j -> "x"
    [] pc = "done" -> "ret"
    [] OTHER -> "internal"

TInt ==
  /\ Expected = "internal"
  /\ Entry \/ Gen \/ Hop \/ HopSet
  /\ UNCHANGED <<kvars, oca>>

DoCall ==
  /\ Tag("C20.record.well-formed", WellFormed(Ev) /\ IsAsc(Ev.pre))
  /\ ca' = Range(Ev.ca) /\ ma' = Ev.bitmap /\ si4' = (Ev.si4 = 1)
  /\ pc' = "entry" /\ i' = 0 /\ j' = 0
  /\ f' = [k \in 0..(OctetBits * Len(Ev.bitmap) - 1) |-> Undef]
  /\ hopping' = [k \in 0..MaxHop - 1 |-> Undef]
  /\ hopp_len' = Ev.stale /\ hmask' = Range(Ev.pre) /\ rc' = NotReturned
  /\ oca' = OrdOfAsc(Ev.ca)

DoRet ==
  /\ Tag("C20.alg.rc", Ev.rc = rc)
  /\ rc = 0 =>
       /\ Tag("C20.alg.hopp-len", Ev.hoppLen = hopp_len)
       /\ Tag("C20.alg.hopping", Ev.hopping = [k \in 1..hopp_len |-> hopping[k - 1]])
  /\ Tag("C20.alg.hopp-flags", Range(Ev.hoppMask) = hmask)
  /\ Tag("C20.alg.refines", RefinesWith(DecodeOrd(oca, ma)))
  /\ pc' = "idle"
  /\ UNCHANGED <<ca, ma, si4, i, j, f, hopping, hopp_len, hmask, rc>>

TStep ==
  /\ Expected # "internal"
  /\ l <= Len(T.ev) /\ Ev.e # "dec"
  \* the observed accesses of the real code, whatever the algorithm expects
  /\ Tag("C20.alg.f-write-in-bounds", Ev.e = "s" => Ev.j < FLen)
  /\ Tag("C20.alg.bit-index-in-bounds", Ev.e = "h" => Ev.i < FLen)
  /\ Tag("C20.alg.expected-" \o Expected, Ev.e = Expected)
  /\ CASE Expected = "call" -> DoCall
       [] Expected = "s" -> Tag("C20.alg.f-write", Ev.j = j /\ Ev.arfcn = i % NArfcn) /\ GenWrite /\ oca' = oca
       [] Expected = "h" -> Tag("C20.alg.bit-index", Ev.i = i) /\ Hop /\ oca' = oca
       [] Expected = "x" -> Tag("C20.alg.stop", Ev.idx = i + 1 /\ Ev.j = j) /\ HopSet /\ oca' = oca
       [] Expected = "ret" -> DoRet /\ oca' = oca
  /\ Adv

TNext == TDec \/ TInt \/ TStep
TSpec == TInit /\ [][TNext]_<<avars, kvars, oca>>
Post == WriteVerdicts
=============================================================================
