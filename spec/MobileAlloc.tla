--------------------------- MODULE MobileAlloc ---------------------------
(* Mobile Allocation IE (3GPP TS 44.018, 10.5.2.21) and its decoder
   gsm48_decode_mobile_alloc() of layer23/src/common/sysinfo.c.

   (a) Decode(ca, bm): the function the IE text defines.  The cell allocation
       is ordered by ascending ARFCN with ARFCN 0 put last; "MA C i" (i = 1..8n)
       belongs to the i-th frequency of that list; the LAST octet of the IE
       carries MA C 8..1 with MA C 1 in its least significant bit, the octet
       before it MA C 16..9, and so on.  The bits are taken in ascending i; a
       set bit whose i exceeds the number of cell-allocation frequencies ends
       decoding; more than MaxOctets octets are rejected.
   (b) The decoder as an algorithm with explicit program state (C indices are
       0-based, arrays are functions on 0..N-1).  Every array access is a
       separate pc location whose index bound is an invariant ("no access
       outside f[], ma[], hopping[], freq[]").  TLC checks that the algorithm
       refines Decode and keeps all bounds (MC_MobileAlloc.cfg, scaled sizes).

   MobAllocTrace.tla validates results and log-level steps of the real
   function (real sizes) against (a) and (b).                               *)
EXTENDS Integers, Sequences, FiniteSets

CONSTANTS MaxArfcn,    \* 1023; the freq[] table has MaxArfcn + 1 entries
          OctetBits,   \* 8 (scaled down for model checking)
          MaxOctets,   \* 8: longest bitmap accepted
          Len0Return   \* the decoder returns right after the "tabula rasa"
                       \* when the bitmap is empty.  TRUE is the required
                       \* algorithm; FALSE transcribes sysinfo.c as found
                       \* (MC_MobileAllocTree.cfg shows that this one writes
                       \* f[0] of a zero-length array).

NArfcn == MaxArfcn + 1
MaxHop == OctetBits * MaxOctets          \* 64 = size of the callers' hopping[]
Arfcns == 0..MaxArfcn
Octets == 0..(2 ^ OctetBits - 1)
Range(s) == {s[k] : k \in 1..Len(s)}
Min2(a, b) == IF a < b THEN a ELSE b

----------------------------------------------------------------------------
(* (a) The function defined by the IE text *)

\* order of the cell allocation: ascending ARFCN, ARFCN 0 last
Key(a) == IF a = 0 THEN NArfcn ELSE a
Before(a, b) == Key(a) < Key(b)
OrdCA(ca) == [k \in 1..Cardinality(ca) |->
                CHOOSE a \in ca : Cardinality({x \in ca : Before(x, a)}) = k - 1]

\* MA C i of a bitmap given as the sequence of its octets in IE order
MaC(bm, i) == (bm[Len(bm) - ((i - 1) \div OctetBits)] \div (2 ^ ((i - 1) % OctetBits))) % 2 = 1
NBits(bm) == OctetBits * Len(bm)

\* take MA C i in ascending i; oc is the ordered cell allocation
RECURSIVE Scan(_, _, _, _)
Scan(oc, bm, i, acc) ==
  IF i > NBits(bm) THEN acc
  ELSE IF ~MaC(bm, i) THEN Scan(oc, bm, i + 1, acc)
  ELSE IF i > Len(oc) THEN acc                       \* points beyond the CA: stop
  ELSE Scan(oc, bm, i + 1, Append(acc, oc[i]))

DecodeOrd(oc, bm) ==
  IF Len(bm) > MaxOctets THEN [ok |-> FALSE, hop |-> <<>>]
  ELSE [ok |-> TRUE, hop |-> Scan(oc, bm, 1, <<>>)]

Decode(ca, bm) == DecodeOrd(OrdCA(ca), bm)

\* The same function said as the property text says it; checked for every
\* (ca, bm) of the model-checking universe (DecodeFacts is an invariant).
Flagged(ca, bm) == {k \in 1..Min2(Cardinality(ca), NBits(bm)) : MaC(bm, k)}
DecodeFactsFor(ca, bm) ==
  LET d == Decode(ca, bm) oc == OrdCA(ca) IN
  /\ d.ok = (Len(bm) <= MaxOctets)
  /\ d.ok =>
       /\ Len(d.hop) <= MaxHop                                   \* never more than 64
       /\ Range(d.hop) \subseteq ca                              \* never outside the CA
       /\ Range(d.hop) = {oc[k] : k \in Flagged(ca, bm)}         \* exactly the flagged ones
       /\ Len(d.hop) = Cardinality(Flagged(ca, bm))              \* each once
       /\ \A p, q \in 1..Len(d.hop) : p < q => Before(d.hop[p], d.hop[q])   \* in CA order
       /\ (bm = <<>> => d.hop = <<>>)                            \* empty bitmap, empty list

\* Trace records carry the cell allocation as an ascending list; for such a
\* list the ordered CA is the list with a leading 0 moved to the end
\* (AscLemma is checked by TLC for every subset of the scaled universe).
IsAsc(s) == {k \in 1..Len(s) - 1 : s[k] >= s[k + 1]} = {}
OrdOfAsc(s) == IF s # <<>> /\ s[1] = 0 THEN Tail(s) \o <<0>> ELSE s
SortedAsc(c) == [k \in 1..Cardinality(c) |-> CHOOSE a \in c : Cardinality({x \in c : x < a}) = k - 1]
AscLemmaFor(c) == IsAsc(SortedAsc(c)) /\ OrdOfAsc(SortedAsc(c)) = OrdCA(c)

----------------------------------------------------------------------------
(* (b) The decoder as an algorithm *)

VARIABLES
  ca,        \* input: ARFCNs whose freq[].mask has FREQ_TYPE_SERV
  ma,        \* input: the bitmap octets, ma[k + 1] is the C ma[k]; len = Len(ma)
  si4,       \* input flag: maintain FREQ_TYPE_HOPP in freq[]
  pc,        \* "entry" | "gen" | "gen_write" | "hop" | "hop_set" | "done"
  i, j,      \* the C loop variables
  f,         \* uint16_t f[len << 3]: function on 0..FLen-1, Undef = not written
  hopping,   \* the caller's uint16_t[64]: function on 0..MaxHop-1
  hopp_len,  \* *hopp_len
  hmask,     \* ARFCNs whose freq[].mask has FREQ_TYPE_HOPP
  rc         \* return value: 0 | EINVAL; NotReturned while running

avars == <<ca, ma, si4, pc, i, j, f, hopping, hopp_len, hmask, rc>>

EINVAL == -22
NotReturned == 1
len == Len(ma)
FLen == OctetBits * len
Undef == NArfcn + 1
\* index of the octet the C code reads for bit i (0-based): ma[len - 1 - (i >> 3)]
MaIdx(k) == len - 1 - (k \div OctetBits)
MaBitC(k) == (ma[MaIdx(k) + 1] \div (2 ^ (k % OctetBits))) % 2 = 1

AInit(c, m, s, h0, staleLen) ==
  /\ ca = c /\ ma = m /\ si4 = s /\ pc = "entry" /\ i = 0 /\ j = 0
  /\ f = [k \in 0..(OctetBits * Len(m) - 1) |-> Undef]
  /\ hopping = [k \in 0..MaxHop - 1 |-> Undef]
  /\ hopp_len = staleLen /\ hmask = h0 /\ rc = NotReturned

\* if (len > 8) return -EINVAL; *hopp_len = 0; if (si4) clear all HOPP flags
Entry ==
  /\ pc = "entry"
  /\ IF len > MaxOctets
     THEN /\ rc' = EINVAL /\ pc' = "done"
          /\ UNCHANGED <<hopp_len, hmask, i>>
     ELSE /\ hopp_len' = 0
          /\ hmask' = IF si4 THEN {} ELSE hmask
          /\ IF Len0Return /\ len = 0
             THEN rc' = 0 /\ pc' = "done" /\ i' = i
             ELSE rc' = rc /\ pc' = "gen" /\ i' = 1
  /\ UNCHANGED <<ca, ma, si4, j, f, hopping>>

\* for (i = 1; i <= 1024; i++) if (freq[i & 1023].mask & SERV) ...
\* one step runs the loop up to the next serving ARFCN (the iterations in
\* between only increment i); NextServ(k) = first loop index >= k whose
\* ARFCN is serving, NArfcn + 1 if the loop runs out
RECURSIVE NextServ(_)
NextServ(k) == IF k > NArfcn THEN NArfcn + 1
               ELSE IF (k % NArfcn) \in ca THEN k ELSE NextServ(k + 1)
Gen ==
  /\ pc = "gen"
  /\ LET k == NextServ(i) IN
     IF k > NArfcn
     THEN pc' = "hop" /\ i' = 0
     ELSE pc' = "gen_write" /\ i' = k
  /\ UNCHANGED <<ca, ma, si4, j, f, hopping, hopp_len, hmask, rc>>

\* f[j++] = i & 1023; if (j == (len << 3)) break;
GenWrite ==
  /\ pc = "gen_write"
  /\ f' = [k \in DOMAIN f |-> IF k = j THEN i % NArfcn ELSE f[k]]
  /\ j' = j + 1
  /\ IF j + 1 = FLen THEN pc' = "hop" /\ i' = 0
                     ELSE pc' = "gen" /\ i' = i + 1
  /\ UNCHANGED <<ca, ma, si4, hopping, hopp_len, hmask, rc>>

\* for (i = 0; i < (len << 3); i++) if (ma[len - 1 - (i >> 3)] & (1 << (i & 7))) ...
Hop ==
  /\ pc = "hop"
  /\ IF i >= FLen THEN pc' = "done" /\ rc' = 0 /\ i' = i
     ELSE IF MaBitC(i) THEN pc' = "hop_set" /\ rc' = rc /\ i' = i
     ELSE pc' = "hop" /\ rc' = rc /\ i' = i + 1
  /\ UNCHANGED <<ca, ma, si4, j, f, hopping, hopp_len, hmask>>

\* (the log line reads f[i]);  if (i >= j) break;
\* hopping[(*hopp_len)++] = f[i]; if (si4) freq[f[i]].mask |= HOPP;
HopSet ==
  /\ pc = "hop_set"
  /\ IF i >= j
     THEN /\ pc' = "done" /\ rc' = 0
          /\ UNCHANGED <<i, hopping, hopp_len, hmask>>
     ELSE /\ hopping' = [k \in DOMAIN hopping |-> IF k = hopp_len THEN f[i] ELSE hopping[k]]
          /\ hopp_len' = hopp_len + 1
          /\ hmask' = IF si4 THEN hmask \cup {f[i]} ELSE hmask
          /\ i' = i + 1 /\ pc' = "hop" /\ rc' = rc
  /\ UNCHANGED <<ca, ma, si4, j, f>>

ANext == Entry \/ Gen \/ GenWrite \/ Hop \/ HopSet

----------------------------------------------------------------------------
(* Index bounds: one invariant per array access *)
FWriteInBounds   == pc = "gen_write" => j < FLen                  \* f[j++] = ..
FReadInBounds    == pc = "hop_set" => i < FLen                    \* f[i] (log line and copy)
MaReadInBounds   == (pc = "hop" /\ i < FLen) => MaIdx(i) \in 0..len - 1
HoppWriteInBounds == (pc = "hop_set" /\ i < j) => hopp_len < MaxHop
FreqIdxInBounds  == (pc = "hop_set" /\ i < j) => f[i] \in Arfcns  \* freq[f[i]], and f[i] was written
GenIdxInBounds   == pc = "gen_write" => i \in 1..NArfcn           \* freq[i & 1023]
JBound           == j <= FLen
HoppLenBound     == hopp_len <= MaxHop

(* Refinement: the returned values are Decode's *)
RefinesWith(d) ==
  pc = "done" =>
    /\ (rc = 0) = d.ok
    /\ d.ok => /\ hopp_len = Len(d.hop)
               /\ \A k \in 1..Len(d.hop) : hopping[k - 1] = d.hop[k]
               /\ si4 => hmask = Range(d.hop)
Refines == RefinesWith(Decode(ca, ma))

----------------------------------------------------------------------------
(* Closed system for model checking: every cell allocation, every bitmap of
   0..MaxOctets octets (all contents), over-long bitmaps (constant contents
   are enough: they are rejected before being read), si4 0/1, HOPP flags
   initially none / all, a stale *hopp_len.                                *)
MCBitmaps == UNION {[1..n -> Octets] : n \in 0..MaxOctets}
             \cup {[k \in 1..MaxOctets + 1 |-> v] : v \in {0, 2 ^ OctetBits - 1}}
MCInit == \E c \in SUBSET Arfcns, m \in MCBitmaps, s \in BOOLEAN, h0 \in {{}, Arfcns} :
            AInit(c, m, s, h0, MaxHop)
MCSpec == MCInit /\ [][ANext]_avars

DecodeFacts == pc = "entry" => DecodeFactsFor(ca, ma)
AscLemma    == pc = "entry" => AscLemmaFor(ca)
\* a run that is not rejected leaves HOPP flags alone unless si4
Terminates  == <>(pc = "done")
=============================================================================
