------------------------------ MODULE RecKit ------------------------------
(* Skeleton for conformance of pure functions: IOEnv.TRACE_FILE is a JSON
   array of independent records {id, ...}; the including module defines
   Failed(r) = the set of clause tags the record violates.  One transition
   per record; verdicts are collected in TLC registers and written by the
   POSTCONDITION.  Run with -workers 1.  (Copy the five definitions below -
   TLA+ cannot pass the operator Failed into an EXTENDed module.)

     Recs == JsonDeserialize(IOEnv.TRACE_FILE)
     VARIABLE i
     RInit == i = 0
     RNext == i < Len(Recs) /\ i' = i + 1 /\ TLCSet(i + 1, Failed(Recs[i + 1]))
     RSpec == RInit /\ [][RNext]_i
     Post == JsonSerialize(IOEnv.OUT_FILE,
               [k \in 1..Len(Recs) |-> [id |-> Recs[k].id, failed |-> SetToSeq(TLCGet(k))]])
*)
=============================================================================
