SPECIFICATION MCSpec
CONSTANTS
  GB = 3
  Hyper = 4
  Mode = "flow"
  MaxSteps = 40
INVARIANT RunningIffLastPower
INVARIANT ClockLinksExact
INVARIANT ClockRunsIffNeeded
INVARIANT IdleHasNoQueue
INVARIANT VersionKnown
INVARIANT NoSilentLoss
INVARIANT SentInOwnFrame
INVARIANT StaleOnlyIfPassed
INVARIANT DropAccounting
INVARIANT DropNeverNegative
PROPERTY PowerOffForgets
PROPERTY PowerOnGuard
CHECK_DEADLOCK FALSE
