\* C09 spec -> code: behaviours simulated by TLC (tlc -simulate) whose
\* environment choices (ops: start frames, periods, link sets, handler
\* durations, stop points, pauses) are replayed into the real clck_gen.py.
\* Abstract time: FrameT = 4; a duration d stands for (d div 4) frame
\* periods plus {0, 1/4 (or 1 ns beyond a boundary), 1/2, one ns less than a
\* full period}; the real hyperframe so that the wrap is the code's own.
SPECIFICATION SimSpec
CONSTANTS
  FrameT = 4
  H = 2715648
  Durations = {0, 1, 2, 3, 4, 5, 7, 8, 9, 12, 40}
  Starts = {0, 51, 2715640, 2715645, 2715647}
  Periods = {1, 2, 3, 5, 51, 102}
  LinkSets <- SimLinkSets
  Pauses = {0, 1, 5, 100}
  Quotas = {0, 1, 3, 8, 20}
  MaxTicks = 40
  MaxEpochs = 3
  MaxRelinks = 3
INVARIANT Consecutive
INVARIANT RestartFromStart
INVARIANT IndWhen
INVARIANT IndLinks
INVARIANT IndOctets
INVARIANT NoDrift
INVARIANT NoDriftFromStart
INVARIANT MinSpacing
INVARIANT ResyncImmediate
INVARIANT OnTimeOtherwise
CHECK_DEADLOCK FALSE
