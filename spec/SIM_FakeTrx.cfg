SPECIFICATION MCSpec
CONSTANTS
  GB = 3
  Hyper = 4
  Mode = "sim"
  MaxSteps = 40
CHECK_DEADLOCK FALSE
