SPECIFICATION WSpec
CONSTANTS
  RxSize = 3
  NDlci = 129
  EchoDlci = 128
  Handlers = {4, 10}
  Alphabet = {126, 125, 0, 94, 93, 32, 65, 255}
  Dlcis = {4, 5, 10}
  MaxMsgs = 5
  MaxLen = 3
  NoiseOctets = {65, 4, 125, 0, 3}
  MaxNoise = 4
  MaxOver = 2
  OverFill = {65, 0, 4}
CHECK_DEADLOCK FALSE
