SPECIFICATION Spec
CONSTANTS
  D = 25
  K = 8
  G = 16
  Offs = {0, 1, 2, 3, 24}
  Cbs = {1, 2}
  P1s = {0, 255}
  P2s = {7}
  P3s = {0, 65535}
  Prios <- PriosWide
  SetLen = 3
  MaxSep = 2
  UseFat = TRUE
  GFns = {3, 4, 5}
  NestOffs = {0, 1}
  MaxOpsPerFrame = 4
  MaxResets = 2
INVARIANT RingAgrees
INVARIANT NoneMissed
INVARIANT Capacity
PROPERTY SetSpread
PROPERTY RunsWhenDue
PROPERTY ExactlyOnce
PROPERTY ParamsPreserved
PROPERTY PriorityOrder
PROPERTY BucketEmptyAfter
PROPERTY OverflowReported
CHECK_DEADLOCK FALSE
