--------------------------- MODULE SchedDispatch ---------------------------
(* C11, trxcon side, dynamic part: the dispatch state of the TDMA scheduler
   (trxcon/src/sched_trx.c) per timeslot and the four frame lookups it makes
   (l1sched_pull_burst, subst_frame_loss, l1sched_handle_rx_burst,
   l1sched_handle_rx_probe).  One action per entry point:

     Configure(tn, c, L)       l1sched_configure_ts(sched, tn, c); L is what
                               l1sched_mframe_layout(c, tn) returns (NoLayout: NULL)
     SetLchans(tn, cn, on)     l1sched_set_lchans(ts, cn, on, ..)
     Activate / Deactivate     l1sched_activate_lchan / l1sched_deactivate_lchan
     RxBurst(tn, fn, L)        l1sched_handle_rx_burst() incl. the substitution of
                               lost downlink frames (subst_frame_loss)
     PullBurst(tn, fn, L)      l1sched_pull_burst()
     Probe(tn, fn, L)          l1sched_handle_rx_probe()

   The layouts and the logical channel descriptors are data of the real code
   (dumps of sched_mframe.c and sched_lchan_desc.c); a layout is the record
     [cfg, period, slotmask, mask : Seq(chan), frames : Seq(<<dl_chan, dl_bid, ul_chan, ul_bid>>)]
   and the layout a configured timeslot uses is handed to the actions (model
   checking: Lookup(cfg, tn) from the constants; trace validation: the layout
   of the trace).  What a burst handler does with a burst is outside C11: a
   handler call is only the tuple <<dir, chan, bid, fn, handler>>.

   Clauses (C11 vocabulary), evaluated on `out`, the observable result of the
   last operation:
     LookupInTable      every frame lookup index is in 0..period-1
     CallsMatchRow      every handler call's (chan, bid) is the layout row of
                        that call's own fn in that direction
     CallsInMaskActive  handlers are only called for lchans of the layout's mask
                        that have a channel state and are active
     MaskGetsState      a configured timeslot has exactly the lchans of the mask
     LayoutValidForTn   the layout of a configured timeslot is one of that
                        combination, valid for that timeslot                 *)
EXTENDS Integers, Sequences, FiniteSets, TLC

CONSTANTS
  Hyper,          \* frame numbers are 0..Hyper-1 (GSM_TDMA_HYPERFRAME), a multiple of every period
  Tns,            \* timeslots
  Desc,           \* Seq of [rx, tx, auto : BOOLEAN, chan_nr, link_id, rxh, txh] indexed by lchan type + 1
  Cfgs,           \* channel combinations explored by Next (model checking only)
  Fns,            \* frame numbers explored by Next (model checking only)
  Lookup(_, _)    \* l1sched_mframe_layout(cfg, tn) (model checking only)

VARIABLES
  ts,             \* per timeslot: [conf, cfg, lch]
  out             \* observable result of the last operation

vars == <<ts, out>>

EINVAL == 22
ENODEV == 19
EALREADY == 114
NoBid == 255                       \* bid of a burst record nobody touched (set by the caller)
PROBE_F_ACTIVE == 1
DL == 0
UL == 1

NChans == Len(Desc)
D(c) == Desc[c + 1]
NoLayout == [cfg |-> -1, period |-> 0, slotmask |-> 0, mask |-> <<>>, frames |-> <<>>]
Mask(L) == {L.mask[i] : i \in 1..Len(L.mask)} \cap (0..NChans - 1)
Idx(L, f) == f % L.period                         \* the frame lookup: fn % period
Row(L, f) == L.frames[Idx(L, f) + 1]
BitSet(m, k) == (m \div (2 ^ k)) % 2 = 1

FreshLchan(c) == [act |-> D(c).auto, np |-> FALSE, last |-> 0]
NoTs == [conf |-> "none", cfg |-> -1, lch |-> <<>>]
NoOut == [op |-> "init", tn |-> 0, rc |-> 0, bid |-> NoBid, flags |-> 0, calls |-> <<>>, idx |-> {}]
Res(op, tn, rc, bid, flags, calls, idx) ==
  [op |-> op, tn |-> tn, rc |-> rc, bid |-> bid, flags |-> flags, calls |-> calls, idx |-> idx]

Init == ts = [t \in Tns |-> NoTs] /\ out = NoOut

----------------------------------------------------------------------------
(* l1sched_configure_ts: reset an existing timeslot, choose the layout, fail
   with -EINVAL if there is none for (c, tn) or it belongs to another
   combination; otherwise one channel state per lchan of the mask, those with
   L1SCHED_CH_FLAG_AUTO activated.  A timeslot whose first configuration failed
   is left half-initialised by the code; nothing is specified for it (no
   operation other than the burst entry points, which refuse it). *)
Configure(tn, c, L) ==
  LET ok == L.cfg = c /\ c >= 0 IN
  /\ ts[tn].conf # "nolay"
  /\ ts' = [ts EXCEPT ![tn] = IF ok THEN [conf |-> "ok", cfg |-> c, lch |-> [x \in Mask(L) |-> FreshLchan(x)]]
                                    ELSE [conf |-> "nolay", cfg |-> c, lch |-> <<>>]]
  /\ out' = Res("configure", tn, IF ok THEN 0 ELSE -EINVAL, NoBid, 0, <<>>, {})

Reset(s) == [act |-> FALSE, np |-> FALSE, last |-> 0]          \* l1sched_reset_lchan + active = 0

\* l1sched_activate_lchan / l1sched_deactivate_lchan: -EINVAL when there is no
\* such channel state or it already is in the requested state
Activate(tn, c) ==
  LET s == ts[tn] ok == c \in DOMAIN s.lch /\ ~s.lch[c].act IN
  /\ s.conf = "ok"
  /\ ts' = IF ok THEN [ts EXCEPT ![tn].lch[c].act = TRUE] ELSE ts
  /\ out' = Res("act", tn, IF ok THEN 0 ELSE -EINVAL, NoBid, 0, <<>>, {})

Deactivate(tn, c) ==
  LET s == ts[tn] ok == c \in DOMAIN s.lch /\ s.lch[c].act IN
  /\ s.conf = "ok"
  /\ ts' = IF ok THEN [ts EXCEPT ![tn].lch[c] = Reset(@)] ELSE ts
  /\ out' = Res("deact", tn, IF ok THEN 0 ELSE -EINVAL, NoBid, 0, <<>>, {})

\* l1sched_set_lchans: every channel state whose descriptor has this channel
\* number (cn = chan_nr & RSL_CHAN_NR_MASK); rc is the OR of the single results
SetLchans(tn, cn, on) ==
  LET s == ts[tn]
      sel == {c \in DOMAIN s.lch : D(c).chan_nr = cn}
      bad == {c \in sel : s.lch[c].act = on} IN
  /\ s.conf = "ok"
  /\ ts' = [ts EXCEPT ![tn].lch = [c \in DOMAIN s.lch |->
               IF c \in sel \ bad THEN (IF on THEN [s.lch[c] EXCEPT !.act = TRUE] ELSE Reset(s.lch[c])) ELSE s.lch[c]]]
  /\ out' = Res("set", tn, IF bad = {} THEN 0 ELSE -EINVAL, NoBid, 0, <<>>, {})

----------------------------------------------------------------------------
(* Signed distance between two frame numbers (GSM::FNDelta of osmo-trx) *)
Elapsed(fn, last) ==
  LET d == fn - last IN
  IF d >= Hyper \div 2 THEN d - Hyper ELSE IF d < -(Hyper \div 2) THEN d + Hyper ELSE d

Call(dir, c, bid, f) == <<dir, c, bid, f, IF dir = DL THEN D(c).rxh ELSE D(c).txh>>

\* the substituted calls: one per frame strictly between `last` and `last + e`
\* whose own downlink row belongs to c, with the burst id of that row, in order
\* (one pass over the gap)
SubstCalls(L, c, last, e) ==
  SelectSeq([i \in 1..e - 1 |-> LET f == (last + i) % Hyper r == Row(L, f) IN <<DL, r[1], r[2], f, D(c).rxh>>],
            LAMBDA x : x[2] = c)

(* l1sched_handle_rx_burst(): the burst of frame fn on a timeslot.  The
   downlink row of fn % period names the lchan and the burst id.  For an active
   lchan that processed a frame before, the frames lost since then are
   substituted first (only when 0 < elapsed <= period): one handler call per
   lost frame whose own row belongs to this lchan, with that row's burst id.
   A burst older than the last processed one is dropped (-EALREADY). *)
RxBurst(tn, fn, L) ==
  LET s == ts[tn] IN
  IF s.conf # "ok" THEN
    ts' = ts /\ out' = Res("rx", tn, -EINVAL, NoBid, 0, <<>>, {})
  ELSE
    LET row == Row(L, fn) c == row[1] bid == row[2] IN
    IF c \notin 0..NChans - 1 \/ ~D(c).rx \/ c \notin DOMAIN s.lch THEN
      ts' = ts /\ out' = Res("rx", tn, -ENODEV, bid, 0, <<>>, {Idx(L, fn)})
    ELSE IF ~s.lch[c].act THEN
      ts' = ts /\ out' = Res("rx", tn, 0, bid, 0, <<>>, {Idx(L, fn)})
    ELSE
      LET st == s.lch[c]
          e == Elapsed(fn, st.last)
          subst == st.np /\ e > 0 /\ e <= L.period
          lost == IF subst THEN SubstCalls(L, c, st.last, e) ELSE <<>>
          looked == IF subst THEN {Idx(L, (st.last + i) % Hyper) : i \in 1..e - 1} ELSE {} IN
      IF st.np /\ e < 0 THEN
        ts' = ts /\ out' = Res("rx", tn, -EALREADY, bid, 0, <<>>, {Idx(L, fn)})
      ELSE
        /\ ts' = [ts EXCEPT ![tn].lch[c] = [act |-> TRUE, np |-> TRUE, last |-> fn]]
        /\ out' = Res("rx", tn, 0, bid, 0,
                      lost \o <<Call(DL, c, bid, fn)>>,
                      {Idx(L, fn)} \cup looked)

(* l1sched_pull_burst(): the uplink row of fn % period names the lchan and the
   burst id (stored to br->bid); the handler is called when the lchan has a
   transmit handler, a channel state and is active.  (The RACH-primitive
   override of the handler is not modelled: no primitives are queued.) *)
PullBurst(tn, fn, L) ==
  LET s == ts[tn] IN
  /\ ts' = ts
  /\ IF s.conf # "ok" THEN out' = Res("pull", tn, 0, NoBid, 0, <<>>, {})
     ELSE LET row == Row(L, fn) c == row[3] bid == row[4]
              go == c \in 0..NChans - 1 /\ D(c).tx /\ c \in DOMAIN s.lch /\ s.lch[c].act IN
          out' = Res("pull", tn, 0, bid, 0, IF go THEN <<Call(UL, c, bid, fn)>> ELSE <<>>, {Idx(L, fn)})

(* l1sched_handle_rx_probe(): is the lchan of the downlink row of fn active? *)
Probe(tn, fn, L) ==
  LET s == ts[tn] IN
  /\ ts' = ts
  /\ IF s.conf # "ok" THEN out' = Res("probe", tn, -EINVAL, NoBid, 0, <<>>, {})
     ELSE LET c == Row(L, fn)[1] IN
          IF c \notin 0..NChans - 1 \/ ~D(c).rx \/ c \notin DOMAIN s.lch
          THEN out' = Res("probe", tn, -ENODEV, NoBid, 0, <<>>, {Idx(L, fn)})
          ELSE out' = Res("probe", tn, 0, NoBid, IF s.lch[c].act THEN PROBE_F_ACTIVE ELSE 0, <<>>, {Idx(L, fn)})

----------------------------------------------------------------------------
(* The clauses, as predicates over (layout, channel states, calls) so that the
   trace specification can evaluate them on what the real code did. *)
IdxInTable(L, idx) == idx # {} => (L.period > 0 /\ Len(L.frames) = L.period /\ idx \subseteq 0..L.period - 1)

CallMatchesRow(L, c) ==
  /\ L.period > 0 /\ Len(L.frames) = L.period
  /\ LET row == Row(L, c[4]) IN
     IF c[1] = DL THEN c[2] = row[1] /\ c[3] = row[2] ELSE c[2] = row[3] /\ c[3] = row[4]
CallsMatchRowP(L, calls) == {i \in 1..Len(calls) : ~CallMatchesRow(L, calls[i])} = {}

CallsInMaskActiveP(L, s, calls) ==
  {i \in 1..Len(calls) : ~(/\ calls[i][2] \in Mask(L)
                           /\ calls[i][2] \in DOMAIN s.lch
                           /\ s.lch[calls[i][2]].act)} = {}

MaskGetsStateP(L, s) == s.conf = "ok" => DOMAIN s.lch = Mask(L)
LayoutValidP(L, s, tn) == s.conf = "ok" => (L.cfg = s.cfg /\ BitSet(L.slotmask, tn))

----------------------------------------------------------------------------
(* Model checking: the layout of a configured timeslot comes from Lookup *)
Cur(tn) == IF ts[tn].conf = "ok" THEN Lookup(ts[tn].cfg, tn) ELSE NoLayout

ChanNrs == {D(c).chan_nr : c \in 0..NChans - 1}

Next ==
  \E tn \in Tns :
    \/ \E c \in Cfgs : Configure(tn, c, Lookup(c, tn))
    \/ \E cn \in ChanNrs, on \in BOOLEAN : SetLchans(tn, cn, on)
    \/ \E c \in 0..NChans - 1 : Activate(tn, c) \/ Deactivate(tn, c)
    \/ \E f \in Fns : RxBurst(tn, f, Cur(tn)) \/ PullBurst(tn, f, Cur(tn)) \/ Probe(tn, f, Cur(tn))

Spec == Init /\ [][Next]_vars

TypeOK ==
  /\ \A tn \in Tns :
       /\ ts[tn].conf \in {"none", "nolay", "ok"}
       /\ DOMAIN ts[tn].lch \subseteq 0..NChans - 1
       /\ \A c \in DOMAIN ts[tn].lch : ts[tn].lch[c] \in [act : BOOLEAN, np : BOOLEAN, last : 0..Hyper - 1]
  /\ out.tn \in Tns /\ out.rc \in {0, -EINVAL, -ENODEV, -EALREADY}

LookupInTable     == IdxInTable(Cur(out.tn), out.idx)
CallsMatchRow     == CallsMatchRowP(Cur(out.tn), out.calls)
CallsInMaskActive == CallsInMaskActiveP(Cur(out.tn), ts[out.tn], out.calls)
MaskGetsState     == \A tn \in Tns : MaskGetsStateP(Cur(tn), ts[tn])
LayoutValidForTn  == \A tn \in Tns : LayoutValidP(Cur(tn), ts[tn], tn)
\* an inactive lchan carries no loss-detection state (so re-activation starts afresh)
InactiveClean == \A tn \in Tns : \A c \in DOMAIN ts[tn].lch :
                   ~ts[tn].lch[c].act => (~ts[tn].lch[c].np /\ ts[tn].lch[c].last = 0)
\* the calls of one received burst are for consecutive-in-time frames of one lchan, the burst itself last
RxCallsOrdered ==
  out.op = "rx" /\ out.calls # <<>> =>
    LET n == Len(out.calls) IN
    /\ \A i \in 1..n : out.calls[i][1] = DL /\ out.calls[i][2] = out.calls[n][2]
    /\ \A i \in 1..n - 1 : Elapsed(out.calls[i + 1][4], out.calls[i][4]) > 0
    /\ n - 1 < Cur(out.tn).period

----------------------------------------------------------------------------
(* Made-up small constants for MC_SchedDispatch.cfg: lchan types
   0 idle, 1 rx-only auto ("SCH"), 2 tx-only auto ("RACH"), 3 main + 4 its
   SACCH (same channel number), 5 a second dedicated channel (uplink frames only). *)
MCDesc ==
  << [rx |-> FALSE, tx |-> FALSE, auto |-> FALSE, chan_nr |-> 0,  link_id |-> 0,  rxh |-> 0, txh |-> 0],
     [rx |-> TRUE,  tx |-> FALSE, auto |-> TRUE,  chan_nr |-> 0,  link_id |-> 0,  rxh |-> 2, txh |-> 0],
     [rx |-> FALSE, tx |-> TRUE,  auto |-> TRUE,  chan_nr |-> 8,  link_id |-> 0,  rxh |-> 0, txh |-> 7],
     [rx |-> TRUE,  tx |-> TRUE,  auto |-> FALSE, chan_nr |-> 16, link_id |-> 0,  rxh |-> 1, txh |-> 6],
     [rx |-> TRUE,  tx |-> TRUE,  auto |-> FALSE, chan_nr |-> 16, link_id |-> 64, rxh |-> 1, txh |-> 6],
     [rx |-> TRUE,  tx |-> TRUE,  auto |-> FALSE, chan_nr |-> 24, link_id |-> 0,  rxh |-> 3, txh |-> 8] >>

MCLayA == [cfg |-> 1, period |-> 4, slotmask |-> 3, mask |-> <<1, 2, 3>>,
           frames |-> << <<1, 0, 2, 0>>, <<3, 0, 0, 0>>, <<3, 1, 3, 0>>, <<0, 0, 3, 1>> >>]
\* lchan 3 owns frames on both sides of the period boundary with distinct burst ids
MCLayB == [cfg |-> 2, period |-> 6, slotmask |-> 1, mask |-> <<3, 4, 5>>,
           frames |-> << <<3, 1, 5, 1>>, <<3, 2, 3, 0>>, <<3, 3, 3, 1>>, <<4, 0, 4, 0>>, <<0, 0, 0, 0>>, <<3, 0, 5, 0>> >>]
\* combination 3 has no layout at all, combination 2 none for timeslot 1
MCLookup(c, tn) == IF c = 1 THEN MCLayA ELSE IF c = 2 /\ tn = 0 THEN MCLayB ELSE NoLayout
=============================================================================
