SPECIFICATION TSpec
CONSTANTS
  Hyper = 2715648
  Tns = {0, 1, 2, 3, 4, 5, 6, 7}
  Cfgs = {}
  Fns = {}
  Desc <- TraceDesc
  Lookup <- TraceLookup
POSTCONDITION Post
CHECK_DEADLOCK FALSE
