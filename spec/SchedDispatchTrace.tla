------------------------ MODULE SchedDispatchTrace ------------------------
(* Validates what the real trxcon/src/sched_trx.c did (harness/c/drv_sched_trx.c:
   unmodified sched_trx.c + sched_mframe.c + sched_lchan_desc.c, recording burst
   handlers) against SchedDispatch.

   IOEnv.DESC_FILE: the descriptor dump of the driver ({"chans": [..]}, from
   the real l1sched_lchan_desc[]).  A trace exercises one (combination,
   timeslot): T.cfg = {want: combination, tn, layout: the layout the dump of
   sched_mframe.c gives for (want, tn) - NoLayout if none}.  Events are the
   driver's output lines:
     new
     configure {tn, cfg, rc, lay:{cfg, period, slotmask}, lchans, active, prims}
     set {tn, chan_nr, on, rc, active}    act / deact {tn, chan, rc, active}
     rx {tn, fn, rc, bid, calls:[[dir, chan, bid, fn, handler]], tdma:[chan, last_proc, num_proc>0] | []}
     pull {tn, fn, bid, calls}            probe {tn, fn, rc, flags}
   Per event: the guard (the trace stays inside what is specified), the C11
   clauses judged on the observation itself (every call against the layout row
   of its own fn; calls only for active lchans of the mask), then conformance
   with the action of SchedDispatch (return code, burst id, exact list of
   handler calls incl. the substituted lost frames, loss-detection state).   *)
EXTENDS SchedDispatch, TraceKit

\* two steps: TLC re-evaluates the body of a definition that the configuration substitutes for
\* a constant at every use, but keeps the value of the constant definition it refers to
DescDump == JsonDeserialize(IOEnv.DESC_FILE).chans
TraceDesc == DescDump
TraceLookup(c, tn) == NoLayout          \* Next of SchedDispatch is not used here

tvars == <<vars, kvars>>

L == T.cfg.layout
SetOf(s) == {s[i] : i \in 1..Len(s)}
Active(s) == {c \in DOMAIN s.lch : s.lch[c].act}
\* operations on another timeslot than the one of the trace only meet an unconfigured timeslot
OnTs(tn) == tn \in Tns /\ (ts[tn].conf = "ok" => (tn = T.cfg.tn /\ L.period > 0 /\ Len(L.frames) = L.period))
FnOk(f) == f \in 0..Hyper - 1

TInit == KInit /\ Init

TNew == IsEv("new") /\ Tag("C11.guard.new", l = 1) /\ UNCHANGED vars /\ Adv

TConfigure ==
  /\ IsEv("configure")
  /\ Tag("C11.guard.configure", Ev.tn = T.cfg.tn /\ Ev.tn \in Tns /\ Ev.cfg = T.cfg.want /\ ts[Ev.tn].conf # "nolay")
  \* the layout the code attached to the timeslot is the dumped one for (combination, timeslot) ...
  /\ Tag("C11.dispatch.configure-layout",
         Ev.lay = [cfg |-> L.cfg, period |-> L.period, slotmask |-> L.slotmask])
  \* ... and a successful configuration means a layout of this combination valid for this timeslot
  /\ Tag("C11.dispatch.layout-valid-for-tn", Ev.rc = 0 => (Ev.lay.cfg = Ev.cfg /\ BitSet(Ev.lay.slotmask, Ev.tn)))
  /\ Configure(Ev.tn, Ev.cfg, L)
  /\ Tag("C11.dispatch.configure-rc", out'.rc = Ev.rc)
  \* every channel of the mask got a channel state (and nothing else), AUTO ones are active
  /\ Tag("C11.dispatch.mask-gets-state", SetOf(Ev.lchans) = DOMAIN ts'[Ev.tn].lch /\ Len(Ev.lchans) = Cardinality(SetOf(Ev.lchans))
                                         /\ MaskGetsStateP(L, ts'[Ev.tn]))
  /\ Tag("C11.dispatch.configure", SetOf(Ev.active) = Active(ts'[Ev.tn]))
  /\ Adv

\* The timeslot was configured for ANOTHER combination before (l1sched_configure_ts() on an
\* existing timeslot resets it first): this trace knows nothing about that combination's layout,
\* only that the configuration of its own combination afterwards starts from fresh channel states.
TPreConfigure ==
  /\ IsEv("configure") /\ Ev.cfg # T.cfg.want
  /\ Tag("C11.guard.preconfigure", Ev.tn = T.cfg.tn /\ Ev.tn \in Tns /\ ts[Ev.tn].conf # "nolay" /\ Ev.rc = 0)
  /\ ts' = [ts EXCEPT ![Ev.tn] = [conf |-> "other", cfg |-> Ev.cfg, lch |-> <<>>]]
  /\ out' = Res("configure", Ev.tn, 0, NoBid, 0, <<>>, {})
  /\ Adv

TSet ==
  /\ IsEv("set")
  /\ Tag("C11.guard.set", Ev.tn \in Tns /\ ts[Ev.tn].conf = "ok" /\ Ev.chan_nr \in 0..255 /\ Ev.on \in {0, 1})
  /\ SetLchans(Ev.tn, (Ev.chan_nr \div 8) * 8, Ev.on = 1)
  /\ Tag("C11.dispatch.activate", out'.rc = Ev.rc /\ SetOf(Ev.active) = Active(ts'[Ev.tn]))
  /\ Adv

TAct ==
  /\ IsEv("act")
  /\ Tag("C11.guard.act", Ev.tn \in Tns /\ ts[Ev.tn].conf = "ok" /\ Ev.chan \in 0..NChans - 1)
  /\ Activate(Ev.tn, Ev.chan)
  /\ Tag("C11.dispatch.activate", out'.rc = Ev.rc /\ SetOf(Ev.active) = Active(ts'[Ev.tn]))
  /\ Adv

TDeact ==
  /\ IsEv("deact")
  /\ Tag("C11.guard.deact", Ev.tn \in Tns /\ ts[Ev.tn].conf = "ok" /\ Ev.chan \in 0..NChans - 1)
  /\ Deactivate(Ev.tn, Ev.chan)
  /\ Tag("C11.dispatch.activate", out'.rc = Ev.rc /\ SetOf(Ev.active) = Active(ts'[Ev.tn]))
  /\ Adv

TRx ==
  /\ IsEv("rx")
  /\ Tag("C11.guard.rx", OnTs(Ev.tn) /\ FnOk(Ev.fn))
  \* clauses on the observation: each call (also a substituted one) carries the
  \* channel and burst id of the layout row of its own frame number
  /\ Tag("C11.dispatch.rx-row", CallsMatchRowP(L, Ev.calls))
  /\ Tag("C11.dispatch.rx-active-in-mask", CallsInMaskActiveP(L, ts[Ev.tn], Ev.calls))
  /\ RxBurst(Ev.tn, Ev.fn, L)
  /\ Tag("C11.dispatch.rx-rc", out'.rc = Ev.rc)
  /\ Tag("C11.dispatch.rx-bid", out'.bid = Ev.bid)
  /\ Tag("C11.dispatch.rx-calls", out'.calls = Ev.calls)
  /\ Tag("C11.dispatch.rx-tdma",
         IF Ev.calls = <<>> THEN Ev.tdma = <<>>
         ELSE /\ Len(Ev.tdma) = 3 /\ Ev.tdma[1] \in DOMAIN ts'[Ev.tn].lch
              /\ ts'[Ev.tn].lch[Ev.tdma[1]].last = Ev.tdma[2]
              /\ ts'[Ev.tn].lch[Ev.tdma[1]].np = (Ev.tdma[3] = 1))
  /\ Adv

TPull ==
  /\ IsEv("pull")
  /\ Tag("C11.guard.pull", OnTs(Ev.tn) /\ FnOk(Ev.fn))
  /\ Tag("C11.dispatch.pull-row", CallsMatchRowP(L, Ev.calls))
  /\ Tag("C11.dispatch.pull-active-in-mask", CallsInMaskActiveP(L, ts[Ev.tn], Ev.calls))
  /\ PullBurst(Ev.tn, Ev.fn, L)
  /\ Tag("C11.dispatch.pull", out'.bid = Ev.bid /\ out'.calls = Ev.calls)
  /\ Adv

TProbe ==
  /\ IsEv("probe")
  /\ Tag("C11.guard.probe", OnTs(Ev.tn) /\ FnOk(Ev.fn))
  /\ Probe(Ev.tn, Ev.fn, L)
  /\ Tag("C11.dispatch.probe", out'.rc = Ev.rc /\ out'.flags = Ev.flags)
  /\ Adv

TNext == TNew \/ TConfigure \/ TPreConfigure \/ TSet \/ TAct \/ TDeact \/ TRx \/ TPull \/ TProbe
TSpec == TInit /\ [][TNext]_tvars
Post == WriteVerdicts
=============================================================================
