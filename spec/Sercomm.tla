---------------------------- MODULE Sercomm ----------------------------
(* Serial link framing (sercomm / HDLC) of the OsmocomBB firmware and osmocon.
   One action per public entry point of comm/sercomm.c:
     Send(d, p)  = sercomm_sendmsg        (prepend address + control, enqueue)
     Pull        = sercomm_drv_pull       (one octet towards the wire)
     Rx(ch)      = sercomm_drv_rx_char    (one octet from the wire)
   The wire composition used for model checking (MC_Sercomm) is in
   SercommWire.tla; SercommTrace.tla validates traces of the real code.    *)
EXTENDS Naturals, Sequences, FiniteSets

CONSTANTS RxSize,      \* SERCOMM_RX_MSG_SIZE: 2048 host build, 256 target
          NDlci,       \* _SC_DLCI_MAX = 129: size of the queue / handler arrays
          EchoDlci     \* SC_DLCI_ECHO = 128: sercomm_init() registers sercomm_sendmsg
                       \* itself as its handler, so a frame received there is re-queued

FLAG == 126   \* 0x7E
ESC  == 125   \* 0x7D
UI   == 3     \* HDLC_C_UI

Flip5(ch) == IF (ch \div 32) % 2 = 1 THEN ch - 32 ELSE ch + 32
NeedsEscape(ch) == ch = FLAG \/ ch = ESC \/ ch = 0

VARIABLES
  txq,      \* Seq(frame) in send order, frame = <<dlci, UI>> \o payload; the C
            \* code keeps one FIFO per DLCI and serves the lowest DLCI first,
            \* which is the same as taking the oldest frame of the lowest DLCI
  txhas,    \* a message is being transmitted (tx.msg # NULL)
  txcur,    \* its octets (address, control, payload)
  txpos,    \* 1-based index of the next octet to send
  txesc,    \* the escape octet was sent, the flipped octet is next
  out,      \* result of the last Pull: <<>> (nothing to send) or <<octet>>
  rxst,     \* "WAIT" | "ADDR" | "CTRL" | "DATA" | "ESC" | "DISC" (skipping an over-long frame)
  rxhesc,   \* an escape octet was seen in front of the address / control octet
  rxbuf,    \* octets stored in rx.msg so far
  rxdlci, rxctrl,
  handlers, \* DLCIs with a callback registered through sercomm_register_rx_cb
  dlv       \* result of the last Rx: <<>> or << <<dlci, payload>> >> (callback invoked)

txvars == <<txq, txhas, txcur, txpos, txesc, out>>
rxvars == <<rxst, rxhesc, rxbuf, rxdlci, rxctrl, handlers, dlv>>
vars == <<txvars, rxvars>>

TxInit == txq = <<>> /\ txhas = FALSE /\ txcur = <<>> /\ txpos = 1 /\ txesc = FALSE /\ out = <<>>
RxInit == rxst = "WAIT" /\ rxhesc = FALSE /\ rxbuf = <<>> /\ rxdlci = 0 /\ rxctrl = 0 /\ dlv = <<>>
Init == TxInit /\ RxInit /\ handlers = {}

----------------------------------------------------------------------------
(* Transmit side *)

Send(d, p) ==
  /\ d \in 0..NDlci-1
  /\ txq' = Append(txq, <<d, UI>> \o p)
  /\ UNCHANGED <<txhas, txcur, txpos, txesc, out, rxvars>>

\* index of the frame served next: lowest DLCI, oldest first
MinIdx == CHOOSE i \in 1..Len(txq) : \A j \in 1..Len(txq) :
            txq[i][1] < txq[j][1] \/ (txq[i][1] = txq[j][1] /\ i <= j)
DropAt(s, i) == SubSeq(s, 1, i - 1) \o SubSeq(s, i + 1, Len(s))

\* The kind of octet the next Pull yields; used by properties.
PullKind ==
  IF ~txhas THEN (IF txq = <<>> THEN "none" ELSE "open")
  ELSE IF txesc THEN "escaped"
  ELSE IF txpos > Len(txcur) THEN "close"
  ELSE IF NeedsEscape(txcur[txpos]) THEN "esc"
  ELSE "plain"

Pull ==
  /\ UNCHANGED rxvars
  /\ CASE PullKind = "none" ->
            /\ out' = <<>> /\ UNCHANGED <<txq, txhas, txcur, txpos, txesc>>
       [] PullKind = "open" ->
            /\ txcur' = txq[MinIdx]
            /\ txq' = DropAt(txq, MinIdx)
            /\ txhas' = TRUE /\ txpos' = 1 /\ out' = <<FLAG>>
            /\ UNCHANGED txesc
       [] PullKind = "escaped" ->
            /\ out' = <<Flip5(txcur[txpos])>>
            /\ txpos' = txpos + 1 /\ txesc' = FALSE
            /\ UNCHANGED <<txq, txhas, txcur>>
       [] PullKind = "close" ->
            /\ out' = <<FLAG>> /\ txhas' = FALSE /\ txcur' = <<>>
            /\ UNCHANGED <<txq, txpos, txesc>>
       [] PullKind = "esc" ->
            /\ out' = <<ESC>> /\ txesc' = TRUE
            /\ UNCHANGED <<txq, txhas, txcur, txpos>>
       [] PullKind = "plain" ->
            /\ out' = <<txcur[txpos]>> /\ txpos' = txpos + 1
            /\ UNCHANGED <<txq, txhas, txcur, txesc>>

----------------------------------------------------------------------------
(* Receive side *)

Register(d) ==   \* sercomm_register_rx_cb with an external callback
  /\ d \in 0..NDlci-1 /\ d \notin handlers /\ d # EchoDlci
  /\ handlers' = handlers \cup {d}
  /\ UNCHANGED <<txvars, rxst, rxhesc, rxbuf, rxdlci, rxctrl, dlv>>

\* Effect of a completely received frame (dispatch_rx_msg).
Dispatch(d, p) ==
  IF d = EchoDlci /\ d < NDlci
  THEN /\ txq' = Append(txq, <<d, UI>> \o p) /\ dlv' = <<>>
  ELSE /\ dlv' = IF d \in handlers THEN << <<d, p>> >> ELSE <<>>
       /\ UNCHANGED txq

Rx(ch) ==
  /\ UNCHANGED <<txhas, txcur, txpos, txesc, out, handlers>>
  /\ IF Len(rxbuf) >= RxSize
     THEN \* no tailroom: drop the buffer and this octet, then skip the rest of
          \* the over-long frame up to and including its closing flag
          /\ rxbuf' = <<>> /\ rxst' = (IF ch = FLAG THEN "WAIT" ELSE "DISC") /\ dlv' = <<>>
          /\ UNCHANGED <<rxdlci, rxctrl, rxhesc, txq>>
     ELSE CASE rxst = "WAIT" ->
                 /\ rxst' = IF ch = FLAG THEN "ADDR" ELSE "WAIT"
                 /\ dlv' = <<>> /\ UNCHANGED <<rxbuf, rxdlci, rxctrl, rxhesc, txq>>
            [] rxst = "DISC" ->
                 /\ rxst' = IF ch = FLAG THEN "WAIT" ELSE "DISC"
                 /\ dlv' = <<>> /\ UNCHANGED <<rxbuf, rxdlci, rxctrl, rxhesc, txq>>
            [] rxst \in {"ADDR", "CTRL"} ->
                 \* address and control are un-escaped like data octets
                 IF ~rxhesc /\ ch = ESC THEN
                   /\ rxhesc' = TRUE /\ dlv' = <<>>
                   /\ UNCHANGED <<rxst, rxbuf, rxdlci, rxctrl, txq>>
                 ELSE LET c == IF rxhesc THEN Flip5(ch) ELSE ch IN
                   /\ rxhesc' = FALSE /\ dlv' = <<>>
                   /\ IF rxst = "ADDR"
                      THEN rxdlci' = c /\ rxst' = "CTRL" /\ UNCHANGED rxctrl
                      ELSE rxctrl' = c /\ rxst' = "DATA" /\ UNCHANGED rxdlci
                   /\ UNCHANGED <<rxbuf, txq>>
            [] rxst = "DATA" ->
                 IF ch = ESC THEN
                   /\ rxst' = "ESC" /\ dlv' = <<>> /\ UNCHANGED <<rxbuf, rxdlci, rxctrl, rxhesc, txq>>
                 ELSE IF ch = FLAG THEN
                   /\ Dispatch(rxdlci, rxbuf)
                   /\ rxbuf' = <<>> /\ rxst' = "WAIT" /\ UNCHANGED <<rxdlci, rxctrl, rxhesc>>
                 ELSE
                   /\ rxbuf' = Append(rxbuf, ch) /\ dlv' = <<>>
                   /\ UNCHANGED <<rxst, rxdlci, rxctrl, rxhesc, txq>>
            [] rxst = "ESC" ->
                 /\ rxbuf' = Append(rxbuf, Flip5(ch)) /\ rxst' = "DATA"
                 /\ dlv' = <<>> /\ UNCHANGED <<rxdlci, rxctrl, rxhesc, txq>>

(* Index invariant behind "without corrupting memory": the receive buffer
   never holds more than its capacity. *)
RxBufBound == Len(rxbuf) <= RxSize
=============================================================================
