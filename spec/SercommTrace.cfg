SPECIFICATION TSpec
CONSTANTS
  RxSize = 2048
  NDlci = 129
  EchoDlci = 128
  Handlers = {}
  Alphabet = {}
  Dlcis = {}
  MaxMsgs = 1000000
  MaxLen = 0
  NoiseOctets = {}
  MaxNoise = 1000000
  MaxOver = 1000000
  OverFill = {}
POSTCONDITION Post
CHECK_DEADLOCK FALSE
