--------------------------- MODULE SercommTrace ---------------------------
(* Validates traces recorded from the real comm/sercomm.c (host build) against
   the wire composition SercommWire: every logged octet / callback must be what
   the specification's action yields (conformance clauses), and the C06
   clauses are evaluated on the history of every observed execution.       *)
EXTENDS SercommWire, TraceKit

TInit == KInit /\ TxInit /\ RxInit /\ handlers = {} /\ ops = <<>>
         /\ msgs = <<>> /\ qid = <<>> /\ curid = 0
         /\ pend = FALSE /\ kind = "none" /\ inj = <<>> /\ afterOver = FALSE /\ lossy = {}
         /\ delivered = <<>> /\ nNoise = 0 /\ nOver = 0

Props ==
  /\ Tag("C06.transparency", Transparency')
  /\ Tag("C06.exactly-once", AtMostOnce')
  /\ Tag("C06.resync-cost", ResyncCost')
  /\ Tag("C06.no-bare-flag", NoBareFlag')
  /\ Tag("C06.rxbuf-bound", RxBufBound')

TReg ==
  /\ IsEv("reg")
  /\ IF Ev.rc = 0
     THEN Tag("C06.register.accepted", Ev.dlci \in 0..NDlci-1 /\ Ev.dlci \notin handlers /\ Ev.dlci # EchoDlci) /\ Register(Ev.dlci)
     ELSE /\ Tag("C06.register.refused", Ev.dlci >= NDlci \/ Ev.dlci \in handlers \/ Ev.dlci = EchoDlci)
          /\ UNCHANGED vars
  /\ UNCHANGED <<hvars, ops>>
  /\ Adv

TSend == IsEv("send") /\ Tag("C06.send.enabled", Idle /\ Ev.dlci \in 0..NDlci-1) /\ WSend(Ev.dlci, Ev.data) /\ Adv

TPull ==
  /\ IsEv("pull")
  /\ IF PullKind = "none" THEN Pull /\ UNCHANGED <<hvars, ops>> ELSE Tag("C06.pull.enabled", Idle) /\ WPull
  /\ Tag("C06.pull.octet", out' = Ev.out)
  /\ Props
  /\ Adv

RxChecks ==
  /\ Tag("C06.rx.delivery", dlv' = Ev.dlv)
  /\ Tag("C06.rx.rc", Ev.rc = IF Len(rxbuf) >= RxSize THEN 0 ELSE 1)
  /\ Props

TFeed  == IsEv("rx") /\ Ev.why = "loop" /\ Tag("C06.feed.enabled", pend /\ out = <<Ev.ch>>) /\ WFeed /\ RxChecks /\ Adv
TNoise == IsEv("rx") /\ Ev.why = "noise" /\ Tag("C06.noise.enabled", BetweenFrames /\ Ev.ch # FLAG) /\ WNoise(Ev.ch) /\ RxChecks /\ Adv
TOver  == IsEv("over") /\ Tag("C06.over.enabled", BetweenFrames) /\ WOverlong(Ev.dlci, Ev.body) /\ Adv
TForeign == IsEv("foreign") /\ Tag("C06.foreign.enabled", BetweenFrames /\ Ev.dlci \notin handlers) /\ WForeign(Ev.dlci, Ev.body) /\ Adv
TInj   == IsEv("rx") /\ Ev.why = "inj" /\ Tag("C06.inj.enabled", inj # <<>> /\ ~pend /\ Head(inj) = Ev.ch) /\ WInject /\ RxChecks /\ Adv

TNext == TReg \/ TSend \/ TPull \/ TFeed \/ TNoise \/ TOver \/ TForeign \/ TInj
TSpec == TInit /\ [][TNext]_<<wvars, kvars>>
Post == WriteVerdicts
=============================================================================
