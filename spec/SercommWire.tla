-------------------------- MODULE SercommWire --------------------------
(* Closed composition for model checking: a sender, the wire, a receiver.
   Wire events: Loop (one pulled octet is fed to the receiver, as osmocon and
   the firmware UART driver do), Noise (flag-free garbage between frames),
   Overlong (a frame whose body does not fit the receive buffer, inserted
   between two frames).  History variables record which message every
   delivery belongs to, so the C06 clauses are state / action properties.  *)
EXTENDS Sercomm, TLC

CONSTANTS Handlers,    \* DLCIs with a registered callback
          Alphabet,    \* payload octets explored
          Dlcis,       \* DLCIs used by senders
          MaxMsgs, MaxLen,
          NoiseOctets, \* octets used as inter-frame garbage (never FLAG)
          MaxNoise,    \* bound on garbage octets per run
          MaxOver,     \* bound on over-long frames per run
          OverFill     \* octets used as body of over-long frames

VARIABLES msgs,       \* history: all messages ever sent, index = id
          qid,        \* Seq(id) parallel to txq
          curid,      \* id of the frame in transmission
          pend,       \* a pulled octet waits to be fed to the receiver
          kind,       \* PullKind of that octet
          inj,        \* octets of an injected over-long frame still to be fed
          afterOver,  \* an over-long frame ended and no frame was dequeued since
          lossy,      \* ids of frames dequeued right after an over-long frame
          delivered,  \* Seq of [dlci, data, id]; id = 0: not the frame being closed
          nNoise, nOver,
          ops         \* history: the operation sequence (for spec -> code replay; hidden by VIEW)

hvars == <<msgs, qid, curid, pend, kind, inj, afterOver, lossy, delivered, nNoise, nOver>>
wvars == <<vars, hvars, ops>>
NoOps == <<vars, hvars>>   \* VIEW for exhaustive checking

Payloads == UNION {[1..n -> Alphabet] : n \in 0..MaxLen}

WInit ==
  /\ TxInit /\ RxInit /\ handlers = Handlers /\ ops = <<>>
  /\ msgs = <<>> /\ qid = <<>> /\ curid = 0
  /\ pend = FALSE /\ kind = "none" /\ inj = <<>> /\ afterOver = FALSE /\ lossy = {}
  /\ delivered = <<>> /\ nNoise = 0 /\ nOver = 0

Idle == ~pend /\ inj = <<>>

WSend(d, p) ==
  /\ Idle /\ Len(msgs) < MaxMsgs
  /\ Send(d, p)
  /\ msgs' = Append(msgs, [dlci |-> d, data |-> p])
  /\ qid' = Append(qid, Len(msgs) + 1)
  /\ ops' = Append(ops, <<"S", d, p>>)
  /\ UNCHANGED <<curid, pend, kind, inj, afterOver, lossy, delivered, nNoise, nOver>>

WPull ==
  /\ Idle /\ PullKind # "none"
  /\ Pull
  /\ kind' = PullKind
  /\ pend' = TRUE
  /\ IF PullKind = "open"
     THEN /\ curid' = qid[MinIdx]
          /\ qid' = DropAt(qid, MinIdx)
          /\ lossy' = IF afterOver THEN lossy \cup {qid[MinIdx]} ELSE lossy
          /\ afterOver' = FALSE
     ELSE UNCHANGED <<curid, qid, lossy, afterOver>>
  /\ ops' = Append(ops, <<"L">>)
  /\ UNCHANGED <<msgs, inj, delivered, nNoise, nOver>>

\* History update of a receive step: record a callback; a frame received on
\* the echo DLCI is a new message queued by the echo handler.
Record(id) ==
  /\ delivered' = IF dlv' = <<>> THEN delivered
                  ELSE Append(delivered, [dlci |-> dlv'[1][1], data |-> dlv'[1][2], id |-> id])
  /\ IF Len(txq') > Len(txq)
     THEN /\ msgs' = Append(msgs, [dlci |-> EchoDlci, data |-> SubSeq(txq'[Len(txq')], 3, Len(txq'[Len(txq')]))])
          /\ qid' = Append(qid, Len(msgs) + 1)
     ELSE UNCHANGED <<msgs, qid>>

WFeed ==
  /\ pend
  /\ Rx(out[1])
  /\ pend' = FALSE
  /\ Record(IF kind = "close" THEN curid ELSE 0)
  /\ UNCHANGED <<curid, kind, inj, afterOver, lossy, nNoise, nOver, ops>>

BetweenFrames == Idle /\ ~txhas

WNoise(ch) ==
  /\ BetweenFrames /\ nNoise < MaxNoise /\ ch # FLAG
  /\ Rx(ch)
  /\ Record(0)
  /\ nNoise' = nNoise + 1
  /\ ops' = Append(ops, <<"N", ch>>)
  /\ UNCHANGED <<curid, pend, kind, inj, afterOver, lossy, nOver>>

\* An over-long frame: un-escaped body of at least RxSize octets.
WOverlong(d, body) ==
  /\ BetweenFrames /\ nOver < MaxOver
  /\ Len(body) >= RxSize /\ {body[i] : i \in 1..Len(body)} \cap {FLAG, ESC} = {}
  /\ d \notin {FLAG, ESC}
  /\ inj' = <<FLAG, d, UI>> \o body \o <<FLAG>>
  /\ nOver' = nOver + 1
  /\ ops' = Append(ops, <<"O", d, body[1], Len(body) - RxSize>>)
  /\ UNCHANGED <<vars, msgs, qid, curid, pend, kind, afterOver, lossy, delivered, nNoise>>

\* A well-formed frame from elsewhere on the wire for a DLCI nobody has claimed (or for the
\* echo DLCI): it is dropped (echoed) and must leave no trace in the receiver - in particular
\* the frames that follow it are received as if it had never been there.
WForeign(d, body) ==
  /\ BetweenFrames /\ nOver < MaxOver
  /\ Len(body) < RxSize /\ {body[i] : i \in 1..Len(body)} \cap {FLAG, ESC} = {}
  /\ d \in 0..255 /\ d \notin {FLAG, ESC} /\ d \notin handlers
  /\ inj' = <<FLAG, d, UI>> \o body \o <<FLAG>>
  /\ nOver' = nOver + 1
  /\ ops' = Append(ops, <<"F", d, body>>)
  /\ UNCHANGED <<vars, msgs, qid, curid, pend, kind, afterOver, lossy, delivered, nNoise>>

WInject ==
  /\ inj # <<>> /\ ~pend
  /\ Rx(Head(inj))
  /\ inj' = Tail(inj)
  \* only an over-long frame may cost the frame that follows it (its closing flag meets a
  \* full buffer or the discard state); a foreign frame that fits must cost nothing
  /\ afterOver' = ((Len(inj) = 1 /\ (rxst = "DISC" \/ Len(rxbuf) >= RxSize)) \/ afterOver)
  /\ Record(0)
  /\ UNCHANGED <<curid, pend, kind, lossy, nNoise, nOver, ops>>

WNext ==
  \/ \E d \in Dlcis, p \in Payloads : WSend(d, p)
  \/ WPull \/ WFeed \/ WInject
  \/ \E ch \in NoiseOctets : WNoise(ch)
  \/ \E d \in Dlcis, c \in OverFill, n \in RxSize..RxSize+1 : WOverlong(d, [i \in 1..n |-> c])
  \/ \E d \in {x \in Dlcis : x \notin Handlers}, c \in OverFill, n \in 0..RxSize-1 : WForeign(d, [i \in 1..n |-> c])

WSpec == WInit /\ [][WNext]_wvars

----------------------------------------------------------------------------
(* C06 clauses *)

Quiescent == Idle /\ ~txhas /\ txq = <<>>
Handled(id) == msgs[id].dlci \in handlers
DeliveredIds == {delivered[i].id : i \in 1..Len(delivered)}

\* Same DLCI and payload as sent; nothing is delivered that was never sent.
Transparency ==
  \A i \in 1..Len(delivered) :
    LET r == delivered[i] IN
      /\ r.id # 0
      /\ r.dlci = msgs[r.id].dlci /\ r.data = msgs[r.id].data

\* Each message at most once; at quiescence exactly once unless it is the
\* one frame following an over-long frame (or has no handler).
AtMostOnce == \A i, j \in 1..Len(delivered) : delivered[i].id = delivered[j].id => i = j
ResyncCost ==
  Quiescent => \A id \in 1..Len(msgs) :
                 (Handled(id) /\ id \notin lossy) => id \in DeliveredIds

\* FIFO per DLCI, lower DLCI first: the frame dequeued is the oldest of the
\* lowest non-empty DLCI (history ids grow in send order).
DequeueOrder ==
  [][ (kind' = "open" /\ pend' /\ ~pend) =>
        \A k \in 1..Len(qid) :
           \/ msgs[curid'].dlci < msgs[qid[k]].dlci
           \/ msgs[curid'].dlci = msgs[qid[k]].dlci /\ curid' <= qid[k] ]_wvars

\* Between opening and closing flag no unescaped flag or zero octet.
NoBareFlag == (pend /\ kind \in {"plain", "esc", "escaped"}) => out[1] \notin {FLAG, 0}

Bound == RxBufBound
=============================================================================
