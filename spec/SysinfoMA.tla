----------------------------- MODULE SysinfoMA -----------------------------
(* C20 seen from the callers of gsm48_decode_mobile_alloc() inside
   layer23/src/common/sysinfo.c: gsm48_decode_sysinfo1() establishes the cell
   allocation (FREQ_TYPE_SERV), gsm48_decode_sysinfo4() carries the CBCH
   Mobile Allocation IE; together they decide WHICH cell allocation and WHICH
   bitmap reach the decoder and WHEN the hopping list handed to L1
   (s->hopping[], s->hopp_len) is (re)computed.

   Property view (what the statement talks about):
     ca    the cell allocation established by the last SI1 (si1 = one arrived),
     ma    the bitmap of the last SI4 that carried a usable Mobile Allocation
           IE (complete, at most MaxOctets octets),
     live  that SI4 is the most recent SI4 received,
     hop   the hopping list.
   Whenever a cell allocation is known and the most recent SI4 carried a
   usable bitmap (si1 /\ live), hop = Decode(ca, ma) - whatever the order of
   arrival (SI4 before SI1: applied when SI1 arrives; a later SI1 re-applies
   the stored SI4) - and therefore never a channel outside the CURRENT cell
   allocation.  A message without usable bitmap (IE truncated: refused; IE
   over-long: the decoder rejects it; no IE at all) never touches the list.

   Mechanism (how sysinfo.c does it): s->si4 and the copy of the last SI4 in
   s->si4_msg (`stored`: written BEFORE the message is validated, so also a
   refused message replaces the copy), re-decoded from gsm48_decode_sysinfo1().
   What the statement leaves open, and the code does, is modelled exactly but
   not demanded (live = FALSE): after an SI4 without the IE, or a refused /
   over-long one, the existing list is kept, and a later SI1 re-decodes that
   stored message, i.e. keeps the list computed from the OLD cell allocation.
   The statement speaks of a list decoded from "a Mobile Allocation bitmap";
   when the most recent SI4 has no usable one there is nothing to decode from.

   A cell allocation is represented by the ascending sequence of its ARFCNs
   (what the driver reads back from freq[].mask); Decode is MobileAlloc's.  *)
EXTENDS Integers, Sequences, FiniteSets

CONSTANTS MaxArfcn,       \* 1023
          OctetBits,      \* 8 (scaled down for model checking)
          MaxOctets,      \* 8
          ReapplyOnSI1    \* TRUE: gsm48_decode_sysinfo1() re-decodes the stored SI4 (required);
                          \* FALSE: it does not (MC_SysinfoMABad.cfg: HopIsDecode must fail)

MA == INSTANCE MobileAlloc WITH Len0Return <- TRUE,
        ca <- {}, ma <- <<>>, si4 <- FALSE, pc <- "done", i <- 0, j <- 0, f <- <<>>,
        hopping <- <<>>, hopp_len <- 0, hmask <- {}, rc <- 0

VARIABLES si1, ca, ma, live, hop,     \* property view (si1 doubles as s->si1)
          si4, stored                 \* mechanism: s->si4, the SI4 kept in s->si4_msg

svars == <<si1, ca, ma, live, hop, si4, stored>>

Range(s) == {s[k] : k \in 1..Len(s)}
MaxHop == MA!MaxHop

\* An SI4 as far as C20 is concerned:
\*   wf       FALSE: CBCH IE truncated, the handler refuses the message (rc < 0)
\*   present  a complete CBCH Mobile Allocation IE is there
\*   bm       its bitmap octets in IE order
NoMsg == [wf |-> FALSE, present |-> FALSE, bm |-> <<>>]
Usable(m) == m.wf /\ m.present /\ Len(m.bm) <= MaxOctets

\* decoding against an ascending cell-allocation list
Dec(c, bm) == MA!DecodeOrd(MA!OrdOfAsc(c), bm).hop

\* the list after gsm48_decode_sysinfo4() ran on message m with SI1 state (k1, c) and list h
SI4Hop(m, k1, c, h) == IF Usable(m) /\ k1 THEN Dec(c, m.bm) ELSE h

SInit ==
  /\ si1 = FALSE /\ ca = <<>> /\ ma = <<>> /\ live = FALSE /\ hop = <<>>
  /\ si4 = FALSE /\ stored = NoMsg

RxSI4(m) ==
  /\ stored' = m
  /\ si4' = (si4 \/ m.wf)
  /\ hop' = SI4Hop(m, si1, ca, hop)
  /\ ma' = IF Usable(m) THEN m.bm ELSE ma
  /\ live' = Usable(m)
  /\ UNCHANGED <<si1, ca>>

RxSI1(c) ==
  /\ si1' = TRUE /\ ca' = c
  /\ hop' = IF si4 /\ ReapplyOnSI1 THEN SI4Hop(stored, TRUE, c, hop) ELSE hop
  /\ UNCHANGED <<ma, live, si4, stored>>

----------------------------------------------------------------------------
(* The property clauses *)
HopIsDecode     == (si1 /\ live) => hop = MA!Decode(Range(ca), ma).hop
InsideCA        == (si1 /\ live) => Range(hop) \subseteq Range(ca)
NoListBeforeSI1 == ~si1 => hop = <<>>
AtMost64        == Len(hop) <= MaxHop
\* a message without usable bitmap (refused, over-long, no IE) leaves the list alone -
\* at reception and when gsm48_decode_sysinfo1() decodes the stored copy again
NotUsableKeepsList == [][~Usable(stored') => hop' = hop]_svars

=============================================================================
