---------------------------- MODULE SysinfoMAMC ----------------------------
(* Closed composition of SysinfoMA for model checking (MC_SysinfoMA*.cfg).
   Kept out of SysinfoMA itself: TLC evaluates constant definitions at start-up
   and `SUBSET Arfcns` of the real universe costs the trace specification
   seconds per run.                                                         *)
EXTENDS SysinfoMA

----------------------------------------------------------------------------
(* Closed system for model checking: every cell allocation of the scaled
   universe, every bitmap of 0..MaxOctets octets, over-long ones, an SI4
   without the IE, a refused SI4; sequences of any length.                  *)
MCCAs == {MA!SortedAsc(c) : c \in SUBSET MA!Arfcns}
MCMsgs == {NoMsg, [wf |-> TRUE, present |-> FALSE, bm |-> <<>>]}
          \cup {[wf |-> TRUE, present |-> TRUE, bm |-> b] : b \in MA!MCBitmaps}
MCNext == (\E c \in MCCAs : RxSI1(c)) \/ (\E m \in MCMsgs : RxSI4(m))
MCSpec == SInit /\ [][MCNext]_svars
=============================================================================
