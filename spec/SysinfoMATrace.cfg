SPECIFICATION TSpec
CONSTANTS
  MaxArfcn = 1023
  OctetBits = 8
  MaxOctets = 8
  ReapplyOnSI1 = TRUE
POSTCONDITION Post
CHECK_DEADLOCK FALSE
