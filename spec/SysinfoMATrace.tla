-------------------------- MODULE SysinfoMATrace --------------------------
(* Validates what the real gsm48_decode_sysinfo1() / gsm48_decode_sysinfo4()
   (harness/c/drv_sysinfo_ma.c: sliced from the working-tree sysinfo.c, real
   struct gsm48_sysinfo, exactly sized message buffers) leave in s->hopping[],
   s->hopp_len and the FREQ_TYPE_HOPP marks against SysinfoMA.

   Events (one per driver op):
     new                                  a zeroed struct gsm48_sysinfo
     si1  {rc, serv, hoppMask, hoppLen, hopping, ..}
     si4  {msg, rc, serv, hoppMask, hoppLen, hopping, ..}
   The cell allocation the specification uses is the one the CODE reports
   after SI1 (serv: ARFCNs with FREQ_TYPE_SERV, ascending): the harness's
   encoder of the Cell Channel Description is not trusted.  What an SI4 carries
   is parsed HERE from its octets (ParseSI4, TS 44.018 9.1.36: 13 octets fixed
   part, optional CBCH Channel Description 0x64 + 3, optional CBCH Mobile
   Allocation 0x72 + length + bitmap): the harness's generator is not trusted
   either.

   Constrained (SysinfoMA): whenever an SI1 has arrived and the most recent
   SI4 carried a usable bitmap, list = Decode(cell allocation, bitmap), inside
   the cell allocation, at most 64 entries, marks = list; before the first
   SI1, and as long as no SI4 with a Mobile Allocation IE was ever seen, the
   list is empty; a truncated IE is refused (rc < 0); a message without usable
   bitmap (refused / over-long) leaves list and marks as they were.
   Don't-cares (the observed list is adopted): the list after an SI4 without
   the IE, and the list after an SI1 that follows a most recent SI4 without
   usable bitmap; rc of messages that are not about the Mobile Allocation.  *)
EXTENDS SysinfoMA, TraceKit

VARIABLES marks,    \* ARFCNs with FREQ_TYPE_HOPP as last observed
          seen      \* an SI4 with a CBCH Mobile Allocation IEI arrived in this cell

tvars == <<svars, marks, seen>>

Fixed  == 13     \* sizeof(struct gsm48_system_information_type_4)
IEI_CD == 100    \* 0x64 GSM48_IE_CBCH_CHAN_DESC
IEI_MA == 114    \* 0x72 GSM48_IE_CBCH_MOB_AL

ParseSI4(m) ==
  LET n     == Len(m)
      hasCd == n >= Fixed + 1 /\ m[Fixed + 1] = IEI_CD
      cdOk  == hasCd => n >= Fixed + 4
      p     == IF hasCd THEN Fixed + 4 ELSE Fixed
      hasMa == cdOk /\ n >= p + 1 /\ m[p + 1] = IEI_MA
      hdrOk == n >= p + 2
      fits  == hdrOk /\ n >= p + 2 + m[p + 2]
  IN [kind |-> IF ~cdOk THEN "trunc-cd"
               ELSE IF ~hasMa THEN "noie"
               ELSE IF ~hdrOk THEN "trunc-hdr"
               ELSE IF ~fits THEN "trunc-ie"
               ELSE IF m[p + 2] > MaxOctets THEN "overlong" ELSE "ma",
      bm   |-> IF cdOk /\ hasMa /\ fits THEN SubSeq(m, p + 3, p + 2 + m[p + 2]) ELSE <<>>]

AsMsg(p) == [wf |-> p.kind \in {"noie", "ma", "overlong"},
             present |-> p.kind \in {"ma", "overlong"}, bm |-> p.bm]

Octet == 0..255
OutWellFormed(ev) ==
  /\ MA!IsAsc(ev.serv) /\ Range(ev.serv) \subseteq MA!Arfcns
  /\ MA!IsAsc(ev.hoppMask) /\ Range(ev.hoppMask) \subseteq MA!Arfcns
  /\ ev.hoppLen \in 0..255
  /\ Len(ev.hopping) = (IF ev.hoppLen > MaxHop THEN MaxHop ELSE ev.hoppLen)

\* the observed list is the expected one
ListIs(ev, exp) == ev.hopping = exp /\ ev.hoppLen = Len(exp)

TInit ==
  /\ KInit /\ SInit /\ marks = {} /\ seen = FALSE

TNew ==
  /\ IsEv("new")
  /\ si1' = FALSE /\ ca' = <<>> /\ ma' = <<>> /\ live' = FALSE /\ hop' = <<>>
  /\ si4' = FALSE /\ stored' = NoMsg /\ marks' = {} /\ seen' = FALSE
  /\ Adv

TSI1 ==
  /\ IsEv("si1")
  /\ Tag("C20.si.record.well-formed", OutWellFormed(Ev))
  /\ Tag("C20.si.more-than-64", Ev.hoppLen <= MaxHop)
  /\ si1' = TRUE /\ ca' = Ev.serv
  /\ UNCHANGED <<ma, live, si4, stored, seen>>
  /\ IF live
     THEN LET exp == Dec(Ev.serv, ma) IN
          /\ Tag("C20.si.outside-cell-allocation", Range(Ev.hopping) \subseteq Range(Ev.serv))
          /\ Tag("C20.si.hopping-after-si1", ListIs(Ev, exp))
          /\ Tag("C20.si.hopp-marks-after-si1", Range(Ev.hoppMask) = Range(exp))
          /\ hop' = exp
     ELSE /\ Tag("C20.si.list-without-mobile-allocation", ~seen => ListIs(Ev, <<>>))
          /\ hop' = Ev.hopping
  /\ marks' = Range(Ev.hoppMask)
  /\ Adv

\* a message that must not touch list and marks
Untouched == ListIs(Ev, hop) /\ Range(Ev.hoppMask) = marks

TSI4 ==
  /\ IsEv("si4")
  /\ Tag("C20.si.record.well-formed",
         OutWellFormed(Ev) /\ Len(Ev.msg) = Ev.len /\ Ev.len >= Fixed /\ Range(Ev.msg) \subseteq Octet)
  /\ Tag("C20.si.more-than-64", Ev.hoppLen <= MaxHop)
  /\ Tag("C20.si.cell-allocation-after-si4", Ev.serv = ca)
  /\ LET p == ParseSI4(Ev.msg) IN
     /\ stored' = AsMsg(p)
     /\ seen' = (seen \/ p.kind \in {"ma", "overlong", "trunc-hdr", "trunc-ie"})
     /\ UNCHANGED <<si1, ca>>
     /\ CASE p.kind = "ma" ->
               /\ Tag("C20.si.valid-si4-refused", Ev.rc = 0)
               /\ ma' = p.bm /\ live' = TRUE /\ si4' = TRUE
               /\ IF si1
                  THEN LET exp == Dec(ca, p.bm) IN
                       /\ Tag("C20.si.outside-cell-allocation", Range(Ev.hopping) \subseteq Range(Ev.serv))
                       /\ Tag("C20.si.hopping-after-si4", ListIs(Ev, exp))
                       /\ Tag("C20.si.hopp-marks-after-si4", Range(Ev.hoppMask) = Range(exp))
                       /\ hop' = exp
                  ELSE /\ Tag("C20.si.list-without-cell-allocation", ListIs(Ev, <<>>) /\ Ev.hoppMask = <<>>)
                       /\ hop' = <<>>
          [] p.kind \in {"trunc-hdr", "trunc-ie"} ->
               /\ Tag("C20.si.truncated-ie-refused", Ev.rc < 0)
               /\ Tag("C20.si.refused-changes-list", Untouched)
               /\ UNCHANGED <<ma, si4, hop>> /\ live' = FALSE
          [] p.kind = "overlong" ->
               \* the decoder rejects the bitmap; the handler's own rc is not C20's
               /\ Tag("C20.si.overlong-ie-changes-list", Untouched)
               /\ UNCHANGED <<ma, hop>> /\ live' = FALSE /\ si4' = (si4 \/ Ev.rc = 0)
          [] p.kind = "trunc-cd" ->
               \* not about the Mobile Allocation: refused -> nothing changes, else don't care
               /\ Tag("C20.si.refused-changes-list", Ev.rc < 0 => Untouched)
               /\ UNCHANGED ma /\ live' = FALSE /\ si4' = (si4 \/ Ev.rc = 0)
               /\ hop' = IF Ev.rc < 0 THEN hop ELSE Ev.hopping
          [] p.kind = "noie" ->
               /\ Tag("C20.si.list-without-mobile-allocation", ~seen => ListIs(Ev, <<>>))
               /\ UNCHANGED ma /\ live' = FALSE /\ si4' = (si4 \/ Ev.rc = 0)
               /\ hop' = Ev.hopping
  /\ marks' = Range(Ev.hoppMask)
  /\ Adv

TNext == TNew \/ TSI1 \/ TSI4
TSpec == TInit /\ [][TNext]_<<tvars, kvars>>
Post == WriteVerdicts
=============================================================================
