----------------------------- MODULE TdmaSched -----------------------------
(* The firmware's TDMA scheduler (layer1/tdma_sched.c) and the one-shot
   GSM-time events on top of it (layer1/sched_gsmtime.c).

   Code model (follows the C text): a ring of D buckets with capacity K and a
   current index; one action per public function:
     Schedule(off, cb, p1, p2, p3, prio) = tdma_schedule
     ScheduleSet(off, set, p3)           = tdma_schedule_set
     Execute(perm)                       = tdma_sched_execute (all callbacks report success)
     Advance                             = tdma_sched_advance
     Reset                               = tdma_sched_reset
     GsmSched / GsmExec / GsmReset       = sched_gsmtime / _execute / _reset
   `rc` is the return value of the last call, `calls` the items whose callback
   the last Execute invoked, in order.

   History (what the property talks about; knows nothing of the ring):
     ob   - the obligations: ob[r] = the items accepted so far that are due r
            frame advances from now, in order of acceptance (the order is
            irrelevant, ob[r] is compared as a bag).  Kept relative to "now",
            so the state space is finite without bounding the length of a run.
     done - tdma_sched_execute() has run in the current frame (the firmware's
            frame loop in sync.c:l1_sync is  execute ; schedule* ; advance).
     last - the last operation and its arguments (the sequence of its values
            along a simulated behaviour is the operation script replayed into
            the real code; the action properties read the arguments from it).

   C08 clauses: RunsWhenDue, ExactlyOnce (+ NoneMissed), ParamsPreserved,
   PriorityOrder, SetSpread, BucketEmptyAfter, OverflowReported (+ Capacity);
   RingAgrees is the glue invariant between ring and obligations.

   Outside the statement (excluded by the guards of the composition, see
   DESIGN C08 "Don't-care"): offsets >= D (the ring aliases them), a set whose
   last frame lies >= D frames ahead, scheduling into the current frame after
   its execution has finished, advancing without having executed the frame,
   callbacks that fail.  Callbacks that schedule while their frame is being
   executed ARE covered (ExecuteN / NestedStep): an item scheduled zero frames
   ahead by a callback runs exactly once in that same frame; only the place
   of such on-the-fly items in the priority order is left open ("priorities
   won't work", comment in the C code).                                     *)
EXTENDS Integers, Sequences, FiniteSets, TLC

CONSTANTS D,        \* TDMASCHED_NUM_FRAMES (25)
          K,        \* TDMASCHED_NUM_CB (8)
          G,        \* ARRAY_SIZE(sched_gsmtime_events) (16)
          \* universes of the closed composition (model checking / simulation)
          Offs, Cbs, P1s, P2s, P3s, Prios,
          SetLen, MaxSep, UseFat,
          GFns,     \* frame numbers for the one-shot events ({} = not explored)
          NestOffs,  \* frame offsets at which callbacks schedule on the fly ({} = callbacks never schedule)
          MaxOpsPerFrame, MaxResets   \* simulation only, force progress: scheduling calls per
                                      \* frame before / after execute, resets per run (0 = unbounded)

VARIABLES bucket,   \* [0..D-1 -> Seq(item)], item = [cb, p1, p2, p3, prio]
          cur,      \* cur_bucket
          rc,       \* return value of the last call (0 for void functions)
          calls,    \* items whose callback the last Execute invoked, in order
          gev,      \* active one-shot events, ordered as in the C list: Seq([fn, set, p3])
          ob, done, last,
          nops, nres   \* simulation only: scheduling calls in this half of the frame, resets so far

vars == <<bucket, cur, rc, calls, gev, ob, done, last, nops, nres>>
\* VIEW for exhaustive checking: rc, calls and last are outputs only - no action
\* reads them - so states that differ only there have the same future; the
\* state invariants do not mention them and TLC evaluates the action
\* properties on every generated transition, seen or not.
View == <<bucket, cur, gev, ob, done, nops, nres>>

EBUSY == 16
Sep == <<0, 0, 0, 0>>          \* set entry <<cb, p1, p2, prio>> with cb = NULL: "next frame"
IsSep(e) == e[1] = 0
NSep(set) == Cardinality({i \in DOMAIN set : IsSep(set[i])})

Init ==
  /\ bucket = [n \in 0..D-1 |-> <<>>] /\ cur \in 0..D-1 /\ rc = 0 /\ calls = <<>> /\ gev = <<>>
  /\ ob = [r \in 0..D-1 |-> <<>>] /\ done = FALSE /\ last = [op |-> "init", a |-> <<>>]
  /\ nops = 0 /\ nres = 0

----------------------------------------------------------------------------
(* helpers *)
Wrap(off) == (cur + off) % D             \* wrap_bucket(); off is a uint8_t
Item(cb, p1, p2, p3, pr) == [cb |-> cb, p1 |-> p1, p2 |-> p2, p3 |-> p3, prio |-> pr]
Params(x) == <<x.cb, x.p1, x.p2, x.p3>>  \* what a callback invocation shows
Count(s, x) == Cardinality({i \in DOMAIN s : s[i] = x})
SubBag(s, t) == \A i \in DOMAIN s : Count(s, s[i]) <= Count(t, s[i])
SameBag(s, t) == Len(s) = Len(t) /\ SubBag(s, t)
IsPrefix(s, t) == Len(s) <= Len(t) /\ SubSeq(t, 1, Len(s)) = s
\* s without one occurrence of each element of t
RemoveOne(s, x) ==
  IF \E i \in DOMAIN s : s[i] = x
  THEN LET i == CHOOSE i \in DOMAIN s : s[i] = x /\ \A j \in 1..i-1 : s[j] # x
       IN SubSeq(s, 1, i - 1) \o SubSeq(s, i + 1, Len(s))
  ELSE s
RECURSIVE BagMinus(_, _)
BagMinus(s, t) == IF t = <<>> THEN s ELSE BagMinus(RemoveOne(s, Head(t)), Tail(t))

\* tdma_schedule_set(): walk the entries; `j` counts the frame separators, the
\* uint8_t frame_offset is off0 + j modulo 256.  On overflow the walk stops
\* with -1 and everything placed so far stays.  History: an item of the set's
\* j-th frame is due off0 + j advances from now.
RECURSIVE Walk(_, _, _, _, _, _, _)
Walk(bk, o, set, p3, off0, i, j) ==
  IF i > Len(set) THEN [bk |-> bk, ob |-> o, rc |-> j]
  ELSE IF IsSep(set[i]) THEN Walk(bk, o, set, p3, off0, i + 1, j + 1)
  ELSE LET n == Wrap((off0 + j) % 256) IN
       IF Len(bk[n]) >= K THEN [bk |-> bk, ob |-> o, rc |-> -1]
       ELSE LET it == Item(set[i][1], set[i][2], set[i][3], p3, set[i][4])
            IN Walk([bk EXCEPT ![n] = Append(@, it)],
                    IF off0 + j \in DOMAIN o THEN [o EXCEPT ![off0 + j] = Append(@, it)] ELSE o,
                    set, p3, off0, i + 1, j)

\* _tdma_sched_bucket_sort(): the exchange sort of the C code on the index
\* sequence `seq` (here 1-based); returns the order of execution.
Swap(s, i, j) == [s EXCEPT ![i] = s[j], ![j] = s[i]]
RECURSIVE SortInner(_, _, _, _), SortOuter(_, _, _)
SortInner(b, s, i, j) ==
  IF j > Len(b) THEN s
  ELSE IF b[s[i]].prio > b[s[j]].prio THEN SortInner(b, Swap(s, i, j), i, j + 1)
  ELSE SortInner(b, s, i, j + 1)
SortOuter(b, s, i) == IF i > Len(b) THEN s ELSE SortOuter(b, SortInner(b, s, i, i + 1), i + 1)
CodePerm(b) == SortOuter(b, [i \in 1..Len(b) |-> i], 1)

----------------------------------------------------------------------------
(* actions: the code *)
Schedule(off, cb, p1, p2, p3, pr) ==
  LET n == Wrap(off)
      it == Item(cb, p1, p2, p3, pr)
  IN
  /\ IF Len(bucket[n]) >= K
     THEN rc' = -1 /\ UNCHANGED <<bucket, ob>>
     ELSE /\ bucket' = [bucket EXCEPT ![n] = Append(@, it)]
          /\ ob' = IF off \in DOMAIN ob THEN [ob EXCEPT ![off] = Append(@, it)] ELSE ob
          /\ rc' = 0
  /\ calls' = <<>> /\ last' = [op |-> "sched", a |-> <<off, cb, p1, p2, p3, pr>>]
  /\ UNCHANGED <<cur, gev, done>>

ScheduleSet(off, set, p3) ==
  LET r == Walk(bucket, ob, set, p3, off, 1, 0) IN
  /\ bucket' = r.bk /\ ob' = r.ob /\ rc' = r.rc
  /\ calls' = <<>> /\ last' = [op |-> "set", a |-> <<off, set, p3>>]
  /\ UNCHANGED <<cur, gev, done>>

\* perm = the order the sort produced: CodePerm for the C algorithm
Execute(perm) ==
  LET b == bucket[cur] IN
  /\ calls' = [i \in 1..Len(b) |-> b[perm[i]]]
  /\ rc' = Len(b)                         \* number of callbacks invoked
  /\ bucket' = [bucket EXCEPT ![cur] = <<>>]
  /\ ob' = [ob EXCEPT ![0] = BagMinus(@, [i \in 1..Len(b) |-> b[perm[i]]])]   \* what ran is discharged
  /\ done' = TRUE /\ last' = [op |-> "exec", a |-> <<>>]
  /\ UNCHANGED <<cur, gev>>

Fill(r) == Len(ob[r])

(* tdma_sched_execute() whose callbacks schedule further items "on the fly" (see the comment in
   the C code).  sp = Seq([by |-> Params of the creating item, s |-> <<off, cb, p1, p2, p3, prio>>]);
   a creator fires at most once.  Code model: the sorted sequence of the items present at entry,
   then whatever was appended to the current bucket, in order of appending ("priorities won't
   work").  A refused on-the-fly item (full bucket) is simply not there; the callback still
   reports success. *)
SpawnOf(sp, p) == IF \E k \in DOMAIN sp : sp[k].by = p THEN sp[CHOOSE k \in DOMAIN sp : sp[k].by = p].s ELSE <<>>
SpawnItem(s) == Item(s[2], s[3], s[4], s[5], s[6])
RECURSIVE RunNested(_, _, _, _, _, _)
RunNested(bk, o, seq, i, sp, cl) ==
  IF i > Len(bk[cur]) THEN [bk |-> bk, ob |-> o, calls |-> cl]
  ELSE LET it == bk[cur][seq[i]]
           s == SpawnOf(sp, Params(it))
       IN IF s = <<>> \/ Len(bk[Wrap(s[1])]) >= K
          THEN RunNested(bk, o, seq, i + 1, sp, Append(cl, it))
          ELSE RunNested([bk EXCEPT ![Wrap(s[1])] = Append(@, SpawnItem(s))],
                         IF s[1] \in DOMAIN o THEN [o EXCEPT ![s[1]] = Append(@, SpawnItem(s))] ELSE o,
                         seq, i + 1, sp, Append(cl, it))
ExecuteN(sp) ==
  LET b0 == bucket[cur]
      seq == CodePerm(b0) \o [k \in 1..(K - Len(b0)) |-> Len(b0) + k]
      r == RunNested(bucket, ob, seq, 1, sp, <<>>)
  IN /\ calls' = r.calls /\ rc' = Len(r.calls)
     /\ bucket' = [r.bk EXCEPT ![cur] = <<>>]
     /\ ob' = [r.ob EXCEPT ![0] = BagMinus(@, r.calls)]
     /\ done' = TRUE /\ last' = [op |-> "execn", a |-> <<sp, Len(b0)>>]
     /\ UNCHANGED <<cur, gev>>

\* property level, independent of any order of execution: everything that is due in this frame
\* once the callbacks have run - the items due at entry plus what they (and their offspring)
\* schedule zero frames ahead
RECURSIVE DueNow(_, _, _)
DueNow(due, sp, k) ==
  IF k > Len(due) \/ Len(due) > K THEN due          \* (more than K: refused by NestedOk)
  ELSE LET s == SpawnOf(sp, Params(due[k])) IN
       DueNow(IF s # <<>> /\ s[1] = 0 THEN Append(due, SpawnItem(s)) ELSE due, sp, k + 1)
\* the statement can be judged without looking at the order of execution only if no creator is
\* ambiguous and no on-the-fly item meets a full frame
NestedOk(sp) ==
  LET due == DueNow(ob[0], sp, 1)
      tgt(r) == Cardinality({k \in DOMAIN sp : sp[k].s[1] = r})
  IN /\ Len(due) <= K
     /\ \A i, j \in DOMAIN due : Params(due[i]) = Params(due[j]) => i = j
     /\ \A k, h \in DOMAIN sp : sp[k].by = sp[h].by => k = h
     /\ \A k \in DOMAIN sp : sp[k].s[1] \in 0..D-1 /\ sp[k].s[2] > 0
     /\ \A r \in 1..D-1 : Fill(r) + tgt(r) <= K

Advance ==
  /\ cur' = Wrap(1)
  /\ ob' = [r \in 0..D-1 |-> IF r = D - 1 THEN <<>> ELSE ob[r + 1]]   \* NoneMissed: ob[0] is empty
  /\ done' = FALSE /\ rc' = 0 /\ calls' = <<>> /\ last' = [op |-> "adv", a |-> <<>>]
  /\ UNCHANGED <<bucket, gev>>

\* all buckets but the current one are emptied ("current bucket will be reset
\* by iteration code"): what is due in this frame still runs
Reset ==
  /\ bucket' = [n \in 0..D-1 |-> IF n = cur THEN bucket[n] ELSE <<>>]
  /\ ob' = [r \in 0..D-1 |-> IF r = 0 THEN ob[0] ELSE <<>>]
  /\ rc' = 0 /\ calls' = <<>> /\ last' = [op |-> "reset", a |-> <<>>]
  /\ UNCHANGED <<cur, gev, done>>

\* sched_gsmtime(): take a free event or fail with -EBUSY; sorted insert in
\* front of the first event with a higher fn
GsmSched(set, f, p3) ==
  /\ IF Len(gev) >= G
     THEN rc' = -EBUSY /\ UNCHANGED gev
     ELSE LET later == {i \in 1..Len(gev) : gev[i].fn > f}
              pos == IF later = {} THEN Len(gev) + 1 ELSE CHOOSE i \in later : \A j \in later : i <= j
              e == [fn |-> f, set |-> set, p3 |-> p3]
          IN /\ gev' = SubSeq(gev, 1, pos - 1) \o <<e>> \o SubSeq(gev, pos, Len(gev))
             /\ rc' = 0
  /\ calls' = <<>> /\ last' = [op |-> "gsched", a |-> <<set, f, p3>>]
  /\ UNCHANGED <<bucket, cur, ob, done>>

\* sched_gsmtime_execute(fn): every event for frame fn + SCHEDULE_AHEAD (2) is
\* handed to tdma_schedule_set(SCHEDULE_AHEAD - SCHEDULE_LATENCY = 1, ..) -
\* its return value is ignored - and freed; the walk stops at the first later
\* event; earlier (stale) events are skipped and stay.
RECURSIVE GWalk(_, _, _, _, _, _)
GWalk(bk, o, evs, kept, f, num) ==
  IF evs = <<>> THEN [bk |-> bk, ob |-> o, gev |-> kept, rc |-> num]
  ELSE LET e == Head(evs) IN
       IF e.fn = f + 2
       THEN LET r == Walk(bk, o, e.set, e.p3, 1, 1, 0)
            IN GWalk(r.bk, r.ob, Tail(evs), kept, f, num + 1)
       ELSE IF e.fn > f + 2 THEN [bk |-> bk, ob |-> o, gev |-> kept \o evs, rc |-> num]
       ELSE GWalk(bk, o, Tail(evs), Append(kept, e), f, num)

GsmExec(f) ==
  LET r == GWalk(bucket, ob, gev, <<>>, f, 0) IN
  /\ bucket' = r.bk /\ ob' = r.ob /\ gev' = r.gev /\ rc' = r.rc
  /\ calls' = <<>> /\ last' = [op |-> "gexec", a |-> <<f>>]
  /\ UNCHANGED <<cur, done>>

GsmReset ==
  /\ gev' = <<>> /\ rc' = 0 /\ calls' = <<>> /\ last' = [op |-> "greset", a |-> <<>>]
  /\ UNCHANGED <<bucket, cur, ob, done>>

----------------------------------------------------------------------------
(* closed composition: the firmware's frame loop with any interleaving of
   scheduling calls; guards = what the statement quantifies over *)
CanSched(off) == off \in 0..D-1 /\ (done => off >= 1)
CanSet(off, set) == off \in 0..D-1 /\ (done => off >= 1) /\ off + NSep(set) < D
CanGsm(set) == 1 + NSep(set) < D

\* sets explored: every arrangement of up to SetLen entries (item or
\* separator) with at most MaxSep separators; the i-th entry, if an item,
\* has a priority that descends with i with one tie, so the sort has work
\* to do (callback and parameters from the same universe as single items, to
\* keep the number of distinct items small)
SetItem(i) == <<CHOOSE c \in Cbs : TRUE, CHOOSE p \in P1s : TRUE, CHOOSE p \in P2s : TRUE,
                IF i <= 1 THEN 1 ELSE IF i <= 3 THEN 0 ELSE -1>>
GenSets == {s \in UNION {[1..n -> {0, 1}] : n \in 0..SetLen} : Cardinality({i \in DOMAIN s : s[i] = 0}) <= MaxSep}
\* sets that overflow an empty bucket / fill frames nearly (simulation)
FatItem(i) == <<1 + (i % 2), i % 256, 0, (K - i) \div 2>>
FatSets == IF UseFat
           THEN {[i \in 1..K + 1 |-> FatItem(i)],
                 [i \in 1..K + 2 |-> IF i = K THEN Sep ELSE FatItem(i)],
                 [i \in 1..K |-> IF i = 3 \/ i = 5 THEN Sep ELSE FatItem(i)]}
           ELSE {}
Sets == {[i \in DOMAIN s |-> IF s[i] = 0 THEN Sep ELSE SetItem(i)] : s \in GenSets} \cup FatSets

\* priority universes for the .cfg files (a cfg cannot write negative numbers)
PriosSmall == {-1, 0, 1}
PriosTie == {0, 1}
PriosWide == {-32768, -1, 0, 1, 32767}

Budget == MaxOpsPerFrame = 0 \/ nops < MaxOpsPerFrame
Count1 == nops' = (IF MaxOpsPerFrame = 0 THEN 0 ELSE nops + 1) /\ UNCHANGED nres

Next ==
  \/ \E off \in Offs, cb \in Cbs, p1 \in P1s, p2 \in P2s, p3 \in P3s, pr \in Prios :
       Budget /\ CanSched(off) /\ Schedule(off, cb, p1, p2, p3, pr) /\ Count1
  \/ \E off \in Offs, s \in Sets, p3 \in P3s :
       Budget /\ CanSet(off, s) /\ ScheduleSet(off, s, p3) /\ Count1
  \/ Execute(CodePerm(bucket[cur])) /\ nops' = (IF done THEN nops ELSE 0) /\ UNCHANGED nres
  \/ /\ NestOffs # {} /\ ~done
     /\ \E i \in DOMAIN bucket[cur], off \in NestOffs, cb \in Cbs, p1 \in P1s, p3 \in P3s, chain \in BOOLEAN,
           p2 \in {CHOOSE x \in P2s : TRUE}, pr \in {CHOOSE x \in Prios : \A y \in Prios : x <= y, CHOOSE x \in Prios : \A y \in Prios : x >= y} :
          LET a == [by |-> Params(bucket[cur][i]), s |-> <<off, cb, p1, p2, p3, pr>>]
              \* optionally the on-the-fly item schedules a further one (other callback, lower priority)
              b == [by |-> Params(SpawnItem(a.s)), s |-> <<CHOOSE o \in NestOffs : TRUE, CHOOSE c \in Cbs : c # cb \/ Cardinality(Cbs) = 1, p1, p2, p3, pr - 1>>]
              sp == IF chain THEN <<a, b>> ELSE <<a>>
          IN NestedOk(sp) /\ ExecuteN(sp)
     /\ nops' = 0 /\ UNCHANGED nres
  \/ done /\ Advance /\ nops' = 0 /\ UNCHANGED nres
  \/ (MaxResets = 0 \/ nres < MaxResets) /\ Reset /\ nres' = (IF MaxResets = 0 THEN 0 ELSE nres + 1) /\ UNCHANGED nops
  \/ \E s \in Sets, f \in GFns, p3 \in P3s : Budget /\ CanGsm(s) /\ GsmSched(s, f, p3) /\ Count1
  \/ \E f \in GFns : GsmExec(f) /\ UNCHANGED <<nops, nres>>
  \/ GFns # {} /\ gev # <<>> /\ GsmReset /\ UNCHANGED <<nops, nres>>

Spec == Init /\ [][Next]_vars

----------------------------------------------------------------------------
(* C08 clauses.  XStep is a predicate on a step (trace validation evaluates it
   on every observed step), X the corresponding action property. *)
IsExec == last'.op = "exec"

\* Nothing runs in a frame it was not scheduled for: what Execute calls are
\* (with multiplicity) items due in exactly this frame, i.e. accepted N
\* advances ago for N frames ahead.
RunsWhenDueStep == IsExec => SubBag(calls', ob[0])

\* Every item due in this frame runs, none twice ...
ExactlyOnceStep == IsExec => SameBag(calls', ob[0])
\* ... and no due item is left behind when the frame ends.
NoneMissed == done => ob[0] = <<>>

\* every invocation carries callback and parameters of an item due now
ParamsPreservedStep ==
  IsExec => \A i \in DOMAIN calls' : \E j \in DOMAIN ob[0] : Params(ob[0][j]) = Params(calls'[i])

\* ascending priority; equal priorities in any order
PriorityOrderStep == IsExec => \A i \in 1..Len(calls') - 1 : calls'[i].prio <= calls'[i + 1].prio

BucketEmptyAfterStep == (IsExec \/ last'.op = "execn") => bucket'[cur] = <<>>

\* callbacks that schedule on the fly: every item due in this frame - including those scheduled
\* zero frames ahead by a callback of this very frame - runs exactly once; the items present at
\* entry run in ascending priority (the order of the on-the-fly items is left open)
PosIn(cl, x) == CHOOSE i \in DOMAIN cl : Params(cl[i]) = Params(x)
NestedStep ==
  last'.op = "execn" =>
    LET sp == last'.a[1] IN
    NestedOk(sp) =>
      /\ SameBag([i \in DOMAIN calls' |-> Params(calls'[i])], [i \in 1..Len(DueNow(ob[0], sp, 1)) |-> Params(DueNow(ob[0], sp, 1)[i])])
      /\ \A i, j \in DOMAIN ob[0] : ob[0][i].prio < ob[0][j].prio => PosIn(calls', ob[0][i]) < PosIn(calls', ob[0][j])

\* rc of tdma_schedule_set() in terms of the obligations alone: f[r] = number
\* of items due r frames from now; the items of the j-th frame go to frame off0 + j
RECURSIVE ASet(_, _, _, _, _)
ASet(f, set, off0, i, j) ==
  IF i > Len(set) THEN j
  ELSE IF IsSep(set[i]) THEN ASet(f, set, off0, i + 1, j + 1)
  ELSE IF f[off0 + j] >= K THEN -1
  ELSE ASet([f EXCEPT ![off0 + j] = @ + 1], set, off0, i + 1, j)

\* Exceeding a frame's capacity is reported (-1) instead of overwriting: an
\* item is refused exactly if its frame already holds K items (a set stops at
\* the first such item; what it placed before stays, which the statement
\* permits); no operation that schedules ever changes or removes an item
\* already in the ring.
OverflowReportedStep ==
  /\ last'.op = "sched" => rc' = (IF Fill(last'.a[1]) >= K THEN -1 ELSE 0)
  /\ last'.op = "set" => rc' = ASet([r \in 0..D-1 |-> Fill(r)], last'.a[2], last'.a[1], 1, 0)
  /\ last'.op \in {"sched", "set", "gexec"} => \A n \in 0..D-1 : bucket[n] = bucket'[n] \/ IsPrefix(bucket[n], bucket'[n])
Capacity == \A n \in 0..D-1 : Len(bucket[n]) <= K

\* A set puts the items of its k-th frame, in order and with the p3 given, into
\* the bucket k frames after that of its first frame (all of them unless it
\* stopped with -1).
FrameItems(set, k, p3) ==
  LET idx == {i \in DOMAIN set : ~IsSep(set[i]) /\ Cardinality({h \in 1..i : IsSep(set[h])}) = k}
      nth(m) == CHOOSE i \in idx : Cardinality({h \in idx : h < i}) = m - 1
  IN [m \in 1..Cardinality(idx) |-> Item(set[nth(m)][1], set[nth(m)][2], set[nth(m)][3], p3, set[nth(m)][4])]
SetSpreadStep ==
  last'.op = "set" =>
    LET off == last'.a[1]
        set == last'.a[2]
        p3 == last'.a[3]
    IN /\ \A k \in 0..NSep(set) :
            LET n == Wrap(off + k)
                added == SubSeq(bucket'[n], Len(bucket[n]) + 1, Len(bucket'[n]))
            IN /\ IsPrefix(added, FrameItems(set, k, p3))
               /\ rc' # -1 => added = FrameItems(set, k, p3)
       /\ \A n \in 0..D-1 : (\A k \in 0..NSep(set) : n # Wrap(off + k)) => bucket'[n] = bucket[n]

\* Every item sits in the bucket that becomes current in its due frame, and
\* the ring holds exactly the obligations.
RingAgrees ==
  /\ cur \in 0..D-1
  /\ \A r \in 0..D-1 : bucket[Wrap(r)] = ob[r] \/ SameBag(bucket[Wrap(r)], ob[r])

RunsWhenDue == [][RunsWhenDueStep]_vars
ExactlyOnce == [][ExactlyOnceStep]_vars
ParamsPreserved == [][ParamsPreservedStep]_vars
PriorityOrder == [][PriorityOrderStep]_vars
BucketEmptyAfter == [][BucketEmptyAfterStep]_vars
Nested == [][NestedStep]_vars
OverflowReported == [][OverflowReportedStep]_vars
SetSpread == [][SetSpreadStep]_vars
=============================================================================
