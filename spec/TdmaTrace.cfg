SPECIFICATION TSpec
CONSTANTS
  D = 25
  K = 8
  G = 16
  Offs = {}
  Cbs = {}
  P1s = {}
  P2s = {}
  P3s = {}
  Prios = {}
  SetLen = 0
  MaxSep = 0
  UseFat = FALSE
  GFns = {}
  NestOffs = {}
  MaxOpsPerFrame = 0
  MaxResets = 0
POSTCONDITION Post
CHECK_DEADLOCK FALSE
