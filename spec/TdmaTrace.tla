----------------------------- MODULE TdmaTrace -----------------------------
(* Validates traces recorded from the real layer1/tdma_sched.c and
   sched_gsmtime.c (host build, real D = 25, K = 8, G = 16) against TdmaSched.
   Events (built by vf/props/c08.py from the driver's output):
     sched {off, cb, p1, p2, p3, prio, rc}     tdma_schedule
     set   {off, items:[[cb,p1,p2,prio]], p3, rc}   tdma_schedule_set (cb 0 = next frame)
     exec  {calls:[[cb,p1,p2,p3]], rc}         tdma_sched_execute and the callbacks it ran
     adv {}   reset {}                         tdma_sched_advance / tdma_sched_reset
     gsched {fn, items, p3, rc}  gexec {fn, rc}  greset {}    sched_gsmtime*
   Per event: the guard (the history stays inside what the statement
   quantifies over), the C08 clauses judged on the observation (return codes
   against the obligations, executed callbacks against what is due now), the
   conformance clauses (rc and calls equal what the specification's action
   yields; equal priorities in any order), and all clauses of TdmaSched on the
   resulting step.                                                          *)
EXTENDS TdmaSched, TraceKit

VARIABLE ranp     \* diagnosis only: callback invocations seen so far

tvars == <<vars, kvars, ranp>>

TInit ==
  /\ KInit
  /\ bucket = [n \in 0..D-1 |-> <<>>] /\ cur = T.cfg.cur /\ rc = 0 /\ calls = <<>> /\ gev = <<>>
  /\ ob = [r \in 0..D-1 |-> <<>>] /\ done = FALSE /\ last = [op |-> "init", a |-> <<>>]
  /\ nops = 0 /\ nres = 0 /\ ranp = {}

Props ==
  /\ Tag("C08.runs-when-due", RunsWhenDueStep)
  /\ Tag("C08.exactly-once", ExactlyOnceStep /\ NoneMissed')
  /\ Tag("C08.params-preserved", ParamsPreservedStep)
  /\ Tag("C08.priority-order", PriorityOrderStep)
  /\ Tag("C08.bucket-empty-after", BucketEmptyAfterStep)
  /\ Tag("C08.overflow-reported", OverflowReportedStep /\ Capacity')
  /\ Tag("C08.set-spread", SetSpreadStep)
  /\ Tag("C08.ring-agrees", RingAgrees')
  /\ Tag("C08.nested", NestedStep)

Same == UNCHANGED <<nops, nres, ranp>>

----------------------------------------------------------------------------
(* observed callbacks against a sequence b of items: a permutation of b in
   ascending priority, equal priorities in any order *)
ValidOrder(b, obs) ==
  /\ Len(obs) = Len(b)
  /\ \A i \in DOMAIN b :
       LET p == b[i].prio
           lo == Cardinality({j \in DOMAIN b : b[j].prio < p})
           hi == Cardinality({j \in DOMAIN b : b[j].prio <= p})
       IN Cardinality({j \in lo + 1..hi : obs[j] = Params(b[i])})
            = Cardinality({j \in DOMAIN b : b[j].prio = p /\ Params(b[j]) = Params(b[i])})

ObsCnt(obs, c) == Cardinality({i \in DOMAIN obs : obs[i] = c})
DueCnt(c) == Cardinality({j \in DOMAIN ob[0] : Params(ob[0][j]) = c})
Extra(obs) == {c \in {obs[i] : i \in DOMAIN obs} : ObsCnt(obs, c) > DueCnt(c)}
Missing(obs) == {j \in DOMAIN ob[0] : ObsCnt(obs, Params(ob[0][j])) < DueCnt(Params(ob[0][j]))}
Elsewhere(c) == \E r \in 1..D-1 : \E j \in DOMAIN ob[r] : Params(ob[r][j]) = c

\* the callbacks of this frame are exactly the items due now, in ascending priority
ObsOk(obs) == Extra(obs) = {} /\ Missing(obs) = {} /\ ValidOrder(ob[0], obs)
\* which clause a bad observation breaks
ExecDiag(obs) ==
  IF Extra(obs) # {} THEN
       IF \E c \in Extra(obs) : DueCnt(c) > 0 THEN "C08.exactly-once"        \* ran more often than scheduled
       ELSE IF \E c \in Extra(obs) : Elsewhere(c) THEN "C08.runs-when-due"   \* due in another frame
       ELSE IF \E c \in Extra(obs) : c \in ranp THEN "C08.exactly-once"      \* ran before, not scheduled again
       ELSE IF Missing(obs) # {} THEN "C08.params-preserved"                \* a due item is missing, an unknown one ran
       ELSE "C08.runs-when-due"                                              \* something nobody scheduled for now
  ELSE IF Missing(obs) # {} THEN "C08.runs-when-due"                         \* a due item did not run
  ELSE "C08.priority-order"

Fills == [r \in 0..D-1 |-> Fill(r)]

TSched ==
  /\ IsEv("sched")
  /\ Tag("C08.guard.sched", CanSched(Ev.off) /\ Ev.cb > 0)
  /\ Tag("C08.overflow-reported", Ev.rc = (IF Fill(Ev.off) >= K THEN -1 ELSE 0))
  /\ Schedule(Ev.off, Ev.cb, Ev.p1, Ev.p2, Ev.p3, Ev.prio)
  /\ Tag("C08.conf.sched.rc", rc' = Ev.rc)
  /\ Props /\ Same /\ Adv

TSet ==
  /\ IsEv("set")
  /\ Tag("C08.guard.set", CanSet(Ev.off, Ev.items))
  /\ Tag("C08.overflow-reported", (Ev.rc = -1) <=> (ASet(Fills, Ev.items, Ev.off, 1, 0) = -1))
  /\ ScheduleSet(Ev.off, Ev.items, Ev.p3)
  /\ Tag("C08.conf.set.rc", rc' = Ev.rc)
  /\ Props /\ Same /\ Adv

TExec ==
  /\ IsEv("exec")
  /\ Tag(ExecDiag(Ev.calls), ObsOk(Ev.calls))
  /\ Tag("C08.conf.exec.calls", ValidOrder(bucket[cur], Ev.calls))
  /\ Execute(CodePerm(bucket[cur]))
  /\ Tag("C08.conf.exec.rc", rc' = Ev.rc)
  /\ Props
  /\ ranp' = ranp \cup {Ev.calls[i] : i \in DOMAIN Ev.calls}
  /\ UNCHANGED <<nops, nres>> /\ Adv

(* execute with callbacks that schedule on the fly: Ev.sp = [[by: [cb,p1,p2,p3], s: [off,cb,p1,p2,p3,prio]]].
   Judged on the observation without reference to the order the code happens to use: every item
   due in this frame (those due at entry and those scheduled zero frames ahead by a callback of
   this frame) ran exactly once, nothing else ran, and the items present at entry ran in
   ascending priority.  Then the code model (ExecuteN) must yield the same number of calls. *)
SpOf == [k \in DOMAIN Ev.sp |-> [by |-> Ev.sp[k].by, s |-> Ev.sp[k].s]]
DueP == LET d == DueNow(ob[0], SpOf, 1) IN [i \in DOMAIN d |-> Params(d[i])]
PosObs(c) == CHOOSE i \in DOMAIN Ev.calls : Ev.calls[i] = c
TExecN ==
  /\ IsEv("execn")
  /\ Tag("C08.guard.nested", ~done /\ NestedOk(SpOf))
  /\ Tag("C08.exactly-once", \A c \in {Ev.calls[i] : i \in DOMAIN Ev.calls} : ObsCnt(Ev.calls, c) <= 1)
  /\ Tag("C08.runs-when-due", {Ev.calls[i] : i \in DOMAIN Ev.calls} = {DueP[i] : i \in DOMAIN DueP})
  /\ Tag("C08.priority-order", \A i, j \in DOMAIN ob[0] : ob[0][i].prio < ob[0][j].prio => PosObs(Params(ob[0][i])) < PosObs(Params(ob[0][j])))
  /\ ExecuteN(SpOf)
  /\ Tag("C08.conf.exec.rc", rc' = Ev.rc)
  /\ Props
  /\ ranp' = ranp \cup {Ev.calls[i] : i \in DOMAIN Ev.calls}
  /\ UNCHANGED <<nops, nres>> /\ Adv

TAdv == IsEv("adv") /\ Tag("C08.guard.adv", done) /\ Advance /\ Props /\ Same /\ Adv
TReset == IsEv("reset") /\ Reset /\ Props /\ Same /\ Adv

TGsched ==
  /\ IsEv("gsched")
  /\ Tag("C08.guard.gsched", CanGsm(Ev.items))
  /\ GsmSched(Ev.items, Ev.fn, Ev.p3)
  /\ Tag("C08.conf.gsched.rc", rc' = Ev.rc)
  /\ Props /\ Same /\ Adv
TGexec ==
  /\ IsEv("gexec")
  /\ GsmExec(Ev.fn)
  /\ Tag("C08.conf.gexec.rc", rc' = Ev.rc)
  /\ Props /\ Same /\ Adv
TGreset == IsEv("greset") /\ GsmReset /\ Props /\ Same /\ Adv

TNext == TSched \/ TSet \/ TExec \/ TExecN \/ TAdv \/ TReset \/ TGsched \/ TGexec \/ TGreset
TSpec == TInit /\ [][TNext]_tvars
Post == WriteVerdicts
=============================================================================
