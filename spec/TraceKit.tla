----------------------------- MODULE TraceKit -----------------------------
(* Shared skeleton of all trace specifications (code -> spec conformance).
   IOEnv.TRACE_FILE holds a JSON array of traces {id, cfg, ev:[event]}.  Every
   trace is an initial state; `l` is the position of the next event.  TLC
   registers keep, per trace, the longest matched prefix and the tag of the
   clause that failed there, and the POSTCONDITION writes one verdict per
   trace to IOEnv.OUT_FILE.  Run with -workers 1.                           *)
EXTENDS Naturals, Sequences, TLC, TLCExt, Json, IOUtils

Traces == JsonDeserialize(IOEnv.TRACE_FILE)
NT == Len(Traces)

VARIABLES tid, l
kvars == <<tid, l>>

T == Traces[tid]
Ev == T.ev[l]
TagBase == 1000000

KInit == /\ tid \in 1..NT /\ l = 1
         /\ TLCSet(tid, 0) /\ TLCSet(TagBase + tid, <<0, "no-event-matched">>)

IsEv(name) == l <= Len(T.ev) /\ Ev.e = name

\* Must be the LAST conjunct of a trace action: consumes the event.
Adv == /\ l' = l + 1 /\ tid' = tid
       /\ TLCSet(tid, IF TLCGet(tid) < l THEN l ELSE TLCGet(tid))

\* A tagged clause.  `cond` must be a predicate (it may mention primed
\* variables that the preceding conjuncts have already determined), never an
\* action that assigns: TLC would explore both branches of a disjunction.
\* When it fails the tag is remembered for the verdict of this trace.
Tag(t, cond) ==
  IF cond THEN TRUE
  ELSE /\ TLCSet(TagBase + tid, IF TLCGet(TagBase + tid)[1] <= l THEN <<l, t>> ELSE TLCGet(TagBase + tid))
       /\ FALSE

Verdicts ==
  [t \in 1..NT |->
     [id |-> Traces[t].id, reached |-> TLCGet(t), n |-> Len(Traces[t].ev),
      tag |-> IF TLCGet(t) = Len(Traces[t].ev) THEN "" ELSE
              IF TLCGet(TagBase + t)[1] = TLCGet(t) + 1 THEN TLCGet(TagBase + t)[2] ELSE "no-action-enabled"]]

WriteVerdicts == JsonSerialize(IOEnv.OUT_FILE, Verdicts)
=============================================================================
