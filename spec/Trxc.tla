-------------------------------- MODULE Trxc --------------------------------
(* Text level of the TRXC control protocol: a request is a datagram starting
   with "CMD"; the text after the fourth octet, stripped of surrounding
   white space and NULs, is split on single spaces into a verb and its
   arguments.  The response is "RSP <verb> <status> <arguments> [results]"
   followed by NUL.  Numbers are decimal.                                   *)
EXTENDS Integers, Sequences, TrxcVerbs

SP == 32
IsCmd(raw) == Len(raw) >= 3 /\ SubSeq(raw, 1, 3) = <<67, 77, 68>>
Ws == {32, 9, 10, 11, 12, 13, 28, 29, 30, 31}

RECURSIVE StripL(_, _)
StripL(s, S) == IF s # <<>> /\ s[1] \in S THEN StripL(Tail(s), S) ELSE s
RECURSIVE StripR(_, _)
StripR(s, S) == IF s # <<>> /\ s[Len(s)] \in S THEN StripR(SubSeq(s, 1, Len(s) - 1), S) ELSE s
Strip(s, S) == StripR(StripL(s, S), S)

RECURSIVE Split(_, _)
Split(s, cur) ==      \* tokens of s separated by single spaces (empty tokens are kept)
  IF s = <<>> THEN <<cur>>
  ELSE IF s[1] = SP THEN <<cur>> \o Split(Tail(s), <<>>)
  ELSE Split(Tail(s), Append(cur, s[1]))

Tokens(raw) == Split(Strip(Strip(SubSeq(raw, 5, Len(raw)), Ws), {0}), <<>>)

Digit(c) == c >= 48 /\ c <= 57
RECURSIVE Num(_, _)
Num(s, acc) == IF s = <<>> THEN acc ELSE Num(Tail(s), acc * 10 + (s[1] - 48))
\* decimal integers as the toolkit reads them: optional sign (+ or -), digits, leading zeros allowed
IsInt(tok) == LET d == IF tok # <<>> /\ tok[1] \in {43, 45} THEN Tail(tok) ELSE tok IN
              d # <<>> /\ Len(d) <= 9 /\ {k \in 1..Len(d) : ~Digit(d[k])} = {}
ToInt(tok) == IF tok[1] = 45 THEN 0 - Num(Tail(tok), 0) ELSE IF tok[1] = 43 THEN Num(Tail(tok), 0) ELSE Num(tok, 0)
AllInts(toks) == {k \in 1..Len(toks) : ~IsInt(toks[k])} = {}
Ints(toks) == [k \in 1..Len(toks) |-> ToInt(toks[k])]

RECURSIVE DecPos(_)
DecPos(n) == IF n < 10 THEN <<48 + n>> ELSE Append(DecPos(n \div 10), 48 + (n % 10))
DecStr(n) == IF n < 0 THEN <<45>> \o DecPos(0 - n) ELSE DecPos(n)

RECURSIVE Join(_)
Join(toks) == IF Len(toks) = 1 THEN toks[1] ELSE toks[1] \o <<SP>> \o Join(Tail(toks))

Response(toks, status, results) ==
  <<82, 83, 80, 32>> \o Join(<<toks[1], DecStr(status)>> \o Tail(toks) \o [k \in 1..Len(results) |-> DecStr(results[k])]) \o <<0>>

ClockInd(fn) == <<73, 78, 68, 32, 67, 76, 79, 67, 75, 32>> \o DecStr(fn) \o <<0>>
=============================================================================
