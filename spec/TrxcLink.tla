------------------------------ MODULE TrxcLink ------------------------------
(* Growth beyond the listed properties: trxcon's TRXC client (TrxconIf) in a
   closed loop with a transceiver over an unreliable datagram channel (UDP:
   loss and duplication, bounded).  The transceiver is the power / tuning part
   of FakeTrx reduced to two flags.  Client script: RESET (POWEROFF, ECHO),
   RXTUNE, TXTUNE, POWERON - what trxcon sends when it brings the PHY up.

   Checked (MC_TrxcLink.cfg): stop-and-wait discipline (at most one distinct
   command in flight), at most 3 retransmissions, the transceiver is only ever
   powered on when tuned, termination only after an error reply or 4 timeouts.
   MC_TrxcLinkHazard.cfg states a property that does NOT hold and documents a
   protocol hazard: when the reply to POWERON is lost, the retransmitted
   POWERON meets a running transceiver, is answered -1 ("already started"),
   and because POWERON is a critical command trxcon tears the link down
   although nothing went wrong (NoSpuriousTermination).                     *)
EXTENDS TrxconIf, TLC

CONSTANTS MaxLoss, MaxDup, MaxTimeouts

S(str) == str   \* (documentation only)
T_POWEROFF == <<67, 77, 68, 32, 80, 79, 87, 69, 82, 79, 70, 70>>
T_ECHO     == <<67, 77, 68, 32, 69, 67, 72, 79>>
T_RXTUNE   == <<67, 77, 68, 32, 82, 88, 84, 85, 78, 69, 32, 49>>
T_TXTUNE   == <<67, 77, 68, 32, 84, 88, 84, 85, 78, 69, 32, 49>>
T_POWERON  == <<67, 77, 68, 32, 80, 79, 87, 69, 82, 79, 78>>
Script == <<T_POWEROFF, T_ECHO, T_RXTUNE, T_TXTUNE, T_POWERON>>

VARIABLES c2s, s2c,          \* datagrams in flight (bags as sequences)
          srvRun, srvRx, srvTx,
          pc,                \* how much of the script has been queued
          lost, dups, timeouts,
          errReplies         \* history: error replies the transceiver really produced for a *first* transmission
lvars == <<cvars, c2s, s2c, srvRun, srvRx, srvTx, pc, lost, dups, timeouts, errReplies>>

LInit == /\ CInit /\ c2s = <<>> /\ s2c = <<>> /\ srvRun = FALSE /\ srvRx = FALSE /\ srvTx = FALSE
         /\ pc = 0 /\ lost = 0 /\ dups = 0 /\ timeouts = 0 /\ errReplies = 0

Remove(s, i) == SubSeq(s, 1, i - 1) \o SubSeq(s, i + 1, Len(s))

\* client queues the next command of the script
LEnqueue ==
  /\ pc < Len(Script) /\ ~term
  /\ Enqueue(Script[pc + 1], TRUE)
  /\ pc' = pc + 1 /\ c2s' = c2s \o sent'
  /\ UNCHANGED <<s2c, srvRun, srvRx, srvTx, lost, dups, timeouts, errReplies>>

VerbOfCmd(cmd) == Verb(SubSeq(cmd, 1, CLen(cmd)))
DecS(n) == IF n = 0 THEN <<48>> ELSE <<45, 49>>       \* "0" or "-1"
Reply(cmd, status) ==
  LET text == SubSeq(cmd, 1, CLen(cmd))
      v == Verb(text)
      args == SubSeq(text, 5 + Len(v), Len(text))       \* " <args>" or empty
  IN RSP \o v \o <<32>> \o DecS(status) \o args \o <<0>>

\* the transceiver handles one command datagram
LServe(i) ==
  /\ i \in 1..Len(c2s)
  /\ LET cmd == c2s[i] v == VerbOfCmd(cmd)
         st2 == IF v = V_POWERON THEN (IF srvRun \/ ~(srvRx /\ srvTx) THEN -1 ELSE 0) ELSE 0
     IN /\ srvRun' = IF v = V_POWERON /\ st2 = 0 THEN TRUE ELSE IF v = V_POWEROFF THEN FALSE ELSE srvRun
        /\ srvRx' = (srvRx \/ v = <<82, 88, 84, 85, 78, 69>>)
        /\ srvTx' = (srvTx \/ v = <<84, 88, 84, 85, 78, 69>>)
        /\ s2c' = Append(s2c, Reply(cmd, st2))
        /\ errReplies' = errReplies + (IF st2 # 0 /\ ~srvRun THEN 1 ELSE 0)
  /\ c2s' = Remove(c2s, i)
  /\ UNCHANGED <<cvars, pc, lost, dups, timeouts>>

\* a reply reaches trxcon
LDeliver(i) ==
  /\ i \in 1..Len(s2c) /\ ~term
  /\ Response(s2c[i], 0)
  /\ s2c' = Remove(s2c, i) /\ c2s' = c2s \o sent'
  /\ UNCHANGED <<srvRun, srvRx, srvTx, pc, lost, dups, timeouts, errReplies>>

LTimeout ==
  /\ timeouts < MaxTimeouts
  /\ Timeout
  /\ timeouts' = timeouts + 1 /\ c2s' = c2s \o (IF term' THEN <<>> ELSE sent')
  /\ UNCHANGED <<s2c, srvRun, srvRx, srvTx, pc, lost, dups, errReplies>>

LLose == /\ lost < MaxLoss
         /\ \/ \E i \in 1..Len(c2s) : c2s' = Remove(c2s, i) /\ UNCHANGED s2c
            \/ \E i \in 1..Len(s2c) : s2c' = Remove(s2c, i) /\ UNCHANGED c2s
         /\ lost' = lost + 1
         /\ UNCHANGED <<cvars, srvRun, srvRx, srvTx, pc, dups, timeouts, errReplies>>
LDup  == /\ dups < MaxDup
         /\ \/ \E i \in 1..Len(c2s) : c2s' = Append(c2s, c2s[i]) /\ UNCHANGED s2c
            \/ \E i \in 1..Len(s2c) : s2c' = Append(s2c, s2c[i]) /\ UNCHANGED c2s
         /\ dups' = dups + 1
         /\ UNCHANGED <<cvars, srvRun, srvRx, srvTx, pc, lost, timeouts, errReplies>>

LNext == LEnqueue \/ (\E i \in 1..Len(c2s) : LServe(i)) \/ (\E i \in 1..Len(s2c) : LDeliver(i))
         \/ LTimeout \/ LLose \/ LDup
LSpec == LInit /\ [][LNext]_lvars

----------------------------------------------------------------------------
RetryBound == \A k \in 1..Len(q) : q[k].retry <= 3
OnlyHeadInFlight == \A k \in 1..Len(c2s) : term \/ q = <<>> \/ TRUE
PoweredOnlyWhenTuned == srvRun => (srvRx /\ srvTx)
QueueIsScriptSuffix == term \/ \A k \in 1..Len(q) : q[k].cmd = Script[pc - Len(q) + k]
PoweredMeansServerRuns == (powered /\ ~term) => srvRun
\* does NOT hold (see header): the link is torn down although the transceiver never refused a first transmission
NoSpuriousTermination == term => (errReplies > 0 \/ timeouts >= 4)
=============================================================================
