------------------------------ MODULE TrxconIf ------------------------------
(* trxcon's side of the TRXC control link (trxcon/src/trx_if.c): a queue of
   commands of which only the head is in flight, a 2 s response timer with at
   most 3 retransmissions, response matching, and the interface state machine.
   One action per entry point:
     Enqueue(text, critical)   trx_ctrl_cmd (reached through trx_if_handle_phyif_cmd)
     Response(raw)             trx_ctrl_read_cb
     Timeout                   trx_ctrl_timer_cb
   Octet strings are C strings here: a NUL ends them.                       *)
EXTENDS Integers, Sequences, FiniteSets

OFFLINE == 0  IDLE == 1  ACTIVE == 2  RSPWAIT == 3
BufSize == 1024

VARIABLES q,        \* Seq of [cmd (octets without NUL), critical, retry]
          st, prev, \* interface state, state before the command went out
          powered, timer, term,
          sent,     \* datagrams written to the TRXC socket by the last action
          meas      \* MEASURE results reported upwards by the last action: Seq of [f, dbm, got]
cvars == <<q, st, prev, powered, timer, term, sent, meas>>

CInit == q = <<>> /\ st = OFFLINE /\ prev = OFFLINE /\ powered = FALSE /\ timer = FALSE
         /\ term = FALSE /\ sent = <<>> /\ meas = <<>>

Pad(s, i) == IF i >= 1 /\ i <= Len(s) THEN s[i] ELSE 0
CLen(s) == IF \E i \in 1..Len(s) : s[i] = 0 THEN (CHOOSE i \in 1..Len(s) : s[i] = 0 /\ \A j \in 1..(i - 1) : s[j] # 0) - 1 ELSE Len(s)
CStr(s) == SubSeq(s, 1, CLen(s))
\* strncmp(a + off, b + off, n) = 0 on C strings
StrNEq(a, b, off, n) == \A i \in 1..n : (\A j \in 1..(i - 1) : Pad(a, off + j) # 0) => Pad(a, off + i) = Pad(b, off + i)
StartsWith(s, p) == Len(s) >= Len(p) /\ SubSeq(s, 1, Len(p)) = p
RSP == <<82, 83, 80, 32>>
Verb(cmd) == LET rest == SubSeq(cmd, 5, Len(cmd)) IN
             IF \E i \in 1..Len(rest) : rest[i] = 32 THEN SubSeq(rest, 1, (CHOOSE i \in 1..Len(rest) : rest[i] = 32 /\ \A j \in 1..(i - 1) : rest[j] # 32) - 1) ELSE rest
IsVerb(cmd, v) == StartsWith(SubSeq(cmd, 5, Len(cmd)), v)      \* strncmp(tcm->cmd + 4, "VERB", len)
V_POWERON == <<80, 79, 87, 69, 82, 79, 78>>
V_POWEROFF == <<80, 79, 87, 69, 82, 79, 70, 70>>
V_MEASURE == <<77, 69, 65, 83, 85, 82, 69>>
V_ECHO == <<69, 67, 72, 79>>
CmdPoweroff == <<67, 77, 68, 32>> \o V_POWEROFF

\* sscanf("%d"): [ok, v] - leading white space, optional sign, digits
Digit(c) == c >= 48 /\ c <= 57
WsC == {32, 9, 10, 11, 12, 13}
RECURSIVE SkipWs(_)
SkipWs(s) == IF s # <<>> /\ s[1] \in WsC THEN SkipWs(Tail(s)) ELSE s
RECURSIVE Digits(_, _, _)
Digits(s, acc, n) == IF s # <<>> /\ Digit(s[1]) /\ n < 9 THEN Digits(Tail(s), acc * 10 + (s[1] - 48), n + 1) ELSE [v |-> acc, n |-> n, rest |-> s]
ScanInt(s0) ==
  LET s == SkipWs(s0)
      neg == s # <<>> /\ s[1] = 45
      body == IF s # <<>> /\ s[1] \in {43, 45} THEN Tail(s) ELSE s
      d == Digits(body, 0, 0)
  IN [ok |-> d.n > 0, v |-> IF neg THEN 0 - d.v ELSE d.v, rest |-> d.rest]

\* (re)transmission of the head command
SendHead(qq, s, p) ==
  IF qq = <<>> THEN [sent |-> <<>>, st |-> s, prev |-> p, timer |-> timer]
  ELSE [sent |-> <<Append(qq[1].cmd, 0)>>, st |-> RSPWAIT, prev |-> IF s # RSPWAIT THEN s ELSE p, timer |-> TRUE]

Enqueue(text, critical) ==
  /\ ~term
  /\ LET item == [cmd |-> text, critical |-> critical, retry |-> 0]
         r == IF q = <<>> THEN SendHead(<<item>>, st, prev) ELSE [sent |-> <<>>, st |-> st, prev |-> prev, timer |-> timer]
     IN /\ q' = Append(q, item) /\ sent' = r.sent /\ st' = r.st /\ prev' = r.prev /\ timer' = r.timer
  /\ meas' = <<>> /\ UNCHANGED <<powered, term>>

\* orderly termination (osmo_fsm_inst_term -> trx_fsm_cleanup_cb)
Terminate(viaOffline) ==
  /\ term' = TRUE /\ timer' = FALSE /\ q' = <<>> /\ st' = IDLE
  /\ sent' = IF powered THEN <<Append(CmdPoweroff, 0)>> ELSE <<>>
  /\ meas' = <<>> /\ UNCHANGED <<prev, powered>>

(* A response datagram.  `scan` resolves what the C code leaves undefined:
   the status value when no number follows the verb ("any").                 *)
Response(raw, anyStatus) ==
  /\ ~term
  /\ LET buf == CStr(SubSeq(raw, 1, IF Len(raw) < BufSize - 1 THEN Len(raw) ELSE BufSize - 1)) IN
     IF ~StartsWith(buf, RSP) THEN UNCHANGED <<q, st, prev, powered, timer, term>> /\ sent' = <<>> /\ meas' = <<>>
     ELSE LET rest == SubSeq(buf, 5, Len(buf))
              hasSp == \E i \in 1..Len(rest) : rest[i] = 32
              vlen == IF hasSp THEN (CHOOSE i \in 1..Len(rest) : rest[i] = 32 /\ \A j \in 1..(i - 1) : rest[j] # 32) - 1 ELSE Len(rest)
              after == IF hasSp THEN SubSeq(rest, vlen + 2, Len(rest)) ELSE <<>>
              sc == ScanInt(after)
              status == IF sc.ok THEN sc.v ELSE -22      \* no status: -EINVAL (anyStatus is unused since the code initialises it)
          IN IF q = <<>> THEN /\ timer' = FALSE /\ sent' = <<>> /\ meas' = <<>> /\ UNCHANGED <<q, st, prev, powered, term>>
             ELSE LET h == q[1] IN
                  IF ~StrNEq(buf, h.cmd, 4, vlen) \/ (status # 0 /\ h.critical)
                  THEN Terminate(FALSE)
                  ELSE LET s2 == IF IsVerb(h.cmd, V_POWERON) THEN ACTIVE
                                 ELSE IF IsVerb(h.cmd, V_POWEROFF) THEN IDLE
                                 ELSE IF IsVerb(h.cmd, V_MEASURE) THEN st
                                 ELSE IF IsVerb(h.cmd, V_ECHO) THEN IDLE ELSE prev
                           r == SendHead(Tail(q), s2, prev)
                           m1 == ScanInt(SubSeq(buf, 15, Len(buf)))           \* "%u %d" at offset 14
                           m2 == ScanInt(m1.rest)
                       IN /\ q' = Tail(q) /\ st' = r.st /\ prev' = r.prev /\ sent' = r.sent
                          /\ timer' = IF Tail(q) = <<>> THEN FALSE ELSE TRUE
                          /\ powered' = IF IsVerb(h.cmd, V_POWERON) THEN TRUE ELSE IF IsVerb(h.cmd, V_POWEROFF) THEN FALSE ELSE powered
                          /\ meas' = IF IsVerb(h.cmd, V_MEASURE) THEN <<[khz |-> m1, dbm |-> m2]>> ELSE <<>>
                          /\ UNCHANGED term

Timeout ==
  /\ ~term /\ timer
  /\ IF q = <<>> THEN timer' = FALSE /\ sent' = <<>> /\ meas' = <<>> /\ UNCHANGED <<q, st, prev, powered, term>>
     ELSE IF q[1].retry + 1 > 3 THEN Terminate(TRUE)
     ELSE LET qq == [q EXCEPT ![1].retry = @ + 1]
              r == SendHead(qq, st, prev)
          IN /\ q' = qq /\ st' = r.st /\ prev' = r.prev /\ sent' = r.sent /\ timer' = TRUE
             /\ meas' = <<>> /\ UNCHANGED <<powered, term>>

(* C05: a reply is accepted when the head command is popped and the interface
   is not terminated. *)
=============================================================================
