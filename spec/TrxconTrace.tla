---------------------------- MODULE TrxconTrace ----------------------------
(* Validates runs of the real trxcon/src/trx_if.c (driver drv_trxcon.c)
   against TrxconIf.  Events:
     enq     {texts, crit, status, sent}        commands queued by one PHYIF command
     rsp     {raw, status, sent, dbm, accept}   a datagram on the TRXC socket
     timeout {status, sent}                     the response timer fires
   status = {st, term, q, timer} as the driver reads them after the call;
   accept = the transceiver answered the head command with status 0, so the
   response must be accepted (C05).                                          *)
EXTENDS TrxconIf, TraceKit

StatusOk == /\ Ev.status.term = (IF term' THEN 1 ELSE 0)
            /\ (~term' => (Ev.status.st = st' /\ Ev.status.q = Len(q') /\ Ev.status.timer = (IF timer' THEN 1 ELSE 0)))

RECURSIVE EnqAll(_, _, _)
EnqAll(texts, crit, s) ==      \* s = [q, st, prev, timer, sent]
  IF texts = <<>> THEN s
  ELSE LET item == [cmd |-> texts[1], critical |-> crit[1], retry |-> 0]
           first == s.q = <<>>
       IN EnqAll(Tail(texts), Tail(crit),
                 [q |-> Append(s.q, item),
                  st |-> IF first THEN RSPWAIT ELSE s.st,
                  prev |-> IF first /\ s.st # RSPWAIT THEN s.st ELSE s.prev,
                  timer |-> first \/ s.timer,
                  sent |-> IF first THEN Append(s.sent, Append(texts[1], 0)) ELSE s.sent])

(* SETFH as trxcon composes it from a hopping list (trx_if_cmd_setfh): "CMD SETFH <hsn> <maio>"
   followed by one "<rx kHz> <tx kHz>" pair per channel of the list, in the order of the list
   (Rx = downlink, Tx = uplink, 3GPP TS 45.005 band plans); a list whose pairs - each followed by
   one space - need more than 999 characters is refused (-ENOSPC) and nothing is sent. *)
RECURSIVE DecPosT(_)
DecPosT(n) == IF n < 10 THEN <<48 + n>> ELSE Append(DecPosT(n \div 10), 48 + (n % 10))
Ul10(a) == IF a >= 32768 THEN 18502 + 2 * ((a - 32768) - 512)              \* PCS 1900 (ARFCN_PCS flag)
           ELSE IF a <= 124 THEN 8900 + 2 * a
           ELSE IF a >= 955 /\ a <= 1023 THEN 8900 + 2 * (a - 1024)
           ELSE IF a >= 128 /\ a <= 251 THEN 8242 + 2 * (a - 128)
           ELSE IF a >= 512 /\ a <= 885 THEN 17102 + 2 * (a - 512)
           ELSE -1
Dl10(a) == IF a >= 32768 THEN Ul10(a) + 800
           ELSE IF a >= 512 /\ a <= 885 THEN Ul10(a) + 950 ELSE Ul10(a) + 450
PairText(a) == DecPosT(Dl10(a) * 100) \o <<32>> \o DecPosT(Ul10(a) * 100) \o <<32>>
RECURSIVE PairsText(_)
PairsText(ma) == IF ma = <<>> THEN <<>> ELSE PairText(ma[1]) \o PairsText(Tail(ma))
SetfhKnown(h) == \A k \in 1..Len(h.ma) : Ul10(h.ma[k]) > 0
SetfhFits(h) == Len(PairsText(h.ma)) <= 999
SetfhText(h) == LET pt == PairsText(h.ma) IN
                <<67, 77, 68, 32, 83, 69, 84, 70, 72, 32>> \o DecPosT(h.hsn) \o <<32>> \o DecPosT(h.maio) \o <<32>>
                \o SubSeq(pt, 1, Len(pt) - 1)

\* a hopping list trxcon refused without sending anything
TH1Refused ==
  /\ IsEv("h1refused")
  /\ Tag("C05.trxcon.setfh-refusal", ~SetfhKnown(Ev.h1) \/ ~SetfhFits(Ev.h1) \/ Len(Ev.h1.ma) = 0)
  /\ UNCHANGED cvars
  /\ Adv

TEnq ==
  /\ IsEv("enq")
  /\ Tag("C05.trxcon.setfh-text", Ev.h1 = <<>> \/ (SetfhKnown(Ev.h1[1]) /\ SetfhFits(Ev.h1[1]) /\ Ev.texts = <<SetfhText(Ev.h1[1])>>))
  /\ Tag("harness.not-terminated", ~term)
  /\ LET r == EnqAll(Ev.texts, Ev.crit, [q |-> q, st |-> st, prev |-> prev, timer |-> timer, sent |-> <<>>]) IN
     /\ q' = r.q /\ st' = r.st /\ prev' = r.prev /\ timer' = r.timer /\ sent' = r.sent
     /\ meas' = <<>> /\ UNCHANGED <<powered, term>>
  /\ Tag("C05.trxcon.command-sent", sent' = Ev.sent)
  /\ Tag("C05.trxcon.status", StatusOk)
  /\ Adv

TRsp ==
  /\ IsEv("rsp")
  /\ \E a \in {0, 1} : Response(Ev.raw, a)
  /\ Tag("C14.trxcon.orderly", sent' = Ev.sent /\ StatusOk)
  /\ Tag("C05.trxcon.reply-accepted", Ev.accept => (~term' /\ Len(q') = Len(q) - 1))
  /\ Tag("C05.trxcon.measure-result", (Ev.accept /\ Ev.dbm # <<>>) => (meas' # <<>> /\ meas'[1].dbm.ok /\ meas'[1].dbm.v = Ev.dbm[1]))
  /\ Adv

TTimeout ==
  /\ IsEv("timeout")
  /\ IF timer /\ ~term THEN Timeout ELSE (sent' = <<>> /\ meas' = <<>> /\ UNCHANGED <<q, st, prev, powered, timer, term>>)
  /\ Tag("C14.trxcon.orderly", sent' = Ev.sent /\ StatusOk)
  /\ Adv

TInit == KInit /\ CInit
TNext == TEnq \/ TH1Refused \/ TRsp \/ TTimeout
TSpec == TInit /\ [][TNext]_<<cvars, kvars>>
Post == WriteVerdicts
=============================================================================
