---------------------------- MODULE TrxconTrace ----------------------------
(* Validates runs of the real trxcon/src/trx_if.c (driver drv_trxcon.c)
   against TrxconIf.  Events:
     enq     {texts, crit, status, sent}        commands queued by one PHYIF command
     rsp     {raw, status, sent, dbm, accept}   a datagram on the TRXC socket
     timeout {status, sent}                     the response timer fires
   status = {st, term, q, timer} as the driver reads them after the call;
   accept = the transceiver answered the head command with status 0, so the
   response must be accepted (C05).                                          *)
EXTENDS TrxconIf, TraceKit

StatusOk == /\ Ev.status.term = (IF term' THEN 1 ELSE 0)
            /\ (~term' => (Ev.status.st = st' /\ Ev.status.q = Len(q') /\ Ev.status.timer = (IF timer' THEN 1 ELSE 0)))

RECURSIVE EnqAll(_, _, _)
EnqAll(texts, crit, s) ==      \* s = [q, st, prev, timer, sent]
  IF texts = <<>> THEN s
  ELSE LET item == [cmd |-> texts[1], critical |-> crit[1], retry |-> 0]
           first == s.q = <<>>
       IN EnqAll(Tail(texts), Tail(crit),
                 [q |-> Append(s.q, item),
                  st |-> IF first THEN RSPWAIT ELSE s.st,
                  prev |-> IF first /\ s.st # RSPWAIT THEN s.st ELSE s.prev,
                  timer |-> first \/ s.timer,
                  sent |-> IF first THEN Append(s.sent, Append(texts[1], 0)) ELSE s.sent])

TEnq ==
  /\ IsEv("enq")
  /\ Tag("harness.not-terminated", ~term)
  /\ LET r == EnqAll(Ev.texts, Ev.crit, [q |-> q, st |-> st, prev |-> prev, timer |-> timer, sent |-> <<>>]) IN
     /\ q' = r.q /\ st' = r.st /\ prev' = r.prev /\ timer' = r.timer /\ sent' = r.sent
     /\ meas' = <<>> /\ UNCHANGED <<powered, term>>
  /\ Tag("C05.trxcon.command-sent", sent' = Ev.sent)
  /\ Tag("C05.trxcon.status", StatusOk)
  /\ Adv

TRsp ==
  /\ IsEv("rsp")
  /\ \E a \in {0, 1} : Response(Ev.raw, a)
  /\ Tag("C14.trxcon.orderly", sent' = Ev.sent /\ StatusOk)
  /\ Tag("C05.trxcon.reply-accepted", Ev.accept => (~term' /\ Len(q') = Len(q) - 1))
  /\ Tag("C05.trxcon.measure-result", (Ev.accept /\ Ev.dbm # <<>>) => (meas' # <<>> /\ meas'[1].dbm.ok /\ meas'[1].dbm.v = Ev.dbm[1]))
  /\ Adv

TTimeout ==
  /\ IsEv("timeout")
  /\ IF timer /\ ~term THEN Timeout ELSE (sent' = <<>> /\ meas' = <<>> /\ UNCHANGED <<q, st, prev, powered, timer, term>>)
  /\ Tag("C14.trxcon.orderly", sent' = Ev.sent /\ StatusOk)
  /\ Adv

TInit == KInit /\ CInit
TNext == TEnq \/ TRsp \/ TTimeout
TSpec == TInit /\ [][TNext]_<<cvars, kvars>>
Post == WriteVerdicts
=============================================================================
