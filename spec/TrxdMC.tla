------------------------------ MODULE TrxdMC ------------------------------
(* Design-level check of the TRXD layout (C01, C04): every valid message of
   the scaled-down layout (GB = 3) decodes from its own encoding to the same
   message, with and without legacy padding; the version-0 length guessing is
   unambiguous.  Messages are enumerated as initial states.                *)
EXTENDS TrxdPdu, FiniteSets, TLC

\* boundary values of every header field (cfg files cannot hold negative numbers)
Fns == {0, 255, 65536, 2715647}
Tns == {0, 7}
Pwrs == {0, 255}
Rssis == {-120, -47}
Toas == {-32768, -1, 0, 32767}
Cis == {-1280, 0, 1280}
SoftAlpha == {-127, -1, 0, 1, 127}

VARIABLE m, legacy
vars == <<m, legacy>>

Bits(n, A) == [1..n -> A]
TxBursts == Bits(GB, {0, 1}) \cup Bits(3 * GB, {0, 1})
Uniform(n) == {[i \in 1..n |-> s] : s \in SoftAlpha}
OneHot(n) == {[i \in 1..n |-> IF i = k THEN -127 ELSE 126] : k \in 1..n}
SoftBursts(n) == IF n <= GB THEN Bits(n, SoftAlpha)
                 ELSE IF n <= 3 * GB THEN Bits(n, {-127, 127}) \cup Uniform(n) \cup OneHot(n)
                 ELSE Uniform(n) \cup OneHot(n)

OneBits(n) == {[i \in 1..n |-> 1]}
OneSoft(n) == {[i \in 1..n |-> -127]}
\* family (a): every header boundary combination, one burst per length
\* family (b): one header, every burst content
TxMsgs == [cls : {"tx"}, ver : KnownVersions, fn : Fns, tn : Tns, pwr : Pwrs,
           burst : {Burst(b) : b \in OneBits(GB) \cup OneBits(3 * GB)}]
          \cup [cls : {"tx"}, ver : KnownVersions, fn : {65536}, tn : {7}, pwr : {255},
                burst : {Burst(b) : b \in TxBursts}]
RxV0 == [cls : {"rx"}, ver : {0}, fn : Fns, tn : Tns, rssi : Rssis, toa : Toas,
         burst : {Burst(b) : b \in OneSoft(GB) \cup OneSoft(3 * GB)}]
        \cup [cls : {"rx"}, ver : {0}, fn : {255}, tn : {0}, rssi : {-47}, toa : {-1},
              burst : {Burst(b) : b \in SoftBursts(GB) \cup SoftBursts(3 * GB)}]
RxV1 == UNION {
          [cls : {"rx"}, ver : {1}, fn : Fns, tn : Tns, rssi : Rssis, toa : Toas, nope : {FALSE},
           mod : {md}, tscset : (IF md = "GMSK" THEN 0..3 ELSE 0..1), tsc : {0, 5, 7}, ci : Cis,
           burst : {Burst(b) : b \in OneSoft(ModBL(md))}]
          \cup [cls : {"rx"}, ver : {1}, fn : {2715647}, tn : {7}, rssi : {-120}, toa : {-32768}, nope : {FALSE},
           mod : {md}, tscset : {1}, tsc : {7}, ci : {-1280},
           burst : {Burst(b) : b \in SoftBursts(ModBL(md))}] : md \in Mods}
RxNope == [cls : {"rx"}, ver : {1}, fn : Fns, tn : Tns, rssi : Rssis, toa : Toas, nope : {TRUE},
           mod : {"GMSK"}, tscset : {0}, tsc : {0}, ci : Cis, burst : {NoBurst}]

Init == m \in TxMsgs \cup RxV0 \cup RxV1 \cup RxNope /\ legacy \in BOOLEAN
Next == UNCHANGED vars
Spec == Init /\ [][Next]_vars

Enc == IF m.cls = "tx" THEN EncTx(m, legacy) ELSE EncRx(m, legacy)
Dec == IF m.cls = "tx" THEN DecTx(Enc) ELSE DecRx(Enc)

\* C01: decoding the own encoding gives back every field, with or without padding
RoundTrip == Dec.ok /\ (IF m.cls = "tx" THEN SameTx(m, Dec.m) ELSE SameRx(m, Dec.m))
\* C04: octets are octets, and the length is what the layout prescribes
Octets == \A i \in 1..Len(Enc) : Enc[i] \in 0..255
Length == Len(Enc) = (IF m.cls = "tx" THEN 6 ELSE RxHdrLen(m.ver))
                     + (IF m.burst.has THEN Len(m.burst.bits) ELSE 0)
                     + (IF legacy /\ m.ver = 0 THEN 2 ELSE 0)
=============================================================================
