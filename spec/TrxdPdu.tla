----------------------------- MODULE TrxdPdu -----------------------------
(* The TRXD (burst data) PDU layout, written from the protocol description:

     octet 1      version (high nibble) | TDMA timeslot number (low 3 bits)
     octets 2..5  TDMA frame number, big endian
   L1 -> TRX (Tx):  attenuation octet, then hard bits, one octet 0/1 per bit
   TRX -> L1 (Rx):  RSSI as -dBm, ToA256 big-endian int16,
                    version >= 1: MTS octet (NOPE<<7 | modulation/TSC set <<3 | TSC),
                                  C/I big-endian int16,
                    then soft bits as 127 - s (0 = certain "0" .. 254 = certain "1")
                    version 0: optionally two legacy padding octets.

   Messages are records; an absent burst is [has |-> FALSE].  GB is the GMSK
   burst length (148; a small value in the exhaustive configuration).       *)
EXTENDS Integers, Sequences, TLC

CONSTANT GB

Hyperframe == 2715648
KnownVersions == {0, 1}

\* modulation name -> [code in the MTS octet, burst length factor]
Mods == {"GMSK", "8PSK", "GMSK_AB", "16QAM", "32QAM", "AQPSK"}
ModCode(m) == CASE m = "GMSK" -> 0 [] m = "8PSK" -> 4 [] m = "GMSK_AB" -> 6
                [] m = "16QAM" -> 8 [] m = "32QAM" -> 10 [] m = "AQPSK" -> 12
ModK(m)    == CASE m = "GMSK" -> 1 [] m = "8PSK" -> 3 [] m = "GMSK_AB" -> 1
                [] m = "16QAM" -> 4 [] m = "32QAM" -> 5 [] m = "AQPSK" -> 2
ModBL(m) == ModK(m) * GB
ModOfCode(c) == IF \E m \in Mods : ModCode(m) = c
                THEN CHOOSE m \in Mods : ModCode(m) = c ELSE "unknown"
\* version-0 receivers guess the modulation from the length (GMSK wins over GMSK_AB)
ModOfLen(n) == CASE n = GB -> "GMSK" [] n = 2 * GB -> "AQPSK" [] n = 3 * GB -> "8PSK"
                 [] n = 4 * GB -> "16QAM" [] n = 5 * GB -> "32QAM" [] OTHER -> "unknown"

----------------------------------------------------------------------------
(* integer codings *)
U32BE(n) == <<n \div 16777216, (n \div 65536) % 256, (n \div 256) % 256, n % 256>>
I16BE(x) == LET u == IF x < 0 THEN x + 65536 ELSE x IN <<u \div 256, u % 256>>
FromI16(hi, lo) == LET u == hi * 256 + lo IN IF u >= 32768 THEN u - 65536 ELSE u
\* only for frame numbers known to be below 2^31
FromU32(o) == ((o[1] * 256 + o[2]) * 256 + o[3]) * 256 + o[4]

USoft(s) == 127 - s                                   \* -127..127 -> 254..0
SoftOf(u) == IF u = 255 THEN -127 ELSE 127 - u
SoftOfHard(b) == IF b = 0 THEN 127 ELSE -127          \* full-confidence soft bit

MapSeq(f(_), s) == [i \in 1..Len(s) |-> f(s[i])]
Prefix(s, n) == SubSeq(s, 1, n)
NoBurst == [has |-> FALSE, bits |-> <<>>]
Burst(b) == [has |-> TRUE, bits |-> b]

----------------------------------------------------------------------------
(* MTS octet *)
MtsOf(m) == IF m.nope THEN 128 ELSE (ModCode(m.mod) + m.tscset) * 8 + m.tsc
MtsNope(o) == o >= 128
MtsTsc(o) == o % 8
MtsX(o) == (o \div 8) % 16
MtsMod(o) == IF MtsX(o) >= 4 THEN ModOfCode(MtsX(o) - (MtsX(o) % 2)) ELSE "GMSK"
MtsSet(o) == IF MtsX(o) >= 4 THEN MtsX(o) % 2 ELSE MtsX(o) % 4

----------------------------------------------------------------------------
(* Encoding *)
Hdr(m) == <<m.ver * 16 + m.tn>> \o U32BE(m.fn)
Pad(m, legacy) == IF legacy /\ m.ver = 0 THEN <<0, 0>> ELSE <<>>

EncTx(m, legacy) ==
  Hdr(m) \o <<m.pwr>> \o (IF m.burst.has THEN m.burst.bits ELSE <<>>) \o Pad(m, legacy)

EncRx(m, legacy) ==
  Hdr(m) \o <<-m.rssi>> \o I16BE(m.toa)
         \o (IF m.ver >= 1 THEN <<MtsOf(m)>> \o I16BE(m.ci) ELSE <<>>)
         \o (IF m.burst.has THEN MapSeq(USoft, m.burst.bits) ELSE <<>>)
         \o Pad(m, legacy)

----------------------------------------------------------------------------
(* Decoding.  Result: [ok |-> FALSE] or [ok |-> TRUE, m |-> message].  The
   frame number is returned as its four octets (fnb) so that arbitrary
   datagrams stay inside TLC's 32-bit integers.                            *)
Err == [ok |-> FALSE]
Ok(m) == [ok |-> TRUE, m |-> m]
TxHdrLen == 6
RxHdrLen(ver) == IF ver = 0 THEN 8 ELSE 11

DecTx(o) ==
  IF Len(o) < 5 THEN Err
  ELSE LET ver == o[1] \div 16 IN
  IF ver \notin KnownVersions \/ Len(o) < TxHdrLen THEN Err
  ELSE LET p == SubSeq(o, TxHdrLen + 1, Len(o))
           n == Len(p)
           b == IF n = 0 THEN NoBurst
                ELSE IF n >= 3 * GB THEN Burst(Prefix(p, 3 * GB))
                ELSE IF n > GB THEN Burst(Prefix(p, GB))
                ELSE Burst(p)
       IN Ok([ver |-> ver, tn |-> o[1] % 8, fnb |-> SubSeq(o, 2, 5), pwr |-> o[6], burst |-> b])

DecRx(o) ==
  IF Len(o) < 5 THEN Err
  ELSE LET ver == o[1] \div 16 IN
  IF ver \notin KnownVersions \/ Len(o) < RxHdrLen(ver) THEN Err
  ELSE LET h == RxHdrLen(ver)
           p == SubSeq(o, h + 1, Len(o))
           n == Len(p)
           base == [ver |-> ver, tn |-> o[1] % 8, fnb |-> SubSeq(o, 2, 5),
                    rssi |-> -o[6], toa |-> FromI16(o[7], o[8])]
       IN IF ver = 0
          THEN LET g == IF ModOfLen(n) # "unknown" THEN ModOfLen(n) ELSE ModOfLen(n - 2) IN
               IF n = 0 THEN Ok(base @@ [burst |-> NoBurst, mod |-> "unset"])
               ELSE IF g = "unknown" THEN Err
               ELSE Ok(base @@ [mod |-> g, burst |-> Burst(MapSeq(SoftOf, Prefix(p, ModBL(g))))])
          ELSE LET mts == o[9] IN
               Ok(base @@ [nope |-> MtsNope(mts),
                           mod |-> IF MtsNope(mts) THEN "none" ELSE MtsMod(mts),
                           tscset |-> IF MtsNope(mts) THEN -1 ELSE MtsSet(mts),
                           tsc |-> IF MtsNope(mts) THEN -1 ELSE MtsTsc(mts),
                           ci |-> FromI16(o[10], o[11]),
                           burst |-> IF n = 0 THEN NoBurst ELSE Burst(MapSeq(SoftOf, p))])

----------------------------------------------------------------------------
(* Validity (C13).  Optional fields are sequences: <<>> = not set, <<v>> = v. *)
Set(f) == Len(f) = 1
In(f, lo, hi) == Set(f) /\ f[1] >= lo /\ f[1] <= hi

ValidCommon(c) == /\ In(c.ver, 0, 1) /\ In(c.fn, 0, Hyperframe - 1) /\ In(c.tn, 0, 7)

ValidTxCase(c) ==
  /\ ValidCommon(c) /\ In(c.pwr, 0, 255)
  /\ Set(c.blen) /\ c.blen[1] \in {GB, 3 * GB}

ValidRxCase(c) ==
  /\ ValidCommon(c) /\ In(c.rssi, -120, -47) /\ In(c.toa, -32768, 32767)
  /\ IF c.ver[1] = 0
     THEN Set(c.blen) /\ c.blen[1] \in {GB, 3 * GB}
     ELSE /\ In(c.ci, -1280, 1280)
          /\ IF c.nope THEN ~Set(c.blen)
             ELSE /\ c.mod \in Mods
                  /\ In(c.tscset, 0, IF c.mod = "GMSK" THEN 3 ELSE 1)
                  /\ In(c.tsc, 0, 7)
                  /\ Set(c.blen) /\ c.blen[1] = ModBL(c.mod)

----------------------------------------------------------------------------
(* Equality of messages over the fields that exist in the message's version
   (C01): a is the original, d a decoded message (with fnb).               *)
SameTx(a, d) == /\ d.ver = a.ver /\ d.tn = a.tn /\ d.fnb = U32BE(a.fn)
                /\ d.pwr = a.pwr /\ d.burst = a.burst
SameRx(a, d) ==
  /\ d.ver = a.ver /\ d.tn = a.tn /\ d.fnb = U32BE(a.fn)
  /\ d.rssi = a.rssi /\ d.toa = a.toa /\ d.burst = a.burst
  \* version 0 has no modulation on the wire: it is the one the burst length implies (what a version-1
  \* recipient of the forwarded message is told)
  /\ (a.ver = 0 /\ a.burst.has) => d.mod = (IF Len(a.burst.bits) = 3 * GB THEN "8PSK" ELSE "GMSK")
  /\ a.ver >= 1 =>
       /\ d.nope = a.nope /\ d.ci = a.ci
       /\ ~a.nope => (d.mod = a.mod /\ d.tscset = a.tscset /\ d.tsc = a.tsc)
=============================================================================
