----------------------------- MODULE TrxdProto -----------------------------
(* The TRXD PDUs of versions 0, 1 and 2 as value-dictionary <-> octets
   operators (C17), on top of the layout module TrxdPdu:

   v0/v1:  octet 1 = version nibble | RFU bit | TN;  FN (4, big endian);
     Tx:   attenuation; hard bits
     Rx:   -RSSI; ToA256 (int16 BE); v1: MTS, C/I (int16 BE); soft bits
           (unsigned, as on the wire); v0: 148 or 444 soft bits + optional
           2 padding octets
   v2:     octet 1 = version | RFU | TN;  octet 2 = BATCH | RFU (SHADOW in
           batched parts) | TRXN (6);  then MTS first;
     Rx:   -RSSI; ToA256; C/I; FN (first part only); soft bits
     Tx:   attenuation; SCPIR (int8); 3 spare octets; FN (first part only); hard bits
           followed by any number of batched parts whose first octet carries
           RFU bits instead of the version.
   MTS = NOPE<<7 | MOD(4)<<3 | TSC(3); the burst length follows MOD; a NOPE
   part carries no burst.  Values: nope/batch/shadow are 0/1 integers.       *)
EXTENDS TrxdPdu

\* burst length by the 4 modulation bits (0b00xx GMSK, 0b010x 8-PSK, 0b011x
\* GMSK access burst, 0b100x 16QAM, 0b101x 32QAM, 0b110x AQPSK); others: unassigned
ModLen(mod) == CASE mod \in 0..3 -> GB [] mod \in {4, 5} -> 3 * GB [] mod \in {6, 7} -> GB
                 [] mod \in {8, 9} -> 4 * GB [] mod \in {10, 11} -> 5 * GB
                 [] mod \in {12, 13} -> 2 * GB [] OTHER -> -1
MtsV(v) == v.nope * 128 + v.mod * 8 + v.tsc
I8(x) == IF x < 0 THEN x + 256 ELSE x
FromI8(o) == IF o >= 128 THEN o - 256 ELSE o

PErr == [ok |-> FALSE]
POk(v, n) == [ok |-> TRUE, v |-> v, used |-> n]

----------------------------------------------------------------------------
(* Encoding *)
H1(ver, v) == <<ver * 16 + v.tn>>
H2(v, batched) == <<(IF batched THEN 0 ELSE 32) + v.tn,
                    v.batch * 128 + (IF batched THEN v.shadow * 64 ELSE 0) + v.trxn>>
RxMeas(v) == <<-v.rssi>> \o I16BE(v.toa256)
BurstOf(v, key) == IF v.nope = 1 THEN <<>> ELSE v[key]

EncV0Tx(v) == H1(0, v) \o U32BE(v.fn) \o <<v.pwr>> \o v.hard
EncV1Tx(v) == H1(1, v) \o U32BE(v.fn) \o <<v.pwr>> \o v.hard
EncV0Rx(v) == H1(0, v) \o U32BE(v.fn) \o RxMeas(v) \o v.soft \o v.pad
EncV1Rx(v) == H1(1, v) \o U32BE(v.fn) \o RxMeas(v) \o <<MtsV(v)>> \o I16BE(v.cir) \o BurstOf(v, "soft")

RxPart(v, batched) ==
  H2(v, batched) \o <<MtsV(v)>> \o RxMeas(v) \o I16BE(v.cir)
  \o (IF batched THEN <<>> ELSE U32BE(v.fn)) \o BurstOf(v, "soft")
TxPart(v, batched) ==
  H2(v, batched) \o <<MtsV(v), v.pwr, I8(v.scpir), 0, 0, 0>>
  \o (IF batched THEN <<>> ELSE U32BE(v.fn)) \o BurstOf(v, "hard")
RECURSIVE CatParts(_, _)
CatParts(s, rx) == IF s = <<>> THEN <<>>
                   ELSE (IF rx THEN RxPart(s[1], TRUE) ELSE TxPart(s[1], TRUE)) \o CatParts(Tail(s), rx)
EncV2Rx(v) == RxPart(v, FALSE) \o CatParts(v.bpdu, TRUE)
EncV2Tx(v) == TxPart(v, FALSE) \o CatParts(v.bpdu, FALSE)

PduEnc(cls, v) == CASE cls = "v0Tx" -> EncV0Tx(v) [] cls = "v1Tx" -> EncV1Tx(v)
                    [] cls = "v0Rx" -> EncV0Rx(v) [] cls = "v1Rx" -> EncV1Rx(v)
                    [] cls = "v2Rx" -> EncV2Rx(v) [] cls = "v2Tx" -> EncV2Tx(v)

----------------------------------------------------------------------------
(* Decoding (reserved bits ignored; wrong version nibble rejected) *)
Ver(o) == o[1] \div 16
Tn(o) == o[1] % 8
Rest(o, n) == SubSeq(o, n + 1, Len(o))

DecVTx(ver, o) ==
  IF Len(o) < 6 \/ Ver(o) # ver THEN PErr
  ELSE POk([ver |-> ver, tn |-> Tn(o), fn |-> FromU32(SubSeq(o, 2, 5)), pwr |-> o[6], hard |-> Rest(o, 6)], Len(o))

DecV0Rx(o) ==
  IF Len(o) < 8 \/ Ver(o) # 0 THEN PErr
  ELSE LET n == Len(o) - 8
           bl == IF n >= 3 * GB THEN 3 * GB ELSE GB IN
       IF n < bl THEN PErr
       ELSE POk([ver |-> 0, tn |-> Tn(o), fn |-> FromU32(SubSeq(o, 2, 5)), rssi |-> -o[6],
                 toa256 |-> FromI16(o[7], o[8]), soft |-> SubSeq(o, 9, 8 + bl), pad |-> Rest(o, 8 + bl)], Len(o))

MtsFields(m) == [nope |-> m \div 128, mod |-> (m \div 8) % 16, tsc |-> m % 8]

DecV1Rx(o) ==
  IF Len(o) < 11 \/ Ver(o) # 1 THEN PErr
  ELSE LET mf == MtsFields(o[9])
           bl == IF mf.nope = 1 THEN 0 ELSE ModLen(mf.mod) IN
       IF bl < 0 \/ Len(o) # 11 + bl THEN PErr
       ELSE POk([ver |-> 1, tn |-> Tn(o), fn |-> FromU32(SubSeq(o, 2, 5)), rssi |-> -o[6],
                 toa256 |-> FromI16(o[7], o[8]), cir |-> FromI16(o[10], o[11])] @@ mf
                @@ [soft |-> Rest(o, 11)], Len(o))

\* one part of a v2 PDU starting at octet p+1; result: [ok, v, used]
RxPartDec(o, p, batched) ==
  LET hl == IF batched THEN 8 ELSE 12 IN
  IF Len(o) < p + hl \/ (~batched /\ o[p + 1] \div 16 # 2) THEN PErr
  ELSE LET mf == MtsFields(o[p + 3])
           bl == IF mf.nope = 1 THEN 0 ELSE ModLen(mf.mod) IN
       IF bl < 0 \/ Len(o) < p + hl + bl THEN PErr
       ELSE POk([tn |-> o[p + 1] % 8, batch |-> o[p + 2] \div 128, trxn |-> o[p + 2] % 64,
                 rssi |-> -o[p + 4], toa256 |-> FromI16(o[p + 5], o[p + 6]), cir |-> FromI16(o[p + 7], o[p + 8])]
                @@ mf
                @@ (IF batched THEN [shadow |-> (o[p + 2] \div 64) % 2]
                    ELSE [ver |-> 2, fn |-> FromU32(SubSeq(o, p + 9, p + 12))])
                @@ [soft |-> SubSeq(o, p + hl + 1, p + hl + bl)], hl + bl)

TxPartDec(o, p, batched) ==
  LET hl == IF batched THEN 8 ELSE 12 IN
  IF Len(o) < p + hl \/ (~batched /\ o[p + 1] \div 16 # 2) THEN PErr
  ELSE LET mf == MtsFields(o[p + 3])
           bl == IF mf.nope = 1 THEN 0 ELSE ModLen(mf.mod) IN
       IF bl < 0 \/ Len(o) < p + hl + bl THEN PErr
       ELSE POk([tn |-> o[p + 1] % 8, batch |-> o[p + 2] \div 128, trxn |-> o[p + 2] % 64,
                 pwr |-> o[p + 4], scpir |-> FromI8(o[p + 5])]
                @@ mf
                @@ (IF batched THEN [shadow |-> (o[p + 2] \div 64) % 2]
                    ELSE [ver |-> 2, fn |-> FromU32(SubSeq(o, p + 9, p + 12))])
                @@ [hard |-> SubSeq(o, p + hl + 1, p + hl + bl)], hl + bl)

RECURSIVE PartsDec(_, _, _)
PartsDec(o, p, rx) ==   \* batched parts from offset p to the end: [ok, ps]
  IF p >= Len(o) THEN [ok |-> TRUE, ps |-> <<>>]
  ELSE LET d == IF rx THEN RxPartDec(o, p, TRUE) ELSE TxPartDec(o, p, TRUE) IN
       IF ~d.ok THEN [ok |-> FALSE, ps |-> <<>>]
       ELSE LET rest == PartsDec(o, p + d.used, rx) IN
            IF ~rest.ok THEN rest ELSE [ok |-> TRUE, ps |-> <<d.v>> \o rest.ps]

DecV2(o, rx) ==
  LET d == IF rx THEN RxPartDec(o, 0, FALSE) ELSE TxPartDec(o, 0, FALSE) IN
  IF ~d.ok THEN PErr
  ELSE LET r == PartsDec(o, d.used, rx) IN
       IF ~r.ok THEN PErr ELSE POk(d.v @@ [bpdu |-> r.ps], Len(o))

PduDec(cls, o) == CASE cls = "v0Tx" -> DecVTx(0, o) [] cls = "v1Tx" -> DecVTx(1, o)
                    [] cls = "v0Rx" -> DecV0Rx(o) [] cls = "v1Rx" -> DecV1Rx(o)
                    [] cls = "v2Rx" -> DecV2(o, TRUE) [] cls = "v2Tx" -> DecV2(o, FALSE)

\* The values the definition of the matching class must report for a datagram
\* that the message codec produced from message m (C17, last sentence).
CrossVals(m, raw) ==
  IF m.cls = "tx"
  THEN [ver |-> m.ver, tn |-> m.tn, fn |-> m.fn, pwr |-> m.pwr, hard |-> m.burst.bits]
  ELSE IF m.ver = 0
  THEN [ver |-> 0, tn |-> m.tn, fn |-> m.fn, rssi |-> m.rssi, toa256 |-> m.toa,
        soft |-> MapSeq(USoft, m.burst.bits), pad |-> Rest(raw, 8 + Len(m.burst.bits))]
  ELSE [ver |-> 1, tn |-> m.tn, fn |-> m.fn, rssi |-> m.rssi, toa256 |-> m.toa, cir |-> m.ci,
        nope |-> IF m.nope THEN 1 ELSE 0,
        mod |-> IF m.nope THEN 0 ELSE ModCode(m.mod) + m.tscset,
        tsc |-> IF m.nope THEN 0 ELSE m.tsc,
        soft |-> IF m.burst.has THEN MapSeq(USoft, m.burst.bits) ELSE <<>>]
=============================================================================
