---------------------------- MODULE TrxdProtoMC ----------------------------
(* Design check of the PDU operators with the scaled layout (GB = 3):
   PduDec(PduEnc(v)) = v for every v1 Rx header / MTS combination and for v2
   PDUs with 0..2 batched parts (every assigned modulation code, NOPE).     *)
EXTENDS TrxdProto, TLC

VARIABLE cls, v
vars == <<cls, v>>

ModsA == {0, 3, 4, 5, 6, 8, 9, 10, 11, 12, 13}
Bits(n) == {[k \in 1..n |-> 0], [k \in 1..n |-> IF k = 1 THEN 254 ELSE 7]}
HBits(n) == {[k \in 1..n |-> k % 2]}

V1Rx == UNION {[ver : {1}, tn : {0, 7}, fn : {0, 2715647}, rssi : {0, -120, -255}, toa256 : {-32768, 32767},
                cir : {-1, 1280}, nope : {0}, mod : {md}, tsc : {0, 7}, soft : Bits(ModLen(md))] : md \in ModsA}
        \cup [ver : {1}, tn : {3}, fn : {77}, rssi : {-110}, toa256 : {0}, cir : {-30}, nope : {1}, mod : {0, 15}, tsc : {0, 7}, soft : {<<>>}]

RxB == UNION {[tn : {5}, batch : {0, 1}, shadow : {0, 1}, trxn : {0, 63}, rssi : {-60}, toa256 : {-1}, cir : {90},
               nope : {0}, mod : {md}, tsc : {1}, soft : Bits(ModLen(md))] : md \in {0, 4, 12}}
       \cup [tn : {0}, batch : {1}, shadow : {0}, trxn : {1}, rssi : {-110}, toa256 : {0}, cir : {-30}, nope : {1}, mod : {0}, tsc : {0}, soft : {<<>>}]
TxB == UNION {[tn : {5}, batch : {0, 1}, shadow : {0, 1}, trxn : {63}, pwr : {0, 255}, scpir : {-128, 127},
               nope : {0}, mod : {md}, tsc : {1}, hard : HBits(ModLen(md))] : md \in {0, 9}}
Seqs(S) == {<<>>} \cup {<<a>> : a \in S} \cup {<<a, b>> : a \in S, b \in S}
V2Rx == {[ver |-> 2, tn |-> 1, batch |-> b, trxn |-> 9, rssi |-> -47, toa256 |-> 256, cir |-> 0, fn |-> 65536,
          nope |-> 0, mod |-> 10, tsc |-> 6, soft |-> [k \in 1..ModLen(10) |-> k], bpdu |-> s] : b \in {0, 1}, s \in Seqs(RxB)}
V2Tx == {[ver |-> 2, tn |-> 1, batch |-> 1, trxn |-> 9, pwr |-> 10, scpir |-> -1, fn |-> 2715647,
          nope |-> 0, mod |-> 0, tsc |-> 6, hard |-> <<1, 0, 1>>, bpdu |-> s] : s \in Seqs(TxB)}

Init == \/ cls = "v1Rx" /\ v \in V1Rx
        \/ cls = "v2Rx" /\ v \in V2Rx
        \/ cls = "v2Tx" /\ v \in V2Tx
Next == UNCHANGED vars
Spec == Init /\ [][Next]_vars

RoundTrip == LET d == PduDec(cls, PduEnc(cls, v)) IN d.ok /\ d.v = v
Octets == \A k \in 1..Len(PduEnc(cls, v)) : PduEnc(cls, v)[k] \in 0..255
=============================================================================
