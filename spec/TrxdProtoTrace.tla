-------------------------- MODULE TrxdProtoTrace --------------------------
(* Records of the real declarative PDU definitions (trxd_proto.py) judged
   against TrxdProto (see RecKit for the record skeleton):
     penc  {cls, vals, raw, err, back}     to_bytes(vals); back = from_bytes(raw)
     pres  {cls, raw, raw2, res}           raw2 = raw with reserved bits set
     pver  {cls, raw2, res}                raw2 has a wrong version nibble
     pcut  {cls, raw2, res}                raw2 is a proper prefix of an encoding
     cross {cls, m, raw, res}              raw = gen_msg() of message m       *)
EXTENDS TrxdProto, TLCExt, Json, IOUtils, SequencesExt, FiniteSetsExt

Recs == JsonDeserialize(IOEnv.TRACE_FILE)
VARIABLE i

EncFailed(r) ==
  (IF r.err = "" /\ r.raw = PduEnc(r.cls, r.vals) THEN {} ELSE {"C17.enc.octets"})
  \cup (IF r.err = "" /\ r.back.ok /\ PduDec(r.cls, r.raw).ok /\ r.back.vals = PduDec(r.cls, r.raw).v
        THEN {} ELSE {"C17.dec.layout"})
  \cup (IF r.err = "" /\ r.back.ok /\ r.back.vals = r.vals THEN {} ELSE {"C17.roundtrip"})

ResFailed(r) ==
  IF r.res.ok /\ PduDec(r.cls, r.raw).ok /\ r.res.vals = PduDec(r.cls, r.raw).v THEN {} ELSE {"C17.reserved-bits-ignored"}
VerFailed(r) == IF ~r.res.ok /\ r.res.exc = "DecodeError" THEN {} ELSE {"C17.wrong-version-rejected"}
CutFailed(r) ==
  \* a proper prefix of a v0/v1 encoding must be refused by the codec's own error;
  \* (a prefix of a batched v2 PDU may itself be a shorter valid PDU)
  IF PduDec(r.cls, r.raw2).ok THEN (IF r.res.ok /\ r.res.vals = PduDec(r.cls, r.raw2).v THEN {} ELSE {"C17.dec.layout"})
  ELSE IF ~r.res.ok /\ r.res.exc = "DecodeError" THEN {} ELSE {"C17.short-input-rejected"}
CrossFailed(r) ==
  IF r.res.ok /\ r.res.vals = CrossVals(r.m, r.raw) THEN {} ELSE {"C17.accepts-message-codec-datagrams"}

Failed(r) == CASE r.e = "penc" -> EncFailed(r) [] r.e = "pres" -> ResFailed(r) [] r.e = "pver" -> VerFailed(r)
               [] r.e = "pcut" -> CutFailed(r) [] r.e = "cross" -> CrossFailed(r)

RInit == i = 0
RNext == i < Len(Recs) /\ i' = i + 1 /\ TLCSet(i + 1, Failed(Recs[i + 1]))
RSpec == RInit /\ [][RNext]_i
Post == JsonSerialize(IOEnv.OUT_FILE,
          [k \in 1..Len(Recs) |-> [id |-> Recs[k].id, failed |-> SetToSeq(TLCGet(k))]])
=============================================================================
