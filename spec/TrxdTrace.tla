----------------------------- MODULE TrxdTrace -----------------------------
(* Conformance of the real TRXD codecs to TrxdPdu (records, see RecKit):
     enc   - data_msg.py gen_msg() on a valid message, then its own parse_msg()
     dec   - data_msg.py parse_msg() on an arbitrary datagram
     cind  - trxcon trx_data_rx_cb() on a version-0 datagram produced by Python
     creq  - trxcon trx_if_handle_phyif_burst_req(): octets sent, and Python's
             parse of them
   Clause tags are prefixed with the property they belong to.              *)
EXTENDS TrxdPdu, TLC, TLCExt, Json, IOUtils, SequencesExt, FiniteSetsExt

Recs == JsonDeserialize(IOEnv.TRACE_FILE)
VARIABLE i

Enc(r) == IF r.cls = "tx" THEN EncTx(r.m, r.legacy) ELSE EncRx(r.m, r.legacy)
Dec(cls, raw) == IF cls = "tx" THEN DecTx(raw) ELSE DecRx(raw)
Same(cls, a, d) == IF cls = "tx" THEN SameTx(a, d) ELSE SameRx(a, d)

HdrLen(cls, raw) == IF cls = "tx" THEN TxHdrLen ELSE RxHdrLen(raw[1] \div 16)
HeaderOk(cls, raw) == /\ Len(raw) >= 5 /\ (raw[1] \div 16) \in KnownVersions
                      /\ Len(raw) >= HdrLen(cls, raw)
Payload(cls, raw) == SubSeq(raw, HdrLen(cls, raw) + 1, Len(raw))
Canonical(cls, raw) ==
  LET n == Len(Payload(cls, raw)) IN
  IF cls = "tx" THEN n \in {0, GB, 3 * GB}
  ELSE IF raw[1] \div 16 = 0 THEN n = 0 \/ ModOfLen(n) # "unknown" \/ ModOfLen(n - 2) # "unknown"
  ELSE IF MtsNope(raw[9]) THEN n = 0
  ELSE MtsMod(raw[9]) # "unknown" /\ n = ModBL(MtsMod(raw[9]))
NoBits(m) == [f \in (DOMAIN m) \ {"burst", "mod"} |-> m[f]]
PrefixOk(cls, raw, b) ==
  b.has => /\ Len(b.bits) <= Len(Payload(cls, raw))
           /\ b.bits = (IF cls = "tx" THEN Prefix(Payload(cls, raw), Len(b.bits))
                        ELSE MapSeq(SoftOf, Prefix(Payload(cls, raw), Len(b.bits))))

EncFailed(r) ==
  (IF r.err = "" THEN {} ELSE {"C04.enc.refused", "C01.roundtrip"})
  \cup (IF r.err # "" \/ r.raw = Enc(r) THEN {} ELSE {"C04.enc.octets"})
  \cup (IF r.err # "" \/ (r.dec.ok /\ Dec(r.cls, r.raw).ok /\ r.dec.m = Dec(r.cls, r.raw).m) THEN {} ELSE {"C04.dec.layout"})
  \cup (IF r.err # "" \/ (r.dec.ok /\ Same(r.cls, r.m, r.dec.m)) THEN {} ELSE {"C01.roundtrip"})

DecFailed(r) ==
  LET cls == r.cls raw == r.raw IN
  (IF r.dec.ok \/ r.dec.exc = "ValueError" THEN {} ELSE {"C14.parser.exception"})
  \cup
  (IF ~HeaderOk(cls, raw) THEN (IF r.dec.ok THEN {"C04.parse.accepts-malformed"} ELSE {})
   ELSE IF Canonical(cls, raw)
        THEN (IF r.dec.ok /\ Dec(cls, raw).ok /\ r.dec.m = Dec(cls, raw).m THEN {} ELSE {"C04.parse.fields"})
        ELSE \* non-canonical length: header fields per layout, burst a prefix of the payload
             (IF ~r.dec.ok THEN {}
              ELSE IF /\ (Dec(cls, raw).ok => NoBits(r.dec.m) = NoBits(Dec(cls, raw).m))
                      /\ PrefixOk(cls, raw, r.dec.m.burst)
                   THEN {} ELSE {"C04.parse.fields-noncanonical"}))

\* trxcon receives a version-0 datagram that Python produced from message r.m
CindFailed(r) ==
  IF r.rc = 0 /\ r.ind.fn = r.m.fn /\ r.ind.tn = r.m.tn /\ r.ind.rssi = r.m.rssi
     /\ r.ind.toa = r.m.toa /\ r.ind.bits = r.m.burst.bits
  THEN {} ELSE {"C04.trxcon.burst-ind"}

\* trxcon transmits request r.req; r.raw are the octets it passed to send(),
\* r.dec is Python's parse of them
RECURSIVE SumLens(_)
SumLens(ss) == IF ss = <<>> THEN 0 ELSE Len(Head(ss)) + SumLens(Tail(ss))
CreqFailed(r) ==
  LET m == [ver |-> 0, fn |-> r.req.fn, tn |-> r.req.tn, pwr |-> r.req.pwr, burst |-> Burst(r.req.bits)] IN
  (IF r.raw = EncTx(m, FALSE) THEN {} ELSE {"C04.trxcon.burst-req.octets"})
  \cup (IF r.dec.ok /\ SameTx(m, r.dec.m) THEN {} ELSE {"C04.trxcon.burst-req.parsed"})

\* a run of requests with send() failing for some of them (r.failed[i]): r.sent[i] is what trxcon
\* wrote to the socket during request i.  Whatever it does about a failed send (drop the burst, as it
\* does, or keep it for later), every datagram it writes is the encoding of a request it was given,
\* none goes out twice, and a request whose send() works goes out during that request.
ReqEnc(q) == EncTx([ver |-> 0, fn |-> q.fn, tn |-> q.tn, pwr |-> q.pwr, burst |-> Burst(q.bits)], FALSE)
CseqFailed(r) ==
  LET N == Len(r.reqs)
      Given(a) == {ReqEnc(r.reqs[b]) : b \in 1..a}
      All == [a \in 1..N |-> {r.sent[a][b] : b \in 1..Len(r.sent[a])}]
      Total == SumLens(r.sent)
  IN (IF \A a \in 1..N : All[a] \subseteq Given(a) /\ (~r.failed[a] => ReqEnc(r.reqs[a]) \in All[a])
      THEN {} ELSE {"C04.trxcon.burst-req.octets"})
     \cup (IF Cardinality(UNION {All[a] : a \in 1..N}) = Total THEN {} ELSE {"C04.trxcon.burst-req.once"})

\* a message outside the documented value ranges that the toolkit nevertheless accepted as valid
\* (its own validate() passed): C01 speaks about "every message the toolkit accepts as valid"
AccFailed(r) == IF r.err = "" /\ r.dec.ok /\ Same(r.cls, r.m, r.dec.m) THEN {} ELSE {"C01.roundtrip"}

\* trxcon's TRXD receive path on arbitrary octets (trx_data_rx_cb): a datagram is taken iff it
\* is a version-0 PDU of a legal burst length with a frame number inside the hyperframe; the
\* indication then carries the timeslot of the three TN bits (the reserved bit next to them is
\* not part of it: the scheduler indexes its timeslot array with this value), the frame number
\* and the soft bits per layout (without the two padding octets)
CfzFn(raw) == (raw[3] * 256 + raw[4]) * 256 + raw[5]
CfzAccepts(raw) == /\ Len(raw) >= 8 /\ raw[1] \div 16 = 0
                   /\ (Len(raw) - 8) \in {GB, GB + 2, 3 * GB, 3 * GB + 2}
                   /\ raw[2] = 0 /\ CfzFn(raw) < Hyperframe          \* (32-bit arithmetic: the top octet apart)
CfzBits(raw) == LET n == IF (Len(raw) - 8) \in {GB, GB + 2} THEN GB ELSE 3 * GB IN
                [k \in 1..n |-> SoftOf(raw[8 + k])]
CfzFailed(r) ==
  IF ~CfzAccepts(r.raw) THEN (IF r.has THEN {"C14.trxcon.accepts-malformed-datagram"} ELSE {})
  ELSE IF ~r.has THEN {"C14.trxcon.indication-missing"}
  ELSE IF r.ind.tn = r.raw[1] % 8 /\ r.ind.fn = CfzFn(r.raw) /\ r.ind.bits = CfzBits(r.raw)
       THEN {} ELSE {"C14.trxcon.indication-fields"}

Failed(r) == CASE r.e = "cfz" -> CfzFailed(r) [] r.e = "enc" -> EncFailed(r) [] r.e = "dec" -> DecFailed(r) [] r.e = "acc" -> AccFailed(r)
               [] r.e = "cind" -> CindFailed(r) [] r.e = "creq" -> CreqFailed(r) [] r.e = "cseq" -> CseqFailed(r)

RInit == i = 0
RNext == i < Len(Recs) /\ i' = i + 1 /\ TLCSet(i + 1, Failed(Recs[i + 1]))
RSpec == RInit /\ [][RNext]_i
Post == JsonSerialize(IOEnv.OUT_FILE,
          [k \in 1..Len(Recs) |-> [id |-> Recs[k].id, failed |-> SetToSeq(TLCGet(k))]])
=============================================================================
