SPECIFICATION Spec
CONSTANTS
  GB = 148
  Pairs = TRUE
  Triples = FALSE
POSTCONDITION Post
CHECK_DEADLOCK FALSE
