SPECIFICATION Spec
CONSTANTS
  GB = 148
  Pairs = TRUE
POSTCONDITION Post
CHECK_DEADLOCK FALSE
