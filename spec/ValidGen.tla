----------------------------- MODULE ValidGen -----------------------------
(* C13, specification -> code: TLC enumerates the boundary product of message
   fields (every field at None / below / on / above its range boundaries with
   all others valid, and all pairs of such deviations), attaches the verdict
   Valid prescribes, and exports the cases; the driver builds each case as a
   real TxMsg/RxMsg and compares validate(), gen_msg() and send_msg().     *)
EXTENDS TrxdPdu, Json, IOUtils, FiniteSets, SequencesExt, FiniteSetsExt, TLCExt

CONSTANT Pairs,      \* TRUE: all pairs of deviations; FALSE: single deviations only
         Triples     \* TRUE: additionally all triples of deviations over the reduced value sets Vals3

O(x) == <<x>>
N == <<>>
Vals(f) ==
  CASE f = "ver"    -> {N, O(-1), O(0), O(1), O(2), O(15), O(16)}
    [] f = "fn"     -> {N, O(-1), O(0), O(1), O(2715647), O(2715648), O(2715649)}
    [] f = "tn"     -> {N, O(-1), O(0), O(7), O(8)}
    [] f = "pwr"    -> {N, O(-1), O(0), O(255), O(256)}
    [] f = "rssi"   -> {N, O(-121), O(-120), O(-47), O(-46), O(0)}
    [] f = "toa"    -> {N, O(-32769), O(-32768), O(32767), O(32768)}
    [] f = "ci"     -> {N, O(-1281), O(-1280), O(1280), O(1281)}
    [] f = "tsc"    -> {N, O(-1), O(0), O(7), O(8)}
    [] f = "tscset" -> {N, O(-1), O(0), O(1), O(2), O(3), O(4)}
    [] f = "mod"    -> Mods \cup {"notmod"}
    [] f = "nope"   -> BOOLEAN
    [] f = "blen"   -> {N, O(0), O(GB - 1), O(GB), O(GB + 1), O(GB + 2), O(2 * GB), O(3 * GB - 1), O(3 * GB),
                        O(3 * GB + 1), O(3 * GB + 2), O(4 * GB), O(5 * GB)}     \* + 2: what a parser tolerates as legacy padding

\* reduced sets for triples: unset, just below, lower bound, upper bound, just above
Vals3(f) ==
  CASE f = "ver"    -> {N, O(0), O(1), O(2)}
    [] f = "fn"     -> {N, O(-1), O(0), O(2715647), O(2715648)}
    [] f = "tn"     -> {N, O(-1), O(0), O(7), O(8)}
    [] f = "pwr"    -> {N, O(-1), O(0), O(255), O(256)}
    [] f = "rssi"   -> {N, O(-121), O(-120), O(-47), O(-46)}
    [] f = "toa"    -> {N, O(-32769), O(-32768), O(32767), O(32768)}
    [] f = "ci"     -> {N, O(-1281), O(-1280), O(1280), O(1281)}
    [] f = "tsc"    -> {N, O(-1), O(0), O(7), O(8)}
    [] f = "tscset" -> {N, O(-1), O(0), O(1), O(2), O(3), O(4)}
    [] f = "mod"    -> {"GMSK", "8PSK", "notmod"}
    [] f = "nope"   -> BOOLEAN
    [] f = "blen"   -> {N, O(GB), O(GB + 1), O(GB + 2), O(3 * GB), O(3 * GB + 2), O(5 * GB)}

TxFields == {"ver", "fn", "tn", "pwr", "blen"}
RxFields == {"ver", "fn", "tn", "rssi", "toa", "ci", "tsc", "tscset", "mod", "nope", "blen"}

Base(cls, v, md, np, bl) ==
  [cls |-> cls, ver |-> O(v), fn |-> O(1000), tn |-> O(3), pwr |-> O(10), rssi |-> O(-60),
   toa |-> O(100), ci |-> O(90), tsc |-> O(2), tscset |-> O(1), mod |-> md, nope |-> np, blen |-> bl]

TxBases == {Base("tx", v, "GMSK", FALSE, O(bl)) : v \in {0, 1}, bl \in {GB, 3 * GB}}
RxBases == {Base("rx", 0, "GMSK", FALSE, O(bl)) : bl \in {GB, 3 * GB}}
           \cup {Base("rx", 1, md, FALSE, O(ModBL(md))) : md \in Mods}
           \cup {Base("rx", 1, "GMSK", TRUE, N)}

Dev1(b, F) == UNION {{[b EXCEPT ![f] = v] : v \in Vals(f)} : f \in F}
Dev2(b, F) == UNION {Dev1(c, F) : c \in Dev1(b, F)}

Dev1r(b, F) == UNION {{[b EXCEPT ![f] = v] : v \in Vals3(f)} : f \in F}
Dev3(b, F) == UNION {Dev1r(c, F) : c \in UNION {Dev1r(d, F) : d \in Dev1r(b, F)}}

Raw3 == IF Triples THEN UNION {Dev3(b, TxFields) : b \in TxBases} \cup UNION {Dev3(b, RxFields) : b \in RxBases} ELSE {}
Raw == Raw3 \cup UNION {IF Pairs THEN Dev2(b, TxFields) ELSE Dev1(b, TxFields) : b \in TxBases}
       \cup UNION {IF Pairs THEN Dev2(b, RxFields) ELSE Dev1(b, RxFields) : b \in RxBases}

\* don't-cares of the statement: the MTS fields of a NOPE indication do not exist.  Version 0
\* has no NOPE indication: there the flag of the message object changes nothing - the burst of
\* 148 or 444 soft bits is required all the same (cases with the flag set on version 0 are kept)
Meaningful(c) ==
  c.cls = "rx" =>
    /\ ~(c.nope /\ c.ver \notin {O(0), O(1)})
    /\ c.nope => (c.mod = "GMSK" /\ c.tsc = O(2) /\ c.tscset = O(1))

Cases == {c \in Raw : Meaningful(c)}
Valid(c) == IF c.cls = "tx" THEN ValidTxCase(c) ELSE ValidRxCase(c)

VARIABLE done
Init == done = FALSE
Next == ~done /\ done' = TRUE
Spec == Init /\ [][Next]_done
Post == LET s == SetToSeq(Cases) IN
        /\ TLCGet("stats").distinct >= 0     \* (a POSTCONDITION must not be constant-level)
        /\ JsonSerialize(IOEnv.OUT_FILE, [k \in 1..Len(s) |-> [c |-> s[k], valid |-> Valid(s[k])]])
=============================================================================
