SPECIFICATION Spec
CONSTANTS
  GB = 148
  Pairs = FALSE
POSTCONDITION Post
CHECK_DEADLOCK FALSE
