SPECIFICATION Spec
CONSTANTS
  GB = 148
  Pairs = FALSE
  Triples = FALSE
POSTCONDITION Post
CHECK_DEADLOCK FALSE
