SPECIFICATION Spec
CONSTANTS
  GB = 148
  Pairs = TRUE
  Triples = TRUE
POSTCONDITION Post
CHECK_DEADLOCK FALSE
