#!/bin/sh
# tools/benigncheck.sh <patch.diff> <Cxx>... : the checks must NOT flag a behaviour-preserving change.
# Scratch copy of /repo with the patch applied (VERIF_REPO); prints one line per check.
patch=$1; shift
d=$(mktemp -d /tmp/benignrun-XXXXXX)
mkdir -p $d/repo
rsync -a --exclude "*.o" /repo/src /repo/include $d/repo/
( cd $d/repo && patch -p1 -s < "$patch" ) || { echo "PATCH DID NOT APPLY"; rm -rf $d; exit 3; }
cd /verif
for c in "$@"; do
  VERIF_REPO=$d/repo bin/check $c quick > $d/out.log 2>&1; rc=$?
  echo "$c exit=$rc $(grep -E 'signature|MACHINERY' $d/out.log | head -3 | cut -c1-200 | tr '\n' ' ')"
done
rm -rf $d
