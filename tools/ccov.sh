#!/bin/sh
# tools/ccov.sh <Cxx> [tier] : development aid - run a check with the C units under test built for
# source coverage, print the lines of /repo sources that were never executed.  Scratch under /tmp/ccov.
p=$1; tier=${2:-quick}
d=/tmp/ccov/$p; rm -rf $d; mkdir -p $d
cd /verif
VERIF_CCOV=$d VERIF_KEEP_SCRATCH=1 LLVM_PROFILE_FILE=$d/%p-%m.profraw bin/check $p $tier 2>&1 | tail -1
llvm-profdata-14 merge -o $d/all.profdata $d/*.profraw 2>/dev/null || { echo "no profiles"; exit 1; }
objs=""
for b in $(sort -u $d/binaries.txt); do [ -f $b ] && objs="$objs -object $b"; done
first=$(echo $objs | cut -d' ' -f2)
rest=$(echo $objs | cut -d' ' -f3-)
llvm-cov-14 show $first $rest -instr-profile=$d/all.profdata -show-line-counts-or-regions=false 2>/dev/null > $d/show.txt
python3 - $d/show.txt <<'PY'
import re, sys
cur = None; miss = {}; tot = {}
for ln in open(sys.argv[1]):
    if ln.startswith("/") and ln.rstrip().endswith(":"):
        cur = ln.rstrip()[:-1]; continue
    m = re.match(r"\s*(\d+)\|\s*([0-9.kME]*)\|(.*)", ln)
    if m and cur and "/repo/" in cur:
        n, cnt, txt = int(m.group(1)), m.group(2), m.group(3)
        if cnt != "":
            tot[cur] = tot.get(cur, 0) + 1
            if cnt == "0":
                miss.setdefault(cur, []).append((n, txt.strip()[:90]))
for f in sorted(tot):
    print("%s: %d/%d lines executed" % (f, tot[f] - len(miss.get(f, [])), tot[f]))
    for n, t in miss.get(f, []):
        print("    %5d  %s" % (n, t))
PY
rm -rf /tmp/vf-$p-* 2>/dev/null
