#!/usr/bin/env python3
"""Regenerate MANIFEST.json from the table below (run after adding a check)."""
import json, os
ROOT = os.path.dirname(os.path.dirname(os.path.abspath(__file__)))
BASELINE = ("cd /repo && env -u OSMOCOM_BB_VERIF /venv/bin/python -m pytest -ra -q -p no:cacheprovider "
            "--timeout=900 --continue-on-collection-errors")

CHECKS = {
 "C06": dict(
    level="model_checking", design="5 (C06)",
    technique="TLA+ spec Sercomm/SercommWire model-checked with TLC; traces of the real sercomm.c validated against SercommTrace; TLC-simulated behaviours replayed into the code",
    text="TLC explores the sender/wire/receiver composition exhaustively for small constants (all escape/flag positions, "
         "noise, over-long frames, priorities) and checks every C06 clause; every octet and callback of the unmodified "
         "sercomm.c (host build, ASan+UBSan) on generated and TLC-simulated operation sequences must be a behaviour of the "
         "same specification, with the C06 clauses evaluated on each observed history.",
    note="trusted: TLC, the 130-line C driver, in-repo msgb/talloc; bounds: MC payload<=2 octets/3 messages/RxSize 3; "
         "real-size runs are sampled, not exhaustive"),
 "C01": dict(
    level="model_checking", design="4 (C01/C04)",
    technique="TLA+ spec TrxdPdu (TRXD layout) model-checked with TLC for the scaled layout; records of the real gen_msg/parse_msg judged by TLC against the spec",
    text="TLC proves the round-trip law on the scaled-down layout (GB=3) for every boundary header x burst family, i.e. that the "
         "layout incl. v0 length guessing is uniquely decodable; for the real code every generated valid message (all versions, "
         "modulations, TSC sets, NOPE, legacy padding, real burst lengths) is encoded and re-parsed and TLC compares every field.",
    note="trusted: TLC, the JSON projection in harness/py/trxd_drv.py; real-length bursts are sampled (structured + random), not exhaustive"),
 "C04": dict(
    level="model_checking", design="4 (C01/C04)",
    technique="TLA+ spec TrxdPdu written from the protocol description; TLC judges octets/fields recorded from data_msg.py and from trxcon's unmodified trx_if.c (ASan/UBSan host build)",
    text="The layout is an independent TLA+ transcription of the TRXD description; TLC checks it for internal consistency (MC) and "
         "evaluates it on records of both real implementations: octets of gen_msg, parse_msg on mutated datagrams, trxcon's "
         "burst indication for every Python-produced v0 datagram and Python's parse of every burst trxcon emits.",
    note="trusted: TLC, trxd_drv.py, drv_trxcon.c and the osmo_fsm/socket stand-in headers; non-canonical datagram lengths only constrain header fields + prefix"),
 "C13": dict(
    level="model_checking", design="4 (C13)",
    technique="TLC enumerates the boundary product of message fields from ValidGen.tla with the verdict of TrxdPdu!Valid*; every case is replayed into the real validate/gen_msg/send_msg",
    text="Specification -> code: the finite case space (every field at None/below/on/above each boundary, all pairs of deviations, for "
         "every class x version x modulation x NOPE base) is enumerated completely by TLC together with the prescribed verdict; each "
         "case is built as a real message and must be refused with ValueError and no datagram exactly when the spec says invalid.",
    note="trusted: TLC, fakesock.py; triples of simultaneous deviations are not enumerated"),
 "C15": dict(
    level="model_checking", design="4 (C15)",
    technique="TLA+ spec DataDump model-checked with TLC over every file/cut/skip/count/index of the scaled layout; reads of real truncated files validated against the spec by TLC",
    text="TLC checks, for every file of up to 3 (thorough: 4) messages, every truncation offset and every skip/count/index, that the "
         "reader as the code is structured (header walk without body check, short-read detection) returns exactly the messages "
         "completely written before the cut; real files written by DATADumpFile are cut at EVERY byte offset and every read of "
         "the real parse_all/parse_msg is judged by the same operators on the recorded octets.",
    note="trusted: TLC, matching of returned messages to stored ones by (class, fn, tn) in the driver; full field equality is judged by TLC on the uncut file only"),
 "C17": dict(
    level="model_checking", design="4 (C17)",
    technique="TLA+ spec TrxdProto (v0/v1/v2 PDUs as dict<->octets operators) model-checked for the scaled layout; records of the real trxd_proto definitions judged by TLC",
    text="TLC proves dec(enc(v)) = v for every v1 header/MTS combination and v2 PDUs with 0..2 batched parts (scaled layout); for the "
         "real definitions every generated value set (all assigned modulation codes, NOPE, 0..8 batched parts) is encoded, re-decoded, "
         "decoded with reserved bits set / wrong version / truncated, and every v0/v1 datagram of the message codec is fed to the "
         "matching definition; TLC compares octets and values with the specification.",
    note="trusted: TLC, proto_drv.py; unassigned modulation codes are not generated"),
 "C12": dict(
    level="model_checking", design="3 (C12)",
    technique="TLA+ spec FakeTrx (power events, child management, clock links, port plan) model-checked with TLC; sessions of the real fake_trx.Application validated against FakeTrxTrace",
    text="TLC explores every POWERON/POWEROFF/RXTUNE/TXTUNE/SETFH history of bounded length on BTS+child/MS+child and checks "
         "running-iff-last-power, exact clock links, clock-runs-iff-needed, power-off-forgets; command histories on the real "
         "Application (7 wirings incl. extra and child transceivers) are validated event by event against the same spec, incl. "
         "which clock sockets get indications and the bound/destination ports.",
    note="trusted: TLC, faketrx_drv.py (fake sockets, thread stand-in: a tick is one send_clck_ind call), projection of attributes"),
 "C05": dict(
    level="model_checking", design="3 (C05)",
    technique="TLA+ specs FakeTrx+Trxc (command semantics, octet-level request/response grammar) and TrxconIf (trxcon's TRXC client); TLC model checking, trace validation of the real Python transceiver and of trxcon's unmodified trx_if.c, TLC-simulated behaviours replayed",
    text="Every verb x argument count x boundary argument in four prior state classes, random histories and TLC-simulated behaviours "
         "are sent to the real CTRL interface through fake sockets; TLC checks exactly-one-reply, reply-to-sender, reply octets and the "
         "complete state effect.  Every command trxcon's real trx_if.c emits (incl. SETFH with 64 channels) is answered by the Python "
         "transceiver and the reply is fed back; TLC checks trx_if.c pops the command and the full effect on the transceiver.",
    note="trusted: TLC, faketrx_drv.py, drv_trxcon.c + osmo_fsm/socket stand-ins; integers limited to 9 digits (TLC 32-bit)"),
 "C09": dict(
    level="model_checking", design="5 (C09)",
    technique="TLA+ spec ClckGen (absolute-deadline loop, overrun resync, indication filter) model-checked with TLC; traces of the real CLCKGen._worker on a virtual clock validated against ClckGenTrace; TLC-simulated behaviours replayed",
    text="TLC explores all handler-duration patterns (below/equal/above one frame), stop after any part of any wait, restarts, link sets and "
         "periods for bounded runs and checks Consecutive, IndicationExact, NoDrift, ResyncNoCatchUp, RestartFromStart; the real _worker, "
         "start(), stop() and send_clck_ind() run unmodified on virtual time and every tick / indication is validated against the spec.",
    note="trusted: TLC, harness/py/vclock.py (virtual monotonic clock, time/threading stand-ins); host scheduler jitter is outside the statement; frame period accepted iff it rounds to 4615 us"),
 "C02": dict(
    level="model_checking", design="3 (C02)",
    technique="TLA+ spec FakeTrx (routing predicate over per-frame Rx/Tx frequency incl. hopping via HoppingStd) with TLC model checking; traffic sessions of the real fake_trx.Application validated against FakeTrxTrace",
    text="Every delivery of every tick of generated sessions (2..6 transceivers, random tuning/hopping/power/version/mute, clock started at "
         "random frame numbers) is aligned by TLC with the deliveries the specification prescribes: exactly the other running "
         "transceivers whose receive frequency in that frame equals the sender's transmit frequency; hopping is resolved by the "
         "3GPP text transcription, not by the code.",
    note="trusted: TLC, faketrx_drv.py; exhaustive only for the small MC configuration (3 transceivers, 2 frequencies)"),
 "C03": dict(
    level="model_checking", design="3 (C03)",
    technique="TLA+ specs FakeTrx (modular queue partition, fate history) and FakeTrxThreads (statement-level interleavings of socket and clock thread) model-checked with TLC; histories and enumerated thread schedules of the real code validated as traces",
    text="TLC checks NoSilentLoss / SentInOwnFrame / StaleOnlyIfPassed / ExactlyOnce over all bounded histories (Hyper=4: wrap explored) and all "
         "interleavings of one socket-thread operation with one tick; sessions of the real Application (arrival offsets -3..+5, far "
         "offsets, version mismatches, power cycles, starts just before the hyperframe wrap) are validated event by event, and every "
         "line-level schedule with up to two pre-emptions of the real recv_data_msg / power handler racing the real clck_tick is "
         "executed under a deterministic scheduler and validated with internal steps.",
    note="trusted: TLC, faketrx_drv.py, baton.py (deterministic scheduler, mutex stand-in with the same exclusion semantics); pre-emption inside one source line is not enumerated"),
 "C10": dict(
    level="model_checking", design="3 (C10)",
    technique="TLA+ spec FakeTrx.Delivery (bits, version, RSSI/ToA/C-I windows, TA, modulation, training-sequence tables) + TrxdPdu decoding; every datagram delivered by the real Application decoded and judged by TLC",
    text="Each datagram a recipient gets is decoded by the specification's own DecRx and every field compared with what Delivery prescribes "
         "from the sender's and recipient's state: frame/timeslot, full-confidence soft bits, recipient's header version with legacy "
         "padding on v0, RSSI formula or FAKE_RSSI window, ToA base/threshold minus 256 x sender TA, C/I window, modulation by length, "
         "TSC of the training sequence actually present (NB/SB/AB tables in the spec).",
    note="trusted: TLC, faketrx_drv.py; the training-sequence tables in the spec were checked character by character against 45.002 as quoted in gsm_shared.py; bursts with several TS matches are not generated"),
 "C18": dict(
    level="model_checking", design="3 (C18)",
    technique="TLA+ spec FakeTrx (drop counter and FN filter, mute on either side, NOPE vs silent drop by version) with TLC model checking (DropAccounting) and trace validation of burst streams on the real Application",
    text="TLC checks drop accounting over all bounded histories; burst streams interleaved with FAKE_DROP n [period] / RFMUTE on both sides and "
         "both header versions are validated delivery by delivery: suppressed exactly while the counter and the period filter say so, one "
         "NOPE with noise-level values on v1, nothing on v0, rejected arguments leave the state unchanged.",
    note="trusted: TLC, faketrx_drv.py"),
 "C14": dict(
    level="fault_enumeration", design="5 (C14)",
    technique="fault enumeration judged by TLA+ trace validation: hostile datagrams injected into valid sessions of the real Application (FakeTrxTrace garbage/wild actions), corrupted capture files (DataDumpTrace), hostile responses/TRXD datagrams into trxcon's trx_if.c under ASan/UBSan (TrxconTrace)",
    text="The specification supplies the oracle for 'goes on serving correctly': each session with injected hostile datagrams (non-UTF-8, "
         "non-numeric/missing/huge arguments, no prefix/NUL, empty, 64 kB; truncated/bit-flipped/wrong-version bursts) must remain a "
         "behaviour of FakeTrx with no exception and no effect of the hostile input; corrupted capture files are read by the real "
         "reader and compared with the reader model; every malformation of a TRXC response and TRXD datagrams of critical lengths are "
         "fed to trx_if.c, where a sanitizer report or a non-orderly state (vs TrxconIf) is a violation.",
    note="trusted: TLC, ASan/UBSan for C memory safety (uninitialised reads are not detected), faketrx_drv.py, drv_trxcon.c; integers beyond 32 bit only checked for 'returns normally, one reply, touches only its parameters'"),
 "C07": dict(
    level="model_checking", design="5 (C07)",
    technique="TLA+ spec HoppingStd written from the text of 3GPP TS 45.002 6.2.3 (MAI_Std) and the mask form (MAI_Mask); TLC checks their equivalence exhaustively and generates the expected table; Python HoppingParams.resolve and the firmware's unmodified rfch.c are compared with it",
    text="TLC proves MAI_Std = MAI_Mask for all N 1..64, M 0..152, T3 0..50 and the T1R reduction, and exports the expectation computed from "
         "the standard's text; both implementations are run over every N, every (N, M', T') class incl. the M'+T' overflow arm, HSN 0, "
         "FN 0 and 2715647 (quick) and the complete reduced domain (HSN xor T1R) x T2 x T3 x N with all MAIO for N <= 8 (thorough); "
         "a sample of records is judged by TLC directly (HopTrace).",
    note="trusted: TLC, drv_rfch.c + firmware include shims, drv_gsm_shared.py; MAIO enters only through the final (S + MAIO) mod N (argued, sampled for N > 8)"),
 "C08": dict(
    level="model_checking", design="5 (C08)",
    technique="TLA+ spec TdmaSched (ring of buckets, exchange sort, set walk, gsmtime events) model-checked with TLC without run-length bound; traces of the unmodified tdma_sched.c / sched_gsmtime.c (ASan/UBSan) validated against TdmaTrace; TLC-simulated behaviours replayed",
    text="TLC explores the scheduler exhaustively for small depth/capacity (finite state space by VIEW, action properties on every "
         "transition) and checks RunsWhenDue, ExactlyOnce, ParamsPreserved, PriorityOrder, SetSpread, BucketEmptyAfter, "
         "OverflowReported; random and TLC-simulated histories run through the real C code with real D=25, K=8 and every callback / "
         "return code is validated against the same spec with the clauses evaluated on the observed history.",
    note="trusted: TLC, drv_tdma.c + firmware include shim; order among equal priorities, offsets >= 25 and scheduling into the frame being executed are outside the statement"),
 "C19": dict(
    level="model_checking", design="5 (C19)",
    technique="TLA+ spec GsmTime (decomposition, recomposition, incremental carry logic of l1s_time_inc) model-checked by TLC over the whole hyperframe; the sliced l1s_time_inc, in-repo gsm_fn2gsmtime/gsm_gsmtime2fn and Python fn2gsm_time validated against it",
    text="TLC walks every frame number of the hyperframe (thorough: 2 715 648 states, Inc1 and a delta set; quick: all 63 deltas around the "
         "wrap) checking components = Decomp(fn) and Recomp(Decomp(fn)) = fn; the real C functions (l1s_time_inc sliced from the working "
         "tree, libosmocore gsm_utils.c) and the Python helper are stepped through FN windows (thorough: every FN) and each record is "
         "judged by TLC against the spec.",
    note="trusted: TLC, the function slicer, drv_gsmtime.c; the full product hyperframe x 63 deltas is not enumerated by TLC (stated in evidence)"),
 "C11": dict(
    level="model_checking", design="5 (C11)",
    technique="TLA+ spec Mframe (task<->channel correspondence, five clauses) checked by TLC over the complete 51x26x8 frame cycle with both table sets dumped from the unmodified compiled C objects",
    text="The firmware's mframe_sched.c is run for every frame number of the cycle with one task enabled at a time and every "
         "tdma_schedule_set call recorded; trxcon's sched_mframe.c is dumped through l1sched_mframe_layout for all configurations x "
         "timeslots; TLC walks all 10 608 frame numbers and checks StartsAgree, BidCyclic, LookupInTable, MaskCovers and "
         "LayoutValidForTn in every state - a complete enumeration for the current tables.",
    note="trusted: TLC, the task<->lchan correspondence table in the spec, drv_mframe_fw.c / drv_mframe_trx.c and the shim headers; PDTCH uplink, BCCH_EXT, PTCCH, RACH/FCCH/SCH and neighbour tasks are not part of the correspondence"),
 "C16": dict(
    level="exploration", design="4 (C16)",
    technique="TLA+ spec Codec: an interpreter of protocol definitions given as data, with the C16 laws model-checked by TLC over all small definitions; generated definitions are built with the real codec classes and every to_bytes/from_bytes record is judged by TLC interpreting the same definition",
    text="TLC checks decode(encode(v)) = v, re-encoding = canonical octets, consumed = declared length and the rejection rules over "
         "all definitions of five small families; a seeded generator composes definitions (integers 1..8 octets with offset/multiplier, "
         "buffers, spares, bit-field sets in both orders, nested envelopes, sequences, presence/length expressions), builds the real "
         "classes from them and records results and exception classes; TLC interprets the same JSON and compares every record.",
    note="exploration level: large definitions are sampled, only tiny ones are exhaustive; trusted: TLC, harness/py/codec_gen.py (builder of real classes from JSON); excluded compositions listed in evidence assumptions"),
 "C20": dict(
    level="model_checking", design="5 (C20)",
    technique="TLA+ spec MobileAlloc: Decode written from 44.018 10.5.2.21 and the decoder as an explicit-state algorithm with index-bound invariants; TLC checks refinement + bounds exhaustively on a scaled universe and enumerates cases; the sliced real gsm48_decode_mobile_alloc runs under ASan/UBSan and its results and step logs are validated by TLC",
    text="TLC proves Algorithm refines Decode and every array index stays in bounds for ARFCN 0..5, every cell allocation, bitmaps of 0..2 "
         "scaled octets; TLC enumerates 18 688 (CA, bitmap) cases with Decode's answers which are replayed into the real function; "
         "result records and step-level logs of ~21 k (thorough ~220 k) executions with real sizes (exact-size heap buffers, ASan+UBSan) "
         "are validated against the spec.",
    note="trusted: TLC, the function slicer, drv_moballoc.c, LOGP shim; outputs after a rejection are don't-care"),
}

NOT_YET = {}

# what rounds 3 and 4 added to each check (DESIGN.md 12.7 - 12.9); appended to the level text
ADDED = {
 "C01": "Also: candidates outside the documented ranges that the toolkit's own validate() accepts; long-lived message / decoder objects incl. an encoding attempt that fails after validation. Round 5: decoded bursts changed in place between two decodes of the same octets. Round 6: decoded messages encoded again with every padding combination.",
 "C02": "Also: refused re-configurations in the middle of traffic; C02 owns the effect clauses on tuning / hopping state.",
 "C03": "Also: flood sessions (more than 512 bursts pending), multi-operation socket scenarios, three pre-emptions in thorough. Round 5: exceptions escaping a tick are C03's too; session inputs written from the layout (independent of the toolkit encoder); frame numbers beyond the hyperframe in the queue. Round 6: try-locks honoured by the mutex stand-in of the schedule harness.",
 "C04": "Also: valid messages through one long-lived DATAInterface with sends that fail in between; trxcon's receive callback re-entered by the uplink path (RTS.ind answered with BURST.req). Round 6: send() failures on trxcon's TRXD socket (FAILSEND, CseqFailed: every datagram written is a given request, none twice).",
 "C05": "Also: measure sessions (every arrangement of idle / tuned / hopping transceivers), integer arguments in non-canonical spelling, the SETFH text trxcon composes from a hopping list (or its refusal as a whole) judged by TrxconTrace. Round 5: the last command of a link repeated octet for octet (executed and answered again). Round 6: several commands waiting on the control socket at once, earlier commands repeated, the same SETFH after a power cycle.",
 "C06": "Also: well-formed frames for unclaimed DLCIs and the echo DLCI (WForeign, MC_SercommForeign), backlog of 255..300 messages on one DLCI, callbacks registered before the first sercomm_init().",
 "C07": "Also: spec HopCfg (configuration state machine: Establish / Redefine / Reach / Query) bound to real CMD SETFH datagrams + get_rx_freq/get_tx_freq of the application and to L1CTL_DM_EST_REQ / DM_FREQ_REQ through the handlers sliced from l23_api.c, prim_freq.c and rfch.c; long-lived HoppingParams objects.",
 "C08": "Also: callbacks that schedule while their frame is executed (ExecuteN / NestedStep, MC_TdmaNested), callbacks reporting success with a positive value. Round 5: marathons of 270-620 frame interrupts in one history.",
 "C09": "Also: rig with real threads under virtual time (ClckGenThreads: stop() arriving inside the handler, MC + trace validation), one uninterrupted run of a hyperframe + 3000 ticks (ClckGenLong), clock indications of the real Application. Round 5: LinkWire.tla - line-level schedules of the clock indications against a control reply inside the shared link code. Round 6: a handler blocking for more than a second in the two-thread rig.",
 "C10": "Also: bursts with degenerate payload around an intact training sequence; C10 owns the effect clauses on the state components that decide delivered values.",
 "C11": "Also: spec SchedDispatch bound to the unmodified sched_trx.c (every frame lookup in pull / rx / loss substitution / probe, reconfiguration from another combination), clause ChanNrTasks (chan_nr2mf_task_mask sliced from l23_api.c vs. trxcon's lchan descriptors), clause HistoryFree (frame-number jumps onto every multiframe position).",
 "C12": "Also: the two-thread clock rig (stop() really ends the worker), ownership of tuning / hopping effect clauses (readiness decides POWERON). Round 5: bursts written by other programs than the transceiver's L1 (port plan unchanged), repeated commands.",
 "C13": "Also: burst lengths 148+2 / 444+2, NOPE flag on version-0 objects, the simulator's forwarding path (C13.invalid-message-sent on sessions of the real Application). Round 6: bursts of validated messages resized in place.",
 "C14": "Also: valid-UTF-8 non-ASCII commands, hostile data from other source addresses with the clauses on where later bursts go, trxcon's receive path on hostile TRXD datagrams as TLC-judged records, timer stand-in that looks at the armed timer after every operation (use after free). Round 5: hopping sessions with queued frame numbers beyond the hyperframe.",
 "C15": "Also: captures beyond 64 KiB with skip/count slices, captures given as caller-opened file objects, append_all() over an iterable that reads the capture. Round 5: writers refilling one burst buffer per length, version-0 EDGE-length bursts in every tier. Round 6: cuts inside the record straddling a read-ahead block boundary.",
 "C17": "Also: NOPE parts whose content still holds a burst value, 1300 PDU objects created before the first datagram; the GMSK-AB / TSC set 1 disagreement is fixed (9a223a7). Round 5: a message the message codec refuses is retried with the burst length of the codec's own table (C17 is stated over what it produces). Round 6: degenerate sub-PDUs (all fields zero with an all-zero burst / at the other end).",
 "C19": "Also: every delta 2..60 from every position of the superframe, walks of mixed deltas.",
 "C20": "Also: spec SysinfoMA bound to the SI1 / SI4 handlers sliced from sysinfo.c on one struct gsm48_sysinfo (every truncation point in exactly sized buffers), the SETFH consumer in trxcon (TrxconTrace: command text = the list, or refused as a whole).",
 "C16": "Also: field tuples allocated like class-body literals (definitions built one after the other meet recycled objects). Round 6: values morphed in place between two encodings, hand-written definitions (sequences of fixed-length fields with an optional one).",
 "C18": "Also: repeated FAKE_DROP / RFMUTE datagrams re-arm.",
}


def main():
    props = [json.loads(l) for l in open(os.path.join(ROOT, "properties.jsonl"))]
    checks = []
    na = []
    for p in props:
        pid = p["id"]
        if pid in CHECKS:
            c = CHECKS[pid]
            checks.append(dict(
                property_id=pid,
                quick_cmd="bin/check %s quick" % pid,
                thorough_cmd="bin/check %s thorough" % pid,
                evidence_file="/verif/evidence/%s.json" % pid,
                replay_cmd_template="bin/check %s --replay {path}" % pid,
                engine="tlc",
                level_claimed=dict(category=c["level"], text=c["text"] + (" " + ADDED[pid] if pid in ADDED else ""), design_ref="DESIGN.md section " + c["design"]),
                level_note=c["note"],
                technique=c["technique"]))
        else:
            na.append(dict(property_id=pid, reason=NOT_YET.get(pid, "check not built yet in this round (planned with the TLA+ technique, see DESIGN.md section 10); not claimed until it exists")))
    m = dict(
        version=1,
        setup_cmd="bin/check --setup",
        hooks=dict(guard="OSMOCOM_BB_VERIF", enable="OSMOCOM_BB_VERIF=1 (no instrumentation hooks are needed: all observation is at public boundaries)",
                   baseline_off_cmd=BASELINE, source_commits=[], add_only=True),
        engines=[dict(name="tlc", path="/opt/veriftools/tla/tla2tools.jar",
                      serves_properties=sorted(CHECKS), kind_free_text="TLA+ model checker: exhaustive MC of the specs, batch trace validation, simulation for spec->code replay")],
        checks=checks,
        not_applicable=na,
        notes="All checks: bin/check <id> quick|thorough. Specs in spec/, drivers in harness/, framework in vf/. known_findings.json lists genuine defects (all repaired by fix: commits in /repo; no open finding). seeded/ holds 160 seeded changes from four rounds of fresh sub-agents with the check that catches each (DESIGN.md 12.5), benign/ behaviour-preserving changes that no check flags (12.9).")
    with open(os.path.join(ROOT, "MANIFEST.json"), "w") as f:
        json.dump(m, f, indent=1)
    print("MANIFEST.json: %d checks, %d not claimed" % (len(checks), len(na)))


if __name__ == "__main__":
    main()
