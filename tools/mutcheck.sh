#!/bin/sh
# tools/mutcheck.sh <Cxx> <relative-file> <sed-expression> [tier]
# Runs the check against a scratch copy of /repo/src with one sed mutation applied;
# prints whether the mutation changed the file and the check's verdict lines.
set -e
pid=$1; file=$2; expr=$3; tier=${4:-quick}
d=$(mktemp -d /tmp/mut-XXXXXX)
mkdir -p $d/repo
rsync -a --exclude "*.o" /repo/src /repo/include $d/repo/
sed -i "$expr" "$d/repo/$file"
if cmp -s "$d/repo/$file" "/repo/$file"; then echo "MUTATION DID NOT APPLY"; rm -rf $d; exit 3; fi
diff "/repo/$file" "$d/repo/$file" | head -6
cd /verif
VERIF_REPO=$d/repo bin/check $pid $tier > $d/out.log 2>&1 && rc=0 || rc=$?
grep -E "VIOLATION|KNOWN-FINDING|MACHINERY|signature|done:" $d/out.log | head -8
echo "exit=$rc"
rm -rf $d
