"""Development aid (not part of any check): line coverage of the toolkit under test while a
check runs.  Activated by VERIF_PYCOV=<dir> with this directory on PYTHONPATH; uses
sys.monitoring (Python 3.12), so it does not interfere with sys.settrace users (baton)."""
import atexit
import json
import os
import sys

_dir = os.environ.get("VERIF_PYCOV")
if _dir and hasattr(sys, "monitoring"):
    mon = sys.monitoring
    TOOL = mon.COVERAGE_ID
    hits = set()
    try:
        mon.use_tool_id(TOOL, "vfcov")

        def on_line(code, line):
            fn = code.co_filename
            if "trx_toolkit" in fn:
                hits.add((fn, line))
            return mon.DISABLE

        mon.register_callback(TOOL, mon.events.LINE, on_line)
        mon.set_events(TOOL, mon.events.LINE)

        def dump():
            os.makedirs(_dir, exist_ok=True)
            with open(os.path.join(_dir, "%d.json" % os.getpid()), "w") as f:
                json.dump(sorted(hits), f)
        atexit.register(dump)
    except Exception:
        pass
