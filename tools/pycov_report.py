#!/usr/bin/env python3
"""tools/pycov_report.py <dir> : merge coverage dumps, print unexecuted lines of the toolkit modules."""
import glob, json, os, sys
hits = {}
for f in glob.glob(os.path.join(sys.argv[1], "*.json")):
    for fn, ln in json.load(open(f)):
        hits.setdefault(os.path.basename(fn), set()).add(ln)
tk = "/repo/src/target/trx_toolkit"
want = sys.argv[2:] or sorted(os.path.basename(p) for p in glob.glob(tk + "/*.py") if not os.path.basename(p).startswith("test_"))
def lines_of(code, acc):
    for _, _, ln in code.co_lines():
        if ln:
            acc.add(ln)
    for c in code.co_consts:
        if hasattr(c, "co_lines"):
            lines_of(c, acc)
for name in want:
    p = os.path.join(tk, name)
    src = open(p).read()
    acc = set()
    lines_of(compile(src, p, "exec"), acc)
    miss = sorted(acc - hits.get(name, set()))
    print("%-22s %4d/%4d executable lines hit; missing: %s" % (name, len(acc) - len(miss), len(acc), compress(miss) if (compress := lambda m: ",".join(map(str, m))) else ""))
