#!/bin/sh
# tools/reseed.sh [Cxx ...] : regression over the archived seeded changes - every one whose meta.json says
# "detected" must still make the quick tier of its property's check exit 1 (scratch copy, VERIF_REPO).
cd /verif
for d in seeded/*/; do
  id=$(basename $d); p=${id%%-*}
  if [ $# -gt 0 ]; then case " $* " in *" $p "*) ;; *) continue;; esac; fi
  st=$(python3 -c "import json,sys; print(json.load(open('$d/meta.json'))['status'])")
  [ "$st" = "detected" ] || { echo "$id: $st (skipped)"; continue; }
  out=$(tools/seedcheck.sh $p /verif/$d/patch.diff 2>&1 | tail -1)
  echo "$id: $out"
done
