#!/bin/sh
# tools/seedcheck.sh <Cxx> <patch.diff> [tier] [other checks...]
# Runs check(s) against a scratch copy of /repo with the patch applied (VERIF_REPO), so that
# /repo itself stays untouched while other jobs use it.  Prints verdict lines.
pid=$1; patch=$2; tier=${3:-quick}
d=$(mktemp -d /tmp/seedrun-XXXXXX)
mkdir -p $d/repo
rsync -a --exclude "*.o" /repo/src /repo/include $d/repo/
( cd $d/repo && patch -p1 -s < "$patch" ) || { echo "PATCH DID NOT APPLY"; rm -rf $d; exit 3; }
cd /verif
VERIF_REPO=$d/repo bin/check $pid $tier > $d/out.log 2>&1; rc=$?
grep -E "VIOLATION|KNOWN-FINDING|MACHINERY|signature|done:" $d/out.log | cut -c1-220 | head -12
echo "exit=$rc"
rm -rf $d
exit $rc
