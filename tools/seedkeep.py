#!/usr/bin/env python3
"""tools/seedkeep.py <Cxx> <i> <name> <status> <detected_by> <needs...>
Archive a confirmed seeded change from /tmp/seed/<Cxx>/_seed into /verif/seeded/<Cxx>-<name>/."""
import json, os, shutil, sys
pid, i, name, status, detected = sys.argv[1:6]
needs = " ".join(sys.argv[6:])
src = "/tmp/seed/%s/_seed" % pid
dst = "/verif/seeded/%s-%s" % (pid, name)
os.makedirs(dst, exist_ok=True)
shutil.copy(os.path.join(src, "change%s.diff" % i), os.path.join(dst, "patch.diff"))
for ext in ("py", "c", "sh"):
    f = os.path.join(src, "demo%s.%s" % (i, ext))
    if os.path.exists(f):
        shutil.copy(f, os.path.join(dst, "demo.%s" % ext))
n = os.path.join(src, "notes%s.md" % i)
if os.path.exists(n):
    shutil.copy(n, os.path.join(dst, "notes.md"))
meta = dict(property=pid, name=name, origin="fresh sub-agent given only the property text and a scratch worktree",
            needs_to_manifest=needs, status=status, detected_by=detected,
            confirmed=["git apply patch.diff on a clean worktree of /repo HEAD", "repository test suite passes (test_no_timing_error_accumulated is flaky on HEAD too)",
                       "demo exits non-zero with the patch, zero without", "tools/seedcheck.sh %s patch.diff (quick tier, scratch copy with VERIF_REPO)" % pid])
json.dump(meta, open(os.path.join(dst, "meta.json"), "w"), indent=1)
print("kept", dst)
