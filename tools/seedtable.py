#!/usr/bin/env python3
"""tools/seedtable.py : regenerate the table of section 12.5 of DESIGN.md from seeded/*/meta.json
(between the markers <!-- seedtable:begin --> and <!-- seedtable:end -->)."""
import glob, json, os, re
root = os.path.dirname(os.path.dirname(os.path.abspath(__file__)))
rows = ["| Seed | Needs to manifest | Status | Caught by / strengthening it triggered |", "|---|---|---|---|"]
for f in sorted(glob.glob(os.path.join(root, "seeded/*/meta.json"))):
    m = json.load(open(f))
    esc = lambda s: s.replace("|", "\\|").replace("\n", " ")
    rows.append("| %s | %s | %s | %s |" % (os.path.basename(os.path.dirname(f)), esc(m["needs_to_manifest"]),
                                         esc(m["status"]), esc(m["detected_by"])))
p = os.path.join(root, "DESIGN.md")
s = open(p).read()
new = "<!-- seedtable:begin -->\n" + "\n".join(rows) + "\n<!-- seedtable:end -->"
s2, n = re.subn(r"<!-- seedtable:begin -->.*?<!-- seedtable:end -->", lambda _: new, s, flags=re.S)
if n != 1:
    raise SystemExit("markers not found")
open(p, "w").write(s2)
print("%d seeds" % (len(rows) - 2))
