#!/bin/sh
# tools/seedverify.sh <Cxx> <i> : confirm a sub-agent's seeded change in its scratch worktree /tmp/seed/<Cxx>:
# applies _seed/change<i>.diff, runs the repository tests (must pass), the demo (must fail), reverts, demo (must pass).
pid=$1; i=$2; wt=/tmp/seed/$pid
cd $wt || exit 2
git checkout -q -- . ; git apply _seed/change$i.diff || { echo "apply failed"; exit 2; }
/venv/bin/python -m pytest -q -p no:cacheprovider src/target/trx_toolkit 2>&1 | tail -1
if [ -f _seed/demo$i.py ]; then /venv/bin/python _seed/demo$i.py $wt > /tmp/seed/demo_$pid_$i.with 2>&1; echo "demo WITH change: exit=$?"; fi
git checkout -q -- .
if [ -f _seed/demo$i.py ]; then /venv/bin/python _seed/demo$i.py $wt > /tmp/seed/demo_$pid_$i.without 2>&1; echo "demo WITHOUT change: exit=$?"; fi
git status --short | grep -v _seed | head -3
