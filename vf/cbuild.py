"""Compile unmodified translation units from /repo's working tree into small
host drivers (clang, ASan+UBSan).  Everything is built into the caller's
scratch directory."""
import os
import re
import subprocess

from .core import REPO, ROOT
from .tlc import MachineryError

CC = "clang"
SAN = ["-fsanitize=address,undefined", "-fno-sanitize-recover=undefined", "-fno-omit-frame-pointer"]
BASE = ["-g", "-O1", "-std=gnu11", "-Wno-everything"]
HC = os.path.join(ROOT, "harness", "c")
LIBOSMO = os.path.join(REPO, "src/shared/libosmocore")


def cc(out, sources, *, includes=(), defines=(), extra=(), sanitize=True, cwd=None):
    cmd = [CC] + BASE + (SAN if sanitize else [])
    if os.environ.get("VERIF_CCOV"):       # development aid: source coverage of the units under test
        cmd += ["-fprofile-instr-generate", "-fcoverage-mapping"]
        with open(os.path.join(os.environ["VERIF_CCOV"], "binaries.txt"), "a") as f:
            f.write(out + "\n")
    for i in includes:
        cmd += ["-I", i]
    for d in defines:
        cmd += ["-D" + d]
    cmd += list(extra)
    cmd += list(sources) + ["-o", out]
    p = subprocess.run(cmd, cwd=cwd, stdout=subprocess.PIPE, stderr=subprocess.STDOUT, text=True)
    if p.returncode != 0:
        raise BuildError("compile failed: %s\n%s" % (" ".join(cmd), p.stdout[-4000:]))
    return out


class BuildError(MachineryError):
    """The unit under test (or a shim) no longer compiles."""


def slice_function(path, signature_re):
    """Return the text of one C function (from its signature line to the
    matching closing brace) out of the current working-tree file."""
    src = open(path, encoding="utf-8", errors="replace").read()
    m = re.search(signature_re, src, re.M)
    if not m:
        raise BuildError("cannot find %s in %s" % (signature_re, path))
    i = src.index("{", m.end() - 1 if src[m.end() - 1] == "{" else m.end())
    depth = 0
    j = i
    while j < len(src):
        c = src[j]
        if c == "{":
            depth += 1
        elif c == "}":
            depth -= 1
            if depth == 0:
                return src[m.start():j + 1]
        elif c == '"':
            j += 1
            while src[j] != '"':
                j += 2 if src[j] == "\\" else 1
        elif c == "'" :
            j += 1
            while src[j] != "'":
                j += 2 if src[j] == "\\" else 1
        elif src.startswith("/*", j):
            j = src.index("*/", j) + 1
        elif src.startswith("//", j):
            j = src.index("\n", j)
        j += 1
    raise BuildError("unbalanced braces slicing %s from %s" % (signature_re, path))


C_KEYWORDS = {"if", "for", "while", "switch", "return", "sizeof", "do", "else", "case", "defined", "typeof", "__attribute__"}


def _no_comments(text):
    """C text without comments and string literals (a function named in a comment is not a call)."""
    text = re.sub(r"/\*.*?\*/", " ", text, flags=re.S)
    text = re.sub(r"//[^\n]*", " ", text)
    return re.sub(r'"(?:\\.|[^"\\])*"', '""', text)


def slice_with_static_deps(path, signature_res, provided=()):
    """slice_function() for every signature, plus - transitively - the `static` functions of the
    same file that the sliced text calls, so that a refactoring which moves code into a new static
    helper still builds.  `provided` = names the caller defines itself (stand-ins).  Returns the text:
    prototypes of the pulled-in helpers, the helpers, then the requested functions."""
    wanted = [slice_function(path, sig) for sig in signature_res]
    have = set()
    for t in wanted:
        m = re.search(r"\b(\w+)\s*\(", t)
        if m:
            have.add(m.group(1))
    deps = []           # (name, text) in discovery order
    todo = list(wanted)
    src0 = open(path, encoding="utf-8", errors="replace").read()
    while todo:
        text = todo.pop()
        for name in sorted(set(re.findall(r"\b([A-Za-z_]\w*)\s*\(", _no_comments(text)))):
            if name in have or name in provided or name in C_KEYWORDS:
                continue
            try:
                dep = slice_function(path, r"^static\s[^;{}()=]*\b%s\s*\(" % re.escape(name))
            except BuildError:
                # a helper of the same file that is not static (a new public function next to the sliced
                # one): a definition at the start of a line - type, name, parameter list, then a brace
                m = re.search(r"^[A-Za-z_][\w \t\*]*\b%s\s*\([^;{}]*\)\s*\{" % re.escape(name), src0, re.M)
                if not m:
                    continue
                try:
                    dep = slice_function(path, r"^[A-Za-z_][\w \t\*]*\b%s\s*\([^;{}]*\)\s*\{" % re.escape(name))
                except BuildError:
                    continue
            have.add(name)
            deps.append((name, dep))
            todo.append(dep)
    protos = []
    for name, dep in deps:
        head = dep[:dep.index("{")].strip()
        protos.append(re.sub(r"\s+", " ", head) + ";")
    # file-local macros and static const tables the sliced text uses
    src = open(path, encoding="utf-8", errors="replace").read()
    body = "\n".join([d for _, d in deps] + wanted)
    extra = []
    seen = set()
    grew = True
    while grew:
        grew = False
        for ident in sorted(set(re.findall(r"\b[A-Za-z_]\w*\b", _no_comments(body + "\n".join(extra))))):
            if ident in seen or ident in have or ident in provided:
                continue
            m = re.search(r"^#[ \t]*define[ \t]+%s\b.*(?:\\\n.*)*" % re.escape(ident), src, re.M)
            if m:
                seen.add(ident)
                extra.append("#ifndef %s\n%s\n#endif" % (ident, m.group(0)))
                grew = True
                continue
            m = re.search(r"^static\s+const\s[^;=(){}]*\b%s\s*\[[^\]]*\]\s*=\s*\{.*?^\};" % re.escape(ident), src, re.M | re.S)
            if m:
                seen.add(ident)
                extra.append(m.group(0))
                grew = True
                continue
            # file-scope static variables (a cache, a counter): one statement, or a struct / union with a body
            m = re.search(r"^static\s[^;(){}]*\b%s\s*(?:\[[^\]]*\]\s*)*(?:=[^;{]*)?;" % re.escape(ident), src, re.M) or \
                re.search(r"^static\s+(?:const\s+)?(?:struct|union)\b[^;{}()]*\{(?:(?!^\}).)*?^\}\s*%s\s*(?:\[[^\]]*\]\s*)*(?:=\s*\{[^;]*\})?\s*;"
                          % re.escape(ident), src, re.M | re.S)
            if m:
                seen.add(ident)
                extra.append(m.group(0))
                grew = True
    return "\n".join(extra) + ("\n\n" if extra else "") + "\n".join(protos) + ("\n\n" if protos else "") + \
        "\n\n".join(d for _, d in deps) + ("\n\n" if deps else "") + "\n\n".join(wanted)


def slice_lines(path, start_re, end_re):
    """Return the lines from the first match of start_re to the first later
    match of end_re (inclusive)."""
    out = []
    on = False
    for ln in open(path, encoding="utf-8", errors="replace"):
        if not on and re.search(start_re, ln):
            on = True
        if on:
            out.append(ln)
            if re.search(end_re, ln) and len(out) > 0 and (len(out) > 1 or start_re != end_re):
                return "".join(out)
    raise BuildError("cannot slice %s..%s from %s" % (start_re, end_re, path))


def run_driver(exe, script, timeout=600, env=None):
    """Feed a script on stdin, return (returncode, stdout, stderr)."""
    e = dict(os.environ)
    e["ASAN_OPTIONS"] = "detect_leaks=0:abort_on_error=0:exitcode=99"
    e["UBSAN_OPTIONS"] = "print_stacktrace=1:halt_on_error=1:exitcode=98"
    if env:
        e.update(env)
    p = subprocess.run([exe], input=script, stdout=subprocess.PIPE, stderr=subprocess.PIPE,
                       timeout=timeout, text=True, env=e, errors="replace")
    return p.returncode, p.stdout, p.stderr
