"""bin/check <Cxx> quick|thorough | --replay <file> ;  bin/check --setup"""
import importlib
import json
import os
import sys
import traceback

from . import core, tlc


def setup():
    ok = True
    import shutil
    for tool in ("java", "clang"):
        if shutil.which(tool) is None:
            print("setup: missing tool", tool)
            ok = False
    if not os.path.exists("/venv/bin/python"):
        print("setup: /venv/bin/python missing")
        ok = False
    spec_dir = tlc.SPEC_DIR
    mods = sorted(f for f in os.listdir(spec_dir) if f.endswith(".tla"))
    from concurrent.futures import ThreadPoolExecutor
    with ThreadPoolExecutor(max_workers=8) as ex:
        for m, (good, out) in zip(mods, ex.map(tlc.sany, mods)):
            if not good:
                print("setup: SANY failed for", m)
                print(out[-2000:])
                ok = False
    print("setup: %d modules parsed, %s" % (len(mods), "ok" if ok else "FAILED"))
    return 0 if ok else 2


def main(argv):
    import logging
    logging.getLogger().addHandler(logging.NullHandler())   # the toolkit logs through the root logger
    if len(argv) >= 1 and argv[0] == "--setup":
        return setup()
    if len(argv) < 2:
        print(__doc__)
        return 2
    pid = argv[0].upper()
    replay = None
    if argv[1] == "--replay":
        tier = "quick"
        replay = argv[2]
    else:
        tier = argv[1]
    tier = os.environ.get("VERIF_TIER", tier) if argv[1] not in ("quick", "thorough") else tier
    seed = int(os.environ.get("VERIF_SEED", "20261002"))
    try:
        mod = importlib.import_module("vf.props.%s" % pid.lower())
    except ModuleNotFoundError as e:
        print("no check for", pid, e)
        return 2
    rp = None
    if replay:
        # a replay file names the seed and tier of the run that found the violation: the same
        # deterministic exploration is repeated against the current tree
        with open(replay) as f:
            rp = json.load(f)
        seed = rp.get("seed", seed)
        tier = rp.get("tier", "quick")
    ctx = core.Ctx(pid, tier, seed, mod.LEVEL)
    try:
        if rp is not None:
            ctx.replaying = rp
        mod.run(ctx)
        return ctx.finish()
    except tlc.MachineryError as e:
        print("MACHINERY-FAILURE property=%s: %s" % (pid, e))
        ctx.cleanup()
        return 2
    except Exception:
        traceback.print_exc()
        print("MACHINERY-FAILURE property=%s: unexpected exception" % pid)
        ctx.cleanup()
        return 2


if __name__ == "__main__":
    sys.exit(main(sys.argv[1:]))
