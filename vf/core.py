"""Check context: scratch space, TLC accounting, violation classification,
evidence writing.  One Ctx per `bin/check <id> <tier>` invocation."""
import hashlib
import json
import os
import random
import shutil
import sys
import tempfile
import time

from . import tlc

ROOT = os.path.dirname(os.path.dirname(os.path.abspath(__file__)))
REPO = os.environ.get("VERIF_REPO", "/repo")
TOOLKIT = os.path.join(REPO, "src/target/trx_toolkit")
FINDINGS_FILE = os.path.join(ROOT, "known_findings.json")


def load_findings():
    if not os.path.exists(FINDINGS_FILE):
        return []
    with open(FINDINGS_FILE) as f:
        return json.load(f)["findings"]


class Ctx:
    def __init__(self, pid, tier, seed, level):
        self.pid = pid
        self.tier = tier
        self.seed = seed
        self.level = level
        self.rng = random.Random(seed)
        self.scratch = tempfile.mkdtemp(prefix="vf-%s-" % pid)
        self.t0 = time.time()
        self.states = 0
        self.transitions = 0
        self.jobs = []
        self.traces_validated = 0
        self.evaluations = 0
        self.nontrivial = set()
        self.nontrivial_n = 0
        self.samples = []
        self.violations = {}       # signature -> dict
        self.known_hits = {}       # signature -> what
        self.extra = {}
        self.assumptions = []
        self.rule = ""
        self.exhaustive = None
        self.trusted = []
        self.findings = [f for f in load_findings() if f["property"] == pid]

    @property
    def thorough(self):
        return self.tier == "thorough"

    def pick(self, quick, thorough):
        return thorough if self.thorough else quick

    # ---- accounting -------------------------------------------------
    def add_tlc(self, label, res):
        self.states += res.distinct
        self.transitions += res.generated
        self.jobs.append(dict(job=label, **res.summary()))

    def add_tv(self, label, stats, n):
        self.states += stats["distinct"]
        self.transitions += stats["generated"]
        self.traces_validated += n
        self.jobs.append(dict(job=label, traces=n, **stats))

    def sample(self, obj, limit=4):
        if len(self.samples) < limit:
            self.samples.append(obj)

    def count(self, n=1):
        self.evaluations += n

    def distinct(self, key):
        """Register one non-trivial case by a hashable key (counted distinct)."""
        self.nontrivial.add(key if isinstance(key, (str, int)) else
                            hashlib.sha1(repr(key).encode()).hexdigest()[:16])

    def log(self, *a):
        print("[%s %s %6.1fs]" % (self.pid, self.tier, time.time() - self.t0), *a, flush=True)

    # ---- verdicts ---------------------------------------------------
    def violation(self, signature, what, replay=None):
        """Record a violation with a stable signature.  Known (open) findings
        become KNOWN-FINDING lines, everything else a VIOLATION."""
        for f in self.findings:
            if f.get("status") == "open" and f["signature"] == signature:
                if signature not in self.known_hits:
                    self.known_hits[signature] = f.get("what", what)
                return False
        if signature in self.violations:
            self.violations[signature]["count"] += 1
            return True
        h = hashlib.sha1(signature.encode()).hexdigest()[:10]
        path = os.path.join(ROOT, "replays", "%s-%s.json" % (self.pid, h))
        os.makedirs(os.path.dirname(path), exist_ok=True)
        with open(path, "w") as f:
            json.dump(dict(property=self.pid, signature=signature, what=what, seed=self.seed,
                           tier=self.tier, replay=replay), f, indent=1, default=str)
        self.violations[signature] = dict(what=what, path=path, count=1)
        return True

    def mc_violation(self, label, res, signature=None):
        """A TLC model-checking job found the *specification* violates a property."""
        v = res.violation
        sig = signature or "%s/spec/%s" % (self.pid, v["name"])
        self.violation(sig, "TLC: %s %s violated in %s" % (v["kind"], v["name"], label),
                       dict(trace=v.get("trace", ""), cmd=res.cmd))

    def require_ok(self, label, res):
        self.add_tlc(label, res)
        if not res.ok:
            self.mc_violation(label, res)
        return res.ok

    # ---- end --------------------------------------------------------
    def finish(self):
        wall = time.time() - self.t0
        cov = dict(
            evaluations=max(self.evaluations, 0),
            distinct_nontrivial=len(self.nontrivial) + self.nontrivial_n,
            rule=self.rule,
            samples=self.samples,
            states=self.states,
            transitions=self.transitions,
            traces_validated_against_impl=self.traces_validated,
            tlc_jobs=self.jobs,
            trusted_base=self.trusted,
        )
        if self.exhaustive is not None:
            cov["exhaustive"] = self.exhaustive
        cov.update(self.extra)
        if self.known_hits:
            cov["known_findings_hit"] = sorted(self.known_hits)
        ev = dict(property_id=self.pid, tier=self.tier, seed=self.seed, level=self.level,
                  coverage=cov, assumptions=self.assumptions, wall_s=round(wall, 2),
                  violations=len(self.violations))
        # evidence describes /repo itself: a run against a scratch copy (VERIF_REPO, used by
        # tools/seedcheck.sh and tools/mutcheck.sh) leaves it alone and writes next to the copy
        evdir = os.path.join(ROOT, "evidence") if "VERIF_REPO" not in os.environ else os.path.join(REPO, "..", "evidence")
        os.makedirs(evdir, exist_ok=True)
        with open(os.path.join(evdir, "%s.json" % self.pid), "w") as f:
            json.dump(ev, f, indent=1, default=str)
        for sig, what in sorted(self.known_hits.items()):
            print("KNOWN-FINDING: property=%s %s [%s]" % (self.pid, what, sig))
        for sig, v in sorted(self.violations.items()):
            print("VIOLATION property=%s replay=%s" % (self.pid, v["path"]))
            print("  signature=%s x%d: %s" % (sig, v["count"], v["what"]))
        if not os.environ.get("VERIF_KEEP_SCRATCH"):
            shutil.rmtree(self.scratch, ignore_errors=True)
        self.log("done: %d violation(s), %d known finding(s), states=%d traces=%d evals=%d"
                 % (len(self.violations), len(self.known_hits), self.states,
                    self.traces_validated, self.evaluations))
        return 1 if self.violations else 0

    def cleanup(self):
        if not os.environ.get("VERIF_KEEP_SCRATCH"):
            shutil.rmtree(self.scratch, ignore_errors=True)
