"""C01 - TRXD messages survive encode/decode unchanged."""
from . import trxd_common as C

ID = "C01"
LEVEL = "model_checking"


def run(ctx):
    C.mc(ctx)
    recs = C.python_records(ctx, ctx.pick(1500, 40000), 0)
    C.judge(ctx, recs, ("C01.",), "TV TrxdTrace (gen_msg -> parse_msg round trip of the real data_msg.py)")
    ctx.rule = ("valid Tx/Rx messages from a seeded generator with boundary bias (all versions, modulations, TSC sets, "
                "TSCs, NOPE, legacy padding on/off, structured and random bursts of real length), encoded and re-parsed by "
                "the real code; TLC compares original and decoded message field by field; distinct by header octets")
    ctx.trusted += ["harness/py/trxd_drv.py (projection of message objects to JSON)", "TLC + CommunityModules"]
    ctx.assumptions += ["equality over the fields that exist in the message's version (v0 has no modulation/TSC/C-I, NOPE has no MTS info)"]
