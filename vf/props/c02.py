"""C02 - see DESIGN.md section 3; sessions of the real fake_trx.Application with
burst traffic validated against spec/FakeTrxTrace.tla, plus FakeTrxMC."""
from .. import tlc
from . import faketrx_common as FC

ID = "C02"
LEVEL = "model_checking"


def discr(tr, e, tag):
    d = e["e"]
    if e["e"] == "tick":
        start = tr["cfg"]["start"]
        d = "tick-wrap" if (e["fn"] >= FC.HYPER - 8 or e["fn"] < 8) and start >= FC.HYPER - 8 else "tick"
    return d


def run(ctx):
    r = tlc.run("FakeTrxMC.tla", ctx.pick("MC_FakeTrxFlowQ.cfg", "MC_FakeTrxFlow.cfg"), workers=8, timeout=3000)
    ctx.require_ok("MC FakeTrxMC flow mode (arrivals, ticks across the wrap, POWEROFF/POWERON, SETFORMAT, FAKE_DROP, RFMUTE)", r)
    # beyond the exhaustive depth: random deep behaviours (<= 40 steps) with every invariant checked in every state
    r = tlc.run("FakeTrxMC.tla", "SIMINV_FakeTrx.cfg", workers=4, simulate="num=%d" % ctx.pick(60, 3000), depth=40,
                seed=ctx.seed % 100003, timeout=3000)
    ctx.require_ok("SIM FakeTrxMC flow mode, depth 40, invariants in every state", r)
    traces = [FC.traffic_session(ctx, "s%d" % k, ID) for k in range(ctx.pick(110, 5000))]
    traces += [FC.restart_replay_session(ctx, "r%d" % k) for k in range(ctx.pick(25, 600))]
    nd = FC.traffic_stats(ctx, traces)
    FC.validate(ctx, traces, (ID + ".",) + ("C12.poweroff-forgets-hopping", "C05.effect.hopping", "C05.effect.rx", "C05.effect.tx", "C14.no-exception"), "TV FakeTrxTrace (%s traffic sessions on the real Application)" % ID, discr)
    t0 = traces[0]
    ctx.sample(dict(argv=t0["cfg"]["argv"], start=t0["cfg"]["start"],
                    events=[(e["e"], e.get("t"), e.get("fn"), bytes(e.get("raw", []))[:24].decode("latin1")) for e in t0["ev"][:14]]))
    ctx.rule = "2..6 transceivers (BTS, MS, child and extra) with random power state, RXTUNE/TXTUNE from a pool of 4 frequencies, SETFH (HSN 0..63, MAIO, 1..4 channel pairs), header versions, mute; bursts from any transceiver at random frame numbers (clock started at random FN incl. the wrap); distinct by session"
    ctx.trusted += ["harness/py/faketrx_drv.py (fake sockets, thread stand-in, projection)", "TLC"]
    ctx.assumptions += ["a sender whose transmit frequency is undefined is modelled as the code behaves (None equals None); the statement speaks about frequencies only", "deliveries whose simulated RSSI/ToA leave the protocol range are not sent (C13)"]
