"""C03 - see DESIGN.md section 3; sessions of the real fake_trx.Application with
burst traffic validated against spec/FakeTrxTrace.tla, plus FakeTrxMC."""
from .. import tlc
from . import faketrx_common as FC

ID = "C03"
LEVEL = "model_checking"


def discr(tr, e, tag):
    d = e["e"]
    if e["e"] == "tick":
        start = tr["cfg"]["start"]
        d = "tick-wrap" if (e["fn"] >= FC.HYPER - 8 or e["fn"] < 8) and start >= FC.HYPER - 8 else "tick"
    return d


def run(ctx):
    r = tlc.run("FakeTrxMC.tla", ctx.pick("MC_FakeTrxFlowQ.cfg", "MC_FakeTrxFlow.cfg"), workers=8, timeout=3000)
    ctx.require_ok("MC FakeTrxMC flow mode (arrivals, ticks across the wrap, POWEROFF/POWERON, SETFORMAT, FAKE_DROP, RFMUTE)", r)
    pass  # schedules(ctx): see below
    traces = [FC.traffic_session(ctx, "s%d" % k, ID) for k in range(ctx.pick(110, 5000))]
    nd = FC.traffic_stats(ctx, traces)
    FC.validate(ctx, traces, (ID + ".",) + ("C09.tick-frame-number",), "TV FakeTrxTrace (%s traffic sessions on the real Application)" % ID, discr)
    t0 = traces[0]
    ctx.sample(dict(argv=t0["cfg"]["argv"], start=t0["cfg"]["start"],
                    events=[(e["e"], e.get("t"), e.get("fn"), bytes(e.get("raw", []))[:24].decode("latin1")) for e in t0["ev"][:14]]))
    ctx.rule = "seeded histories of burst arrivals (frame offsets -3..+5 around the clock, far offsets, both header versions incl. mismatching ones), ticks, POWERON/POWEROFF, SETFORMAT; half of the sessions start a few frames before the hyperframe wrap; every session ends by ticking past all queued frames and powering off; distinct by session"
    ctx.trusted += ["harness/py/faketrx_drv.py (fake sockets, thread stand-in, projection)", "TLC"]
    ctx.assumptions += ["a burst further than a quarter hyperframe from the clock may be kept or reported stale (the statement does not say)", "pre-emption inside one source line is not enumerated (schedule part)"]
