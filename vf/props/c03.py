"""C03 - see DESIGN.md section 3; sessions of the real fake_trx.Application with
burst traffic validated against spec/FakeTrxTrace.tla, plus FakeTrxMC."""
from .. import tlc
from . import faketrx_common as FC

ID = "C03"
LEVEL = "model_checking"


def discr(tr, e, tag):
    d = e["e"]
    if e["e"] == "tick":
        start = tr["cfg"]["start"]
        d = "tick-wrap" if (e["fn"] >= FC.HYPER - 8 or e["fn"] < 8) and start >= FC.HYPER - 8 else "tick"
    return d


def run(ctx):
    r = tlc.run("FakeTrxMC.tla", ctx.pick("MC_FakeTrxFlowQ.cfg", "MC_FakeTrxFlow.cfg"), workers=8, timeout=3000)
    ctx.require_ok("MC FakeTrxMC flow mode (arrivals, ticks across the wrap, POWEROFF/POWERON, SETFORMAT, FAKE_DROP, RFMUTE)", r)
    # beyond the exhaustive depth: random deep behaviours (<= 40 steps) with every invariant checked in every state
    r = tlc.run("FakeTrxMC.tla", "SIMINV_FakeTrx.cfg", workers=4, simulate="num=%d" % ctx.pick(60, 3000), depth=40,
                seed=ctx.seed % 100003, timeout=3000)
    ctx.require_ok("SIM FakeTrxMC flow mode, depth 40, invariants in every state", r)
    schedules(ctx)
    traces = [FC.traffic_session(ctx, "s%d" % k, ID) for k in range(ctx.pick(110, 5000))]
    traces += [FC.flood_session(ctx, "f%d" % k) for k in range(ctx.pick(1, 6))]
    nd = FC.traffic_stats(ctx, traces)
    FC.validate(ctx, traces, (ID + ".",) + ("C09.tick-frame-number", "C05.effect.ver", "C14.no-exception"), "TV FakeTrxTrace (%s traffic sessions on the real Application)" % ID, discr)
    t0 = traces[0]
    ctx.sample(dict(argv=t0["cfg"]["argv"], start=t0["cfg"]["start"],
                    events=[(e["e"], e.get("t"), e.get("fn"), bytes(e.get("raw", []))[:24].decode("latin1")) for e in t0["ev"][:14]]))
    ctx.rule = "seeded histories of burst arrivals (frame offsets -3..+5 around the clock, far offsets, both header versions incl. mismatching ones), ticks, POWERON/POWEROFF, SETFORMAT; half of the sessions start a few frames before the hyperframe wrap; every session ends by ticking past all queued frames and powering off; distinct by session"
    ctx.trusted += ["harness/py/faketrx_drv.py (fake sockets, thread stand-in, projection)", "TLC"]
    ctx.assumptions += ["a burst further than a quarter hyperframe from the clock may be kept or reported stale (the statement does not say)", "pre-emption inside one source line is not enumerated (schedule part)"]


# ---------------------------------------------------------------- schedules
TRACED = ("transceiver.py", "fake_trx.py", "burst_fwd.py", "data_if.py", "ctrl_if.py", "ctrl_if_trx.py", "clck_gen.py")


_SIM = {}


class ResetFailed(Exception):
    pass


def one_schedule(scn, first, k1, k2, k3=None):
    """Execute one schedule of scenario `scn`; the application object is built
    once and brought back to the scenario's initial state by power-cycling
    both transceivers (which clears the queue and restarts the clock).
    Returns (events, steps per thread, exceptions)."""
    import logging
    import random
    import threading
    import baton
    import faketrx_drv as F
    random.seed(1)
    sim = _SIM.get("sim")
    if sim is None:
        sim = _SIM["sim"] = F.Sim([])
    sim.app.clck_gen.clck_start = scn["fn"]
    log = []
    ms, bts = 1, 0
    import threading as _th
    _set_locks(sim.trx[ms], _th.Lock)
    for t, (rx, tx) in ((bts, (890200, 935200)), (ms, (935200, 890200))):
        sim.cmd(t, b"CMD POWEROFF\0")
    for t, (rx, tx) in ((bts, (890200, 935200)), (ms, (935200, 890200))):
        sim.cmd(t, b"CMD RXTUNE %d\0" % rx)
        sim.cmd(t, b"CMD TXTUNE %d\0" % tx)
        sim.cmd(t, b"CMD POWERON\0")
    if not (sim.app.clck_gen.clck_src == scn["fn"] and len(sim.queue(ms) or []) == 0):
        raise ResetFailed("power cycling did not restart the clock / clear the queue")
    for m in scn["q"]:
        sim.data(ms, FC.tx_datagram(0, m["fn"], m["id"], 0, bytes(148)))
    if not scn["run"]:
        sim.cmd(ms, b"CMD POWEROFF\0")          # clears the queue; scenario queues are empty then
    bt = baton.Baton(TRACED)
    lock = baton.BatonLock(bt, lambda: threading.current_thread().name)
    if _set_locks(sim.trx[ms], lambda: lock) == 0:
        # no mutex found on the transceiver object (a lock-free queue?): schedules are enumerated all the
        # same; should a pre-empted thread block on a lock the baton does not know, the watchdog of the
        # baton ends that schedule and only the two sequential orders are run from then on
        _SIM["nolock"] = True
        if _SIM.get("stuck") and k1 < 10 ** 6:
            k1, k2, k3 = 10 ** 6, 0, None
    sim.net.take()

    def hook(sock, data, addr):
        i, kind = sim.sock2.get(id(sock), (-1, "?"))
        if kind == "data" and i == bts:
            log.append(dict(e="sent", id=data[0] & 7))
    sim.net.hook = hook

    class H(logging.Handler):
        def emit(self, rec):
            import os
            import re
            msg = rec.getMessage()
            m = F._STALE.match(msg)
            if m:
                mt = re.search(r"\btn=(\d+)", m.group(3))
                log.append(dict(e="stale", id=int(mt.group(1))))
            elif os.path.basename(rec.pathname or "") == "transceiver.py" and threading.current_thread().name == "clk":
                # (emitted by the clock thread: the socket thread's "not running" warning is no report)
                # the wording is the maintainer's: a warning of the transceiver that names a burst is the report
                tns = re.findall(r"\btn=(\d+)", msg)
                if tns:
                    log.append(dict(e="stale", id=int(tns[-1])))
    h = H(logging.WARNING)
    logging.getLogger().addHandler(h)
    ops_seq = scn["ops"] if "ops" in scn else [scn["op"]]

    def sock():
        for op in ops_seq:
            sock_one(op)

    def sock_one(op):
        if op["op"] == "arrive":
            log.append(dict(e="sockStart", op="arrive", m=op["m"]))
            dif = sim.trx[ms].data_if
            dif.sock.feed(FC.tx_datagram(0, op["m"]["fn"], op["m"]["id"], 0, bytes(148)), (dif.remote_addr, dif.remote_port))
            r = sim.trx[ms].recv_data_msg()
            log.append(dict(e="sockEnd", acc=r is not None))
        else:
            log.append(dict(e="sockStart", op=op["op"], m=dict(id=0, fn=0)))
            sim.trx[ms].ctrl_if.sock.feed(b"CMD POWEROFF\0" if op["op"] == "off" else b"CMD POWERON\0", ("127.0.0.1", 1))
            sim.trx[ms].ctrl_if.handle_rx()
            log.append(dict(e="sockEnd", acc=False))

    def clk():
        log.append(dict(e="tickStart", fn=scn["fn"]))
        sim.app.clck_gen.send_clck_ind()
        log.append(dict(e="tickEnd"))

    try:
        steps = bt.run({"sock": _named(sock, "sock"), "clk": _named(clk, "clk")}, first, k1, k2, k3)
    except baton.BatonStuck:
        _SIM["stuck"] = True
        _SIM.pop("sim", None)            # that application instance has a thread parked inside it
        logging.getLogger().removeHandler(h)
        sim.net.hook = None
        return one_schedule(scn, first, 10 ** 6, 0)
    finally:
        logging.getLogger().removeHandler(h)
        sim.net.hook = None
    fq = sim.queue(ms)
    log.append(dict(e="final", q=[tn for (_, tn) in (fq or [])], qunobs=fq is None, run=bool(sim.trx[ms].running)))
    return log, dict(steps, mark=bt.marks.get("clk", 0), acq=bt.first_acq.get("clk", 0),
                     smark=bt.marks.get("sock", 0), sacq=bt.first_acq.get("sock", 0)), dict(bt.errors)


def _set_locks(trx, make):
    """Replace every mutex held in an attribute of the transceiver object (by type, not by name)."""
    import threading
    import baton
    kinds = (type(threading.Lock()), type(threading.RLock()), baton.BatonLock)
    n = 0
    for k, v in list(vars(trx).items()):
        if isinstance(v, kinds):
            setattr(trx, k, make())
            n += 1
    return n


def _named(fn, name):
    def run():
        import threading
        threading.current_thread().name = name
        fn()
    return run


def schedules(ctx, only=None):
    """Every <=2-pre-emption schedule of {arrival, POWEROFF, POWERON} racing one tick.
    `only`: restrict to scenarios with this socket-thread operation (used by C12 for POWEROFF)."""
    import itertools
    r = tlc.run("FakeTrxThreadsMC.tla", "MC_FakeTrxThreads.cfg", workers=4, timeout=1200)
    ctx.require_ok("MC FakeTrxThreadsMC (all interleavings of one socket-thread operation with one tick)", r)
    F0 = 1000
    scns = []
    queues = [[], [dict(id=1, fn=F0)], [dict(id=1, fn=F0), dict(id=2, fn=F0 + 1)], [dict(id=1, fn=F0 - 1), dict(id=2, fn=F0)]]
    for q in queues:
        for fn_new in (F0, F0 + 1, F0 - 1):
            scns.append(dict(run=True, q=q, fn=F0, op=dict(op="arrive", m=dict(id=3, fn=fn_new))))
        scns.append(dict(run=True, q=q, fn=F0, op=dict(op="off")))
    scns.append(dict(run=False, q=[], fn=F0, op=dict(op="on")))
    scns.append(dict(run=False, q=[], fn=F0, op=dict(op="arrive", m=dict(id=3, fn=F0))))
    # two socket-thread operations in a row racing one tick
    scns.append(dict(run=False, q=[], fn=F0, op=dict(op="on"), ops=[dict(op="on"), dict(op="arrive", m=dict(id=3, fn=F0))]))
    scns.append(dict(run=True, q=queues[2], fn=F0, op=dict(op="arrive"), ops=[dict(op="arrive", m=dict(id=3, fn=F0 + 1)), dict(op="off")]))
    scns.append(dict(run=True, q=queues[1], fn=F0, op=dict(op="off"), ops=[dict(op="off"), dict(op="on"), dict(op="arrive", m=dict(id=3, fn=F0))]))
    if only:
        scns = [x for x in scns if x["op"]["op"] == only]
        if not ctx.thorough:
            scns = scns[2:3]
    elif not ctx.thorough:
        scns = [scns[i] for i in (4, 11, 12, 19)]
    traces = []
    nexec = 0
    for si, scn in enumerate(scns):
        try:
            # two sequential probes (socket operation first / tick first): line-step counts and the
            # positions of the queue-mutex sections differ with the order
            _, pa, _ = one_schedule(scn, "sock", 10 ** 6, 0)
            _, pb, _ = one_schedule(scn, "clk", 10 ** 6, 0)
        except ResetFailed as e:
            ctx.violation(ctx.pid + "/schedule/power-cycle-does-not-reset", str(e), dict(scenario=scn))
            return
        na = max(pa.get("sock", 0), pb.get("sock", 0))
        nb = max(pa.get("clk", 0), pb.get("clk", 0))
        tail = 1 if ctx.thorough else 7

        def points(n, wins):
            pts = set(range(0, n + 1, tail)) | {n}
            for lo, hi in wins:
                if hi > 0:
                    pts |= set(range(max(0, lo - 3), min(n, hi + 4) + 1))
            return sorted(pts)
        clk_points = points(nb, [(pa.get("acq", 0), pa.get("mark", 0)), (pb.get("acq", 0), pb.get("mark", 0))])
        sock_points = points(na, [(pa.get("sacq", 0), pa.get("smark", 0)), (pb.get("sacq", 0), pb.get("smark", 0))])
        for first in ("sock", "clk"):
            r1 = sock_points if first == "sock" else clk_points
            r2 = clk_points if first == "sock" else sock_points
            for k1 in r1:
                for k2 in r2:
                    if k1 == 0 and k2 > 0 and first == "clk":
                        continue                     # same executions as first == "sock" with k1' = k2
                    log, _, errs = one_schedule(scn, first, k1, k2)
                    nexec += 1
                    if errs:
                        ctx.violation(ctx.pid + "/schedule/exception/%s" % type(list(errs.values())[0]).__name__,
                                      "exception %r in scenario %d schedule (%s,%d,%d)" % (errs, si, first, k1, k2),
                                      dict(scenario=scn, schedule=[first, k1, k2]))
                        continue
                    traces.append(dict(id="x%d-%s-%d-%d" % (si, first, k1, k2), cfg=dict(run=scn["run"], q=scn["q"]), ev=log))
        if ctx.thorough and si % 3 == 0:
            # three pre-emptions: both threads inside / around their mutex sections
            cw = [k for k in clk_points if max(0, pb.get("acq", 0) - 2) <= k <= pb.get("mark", nb) + 2][:14]
            sw = [k for k in sock_points if max(0, pa.get("sacq", 0) - 2) <= k <= (pa.get("smark", na) or na) + 2][:14]
            for first, r1, r2 in (("sock", sw, cw), ("clk", cw, sw)):
                for k1 in r1:
                    for k2 in r2:
                        for k3 in (1, 2, 3, 5, 8):
                            log, _, errs = one_schedule(scn, first, k1, k2, k3)
                            nexec += 1
                            if errs:
                                ctx.violation(ctx.pid + "/schedule/exception/%s" % type(list(errs.values())[0]).__name__,
                                              "exception %r in scenario %d schedule (%s,%d,%d,%d)" % (errs, si, first, k1, k2, k3),
                                              dict(scenario=scn, schedule=[first, k1, k2, k3]))
                                continue
                            traces.append(dict(id="y%d-%s-%d-%d-%d" % (si, first, k1, k2, k3), cfg=dict(run=scn["run"], q=scn["q"]), ev=log))
        ctx.log("scenario %d: %d+%d line steps, %d executions so far" % (si, na, nb, nexec))
    ctx.extra["schedules_executed"] = nexec
    if _SIM.get("nolock"):
        ctx.extra["schedules_note"] = ("no mutex attribute found on the transceiver object" +
                                       ("; a pre-empted thread blocked on an unknown lock: only sequential orders were run from then on"
                                        if _SIM.get("stuck") else "; schedules enumerated all the same"))
    # identical event sequences need to be validated only once
    uniq = {}
    for t in traces:
        key = repr((t["cfg"], t["ev"]))
        uniq.setdefault(key, t)
    ctx.extra["distinct_schedule_traces"] = len(uniq)
    ul = list(uniq.values())
    res, stats = tlc.validate_traces("FakeTrxThreadsTrace.tla", "FakeTrxThreadsTrace.cfg", ul, scratch=ctx.scratch,
                                     chunk="balance", parallel=4, timeout=3000, dfs=True)
    ctx.add_tv("TV FakeTrxThreadsTrace (enumerated line-level schedules of the real code)", stats, len(ul))
    byid = {t["id"]: t for t in ul}
    for v in res:
        ctx.distinct(v["id"])
        if v["reached"] != v["n"]:
            t = byid[v["id"]]
            e = t["ev"][v["reached"]]
            ctx.violation(ctx.pid + "/schedule/%s/%s" % (e["e"], t["ev"][0].get("op", "tick-first") if t["ev"][0]["e"] == "sockStart" else [x for x in t["ev"] if x["e"] == "sockStart"][0]["op"]),
                          "schedule %s: no interleaving of the specification explains event %d (%s)" % (v["id"], v["reached"] + 1, e),
                          dict(cfg=t["cfg"], events=t["ev"]))
    ctx.sample(dict(schedule=ul[len(ul) // 2]["id"], events=ul[len(ul) // 2]["ev"]))
