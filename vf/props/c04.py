"""C04 - TRXD octets follow the protocol layout; Python and trxcon (C) agree."""
from . import trxd_common as C

ID = "C04"
LEVEL = "model_checking"


def run(ctx):
    C.mc(ctx)
    recs = C.python_records(ctx, ctx.pick(1200, 30000), ctx.pick(1200, 30000))
    recs += C.trxcon_records(ctx, ctx.pick(400, 15000), ctx.pick(300, 8000))
    C.judge(ctx, recs, ("C04.",), "TV TrxdTrace (octets of gen_msg, parse_msg on accepted byte strings, trxcon burst_ind / burst_req)")
    ctx.rule = ("records of the real encoders/parsers (data_msg.py and trxcon's trx_if.c) judged by TLC against the layout "
                "operators of TrxdPdu.tla; parser inputs are mutations of valid datagrams; distinct by header octets")
    ctx.trusted += ["harness/py/trxd_drv.py", "harness/c/drv_trxcon.c + shim/trxcon headers (osmo_fsm/socket stand-ins)",
                    "in-repo libosmocore talloc.c, gsm_utils.c", "TLC + CommunityModules"]
    ctx.assumptions += ["for datagrams of non-canonical length only the header fields and burst-is-a-prefix are demanded"]
