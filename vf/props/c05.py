"""C05 - every TRXC command gets exactly one well-formed response with
documented effect; trxcon accepts the replies to the commands it emits."""
import os

from .. import tlc, tlaval
from . import faketrx_common as FC

ID = "C05"
LEVEL = "model_checking"

ARG_POOL = [0, 1, 2, -1, 15, 16, 63, 64, 255, 256, -128, 127, 1000, -1000, 935200, 890200, 2000000, -120, -47]


def grammar():
    """Every documented verb (and some others) with 0..5 arguments."""
    verbs = ["POWERON", "POWEROFF", "RXTUNE", "TXTUNE", "MEASURE", "SETFH", "SETFORMAT", "SETPOWER", "NOMTXPOWER",
             "RFMUTE", "SETTA", "FAKE_TOA", "FAKE_RSSI", "FAKE_CI", "FAKE_DROP", "FAKE_TRXC_DELAY", "SETSLOT", "ECHO", "NOSUCH"]
    out = []
    for v in verbs:
        for argc in range(0, 6):
            out.append((v, argc))
    return out


def prelude(s, rng, cls):
    """Abstract prior state classes: idle / tuned / hopping / running / hopping-running."""
    n = len(s.sim.trx)
    if cls in ("tuned", "running"):
        for t in range(n):
            s.cmd(t, "CMD RXTUNE %d" % rng.choice(FC.FREQS))
            s.cmd(t, "CMD TXTUNE %d" % rng.choice(FC.FREQS))
    if cls == "hopping":
        for t in range(n):
            s.cmd(t, "CMD SETFH %d %d %s" % (rng.randrange(64), rng.randrange(4), " ".join(str(rng.choice(FC.FREQS)) for _ in range(4))))
    if cls == "hopping-running":
        # some transceivers hop, some are tuned; all are switched on
        for t in range(n):
            if rng.random() < 0.6:
                s.cmd(t, "CMD SETFH %d %d %s" % (rng.randrange(64), rng.randrange(4), " ".join(str(rng.choice(FC.FREQS)) for _ in range(4))))
            else:
                s.cmd(t, "CMD RXTUNE %d" % rng.choice(FC.FREQS))
                s.cmd(t, "CMD TXTUNE %d" % rng.choice(FC.FREQS))
    if cls in ("running", "hopping-running"):
        for t in range(n):
            s.cmd(t, "CMD POWERON")


def grammar_sessions(ctx, reps):
    rng = ctx.rng
    out = []
    g = grammar()
    k = 0
    for cls in ("idle", "tuned", "hopping", "running", "hopping-running"):
        for rep in range(reps):
            rng.shuffle(g)
            for i in range(0, len(g), 10):
                FC.seed_random(rng)
                sim = FC.mk_sim(rng, argv=rng.choice(FC.CONFIGS[:4]))
                s = FC.Session("g%d" % k, sim)
                k += 1
                prelude(s, rng, cls)
                for v, argc in g[i:i + 10]:
                    args = [rng.choice(ARG_POOL) for _ in range(argc)]
                    if v == "SETFH" and argc >= 2:
                        args[0] = rng.randrange(64)
                        args[1] = rng.randrange(64)
                        args[2:] = [rng.choice(FC.FREQS) for _ in args[2:]]
                    if v == "FAKE_TRXC_DELAY":
                        args = [abs(a) % 500 for a in args]
                    t = rng.randrange(len(sim.trx))
                    # whoever sends a command gets the reply: any port, any address
                    s.cmd(t, "CMD " + " ".join([v] + [str(a) for a in args]), rport=rng.choice([45000, 5801, 6801, 1]),
                          rhost=rng.choice(["127.0.0.1", "127.0.0.1", "127.0.0.2", "10.1.2.3", "192.168.1.77"]))
                    if rng.random() < 0.2:
                        s.cmd(t, rng.choice([b"", b"RSP POWERON 0\0", b"XCMD POWERON\0", b"cmd POWERON\0", b"IND CLOCK 5\0",
                                             b"\xffCMD POWERON\0", b"\xff\xfeCMD POWEROFF\0", b"C\x80MD RFMUTE 1\0", b"\xc3CMD SETFORMAT 1\0",
                                             b"\x80CMD RXTUNE 935200\0", b" CMD POWEROFF\0", b"\0CMD POWEROFF\0"]))
                out.append(s.trace())
    return out


def history_sessions(ctx, n):
    rng = ctx.rng
    out = []
    for k in range(n):
        FC.seed_random(rng)
        sim = FC.mk_sim(rng)
        s = FC.Session("h%d" % k, sim)
        for _ in range(rng.randint(8, 40)):
            t = rng.randrange(len(sim.trx))
            s.cmd(t, "CMD " + FC.rand_cmd(rng, len(sim.trx)))
            if rng.random() < 0.12:
                s.repeat(t)              # the same datagram once more: executed again, answered again
            elif rng.random() < 0.08:
                s.again(t, rng)          # an earlier command of this link (a SETFH after POWEROFF forgot it, ...)
            elif rng.random() < 0.04:
                # a transceiver tuned to 0 kHz on one side is tuned
                z = rng.choice(["RXTUNE", "TXTUNE"])
                o = "TXTUNE" if z == "RXTUNE" else "RXTUNE"
                for c in ("CMD POWERON", "CMD POWEROFF", "CMD %s 0" % z, "CMD %s %d" % (o, rng.choice(FC.FREQS)), "CMD POWERON"):
                    s.cmd(t, c)
            elif rng.random() < 0.04:
                x = "CMD SETFH %d %d %s" % (rng.randrange(64), rng.randrange(8), " ".join(str(rng.choice(FC.FREQS)) for _ in range(2 * rng.randint(1, 3))))
                for c in (x, "CMD POWERON", "CMD POWEROFF", x, "CMD POWERON"):
                    s.cmd(t, c)
            elif rng.random() < 0.10:
                # two or three commands waiting on the socket at once, identical ones among them
                a = "CMD " + FC.rand_cmd(rng, len(sim.trx))
                b = a if rng.random() < 0.5 else "CMD " + FC.rand_cmd(rng, len(sim.trx))
                s.pipelined(t, [a, b] + ([a] if rng.random() < 0.3 else []))
            if rng.random() < 0.1:
                s.tick()
        # power measurement on every carrier some transceiver is tuned to, whatever the others do
        # (hopping, idle, muted) and wherever they sit in the transceiver list
        if rng.random() < 0.5:
            for u in range(len(sim.trx)):
                if rng.random() < 0.5:
                    s.cmd(u, rng.choice(["CMD POWERON", "CMD POWERON", "CMD POWEROFF"]))
            for u in range(len(sim.trx)):
                f = sim.tuned(u)[1]
                if isinstance(f, int) and 0 < f < 2 * 10 ** 9:
                    s.cmd(rng.randrange(len(sim.trx)), "CMD MEASURE %d" % (f // 1000))
        # long SETFH: up to 64 channel pairs
        if rng.random() < 0.3:
            npairs = rng.choice([8, 9, 16, 32, 64])
            ma = []
            for i in range(npairs):
                ma += [935000 + 200 * i, 890000 + 200 * i]
            t = rng.randrange(len(sim.trx))
            s.cmd(t, "CMD SETFH %d %d %s" % (rng.randrange(64), rng.randrange(64), " ".join(str(x) for x in ma)))
        out.append(s.trace())
    return out


def measure_sessions(ctx, n):
    """MEASURE with every arrangement of running / idle, tuned / hopping transceivers around the
    measured carrier: each transceiver of the wiring is, in list order, idle, tuned and running, or
    hopping and running; every carrier in use is then measured from every transceiver."""
    rng = ctx.rng
    out = []
    for k in range(n):
        FC.seed_random(rng)
        sim = FC.mk_sim(rng, argv=rng.choice(FC.CONFIGS[1:]))
        s = FC.Session("p%d" % k, sim)
        nt = len(sim.trx)
        carriers = []
        for t in range(nt):
            role = rng.choice(["idle", "tuned", "tuned", "hop", "hop"])
            rx, tx = rng.sample(FC.FREQS, 2)
            if role in ("idle", "tuned"):
                s.cmd(t, "CMD RXTUNE %d" % rx)
                s.cmd(t, "CMD TXTUNE %d" % tx)
                carriers.append(tx)
            else:
                npair = rng.randint(1, 3)
                ma = [rng.choice(FC.FREQS) for _ in range(2 * npair)]
                s.cmd(t, "CMD SETFH %d %d %s" % (rng.randrange(64), rng.randrange(8), " ".join(map(str, ma))))
                carriers += ma[1::2]
            if role != "idle":
                s.cmd(t, "CMD POWERON")
        for f in sorted(set(carriers)) + [rng.choice(FC.FREQS)]:
            for t in rng.sample(range(nt), min(nt, 2)):
                s.cmd(t, "CMD MEASURE %d" % f)
        out.append(s.trace())
    return out


def sim_sessions(ctx, n):
    """TLC-simulated behaviours of FakeTrxMC (mode sim) replayed into the real application."""
    simdir = os.path.join(ctx.scratch, "ftsim")
    os.makedirs(simdir, exist_ok=True)
    r = tlc.run("FakeTrxMC.tla", "SIM_FakeTrx.cfg", workers=1, simulate="file=%s/tr,num=%d" % (simdir, n), depth=30,
                seed=ctx.seed % 100003, timeout=900, scratch=ctx.scratch)
    ctx.add_tlc("SIM FakeTrxMC num=%d depth=30" % n, r)
    rng = ctx.rng
    out = []
    for i, fn in enumerate(sorted(os.listdir(simdir))):
        st = tlaval.parse_sim_file(os.path.join(simdir, fn))
        if not st:
            continue
        ops = st[-1].get("ops", [])
        FC.seed_random(rng)
        sim = FC.mk_sim(rng, argv=["--trx", "127.0.0.1:5700/1"], period=2, start=FC.HYPER - 1)
        s = FC.Session("m%d" % i, sim)
        for t, (rx, tx) in enumerate([(2, 1), (1, 2), (2, 1)]):
            s.cmd(t, "CMD RXTUNE %d" % rx)
            s.cmd(t, "CMD TXTUNE %d" % tx)
        for op in ops:
            if op["op"] == "cmd":
                s.cmd(op["t"] - 1, "CMD " + " ".join([op["v"]] + [str(a) for a in op["a"]]))
            elif op["op"] == "data":
                raw = list(op["raw"])
                f = raw[4]
                real = FC.HYPER - 1 if f == 3 else f
                raw[1:5] = list(real.to_bytes(4, "big"))
                raw = raw[:6] + [1, 0] * 74        # real burst length
                s.data(op["t"] - 1, bytes(raw))
            elif op["op"] == "tick":
                s.tick()
        out.append(s.trace())
    ctx.extra["spec_behaviours_replayed"] = len(out)
    return out


# ------------------------------------------------------------------ interop
def interop(ctx, rounds):
    """trxcon's real TRXC client talking to the real Python transceiver."""
    import trxcon_drv as T
    exe = T.build(ctx)
    rng = ctx.rng
    py_traces, c_traces = [], []
    for k in range(rounds):
        FC.seed_random(rng)
        sim = FC.mk_sim(rng, argv=[])
        s = FC.Session("i%d" % k, sim)
        tc = T.Trxcon(exe)
        cev = []
        pending = None          # enq event waiting for the text of its second command

        def status(r):
            return dict(st=r["st"], term=r["term"], q=r["q"], timer=r["timer"])

        def exchange(sent):
            """Deliver what trxcon sent to the Python MS transceiver, return its reply."""
            nonlocal pending
            while sent:
                raw = bytes(sent[0])
                if pending is not None and raw[:-1] != bytes(pending["texts"][0]) and len(pending["texts"]) < pending["n"]:
                    pending["texts"].append(list(raw[:-1]))
                e = s.cmd(1, raw, rport=6801)
                if not e["outs"]:
                    return
                rsp = bytes(e["outs"][0]["raw"])
                toks = rsp.rstrip(b"\0").split(b" ")
                try:
                    pst = int(toks[2])
                except Exception:
                    pst = None
                dbm = []
                if toks[1] == b"MEASURE" and pst == 0:
                    try:
                        dbm = [int(toks[-1])]
                    except Exception:
                        dbm = []
                r = tc.rsp(rsp)
                if r is None:
                    return
                cev.append(dict(e="rsp", raw=list(rsp), status=status(r), sent=r["sent"], dbm=dbm, accept=(pst == 0)))
                sent = r["sent"]
                if r["term"]:
                    return

        plan = ["RESET", "H0", "POWERON", "MEASURE", "SETSLOT", "SETTA", "H1", "POWEROFF", "H1long", "POWERON", "POWEROFF"]
        rng.shuffle(plan)
        plan = ["RESET"] + plan
        for what in plan:
            if tc.crashed:
                break
            arfcn = rng.choice([1, 62, 124, 512, 700, 885, 975, 1023, 0, 128, 251])
            n = 1
            if what == "RESET":
                r = tc.cmd("RESET")
                n = 2
            elif what == "H0":
                r = tc.cmd("H0", arfcn)
                n = 2
            elif what == "MEASURE":
                r = tc.cmd("MEASURE", arfcn)
            elif what == "SETSLOT":
                r = tc.cmd("SETSLOT", rng.randrange(8), rng.choice([1, 2, 3, 4, 5, 6, 9, 10]))
            elif what == "SETTA":
                r = tc.cmd("SETTA", rng.choice([0, 1, 63, -1, -128, 127]))
            elif what in ("H1", "H1long"):
                band = rng.choice([list(range(1, 125)), list(range(512, 886)), list(range(512, 886)), list(range(975, 1024)) + [0]])
                m = rng.randint(1, 8) if what == "H1" else rng.choice([9, 16, 33, 61, 62, 63, 64, 64])
                ma = rng.sample(band, min(m, len(band)))
                if rng.random() < 0.7:
                    ma.sort()
                h1arg = (rng.randrange(64), rng.randrange(64)) + tuple(ma)
                r = tc.cmd("H1", *h1arg)
            else:
                r = tc.cmd(what)
            if r is None:
                break
            h1 = [dict(hsn=h1arg[0], maio=h1arg[1], ma=list(h1arg[2:]))] if what in ("H1", "H1long") else []
            if r["rc"] != 0 and not r["sent"]:
                if h1:           # a hopping list refused without anything sent: only for a list that does not fit
                    cev.append(dict(e="h1refused", h1=h1[0], rc=r["rc"]))
                continue         # refused locally (e.g. undefined ARFCN): nothing queued
            crit = [what != "SETTA"] * n
            ev = dict(e="enq", texts=[list(bytes(r["sent"][0])[:-1])] if r["sent"] else [], crit=crit, n=n,
                      status=status(r), sent=r["sent"], h1=h1)
            cev.append(ev)
            pending = ev if n == 2 else None
            exchange(r["sent"])
            pending = None
            if cev and cev[-1].get("status", {}).get("term"):
                break
        tc.close()
        if tc.crashed:
            rc, err = tc.crashed
            ctx.violation("C05/memory/trxcon-interop", "trx_if.c died while talking to the Python transceiver (rc=%s)" % rc,
                          dict(stderr=err, last=[e for e in cev[-3:]]))
        # enq events whose second text never became visible (terminated early): drop the tail
        ok = True
        for e in cev:
            if e["e"] == "enq" and len(e["texts"]) != e["n"]:
                ok = False
        if ok:
            for e in cev:
                e.pop("n", None)
            c_traces.append(dict(id="c%d" % k, cfg={}, ev=cev))
        py_traces.append(s.trace())
    return py_traces, c_traces


def discr(tr, e, tag):
    if e["e"] == "cmd":
        raw = bytes(e["raw"])
        verb = raw[4:].split(b" ")[0].rstrip(b"\0").decode("latin1")[:16]
        if len(raw) > 128:
            return "%s-longer-than-128-octets" % verb
        return verb or "empty"
    return e["e"]


def run(ctx):
    r = tlc.run("FakeTrxMC.tla", "MC_FakeTrxPower.cfg", workers=8, timeout=3000)
    ctx.require_ok("MC FakeTrxMC power mode (power-on guard, version known)", r)
    r = tlc.run("FakeTrxMC.tla", ctx.pick("MC_FakeTrxFlowQ.cfg", "MC_FakeTrxFlow.cfg"), workers=8, timeout=3000)
    ctx.require_ok("MC FakeTrxMC flow mode (SETFORMAT / FAKE_DROP / RFMUTE with traffic)", r)
    # growth: trxcon's TRXC client in a closed loop with a transceiver over a lossy / duplicating channel
    r = tlc.run("TrxcLink.tla", ctx.pick("MC_TrxcLink.cfg", "MC_TrxcLinkT.cfg"), workers=8, timeout=3000)
    ctx.require_ok("MC TrxcLink (stop-and-wait, <= 3 retransmissions, powered only when tuned, queue order) over loss/duplication", r)
    if ctx.thorough:
        r = tlc.run("TrxcLink.tla", "MC_TrxcLinkHazard.cfg", workers=4, timeout=1200)
        ctx.add_tlc("MC TrxcLinkHazard (documented protocol hazards, expected to be violated)", r)
        ctx.extra["documented_hazard_reproduced"] = (r.violation or {}).get("name")
    traces = grammar_sessions(ctx, ctx.pick(1, 12))
    traces += history_sessions(ctx, ctx.pick(80, 2500))
    traces += measure_sessions(ctx, ctx.pick(30, 600))
    traces += sim_sessions(ctx, ctx.pick(40, 800))
    py, ctr = interop(ctx, ctx.pick(25, 500))
    traces += py
    for t in traces:
        ctx.count()
        ctx.distinct(str([bytes(e["raw"])[:24] for e in t["ev"] if e["e"] == "cmd"]))
    FC.validate(ctx, traces, ("C05.",), "TV FakeTrxTrace (grammar cases, histories, TLC behaviours, commands emitted by trxcon)", discr)
    res, stats = tlc.validate_traces("TrxconTrace.tla", "TrxconTrace.cfg", ctr, scratch=ctx.scratch, chunk="balance", parallel=4)
    ctx.add_tv("TV TrxconTrace (trxcon's TRXC client fed with the Python transceiver's replies)", stats, len(ctr))
    byid = {t["id"]: t for t in ctr}
    for v in res:
        if v["reached"] != v["n"] and v["tag"].startswith("C05."):
            e = byid[v["id"]]["ev"][v["reached"]]
            verb = bytes(e.get("raw", e.get("sent", [[]])[0] if e.get("sent") else [])).split(b" ")[1:2]
            ctx.violation("C05/%s/%s" % (v["tag"], (verb[0].decode("latin1").rstrip("\0") if verb else e["e"])),
                          "trxcon run %s rejected at event %d: %s" % (v["id"], v["reached"] + 1, v["tag"]),
                          dict(event={a: (b if a != "raw" else bytes(b).decode("latin1")) for a, b in e.items()}))
    ctx.extra["trxcon_exchanges"] = sum(1 for t in ctr for e in t["ev"] if e["e"] == "rsp")
    t0 = traces[0]
    ctx.sample(dict(argv=t0["cfg"]["argv"], cmds=[(e["t"], bytes(e["raw"]).decode("latin1"), bytes(e["outs"][0]["raw"]).decode("latin1") if e["outs"] else None)
                                                  for e in t0["ev"] if e["e"] == "cmd"][:8]))
    ctx.rule = ("every verb x argument count 0..5 with boundary argument values in four prior state classes; random command histories; "
                "TLC-simulated behaviours of FakeTrxMC; every command trxcon's trx_if.c can emit (incl. SETFH with up to 64 channels) "
                "answered by the Python transceiver and the reply fed back to trx_if.c; distinct by command sequence")
    ctx.trusted += ["harness/py/faketrx_drv.py", "harness/c/drv_trxcon.c + shim/trxcon", "TLC"]
    ctx.assumptions += ["a known verb with an undocumented argument count is treated like an unknown verb (status 0, no effect)",
                        "arguments are canonical decimal integers of at most 9 digits (others: C14)"]
