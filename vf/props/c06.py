"""C06 - sercomm/HDLC framing delivers every message intact.

MC: SercommWire (sender + wire + receiver, noise, over-long frames) - TLC.
TV: traces of the unmodified comm/sercomm.c (host build, ASan+UBSan) validated
    against SercommTrace (conformance clauses + C06 clauses on the history).
GEN: operation sequences simulated by TLC from SercommWire replayed into the
    real code (over-long length concretised to the real buffer size).
"""
import json
import os
from concurrent.futures import ThreadPoolExecutor

from .. import cbuild, tlc, tlaval
from ..core import REPO

ID = "C06"
LEVEL = "model_checking"
RXSIZE = 2048
SPECIAL = [0, 0x7e, 0x7d, 0x5e, 0x5d, 0x20, 0x00, 0x7e, 0x7d]


def build(ctx):
    R = os.path.join(REPO, "src")
    exe = os.path.join(ctx.scratch, "drv_sercomm")
    cbuild.cc(exe,
              [R + "/target/firmware/comm/sercomm.c", R + "/shared/libosmocore/src/msgb.c",
               R + "/shared/libosmocore/src/talloc.c", cbuild.HC + "/drv_sercomm.c"],
              includes=[R + "/target/firmware/include/comm", R + "/shared/libosmocore/include"],
              defines=["HOST_BUILD"])
    return exe


# ---------------------------------------------------------------- scripts
def rand_payload(rng, maxlen):
    mode = rng.random()
    if mode < 0.15:
        n = rng.choice([0, 1, 2, 3])
    elif mode < 0.85:
        n = rng.randint(0, min(maxlen, 40))
    else:
        n = rng.randint(0, maxlen)
    style = rng.random()
    if style < 0.4:
        return [rng.choice(SPECIAL) if rng.random() < 0.6 else rng.randrange(256) for _ in range(n)]
    if style < 0.5:
        return [rng.choice([0x7e, 0x7d, 0x00])] * n
    return [rng.randrange(256) for _ in range(n)]


def gen_ops(rng, big=False, dlci_pool=None, full_dlci=False, p_over=0.12):
    """A random operation sequence over the wire model."""
    pool = dlci_pool or [4, 5, 9, 10]
    if full_dlci:
        pool = sorted(set(pool + [rng.randrange(129) for _ in range(3)] + [0, 125, 126, 127, 128][:rng.randint(0, 5)]))
    handlers = [d for d in pool if rng.random() < 0.75]
    ops = [("LATEINIT",)] if rng.random() < 0.12 else []
    ops += [("H", d) for d in handlers]
    if rng.random() < 0.1:
        ops.append(("H", rng.choice(handlers + [128, 129, 200])))   # refused registration
    nmsg = rng.randint(1, 6)
    maxlen = RXSIZE - 1 if big else 60
    for _ in range(nmsg):
        r = rng.random()
        if r < 0.55:
            ops.append(("S", rng.choice(pool), rand_payload(rng, maxlen)))
        if r > 0.35:
            ops.append(("L", rng.randint(1, 40)))
        if rng.random() < 0.25:
            ops.append(("N", [rng.choice([x for x in range(256) if x != 0x7e]) for _ in range(rng.randint(1, 6))]))
        if rng.random() < p_over:
            n = RXSIZE + rng.choice([0, 1, 2, 7, rng.randint(0, 300 if not big else 4000)])
            fill = rng.random()
            body = [rng.choice([x for x in range(256) if x not in (0x7e, 0x7d)]) for _ in range(n)] \
                if fill < 0.5 else [rng.choice([0x41, 0x00, 0x04])] * n
            ops.append(("O", rng.choice([4, 5, 10, 0x41]), body))
    unreg = [d for d in range(129) if d not in handlers and d not in (128, 0x7d, 0x7e)]   # raw frames: address not escaped
    rawok = [d for d in handlers if d not in (0x7d, 0x7e)]
    if rawok and rng.random() < 0.2:
        # a frame nobody claims (no handler for its DLCI) directly in front of frames whose handling
        # depends on a fresh receive buffer: lengths around the buffer size, the echo DLCI
        plain = [x for x in range(256) if x not in (0x7e, 0x7d)]
        for _ in range(rng.randint(1, 2)):
            ops.append(("O", rng.choice(unreg), [rng.choice(plain) for _ in range(rng.choice([0, 1, 5, 40]))]))
            nxt = rng.random()
            if nxt < 0.6:
                n = RXSIZE + rng.randint(0, 6)
                ops.append(("O", rng.choice(rawok), [rng.choice(plain) for _ in range(n)]))
            elif nxt < 0.8:
                ops.append(("O", 128, [rng.choice(plain) for _ in range(rng.randint(0, 6))]))
                ops.append(("L", rng.randint(8, 30)))
            else:
                ops.append(("S", rng.choice(handlers), rand_payload(rng, 30)))
                ops.append(("L", rng.randint(5, 80)))
    ops.append(("DRAIN",))
    return ops


def gen_backlog(rng):
    """Many messages pending on one DLCI before the driver pulls anything (a burst of sendmsg):
    every one of them still goes out exactly once, lower DLCIs first."""
    hi, lo = rng.sample([4, 5, 9, 10, 20, 127], 2)
    hi, lo = min(hi, lo), max(hi, lo)
    ops = [("H", hi), ("H", lo)]
    n = rng.choice([255, 256, 257, 300])
    for k in range(n):
        ops.append(("S", hi, [k % 251] if rng.random() < 0.5 else []))
        if k in (10, 200):
            ops.append(("S", lo, [0x7e, k % 256]))
    ops.append(("DRAIN",))
    return ops


def script_of(ops):
    """Concrete driver script; over-long frames and noise may only be fed
    between frames, which the driver cannot know in advance - so L is issued
    octet-wise until the transmitter is idle before N/O (see run_trace)."""
    raise NotImplementedError


def hexs(b):
    return "".join("%02x" % x for x in b)


def run_trace(exe, tid, ops):
    """Run one operation sequence in a fresh driver process, return the trace.
    N and O are only legal between frames: the transmit side is drained to a
    frame boundary first (the driver reports -1 / closing flags, but it is
    simpler and exact to track it here from the pulled octets)."""
    import subprocess
    # "LATEINIT" first: callbacks are registered before the first sercomm_init()
    late = bool(ops) and ops[0][0] == "LATEINIT"
    if late:
        ops = ops[1:]
        # (the echo DLCI is claimed by sercomm_init() itself: who wins when it is registered first is not C06's business)
        ops = [o for o in ops if o[0] == "H" and o[1] != 128] + [("I",)] + [o for o in ops if o[0] != "H"]
    p = subprocess.Popen([exe] + (["lateinit"] if late else []), stdin=subprocess.PIPE, stdout=subprocess.PIPE, stderr=subprocess.PIPE,
                         text=True, env=dict(os.environ, ASAN_OPTIONS="detect_leaks=0:exitcode=99",
                                             UBSAN_OPTIONS="halt_on_error=1:exitcode=98"))
    ev = []
    crashed = None

    def call(line):
        nonlocal crashed
        try:
            p.stdin.write(line + "\n")
            p.stdin.flush()
            out = p.stdout.readline()
            if not out:
                raise BrokenPipeError
            return json.loads(out)
        except (BrokenPipeError, json.JSONDecodeError):
            p.wait()
            crashed = (p.returncode, p.stderr.read()[-3000:])
            raise RuntimeError("crash")

    in_frame = False    # between opening and closing flag of the transmitter

    def loop(n):
        nonlocal in_frame
        r = call("L %d" % n)
        idle = False
        for st in r["steps"]:
            o = st[0]
            ev.append(dict(e="pull", out=[o] if o >= 0 else []))
            if o >= 0:
                rc, dl = st[1]
                ev.append(dict(e="rx", why="loop", ch=o, rc=rc, dlv=dl))
                if o == 0x7e:
                    in_frame = not in_frame
            else:
                idle = True
        return idle

    def to_boundary():
        k = 0
        while in_frame:
            loop(1)
            k += 1
            if k > 3 * RXSIZE + 10:
                raise RuntimeError("transmitter never closes the frame")

    try:
        for op in ops:
            if op[0] == "I":
                call("I")
            elif op[0] == "H":
                r = call("H %d" % op[1])
                if late and r["rc"] != 0:
                    continue        # refusing a registration before initialisation is not judged
                ev.append(dict(e="reg", dlci=op[1], rc=0 if r["rc"] == 0 else 1))
            elif op[0] == "S":
                call("S %d %s" % (op[1], hexs(op[2])))
                ev.append(dict(e="send", dlci=op[1], data=list(op[2])))
            elif op[0] == "L":
                # never stop right after a dequeue-less pull; plain loop
                loop(op[1])
            elif op[0] == "N":
                to_boundary()
                r = call("R " + hexs(op[1]))
                for ch, (rc, dl) in zip(op[1], r["res"]):
                    ev.append(dict(e="rx", why="noise", ch=ch, rc=rc, dlv=dl))
            elif op[0] == "O":
                to_boundary()
                frame = [0x7e, op[1], 3] + list(op[2]) + [0x7e]
                ev.append(dict(e="over" if len(op[2]) >= RXSIZE else "foreign", dlci=op[1], body=list(op[2])))
                r = call("R " + hexs(frame))
                for ch, (rc, dl) in zip(frame, r["res"]):
                    ev.append(dict(e="rx", why="inj", ch=ch, rc=rc, dlv=dl))
            elif op[0] == "DRAIN":
                k = 0
                while not loop(12):
                    k += 1
                    if k > 400:
                        break       # echo ping-pong never drains
    except RuntimeError:
        pass
    finally:
        try:
            p.stdin.close()
        except Exception:
            pass
        p.wait()
    tr = dict(id=tid, cfg={}, ev=ev)
    return tr, crashed


def ops_from_sim(states):
    """Concretise a TLC-simulated behaviour of SercommWire (RxSize=3) into
    driver operations with the real buffer size."""
    last = states[-1]
    ops = [("H", 4), ("H", 10)]
    for o in last.get("ops", []):
        if o[0] == "S":
            ops.append(("S", o[1], list(o[2])))
        elif o[0] == "L":
            ops.append(("L", 1))
        elif o[0] == "N":
            ops.append(("N", [o[1]]))
        elif o[0] == "O":
            ops.append(("O", o[1], [o[2]] * (RXSIZE + o[3])))
        elif o[0] == "F":
            ops.append(("O", o[1], list(o[2])))
    ops.append(("DRAIN",))
    return ops


def classify(tr, verdict):
    """Stable signature of a rejected trace."""
    tag = verdict["tag"] or "no-action-enabled"
    disc = ""
    if tag in ("C06.transparency", "C06.resync-cost", "C06.exactly-once"):
        sent = [e["dlci"] for e in tr["ev"] if e["e"] == "send"]
        has_over = any(e["e"] == "over" for e in tr["ev"])
        esc_addr = any(d in (0, 0x7d, 0x7e) for d in sent)
        noise_after_over = False
        seen_over = False
        for e in tr["ev"]:
            if e["e"] == "over":
                seen_over = True
            elif e["e"] == "rx" and e["why"] == "noise" and seen_over:
                noise_after_over = True
            elif e["e"] == "pull" and e["out"] == [0x7e]:
                pass
        if esc_addr:
            disc = "/dlci-needs-escape"
        elif has_over and noise_after_over:
            disc = "/noise-after-overlong"
        elif has_over:
            disc = "/overlong"
    return "C06/%s%s" % (tag, disc)


def run(ctx):
    exe = build(ctx)
    ctx.trusted += ["drv_sercomm.c (driver, prints octets/callbacks)", "osmo_panic stub",
                    "in-repo libosmocore msgb.c/talloc.c", "TLC + CommunityModules"]
    ctx.assumptions += ["host build of sercomm.c (RxSize 2048) as linked by osmocon",
                        "wire delivers octets in order without loss (loss is outside the statement)"]
    # ---- MC ------------------------------------------------------------
    mc_jobs = [(ctx.pick("MC_SercommQ.cfg", "MC_Sercomm.cfg"), "payload<=2, 2 msgs, 1 over-long frame"),
               ("MC_SercommNoise.cfg", "garbage anywhere between frames, also after an over-long frame"),
               ("MC_SercommDlci.cfg", "DLCIs whose address octet needs escaping (0, 0x7d, 0x7e)"),
               ("MC_SercommForeign.cfg", "frames for an unclaimed DLCI and over-long frames in any order around two messages")]
    if ctx.thorough:
        mc_jobs.append(("MC_Sercomm3.cfg", "3 msgs, priorities"))
    for cfg, what in mc_jobs:
        r = tlc.run("SercommWire.tla", cfg, workers=16, timeout=3000, coverage=False)
        ctx.add_tlc("MC %s (%s)" % (cfg, what), r)
        if not r.ok:
            tr = r.violation.get("trace", "")
            disc = ""
            if "WNoise" in tr and "WInject" in tr:
                disc = "/noise-after-overlong"
            elif "WOverlong" in tr or "WInject" in tr:
                disc = "/overlong"
            sent = []
            import re
            for m in re.finditer(r"msgs = (<<.*>>)", tr):
                last = m.group(1)
            try:
                sent = [x["dlci"] for x in tlaval.parse(last)]
            except Exception:
                pass
            if any(d in (0, 125, 126) for d in sent):
                disc = "/dlci-needs-escape"
            ctx.violation("C06/spec/%s%s" % (r.violation["name"], disc),
                          "TLC: %s violated in %s" % (r.violation["name"], cfg),
                          dict(trace=tr[-6000:], cmd=r.cmd))
        ctx.log("MC", cfg, r.summary())
    # ---- TV: random drivers ---------------------------------------------
    n_small = ctx.pick(160, 4000)
    n_big = ctx.pick(4, 100)
    n_full = ctx.pick(60, 1500)
    jobs = []
    for i in range(n_small):
        jobs.append(("r%d" % i, gen_ops(ctx.rng, p_over=0.12 if (ctx.thorough or i % 8 == 0) else 0.0)))
    for i in range(n_big):
        jobs.append(("b%d" % i, gen_ops(ctx.rng, big=True)))
    for i in range(n_full):
        jobs.append(("d%d" % i, gen_ops(ctx.rng, full_dlci=True, p_over=0.12 if (ctx.thorough or i % 8 == 0) else 0.0)))
    for i in range(ctx.pick(1, 6)):
        jobs.append(("q%d" % i, gen_backlog(ctx.rng)))
    # ---- GEN: TLC-simulated operation sequences --------------------------
    nsim = ctx.pick(40, 1500)
    simdir = os.path.join(ctx.scratch, "sim")
    os.makedirs(simdir)
    r = tlc.run("SercommWire.tla", "SIM_Sercomm.cfg", workers=1, simulate="file=%s/tr,num=%d" % (simdir, nsim),
                depth=60, seed=ctx.seed % 100000, timeout=900, scratch=ctx.scratch)
    ctx.add_tlc("SIM SercommWire num=%d depth=60" % nsim, r)
    if not r.ok:
        ctx.mc_violation("SIM_Sercomm", r)
    nsimfiles = 0
    for fn in sorted(os.listdir(simdir)):
        try:
            st = tlaval.parse_sim_file(os.path.join(simdir, fn))
        except Exception as e:
            raise tlc.MachineryError("cannot parse simulation file %s: %s" % (fn, e))
        if st:
            jobs.append(("g%d" % nsimfiles, ops_from_sim(st)))
            nsimfiles += 1
    ctx.extra["spec_behaviours_replayed"] = nsimfiles
    ctx.log("running %d operation sequences through the real sercomm.c" % len(jobs))
    with ThreadPoolExecutor(max_workers=16) as ex:
        outs = list(ex.map(lambda j: run_trace(exe, j[0], j[1]), jobs))
    traces = []
    for (tid, ops), (tr, crashed) in zip(jobs, outs):
        ctx.count()
        if crashed:
            rc, err = crashed
            kind = "asan" if rc == 99 or "AddressSanitizer" in err else ("ubsan" if rc == 98 else "crash")
            ctx.violation("C06/memory/%s" % kind, "sercomm.c driver died (rc=%s) on trace %s" % (rc, tid),
                          dict(ops=[list(o) for o in ops][:50], stderr=err))
            continue
        traces.append(tr)
    # batches sized by event count
    traces.sort(key=lambda t: len(t["ev"]))
    res, stats = tlc.validate_traces("SercommTrace.tla", "SercommTrace.cfg", traces, scratch=ctx.scratch,
                                     chunk="balance", parallel=6, timeout=3000)
    ctx.add_tv("TV SercommTrace", stats, len(traces))
    byid = {t["id"]: t for t in traces}
    nev = 0
    for v in res:
        tr = byid[v["id"]]
        nev += len(tr["ev"])
        if v["reached"] != v["n"]:
            sig = classify(tr, v)
            ctx.violation(sig, "trace %s rejected at event %d/%d: %s" % (v["id"], v["reached"] + 1, v["n"], v["tag"]),
                          dict(trace=dict(id=tr["id"], ev=tr["ev"][:v["reached"] + 3][-40:]), verdict=v))
        dl = sum(len(e.get("dlv", [])) for e in tr["ev"] if e["e"] == "rx")
        if dl:
            ctx.distinct(json.dumps([e for e in tr["ev"] if e["e"] in ("send", "over")])[:4000])
    ctx.extra["events_validated"] = nev
    for t in traces[:2]:
        ctx.sample(dict(id=t["id"], events=t["ev"][:30]))
    ctx.rule = ("operation sequences (register/send/loop/noise/over-long) from a seeded generator and from TLC "
                "simulation of SercommWire, executed by the real sercomm.c; non-trivial = at least one callback "
                "delivery observed; distinct by the sequence of sends and over-long frames")
    ctx.evaluations = len(jobs)
