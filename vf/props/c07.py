"""C07 - frequency hopping follows 3GPP TS 45.002 6.2.3 in simulator and firmware.

MC  : spec/Hopping.tla (MC_Hopping*.cfg) - MAI_Std (the standard's text,
      HoppingStd.tla) = MAI_Mask (bit-mask form of both implementations) for all
      N 1..64 x M 0..152 x T3 0..50, T1R masking for all HSN x T1, and the
      reduction (HSN xor T1R, T2, T3, N) the harness uses.
GEN : TLC evaluates MAI_Std and exports the expectation
        (a) per tuple (HSN, MAIO, N, FN) -> MAI + the arm of the standard,
        (b) the S table of the complete reduced domain per N, and Fin[N][S][MAIO];
      trx_toolkit HoppingParams.resolve() and the firmware's rfch_get_params()
      (unmodified rfch.c, hopping dedicated channel) are run on the same inputs
      and compared with the expectation (table look-ups only) and each other.
TV  : records {hsn, fn, got} per implementation and hopping configuration are
      validated directly by TLC against MA[MAI_Std] (HopTrace.tla).
"""
import json
import os
import subprocess
import threading
from concurrent.futures import ThreadPoolExecutor

from .. import cbuild, tlc
from ..core import REPO, ROOT, TOOLKIT

ID = "C07"
LEVEL = "model_checking"
HYPER = 26 * 51 * 2048
SUPER = 26 * 51
NTAB = 64 * 26 * 51
BRANCH_NAME = {"cyclic": "hsn0-cyclic", "direct": "Mprime-lt-N", "wrap": "Mprime-ge-N",
               "wrap-overflow": "Mprime-plus-Tprime-overflow"}


# ------------------------------------------------------------------ build
def build(ctx):
    R = os.path.join(REPO, "src")
    fw_inc = R + "/target/firmware/include"
    shim = os.path.join(ctx.scratch, "shim_rfch")
    os.makedirs(shim, exist_ok=True)
    # the firmware's include/ shadows libc headers: link only what rfch.c's header world needs
    for name in ("layer1", "defines.h", "debug.h"):
        dst = os.path.join(shim, name)
        if not os.path.lexists(dst):
            os.symlink(os.path.join(fw_inc, name), dst)
    cfgdir = os.path.join(ctx.scratch, "cfg")
    os.makedirs(os.path.join(cfgdir, "x", "y"), exist_ok=True)
    open(os.path.join(cfgdir, "config.h"), "w").close()       # gsm_utils.c: #include "../../config.h"
    exe = os.path.join(ctx.scratch, "drv_rfch")
    cbuild.cc(exe, [R + "/target/firmware/layer1/rfch.c", R + "/shared/libosmocore/src/gsm/gsm_utils.c",
                    cbuild.HC + "/drv_rfch.c"],
              includes=[shim, cbuild.HC + "/shim/rfch", os.path.join(REPO, "include"),
                        R + "/shared/libosmocore/include", os.path.join(cfgdir, "x", "y")])
    return exe


class Died(Exception):
    pass


class Impl:
    """One driver process (firmware C or toolkit Python), same protocol."""

    def __init__(self, name, argv):
        self.name = name
        env = dict(os.environ, ASAN_OPTIONS="detect_leaks=0:exitcode=99",
                   UBSAN_OPTIONS="print_stacktrace=1:halt_on_error=1:exitcode=98", PYTHONDONTWRITEBYTECODE="1")
        self.p = subprocess.Popen(argv, stdin=subprocess.PIPE, stdout=subprocess.PIPE, stderr=subprocess.PIPE,
                                  text=True, env=env, bufsize=1 << 20)
        self.last = None

    def call(self, line):
        self.last = line[:200]
        try:
            self.p.stdin.write(line + "\n")
            self.p.stdin.flush()
            out = self.p.stdout.readline()
        except BrokenPipeError:
            out = ""
        if not out:
            self.p.wait()
            raise Died(self.name, self.p.returncode, self.p.stderr.read()[-3000:], self.last)
        return out

    def set_ma(self, maio, ma):
        r = self.call("M %d %s" % (maio, " ".join(map(str, ma))))
        if r.split() != ["M", str(len(ma))]:
            raise tlc.MachineryError("%s driver: bad answer to M: %r" % (self.name, r[:80]))

    def query(self, pairs, op="Q"):
        if not pairs:
            return []
        r = self.call(op + " " + " ".join("%d %d" % p for p in pairs)).split()
        if r[0] != "Q" or len(r) != len(pairs) + 1:
            raise tlc.MachineryError("%s driver: bad answer to Q" % self.name)
        return [int(x) for x in r[1:]]

    def table(self, h, k):
        r = self.call("T %d %d" % (h, k)).split()
        if r[0] != "T" or len(r) != NTAB + 2:
            raise tlc.MachineryError("%s driver: bad answer to T" % self.name)
        return int(r[1]), [int(x) for x in r[2:]]

    def close(self):
        try:
            self.p.stdin.close()
        except Exception:
            pass
        try:
            self.p.wait(timeout=20)
        except Exception:
            self.p.kill()
        err = self.p.stderr.read()
        return err


def start_impls(exe):
    return (Impl("python", ["/venv/bin/python", os.path.join(ROOT, "harness/py/drv_gsm_shared.py"), TOOLKIT]),
            Impl("firmware", [exe]))


# ------------------------------------------------------------------ GEN (TLC)
def gen(ctx, label, ns=(), fin=0, evals=()):
    """Run the TLC generator; returns dict(S={N: [x][t2][t3]}, fin, rn, eval)."""
    d = os.path.join(ctx.scratch, "gen-%s" % label)
    os.makedirs(d, exist_ok=True)
    inp = os.path.join(d, "in.json")
    with open(inp, "w") as f:
        json.dump(dict(dir=d, ns=list(ns), fin=fin, eval=[list(e) for e in evals]), f, separators=(",", ":"))
    r = tlc.run("Hopping.tla", "HoppingGen.cfg", workers=1, env=dict(GEN_IN=inp), timeout=3000,
                scratch=ctx.scratch, heap="3g")
    if not r.ok:
        raise tlc.MachineryError("HoppingGen %s: %s\n%s" % (label, r.violation, r.out[-2000:]))
    out = dict(S={}, res=r)
    for n in ns:
        with open(os.path.join(d, "S_%d.json" % n)) as f:
            t = json.load(f)
        if len(t) != 64 or len(t[0]) != 26 or len(t[0][0]) != 51:
            raise tlc.MachineryError("S table %d has the wrong shape" % n)
        out["S"][n] = [[s for row in t[x] for s in row] for x in range(64)]      # [x][t2*51+t3]
        os.unlink(os.path.join(d, "S_%d.json" % n))
    if fin:
        with open(os.path.join(d, "fin.json")) as f:
            j = json.load(f)
        out["fin"], out["rn"] = j["fin"], j["rn"]
    if evals:
        with open(os.path.join(d, "eval.json")) as f:
            out["eval"] = json.load(f)
        if len(out["eval"]) != len(evals):
            raise tlc.MachineryError("HoppingGen: %d results for %d tuples" % (len(out["eval"]), len(evals)))
    return out


# ------------------------------------------------------------------ inputs
def fn_of(t1, t2, t3):
    return 51 * ((t3 - t2) % 26) + t3 + SUPER * t1         # TS 45.002 4.3.3 (input construction only)


def rand_ma(rng, n, plain=False):
    if plain:
        return [1000 + i for i in range(n)]
    band = rng.choice([(1, 124), (512, 885), (128, 251), (0, 1023), (975, 1023), (259, 340)])
    lo, hi = band
    while hi - lo + 1 < n:
        lo, hi = 0, 1023
    ma = sorted(rng.sample(range(lo, hi + 1), n))
    if rng.random() < 0.1:
        rng.shuffle(ma)         # order does not matter to the algorithm
    return ma


def nbits(n):
    return n.bit_length()


def select_class_tuples(rng, rn, per_class=1, extra_random=20000):
    """Case selection only (uses the RNTABLE exported by TLC): one witness
    (x, t2, t3) for every class (N, M', T') of the deviation arm (M' >= N) and
    for every (N, M') of the direct arm.  Returns [(N, x, t2, t3, (Mp, Tp) | None)],
    number of classes without witness."""
    mtab = []           # (x, t2, t3, M)
    for x in range(64):
        for t3 in range(51):
            r = rn[x + t3]
            for t2 in range(26):
                mtab.append((x, t2, t3, r + t2))
    buckets = {}
    for nb in range(1, 8):
        P = 1 << nb
        b = {}
        for (x, t2, t3, M) in mtab:
            b.setdefault((M % P, t3 % P), []).append((x, t2, t3))
        buckets[P] = b
    out = []
    unreachable = 0
    for N in range(1, 65):
        P = 1 << nbits(N)
        b = buckets[P]
        tps = sorted({t3 % P for t3 in range(51)})
        for Mp in range(P):
            if Mp < N:
                cands = [Tp for Tp in tps if (Mp, Tp) in b]
                if not cands:
                    unreachable += 1
                    continue
                for _ in range(per_class):
                    Tp = rng.choice(cands)
                    out.append((N,) + rng.choice(b[(Mp, Tp)]) + ((Mp, Tp),))
            else:
                for Tp in tps:
                    w = b.get((Mp, Tp))
                    if not w:
                        unreachable += 1
                        continue
                    for _ in range(per_class):
                        out.append((N,) + rng.choice(w) + ((Mp, Tp),))
    for _ in range(extra_random):
        out.append((rng.randint(1, 64), rng.randrange(64), rng.randrange(26), rng.randrange(51), None))
    return out, unreachable


class Config:
    __slots__ = ("maio", "ma", "items", "kind")

    def __init__(self, maio, ma, kind):
        self.maio = maio
        self.ma = ma
        self.kind = kind       # "class" | "full" | "cyclic" | "nsm"
        self.items = []        # [hsn, fn, want_class]


def make_configs(ctx, rn):
    rng = ctx.rng
    cfgs = []
    # (1) class-covering reduced tuples + random reduced tuples
    tuples, unreachable = select_class_tuples(rng, rn, per_class=ctx.pick(1, 3), extra_random=ctx.pick(12000, 150000))
    byn = {}
    for t in tuples:
        byn.setdefault(t[0], []).append(t)
    for N in sorted(byn):
        group = [Config(0, rand_ma(rng, N, plain=True), "class"),
                 Config(rng.randrange(64), rand_ma(rng, N), "class"),
                 Config(rng.choice([N - 1, 63, rng.randrange(64)]), rand_ma(rng, N), "class"),
                 Config(rng.randrange(64), rand_ma(rng, N, plain=True), "class")]
        for (_, x, t2, t3, cls) in byn[N]:
            hsn = rng.randint(1, 63)
            t1 = (x ^ hsn) + 64 * rng.randrange(32)
            rng.choice(group).items.append((hsn, fn_of(t1, t2, t3), cls))
        cfgs += group
    n_class = sum(1 for t in tuples if t[4] is not None)
    # (2) random full tuples, FN 0 and 2715647 in every configuration
    for _ in range(ctx.pick(250, 2500)):
        N = rng.randint(1, 64)
        c = Config(rng.randrange(64), rand_ma(rng, N, plain=rng.random() < 0.3), "full")
        for fn in [0, HYPER - 1] + [rng.randrange(HYPER) for _ in range(18)]:
            hsn = rng.choice([rng.randrange(64), rng.randint(1, 63), 0])
            c.items.append((hsn, fn, None))
            if rng.random() < 0.3:      # same generator object, same T1R/T2/T3, another T1
                c.items.append((hsn, (fn + rng.randint(1, 31) * 64 * SUPER) % HYPER, None))
        cfgs.append(c)
    # (3) cyclic hopping (HSN 0): every N, 2 N consecutive frames, incl. the end of the hyperframe
    for N in range(1, 65):
        maios = range(64) if ctx.thorough else sorted({rng.choice([0, N - 1, 63]), rng.randrange(64)})
        for maio in maios:
            c = Config(maio, rand_ma(rng, N, plain=(maio % 2 == 0)), "cyclic")
            start = rng.choice([0, HYPER - 2 * N, rng.randrange(HYPER - 2 * N)])
            for fn in range(start, start + 2 * N):
                c.items.append((0, fn, None))
            # the same object is asked again 64 k superframes away (a channel that stays
            # configured for a long time): the answer must not depend on what was asked before
            for fn in rng.sample(range(start, start + 2 * N), min(2 * N, 6)):
                for k in rng.sample(range(1, 32), 3):
                    c.items.append((0, (fn + k * 64 * SUPER) % HYPER, None))
            cfgs.append(c)
    # (4) the final modulo: every (N, S, MAIO) combination (thorough) / 4 MAIO per N (quick),
    #     S reached through a witness of the direct arm (M' = S < N)
    direct = {}
    for (N, x, t2, t3, cls) in tuples:
        if cls is not None and cls[0] < N:
            direct.setdefault((N, cls[0]), []).append((x, t2, t3))
    for N in range(1, 65):
        maios = range(64) if ctx.thorough else rng.sample(range(64), 4)
        for maio in maios:
            c = Config(maio, rand_ma(rng, N, plain=rng.random() < 0.5), "nsm")
            for s_ in range(N):
                w = direct.get((N, s_))
                if not w:
                    continue
                x, t2, t3 = rng.choice(w)
                hsn = rng.randint(1, 63)
                c.items.append((hsn, fn_of((x ^ hsn) + 64 * rng.randrange(32), t2, t3), None))
            cfgs.append(c)
    return [c for c in cfgs if c.items], n_class, unreachable


# ------------------------------------------------------------------ reporting
def signature(impl, branch, got):
    return "C07/%s-vs-std/%s%s" % (impl, BRANCH_NAME.get(branch, branch), "/exception" if got == -1 else "")


def report_died(ctx, e):
    name, rc, err, last = e.args
    kind = "asan" if rc == 99 or "AddressSanitizer" in err else ("ubsan" if rc == 98 or "runtime error" in err else "crash")
    ctx.violation("C07/%s/memory/%s" % (name, kind) if name == "firmware" else "C07/python/driver-died",
                  "%s driver died (rc=%s) on %s" % (name, rc, last), dict(op=last, stderr=err))


def selftest(ctx):
    """Binding self-test of HopTrace: hand-made records, one with a wrong
    channel per implementation, must be rejected at exactly that record."""
    ma = [1000, 1001, 1002]
    good = [dict(e="hop", hsn=17, fn=1642804, got=1000),      # M'=3, T'=3, N=3: S = 6 mod 3 = 0
            dict(e="hop", hsn=0, fn=2715647, got=1002),       # cyclic: 2715647 mod 3 = 2
            dict(e="hop", hsn=5, fn=12345, got=1000)]
    bad = [good[0], good[1], dict(good[2], got=1001)]
    want = dict(ok=(3, ""), fw=(2, "C07.firmware"), py=(0, "C07.python"), dom=(0, "C07.domain"))
    res, _ = tlc.validate_traces("HopTrace.tla", "HopTrace.cfg",
                                 [dict(id="ok", cfg=dict(impl="python", maio=0, ma=ma), ev=good),
                                  dict(id="fw", cfg=dict(impl="firmware", maio=0, ma=ma), ev=bad),
                                  dict(id="py", cfg=dict(impl="python", maio=0, ma=ma), ev=[dict(good[0], got=1002)]),
                                  dict(id="dom", cfg=dict(impl="python", maio=0, ma=ma), ev=[dict(good[0], fn=2715648)])],
                                 scratch=ctx.scratch, heap="2g")
    for v in res:
        if (v["reached"], v["tag"]) != want[v["id"]]:
            raise tlc.MachineryError("HopTrace self-test: %r, expected %r" % (v, want[v["id"]]))
    ctx.extra["trace_spec_selftest"] = "4 hand-made traces: accepted / rejected at the corrupted record with the expected tag"


# ------------------------------------------------------------------ main
def run(ctx):
    exe = build(ctx)
    if ctx.thorough:
        selftest(ctx)
    ctx.trusted += ["drv_rfch.c / drv_gsm_shared.py (drivers)", "shim include dir (links into the firmware headers)",
                    "in-repo libosmocore gsm_fn2gsmtime (checked by C19)", "frame-number construction fn_of() in the harness",
                    "case selection (coverage only; classes are confirmed by TLC's labels)", "TLC + CommunityModules (Json)"]
    ctx.assumptions += ["RNTABLE in HoppingStd.tla was typed from 3GPP TS 45.002 table 6 (114 distinct 7-bit values, checked)",
                        "MA entries are distinct ARFCNs, so the selected channel identifies MAI",
                        "N = len(MA) in 1..64, MAIO 0..63 (also MAIO >= N: the formula is total)",
                        "exhaustiveness is over the reduced domain (HSN xor T1R, T2, T3, N): S does not depend on MAIO, which "
                        "enters only through MAI = (S + MAIO) mod N; that step is exercised for every (N, S, MAIO) (thorough)"]

    # ---- MC in the background ---------------------------------------------
    mc = []
    mc_cfg = ctx.pick("MC_HoppingQ.cfg", "MC_Hopping.cfg")

    def run_mc():
        try:
            mc.append((tlc.run("Hopping.tla", mc_cfg, workers=ctx.pick(4, 8), timeout=3000), None))
        except Exception as e:
            mc.append((None, e))
    th = threading.Thread(target=run_mc)
    th.start()

    try:
        body(ctx, exe)
    finally:
        th.join()
    r, err = mc[0]
    if err is not None:
        raise err
    ctx.require_ok("MC %s (MAI_Std = MAI_Mask, all N x M x T3; T1R mask; reduction)" % mc_cfg, r)
    ctx.log("MC", mc_cfg, r.summary())


def body(ctx, exe):
    rng = ctx.rng
    # ---- GEN 0: RNTABLE (for case selection) and Fin ------------------------
    g0 = gen(ctx, "fin", fin=1)
    ctx.add_tlc("GEN Fin table + RNTABLE", g0["res"])
    fin, rn = g0["fin"], g0["rn"]

    # table jobs in the background
    if ctx.thorough:
        tab_ns = list(range(1, 65))
    else:
        tab_ns = sorted({1, 2, 3, 64} | set(rng.sample(range(4, 64), 2)))
    njobs = ctx.pick(1, 4)
    tab_pool = ThreadPoolExecutor(max_workers=njobs)
    tab_futs = [tab_pool.submit(gen, ctx, "tab%d" % i, tab_ns[i::njobs]) for i in range(njobs)]

    # ---- inputs --------------------------------------------------------------
    cfgs, n_class, unreachable = make_configs(ctx, rn)
    flat = []                       # (cfg index, item index)
    for ci, c in enumerate(cfgs):
        for ii in range(len(c.items)):
            flat.append((ci, ii))
    ctx.log("%d hopping configurations, %d tuples (%d class witnesses, %d classes without witness)"
            % (len(cfgs), len(flat), n_class, unreachable))

    # ---- GEN 1: per-tuple expectation from MAI_Std (parallel TLC jobs) ------
    evals = [(cfgs[ci].items[ii][0], cfgs[ci].maio, len(cfgs[ci].ma), cfgs[ci].items[ii][1]) for ci, ii in flat]
    nev_jobs = ctx.pick(2, 4)
    step = (len(evals) + nev_jobs - 1) // nev_jobs
    ev_pool = ThreadPoolExecutor(max_workers=nev_jobs)
    ev_futs = [ev_pool.submit(gen, ctx, "ev%d" % i, (), 0, evals[i * step:(i + 1) * step]) for i in range(nev_jobs)]

    # ---- run both implementations --------------------------------------------
    py, fw = start_impls(exe)
    got = {"python": [None] * len(cfgs), "firmware": [None] * len(cfgs)}
    dead = set()
    fresh = [None] * len(cfgs)      # python, one new HoppingParams object per question
    for impl in (py, fw):
        try:
            for ci, c in enumerate(cfgs):
                impl.set_ma(c.maio, c.ma)
                got[impl.name][ci] = impl.query([(h, f) for (h, f, _) in c.items])
                if impl.name == "python":
                    fresh[ci] = impl.query([(h, f) for (h, f, _) in c.items], op="F")
        except Died as e:
            report_died(ctx, e)
            dead.add(impl.name)
    expect = []
    for f in ev_futs:
        g = f.result()
        ctx.add_tlc("GEN per-tuple MAI_Std (%d tuples)" % len(g["eval"]), g["res"])
        expect += g["eval"]
    ev_pool.shutdown()

    # ---- compare with the TLC-generated expectation --------------------------
    seen_n = set()
    seen_cls = set()
    branch_count = {}
    disagree = 0
    labels = {}
    for (ci, ii), (mai, branch, mp, tp) in zip(flat, expect):
        c = cfgs[ci]
        hsn, fn, cls = c.items[ii]
        N = len(c.ma)
        labels[(ci, ii)] = branch
        if cls is not None:
            if (mp, tp) != cls:
                raise tlc.MachineryError("case selection and TLC disagree on the class of %r: %r vs %r"
                                         % ((hsn, c.maio, N, fn), cls, (mp, tp)))
            seen_cls.add((N, mp, tp) if mp >= N else (N, mp))
        seen_n.add(N)
        branch_count[branch] = branch_count.get(branch, 0) + 1
        want = c.ma[mai]
        ctx.count(2)
        res = {}
        for name in ("python", "firmware"):
            if name in dead or got[name][ci] is None:
                continue
            res[name] = got[name][ci][ii]
            if res[name] != want:
                ctx.violation(signature(name, branch, res[name]),
                              "%s selects ARFCN %d, the standard MA[MAI=%d] = %d for HSN=%d MAIO=%d N=%d FN=%d (M'=%d T'=%d, %s)"
                              % (name, res[name], mai, want, hsn, c.maio, N, fn, mp, tp, branch),
                              dict(hsn=hsn, maio=c.maio, ma=c.ma, fn=fn, got=res[name], want=want, mai=mai,
                                   branch=branch, Mprime=mp, Tprime=tp, impl=name))
        if fresh[ci] is not None and fresh[ci][ii] != want:
            ctx.violation(signature("python", branch, fresh[ci][ii]),
                          "python (new object) selects ARFCN %d, the standard MA[MAI=%d] = %d for HSN=%d MAIO=%d N=%d FN=%d (%s)"
                          % (fresh[ci][ii], mai, want, hsn, c.maio, N, fn, branch),
                          dict(hsn=hsn, maio=c.maio, ma=c.ma, fn=fn, got=fresh[ci][ii], want=want, mai=mai,
                               branch=branch, impl="python", fresh_object=True))
        if len(res) == 2 and res["python"] != res["firmware"]:
            disagree += 1
        if len(ctx.samples) < 3 and branch != "direct":
            ctx.sample(dict(hsn=hsn, maio=c.maio, n=N, fn=fn, mai_std=mai, branch=branch, python=res.get("python"),
                            firmware=res.get("firmware"), ma=c.ma[:8]))
    if seen_n != set(range(1, 65)):
        raise tlc.MachineryError("not every N 1..64 was exercised")
    for b in ("cyclic", "direct", "wrap", "wrap-overflow"):
        if not branch_count.get(b):
            raise tlc.MachineryError("vacuous: no tuple of arm %s" % b)
    ctx.extra["tuples_by_arm"] = branch_count
    ctx.extra["classes_covered"] = len(seen_cls)
    ctx.extra["classes_without_witness"] = unreachable
    ctx.extra["python_firmware_disagreements"] = disagree
    ctx.nontrivial_n = len(set(evals))

    # ---- TV: records validated directly by TLC -------------------------------
    # grouped by implementation, configuration and arm, so that a deviation in
    # one arm does not hide the records of the others
    traces = []
    tmeta = {}
    # quick: every configuration contributes a sample of its records; thorough: all records
    take = dict(full=10 ** 9, cyclic=ctx.pick(24, 10 ** 9), nsm=ctx.pick(8, 10 ** 9))
    take["class"] = ctx.pick(24, 10 ** 9)
    for ci, c in enumerate(cfgs):
        idx_all = list(range(len(c.items)))
        if len(idx_all) > take[c.kind]:
            idx_all = sorted(rng.sample(idx_all, take[c.kind]))
        by_branch = {}
        for ii in idx_all:
            by_branch.setdefault(labels[(ci, ii)], []).append(ii)
        for branch, idx in sorted(by_branch.items()):
            for name in ("python", "firmware"):
                if name in dead or got[name][ci] is None:
                    continue
                tid = "%s-%d-%s" % (name[0], ci, branch)
                ev = [dict(e="hop", hsn=c.items[ii][0], fn=c.items[ii][1], got=got[name][ci][ii]) for ii in idx]
                traces.append(dict(id=tid, cfg=dict(impl=name, maio=c.maio, ma=c.ma), ev=ev))
                tmeta[tid] = (name, ci, branch, idx)
    res, stats = tlc.validate_traces("HopTrace.tla", "HopTrace.cfg", traces, scratch=ctx.scratch,
                                     chunk="balance", parallel=4, timeout=3000, heap="3g")
    ctx.add_tv("TV HopTrace (records vs MA[MAI_Std])", stats, len(traces))
    nev = 0
    nrej = 0
    for v in res:
        name, ci, branch, idx = tmeta[v["id"]]
        nev += v["n"]
        if v["reached"] != v["n"]:
            nrej += 1
            ii = idx[v["reached"]]
            c = cfgs[ci]
            hsn, fn, _ = c.items[ii]
            ctx.violation(signature(name, branch, got[name][ci][ii]) if v["tag"] in ("C07.python", "C07.firmware")
                          else "C07/%s" % (v["tag"] or "no-action-enabled"),
                          "TLC rejects %s record HSN=%d MAIO=%d N=%d FN=%d -> ARFCN %d (%s, %s)"
                          % (name, hsn, c.maio, len(c.ma), fn, got[name][ci][ii], v["tag"], branch),
                          dict(hsn=hsn, maio=c.maio, ma=c.ma, fn=fn, got=got[name][ci][ii], impl=name, verdict=v))
    ctx.extra["records_validated_by_tlc"] = nev
    ctx.extra["traces_rejected_by_tlc"] = nrej
    ctx.log("TV: %d traces, %d records, %d traces rejected" % (len(traces), nev, nrej))

    # ---- table passes: complete reduced domain per N --------------------------
    S = {}
    for f in tab_futs:
        g = f.result()
        S.update(g["S"])
        ctx.add_tlc("GEN S tables N=%s" % ",".join(map(str, sorted(g["S"]))), g["res"])
    tab_pool.shutdown()
    passes = []
    for N in tab_ns:
        maios = [rng.randrange(64)]
        if N <= 8:
            maios = list(range(64)) if ctx.thorough else sorted({0, N - 1, 63, rng.randrange(64)})
        for maio in maios:
            passes.append((N, maio, rand_ma(rng, N, plain=rng.random() < 0.5), rng.randint(1, 63), rng.randrange(32)))
    for impl in (py, fw):
        impl.close()
    bad = []            # (impl, hsn, maio, ma, fn, got, want)
    lock = threading.Lock()
    nworkers = ctx.pick(2, 4)

    def worker(my):
        p_, f_ = start_impls(exe)
        try:
            for (N, maio, ma, h, k) in my:
                exp = []
                lut = [ma[fin[N - 1][s][maio]] for s in range(N)]
                tabN = S[N]
                for t1r in range(64):
                    exp.extend([lut[s] for s in tabN[h ^ t1r]])
                fnsum = 0
                for t1r in range(64):
                    base = SUPER * (t1r + 64 * k)
                    fnsum += sum(51 * ((t3 - t2) % 26) + t3 + base for t2 in range(26) for t3 in range(51))
                fnsum &= 0x7fffffff
                for impl in (p_, f_):
                    if impl.name in dead:
                        continue
                    impl.set_ma(maio, ma)
                    s_, res_ = impl.table(h, k)
                    if s_ != fnsum:
                        raise tlc.MachineryError("%s driver walked other frame numbers than the harness" % impl.name)
                    if res_ != exp:
                        n_bad = 0
                        for i, (g_, w_) in enumerate(zip(res_, exp)):
                            if g_ != w_:
                                t1r, rem = divmod(i, SUPER)
                                t2, t3 = divmod(rem, 51)
                                with lock:
                                    bad.append((impl.name, h, maio, ma, fn_of(t1r + 64 * k, t2, t3), g_, w_))
                                n_bad += 1
                                if n_bad >= 40:
                                    break
        except Died as e:
            with lock:
                report_died(ctx, e)
                dead.add(e.args[0])
        finally:
            p_.close()
            f_.close()

    with ThreadPoolExecutor(max_workers=nworkers) as ex:
        futs = [ex.submit(worker, passes[i::nworkers]) for i in range(nworkers)]
        for f in futs:
            f.result()
    ctx.count(2 * NTAB * len(passes))
    ctx.extra["table_passes"] = len(passes)
    ctx.extra["table_N"] = tab_ns
    ctx.log("table passes: %d x %d entries x 2 implementations, %d deviations" % (len(passes), NTAB, len(bad)))
    if bad:
        # label the failing tuples by the arm of the standard (TLC)
        bad = bad[:4000]
        g = gen(ctx, "badlabels", (), 0, [(h, maio, len(ma), fn) for (_, h, maio, ma, fn, _, _) in bad])
        for (name, h, maio, ma, fn, g_, w_), (mai, branch, mp, tp) in zip(bad, g["eval"]):
            ctx.violation(signature(name, branch, g_),
                          "%s selects ARFCN %d, the standard MA[MAI=%d] = %d for HSN=%d MAIO=%d N=%d FN=%d (M'=%d T'=%d, %s) [table]"
                          % (name, g_, mai, w_, h, maio, len(ma), fn, mp, tp, branch),
                          dict(hsn=h, maio=maio, ma=ma, fn=fn, got=g_, want=w_, mai=mai, branch=branch, impl=name))
    if ctx.thorough:
        ctx.exhaustive = not dead
        ctx.extra["exhaustive_scope"] = ("complete reduced domain (HSN xor T1R 0..63) x T2 0..25 x T3 0..50 x N 1..64 for both "
                                         "implementations against the TLC-generated S table (one random MAIO per N); all MAIO 0..63 for N <= 8; "
                                         "every (N, S, MAIO) combination of the final modulo; "
                                         "HSN=0: all N x all MAIO x 2N consecutive FN")
    ctx.rule = ("one evaluation = one channel selection of one implementation compared with the TLC-generated expectation; "
                "distinct non-trivial = distinct (HSN, MAIO, N, FN) tuples of the per-tuple route (every one selects a channel)")
