"""C08 - firmware TDMA scheduler runs each item exactly in its scheduled frame.

MC:  TdmaSched (ring of D buckets x K items against the obligations "item due
     in r frames"), exhaustive for small D, K over runs of any length - TLC.
TV:  histories of the unmodified layer1/tdma_sched.c + sched_gsmtime.c (host
     build, ASan+UBSan, real D=25, K=8) validated against TdmaTrace:
     clauses judged on the observation, conformance with the specification's
     actions, all clauses on every step.
GEN: behaviours simulated by TLC from TdmaSched with the real D, K replayed
     into the real code and judged by the same trace specification.
"""
import json
import os
import subprocess
from concurrent.futures import ThreadPoolExecutor

from .. import cbuild, tlc, tlaval
from ..core import REPO

ID = "C08"
LEVEL = "model_checking"
D = 25
K = 8
G = 16
FW = "src/target/firmware"


def build(ctx):
    """Compile the unmodified tdma_sched.c and sched_gsmtime.c with the driver.
    The firmware's own include/ shadows the libc headers, so only the needed
    parts are linked into a private include directory."""
    inc = os.path.join(ctx.scratch, "tdma-inc")
    os.makedirs(inc, exist_ok=True)
    fwinc = os.path.join(REPO, FW, "include")
    for name in ("layer1", "defines.h", "debug.h"):
        dst = os.path.join(inc, name)
        if not os.path.lexists(dst):
            os.symlink(os.path.join(fwinc, name), dst)
    exe = os.path.join(ctx.scratch, "drv_tdma")
    cbuild.cc(exe,
              [os.path.join(REPO, FW, "layer1/tdma_sched.c"),
               os.path.join(REPO, FW, "layer1/sched_gsmtime.c"),
               cbuild.HC + "/drv_tdma.c"],
              includes=[inc, cbuild.HC + "/shim/tdma",
                        os.path.join(REPO, "src/shared/libosmocore/include"),
                        os.path.join(REPO, "include")])
    return exe


# ------------------------------------------------------------ generators
EXTREME = [-32768, -32767, -1, 0, 1, 32766, 32767]


class Style:
    """Per-history choice of value universes: narrow ones make equal
    priorities and identical items frequent, wide ones cover the types."""

    def __init__(self, rng):
        self.rng = rng
        m = rng.random()
        if m < 0.35:
            self.prios = [rng.choice(EXTREME) for _ in range(rng.randint(1, 3))]
        elif m < 0.6:
            self.prios = [-1, 0, 1]
        else:
            self.prios = None
        self.narrow = rng.random() < 0.4
        self.p1s = [rng.randrange(256) for _ in range(2)] + [0, 255]
        self.p3s = [rng.randrange(65536) for _ in range(2)] + [0, 65535]

    def prio(self):
        r = self.rng
        if self.prios is not None and r.random() < 0.85:
            return r.choice(self.prios)
        if r.random() < 0.3:
            return r.choice(EXTREME)
        return r.randint(-32768, 32767)

    def cb(self):
        return self.rng.randint(1, 2 if self.narrow else 4)

    def p8(self):
        return self.rng.choice(self.p1s) if self.narrow else self.rng.randrange(256)

    def p16(self):
        return self.rng.choice(self.p3s) if self.narrow else self.rng.randrange(65536)

    def item(self):
        return [self.cb(), self.p8(), self.p8(), self.prio()]

    def itemset(self, lo, maxsep, fat=False):
        """Entries [cb,p1,p2,prio]; cb 0 = next frame.  At most maxsep separators."""
        r = self.rng
        n = r.randint(lo, 14 if fat else 6)
        psep = r.choice([0.1, 0.25, 0.5])
        out = []
        seps = 0
        for _ in range(n):
            if seps < maxsep and r.random() < psep:
                out.append([0, 0, 0, 0])
                seps += 1
            else:
                out.append(self.item())
        if seps < maxsep and r.random() < 0.5:
            out.append([0, 0, 0, 0])        # the firmware's sets end their last frame, too
        return out


def gen_history(rng, nframes, gsm=True):
    """One history in the firmware's frame loop:  schedule* ; execute ;
    schedule* ; [gsmtime execute] ; advance, reset anywhere, followed by D
    frames that drain the ring.  Returns (cur, ops)."""
    st = Style(rng)
    cur = rng.randrange(D)
    fn = rng.choice([0, 1, 42, 2715640, rng.randrange(2715648), 2 ** 31 - 200 - (1000 if nframes > 100 else 0)])   # stays below 2^31 (TLC integers)
    ops = []
    p_reset = rng.choice([0.0, 0.0, 0.01, 0.04])
    p_burst = rng.choice([0.0, 0.05, 0.15])
    p_gsm = rng.choice([0.0, 0.1, 0.3]) if gsm else 0.0

    def sched_some(lo):
        k = rng.choice([0, 0, 1, 1, 2, 3])
        for _ in range(k):
            r = rng.random()
            if r < 0.5:
                off = rng.choice([lo, lo, 1, 2, D - 1, rng.randint(lo, D - 1)])
                ops.append(("S", max(off, lo), st.cb(), st.p8(), st.p8(), st.p16(), st.prio()))
            elif r < 0.85:
                off = max(lo, rng.choice([lo, 1, 2, rng.randint(lo, D - 1)]))
                ops.append(("T", off, st.itemset(0, D - 1 - off, fat=rng.random() < 0.15), st.p16()))
            elif p_gsm and r < 0.95:
                ops.append(("G", fn + rng.choice([0, 1, 2, 2, 3, 3, 4, 7]), st.itemset(0, D - 2), st.p16()))
            if rng.random() < p_reset:
                ops.append(("R",))
        if rng.random() < p_burst:
            # fill one frame to 0..9 (+ what is there already): overflow happens
            off = max(lo, rng.choice([lo, 1, D - 1, rng.randint(lo, D - 1)]))
            n = rng.randint(5, 10)
            if rng.random() < 0.5:
                for _ in range(n):
                    ops.append(("S", off, st.cb(), st.p8(), st.p8(), st.p16(), st.prio()))
            else:
                s = [st.item() for _ in range(n)]
                if off < D - 1 and rng.random() < 0.6:
                    s.insert(rng.randint(0, n), [0, 0, 0, 0])
                    s += [st.item() for _ in range(rng.randint(0, 9))]
                ops.append(("T", off, s, st.p16()))
        if p_gsm and rng.random() < 0.03:
            for _ in range(rng.randint(10, 18)):        # exhaust the event pool
                ops.append(("G", fn + rng.randint(2, 6), st.itemset(0, 3), st.p16()))
        if p_gsm and rng.random() < 0.02:
            ops.append(("Z",))

    for _ in range(nframes):
        sched_some(0)
        ops.append(("E",))
        if rng.random() < 0.05:
            ops.append(("E",))          # a second execute finds the frame empty
        sched_some(1)
        if p_gsm and rng.random() < 0.9:
            ops.append(("X", fn))
        ops.append(("A",))
        fn += 1
    for _ in range(D):                  # drain: everything accepted must have run
        ops.append(("E",))
        if p_gsm:
            ops.append(("X", fn))
        ops.append(("A",))
        fn += 1
    return cur, ops


def gen_nested(rng, nframes):
    """Histories in which callbacks schedule further items while the frame is being executed.
    Input construction keeps what the statement needs to be judged without looking at the order of
    execution: every item of the run has its own parameters (p3 is a running number) and no frame
    gets more than K items (a shadow of the items per frame is kept for that purpose only)."""
    cur = rng.randrange(D)
    ops = []
    serial = [rng.randrange(1000)]
    frames = [[] for _ in range(D)]          # frames[r]: [cb, p1, p2, p3, prio] due r advances from now

    def fresh(prio=None):
        serial[0] += 1
        pr = prio if prio is not None else rng.choice([rng.choice(EXTREME), rng.randint(-5, 5), rng.randint(-32768, 32767)])
        return [rng.randint(1, 4), rng.randrange(256), rng.randrange(256), serial[0] % 65536, pr]

    for _ in range(nframes):
        for _ in range(rng.choice([0, 1, 2, 3])):
            off = rng.choice([0, 0, 1, 2, rng.randrange(D)])
            if len(frames[off]) < 5:
                it = fresh()
                frames[off].append(it)
                ops.append(("S", off, it[0], it[1], it[2], it[3], it[4]))
        due = list(frames[0])
        sp = []
        pending = list(due)
        rng.shuffle(pending)
        while pending and len(sp) < 4 and rng.random() < 0.7:
            creator = pending.pop()
            off = rng.choice([0, 0, 0, 1, 2, D - 1])
            if len(frames[off]) + sum(1 for _, s_ in sp if s_[0] == off) >= 7:
                continue
            # lower, equal or higher priority than the creator: all must run in this frame when off = 0
            new = fresh(prio=rng.choice([creator[4] - 1 if creator[4] > -32768 else creator[4], creator[4], creator[4] + 1 if creator[4] < 32767 else creator[4],
                                         rng.choice(EXTREME), rng.randint(-32768, 32767)]))
            sp.append((creator[:4], [off] + new))
            if off == 0:
                pending.append(new)          # an on-the-fly item may schedule again
                due.append(new)
            else:
                frames[off].append(new)
        ops.append(("EN", sp) if sp else ("E",))
        frames[0] = []
        for _ in range(rng.choice([0, 1])):
            off = rng.randint(1, D - 1)
            if len(frames[off]) < 5:
                it = fresh()
                frames[off].append(it)
                ops.append(("S", off, it[0], it[1], it[2], it[3], it[4]))
        ops.append(("A",))
        frames = frames[1:] + [[]]
    for _ in range(D):
        ops += [("E",), ("A",)]
    return cur, ops


def ops_from_sim(states):
    """Operation sequence of a TLC-simulated behaviour of TdmaSched (real D, K)."""
    cur = states[0]["cur"]
    ops = []
    for s in states[1:]:
        op = s["last"]["op"]
        a = s["last"]["a"]
        if op == "sched":
            ops.append(("S",) + tuple(a))
        elif op == "set":
            ops.append(("T", a[0], [list(e) for e in a[1]], a[2]))
        elif op == "exec":
            ops.append(("E",))
        elif op == "execn":
            ops.append(("EN", [(list(x["by"]), list(x["s"])) for x in a[0]]))
        elif op == "adv":
            ops.append(("A",))
        elif op == "reset":
            ops.append(("R",))
        elif op == "gsched":
            ops.append(("G", a[1], [list(e) for e in a[0]], a[2]))
        elif op == "gexec":
            ops.append(("X", a[0]))
        elif op == "greset":
            ops.append(("Z",))
    done = states[-1]["done"]
    if not done:
        ops.append(("E",))
    ops.append(("A",))
    for _ in range(D):
        ops += [("E",), ("A",)]
    return cur, ops


# ------------------------------------------------------------ running the code
def flat(items):
    return " ".join("%d %d %d %d" % tuple(e) for e in items)


def script_line(op):
    k = op[0]
    if k == "S":
        return "S %d %d %d %d %d %d" % op[1:]
    if k == "T":
        return "T %d %d %d %s" % (op[1], op[3], len(op[2]), flat(op[2]))
    if k == "G":
        return "G %d %d %d %s" % (op[1], op[3], len(op[2]), flat(op[2]))
    if k == "X":
        return "X %d" % op[1]
    if k == "EN":       # two driver lines: arm the spawns, then execute
        return "F %d %s\nE" % (len(op[1]), " ".join("%d %d %d %d %d %d %d %d %d %d" % (tuple(by) + tuple(s_)) for by, s_ in op[1]))
    return k


def event_of(op, out):
    k = op[0]
    if k == "S":
        return dict(e="sched", off=op[1], cb=op[2], p1=op[3], p2=op[4], p3=op[5], prio=op[6], rc=out["rc"])
    if k == "T":
        return dict(e="set", off=op[1], items=op[2], p3=op[3], rc=out["rc"])
    if k == "E":
        return dict(e="exec", calls=out["calls"], rc=out["rc"])
    if k == "EN":
        return dict(e="execn", calls=out["calls"], rc=out["rc"], sp=[dict(by=list(by), s=list(s_)) for by, s_ in op[1]])
    if k == "A":
        return dict(e="adv")
    if k == "R":
        return dict(e="reset")
    if k == "G":
        return dict(e="gsched", fn=op[1], items=op[2], p3=op[3], rc=out["rc"])
    if k == "X":
        return dict(e="gexec", fn=op[1], rc=out["rc"])
    if k == "Z":
        return dict(e="greset")
    raise ValueError(k)


def run_batch(exe, jobs):
    """Run histories [(id, cur, ops)] through one driver process.  Returns
    (traces, crash) where crash = (job, rc, stderr) of the history the driver
    died in (the histories after it are not run) or None."""
    lines = []
    for tid, cur, ops in jobs:
        lines.append("N %d" % cur)
        lines.extend(script_line(o) for o in ops)
    p = subprocess.run([exe], input="\n".join(lines) + "\n", stdout=subprocess.PIPE, stderr=subprocess.PIPE,
                       text=True, errors="replace",
                       env=dict(os.environ, ASAN_OPTIONS="detect_leaks=0:exitcode=99",
                                UBSAN_OPTIONS="print_stacktrace=1:halt_on_error=1:exitcode=98"))
    # tdma_sched.c reports overflows with puts() on stdout, too
    outs = [ln for ln in p.stdout.split("\n") if ln.startswith('{"op"')]
    traces = []
    i = 0
    for ji, (tid, cur, ops) in enumerate(jobs):
        need = 1 + len(ops) + sum(1 for o in ops if o[0] == "EN")     # EN = two driver lines (F, E)
        if i + need > len(outs):
            return traces, (ji, p.returncode, p.stderr[-3000:])
        chunk = outs[i:i + need]
        i += need
        ev = []
        k = 1
        for op in ops:
            if op[0] == "EN":
                k += 1          # the answer to F
            ln = chunk[k]
            k += 1
            o = json.loads(ln)
            if o["op"] != ("E" if op[0] == "EN" else op[0]):
                raise tlc.MachineryError("driver output out of step: %r for %r" % (ln, op))
            ev.append(event_of(op, o))
        traces.append(dict(id=tid, cfg=dict(cur=cur), ev=ev))
    if p.returncode != 0:
        return traces, (len(jobs) - 1, p.returncode, p.stderr[-3000:])
    return traces, None


def run_all(ctx, exe, jobs, batch=40, par=8):
    """All histories through the real code; a crash costs only its history."""
    traces = []
    crashes = []

    def work(chunk):
        out = []
        cr = []
        while chunk:
            trs, crash = run_batch(exe, chunk)
            out.extend(trs)
            if crash is None:
                break
            ji, rcode, err = crash
            cr.append((chunk[ji], rcode, err))
            chunk = chunk[ji + 1:]
        return out, cr

    chunks = [jobs[i:i + batch] for i in range(0, len(jobs), batch)]
    with ThreadPoolExecutor(max_workers=par) as ex:
        for out, cr in ex.map(work, chunks):
            traces.extend(out)
            crashes.extend(cr)
    return traces, crashes


# ------------------------------------------------------------ verdicts
def classify(tr, v):
    tag = v["tag"] or "no-action-enabled"
    if tag.startswith("C08."):
        tag = tag[4:]
    evn = tr["ev"][v["reached"]]["e"] if v["reached"] < len(tr["ev"]) else "end"
    return "C08/%s/%s" % (tag, evn)


def stats_of(tr, acc):
    for e in tr["ev"]:
        k = e["e"]
        if k == "exec":
            n = len(e["calls"])
            acc["callbacks"] += n
            acc["maxfill"] = max(acc["maxfill"], n)
        elif k == "execn":
            acc["callbacks"] += len(e["calls"])
            acc["nested_executes"] = acc.get("nested_executes", 0) + 1
            acc["on_the_fly_items"] = acc.get("on_the_fly_items", 0) + len(e["sp"])
            if tr["id"].startswith("g"):
                acc["nested_executes_from_tlc_simulation"] = acc.get("nested_executes_from_tlc_simulation", 0) + 1
        elif k == "sched":
            acc["sched"] += 1
            if e["rc"] == -1:
                acc["sched_overflow"] += 1
        elif k == "set":
            acc["set"] += 1
            if e["rc"] == -1:
                acc["set_overflow"] += 1
        elif k == "reset":
            acc["reset"] += 1
        elif k == "gsched":
            acc["gsched"] += 1
            if e["rc"] != 0:
                acc["gsched_busy"] += 1
        elif k == "gexec":
            acc["gfired"] += e["rc"]


def run(ctx):
    exe = build(ctx)
    ctx.trusted += ["drv_tdma.c (driver: calls the public functions, callbacks log cb/p1/p2/p3 and return 0)",
                    "harness/c/shim/tdma/calypso/dsp.h (empty stand-in)", "in-repo libosmocore headers",
                    "TLC + CommunityModules"]
    ctx.assumptions += [
        "frame loop of sync.c:l1_sync: tdma_sched_execute() once per frame before tdma_sched_advance()",
        "frame offsets 0..24; a set's last frame lies < 25 frames ahead (the ring aliases anything beyond)",
        "nothing is scheduled into the current frame after it was executed (includes callbacks scheduling "
        "into the frame being executed: 'priorities won't work' per source comment)",
        "callbacks report success (rc >= 0)",
        "tdma_sched_reset() keeps the items of the current frame (documented in the source); they still run",
        "order of execution among equal priorities is not part of the statement",
    ]
    # ---- MC and simulation run in the background while the real code runs ----
    mc_jobs = [("MC_TdmaSchedQ.cfg", "D=3 K=2 prios{-1,0,1} sets<=3 entries/3 frames, runs of any length"),
               ("MC_TdmaSchedK3.cfg", "D=2 K=3: the exchange sort on 3 items, sets<=5 entries"),
               ("MC_TdmaNested.cfg", "D=2 K=3: callbacks that schedule on the fly (0 or 1 frames ahead, chains of two)")]
    if ctx.thorough:
        mc_jobs += [("MC_TdmaSched.cfg", "D=4 K=2 prios{-1,0,1} sets<=4 entries/3 frames, runs of any length"),
                    ("MC_TdmaGsm.cfg", "D=3 K=2 with one-shot GSM-time events (pool of 2)")]
    mcpool = ThreadPoolExecutor(max_workers=1)
    mcw = ctx.pick(4, 8)

    def mc(cfg):
        try:
            return tlc.run("TdmaSched.tla", cfg, workers=mcw, timeout=3000)
        except tlc.MachineryError as e:
            if "when writing the disk" not in str(e):
                raise
            return tlc.run("TdmaSched.tla", cfg, workers=mcw, timeout=3000)     # metadir vanished: once more

    mc_fut = [(cfg, what, mcpool.submit(mc, cfg)) for cfg, what in mc_jobs]
    # growth beyond the statement: one-shot GSM-time events inside the frame loop across the hyperframe wrap
    # (spec/GsmtimeLoop.tla).  With modular comparison every event fires; as the code compares (no modulus)
    # events for frame 0 / 1 scheduled before the wrap never fire - documented in DESIGN 12.6, not a C08 clause.
    g_ok = tlc.run("GsmtimeLoop.tla", "MC_GsmtimeLoop.cfg", workers=2, timeout=600)
    ctx.require_ok("MC GsmtimeLoop (modular comparison: every one-shot event fires, pool never leaks)", g_ok)
    g_hz = tlc.run("GsmtimeLoop.tla", "MC_GsmtimeLoopHazard.cfg", workers=2, timeout=600)
    ctx.add_tlc("MC GsmtimeLoopHazard (comparison as in sched_gsmtime.c: expected to be violated at the wrap)", g_hz)
    hz_script = "N 0\nG 0 7 1 1 1 2 0\nG 1 7 1 1 1 2 0\nX 2715645\nX 2715646\nX 2715647\nX 0\nX 1\n"
    try:
        import subprocess
        hp = subprocess.run([exe], input=hz_script, capture_output=True, text=True, timeout=60)
        fired = sum(json.loads(l).get("rc", 0) for l in hp.stdout.splitlines() if l.startswith('{"op":"X"'))
    except Exception:
        fired = None
    ctx.extra["gsmtime_wrap_hazard"] = dict(spec_violation=(g_hz.violation or {}).get("name"),
                                            real_code_events_fired_across_wrap=fired, expected_if_sound=2)
    nsim = ctx.pick(40, 500)
    simdir = os.path.join(ctx.scratch, "sim")
    os.makedirs(simdir)
    simpool = ThreadPoolExecutor(max_workers=1)
    sim_fut = simpool.submit(tlc.run, "TdmaSched.tla", "SIM_TdmaSched.cfg", workers=1,
                             simulate="file=%s/tr,num=%d" % (simdir, nsim), depth=ctx.pick(70, 90),
                             seed=ctx.seed % 100000, timeout=2500, scratch=ctx.scratch)
    acc = dict(callbacks=0, maxfill=0, sched=0, sched_overflow=0, set=0, set_overflow=0, reset=0,
               gsched=0, gsched_busy=0, gfired=0)
    curs = set()
    tot = dict(ev=0, hist=0)
    samples = []

    def through_the_code(jobs, label):
        """histories -> real code -> traces -> TLC (TdmaTrace) -> verdicts"""
        ctx.log("running %d %s histories through the real tdma_sched.c / sched_gsmtime.c" % (len(jobs), label))
        traces, crashes = run_all(ctx, exe, jobs)
        tot["hist"] += len(jobs)
        for (tid, cur, ops), rcode, err in crashes:
            kind = "ubsan" if rcode == 98 or "runtime error:" in err else \
                ("asan" if rcode == 99 or "AddressSanitizer" in err else "crash")
            ctx.violation("C08/memory/%s" % kind, "tdma driver died (rc=%s) in history %s" % (rcode, tid),
                          dict(cur=cur, ops=[list(o) for o in ops][:400], stderr=err))
        ctx.log("validating %d traces, %d events" % (len(traces), sum(len(t["ev"]) for t in traces)))
        res = []
        SLICE = 6000                        # bounds the heap of one TLC process
        for i in range(0, len(traces), SLICE):
            part, stats = tlc.validate_traces("TdmaTrace.tla", "TdmaTrace.cfg", traces[i:i + SLICE],
                                              scratch=ctx.scratch, chunk="balance", parallel=ctx.pick(4, 6),
                                              timeout=3000)
            ctx.add_tv("TV TdmaTrace %s [%d..]" % (label, i), stats, len(part))
            res.extend(part)
        byid = {t["id"]: t for t in traces}
        for v in res:
            tr = byid[v["id"]]
            tot["ev"] += len(tr["ev"])
            if v["reached"] != v["n"]:
                at = v["reached"]
                if (v["tag"] or "").startswith("C08.guard."):
                    # the history left what the statement quantifies over: the generator is wrong, not the code
                    raise tlc.MachineryError("history %s: event %d violates %s: %r"
                                             % (v["id"], at + 1, v["tag"], tr["ev"][at]))
                ctx.violation(classify(tr, v),
                              "history %s rejected at event %d/%d (%s): %s"
                              % (v["id"], at + 1, v["n"], json.dumps(tr["ev"][at])[:300] if at < v["n"] else "",
                                 v["tag"]),
                              dict(trace=dict(id=tr["id"], cfg=tr["cfg"], ev=tr["ev"][:at + 2]), verdict=v))
            stats_of(tr, acc)
            curs.add(tr["cfg"]["cur"])
            if any(e["e"] == "exec" and e["calls"] for e in tr["ev"]):
                ctx.distinct(json.dumps([e for e in tr["ev"] if e["e"] in ("sched", "set", "gsched", "reset")])[:6000])
        if traces:
            samples.append(dict(id=traces[0]["id"], cfg=traces[0]["cfg"], events=traces[0]["ev"][:25]))

    # ---- histories: seeded random ----------------------------------------
    jobs = []
    n_rand = ctx.pick(400, 16000)
    for i in range(n_rand):
        long_ = i % 10 == 0
        nframes = ctx.rng.randint(26, 60) if long_ else ctx.rng.randint(1, 14)
        cur, ops = gen_history(ctx.rng, nframes)
        if i < D:
            cur = i                      # every ring position at least once
        jobs.append(("r%d" % i, cur, ops))
    # marathons: several hundred frame interrupts in one history (any counter behind the ring position
    # wraps, every bucket is reused many times)
    for i in range(ctx.pick(4, 60)):
        cur, ops = gen_history(ctx.rng, ctx.rng.randint(270, 620), gsm=i % 2 == 0)
        jobs.append(("m%d" % i, cur, ops))
    # callbacks that schedule further items while their frame is executed
    for i in range(ctx.pick(120, 5000)):
        cur, ops = gen_nested(ctx.rng, ctx.rng.randint(2, 20))
        jobs.append(("n%d" % i, cur, ops))
    through_the_code(jobs, "random")
    # ---- GEN: TLC-simulated behaviours ------------------------------------
    r = sim_fut.result()
    simpool.shutdown()
    ctx.add_tlc("SIM TdmaSched D=25 K=8 num=%d (clauses checked on every simulated step)" % nsim, r)
    if not r.ok:
        ctx.mc_violation("SIM_TdmaSched", r)
    jobs = []
    for fn in sorted(os.listdir(simdir)):
        try:
            stl = tlaval.parse_sim_file(os.path.join(simdir, fn))
        except Exception as e:
            raise tlc.MachineryError("cannot parse simulation file %s: %s" % (fn, e))
        if len(stl) > 1:
            cur, ops = ops_from_sim(stl)
            jobs.append(("g%d" % len(jobs), cur, ops))
    if not jobs:
        raise tlc.MachineryError("TLC simulation produced no behaviour")
    ctx.extra["spec_behaviours_replayed"] = len(jobs)
    through_the_code(jobs, "TLC-simulated")
    ctx.evaluations = tot["hist"]
    ctx.extra["events_validated"] = tot["ev"]
    ctx.extra["observed"] = acc
    ctx.extra["ring_positions_started_from"] = len(curs)
    if not ctx.violations and (acc["sched_overflow"] == 0 or acc["set_overflow"] == 0 or acc["maxfill"] < K
                               or len(curs) < D):
        raise tlc.MachineryError("driver histories never reached an overflow / a full frame / every ring "
                                 "position: %r" % acc)
    for smp in samples:
        ctx.sample(smp)
    # ---- MC results ----------------------------------------------------------
    for cfg, what, fut in mc_fut:
        r = fut.result()
        ctx.add_tlc("MC %s (%s)" % (cfg, what), r)
        if not r.ok:
            ctx.violation("C08/spec/%s" % r.violation["name"],
                          "TLC: %s violated in %s" % (r.violation["name"], cfg),
                          dict(trace=r.violation.get("trace", "")[-6000:], cmd=r.cmd))
        ctx.log("MC", cfg, r.summary())
    mcpool.shutdown()
    ctx.extra["mc_jobs_exhaustive_for_their_constants"] = True
    ctx.rule = ("histories of tdma_schedule / tdma_schedule_set / execute / advance / reset / sched_gsmtime* in the "
                "firmware's frame loop from a seeded generator (offsets 0..24, int16 priorities incl. ties and "
                "extremes, every ring position, frames filled beyond capacity, sets overflowing mid-way) and from "
                "TLC simulation of TdmaSched, executed by the real code and validated by TLC against TdmaTrace; "
                "non-trivial = at least one callback executed; distinct by the sequence of scheduling operations. "
                "The MC jobs are exhaustive for their constants (all reachable states, runs of any length).")
