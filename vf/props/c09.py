"""C09 - clock source: consecutive frame numbers, one per frame, no accumulated drift.

MC : spec/ClckGen.tla (one action per phase of CLCKGen's loop) - TLC, exhaustive
     over handler-duration patterns {0, T/2, T-1, T, T+1, 3T}, start frames
     {0, H-1} (H = 3: the wrap), periods {1,2,3}, link sets, stop()/start()
     at any wait after any part of it.
TV : the real clck_gen.py (start/stop/_worker/send_clck_ind unmodified) runs on a
     virtual monotonic clock (harness/py/vclock.py); its events
     start/ind/tick/links/overrun/stop are validated against ClckGenTrace.tla,
     where the time of every tick is computed by the specification.
GEN: behaviours simulated by TLC from ClckGen (SIM_ClckGen.cfg) are replayed into
     the real code and judged by the same trace spec.
THREADS (threads_stage): the two-thread view.  spec/ClckGenThreads.tla (controller calling
     stop()/start() at ANY instant, also inside a handler, against the worker thread) is
     model-checked; the real start/stop/_worker/send_clck_ind run on real Python threads under
     the discrete-event simulator harness/py/vthreads.py (join(timeout), Event.wait(timeout)
     on virtual time) and their event logs are validated against ClckGenThreadsTrace.tla.
"""
import copy
import importlib.util
import json
import os
import sys

from .. import tlc, tlaval
from ..core import ROOT, TOOLKIT

ID = "C09"
LEVEL = "model_checking"
HYPER = 2715648
NOMINAL_T = 4615000
PREFIX = [73, 78, 68, 32, 67, 76, 79, 67, 75, 32]       # "IND CLOCK "
BUDGET = 1700 * 1000 * 1000                              # virtual ns per run (TLC ints are 32 bit)


def load_vclock():
    path = os.path.join(ROOT, "harness", "py", "vclock.py")
    spec = importlib.util.spec_from_file_location("vf_vclock", path)
    mod = importlib.util.module_from_spec(spec)
    spec.loader.exec_module(mod)
    return mod


# ------------------------------------------------------------ script generator
STYLES = ["below", "zero", "near", "mixed", "bursts", "huge", "heavy", "allover", "mixed", "near", "bursts"]


def gen_durs(rng, n, T, style, budget):
    """n handler durations of one style; stops early when the time budget of the
    run is used up.  Returns (durations, time consumed)."""
    out = []
    used = 0
    burst = 0
    for _ in range(n):
        if style == "below":
            d = rng.choice([0, T - 1, rng.randrange(T), rng.randrange(T), rng.randrange(1000)])
        elif style == "zero":
            d = 0
        elif style == "near":
            d = rng.choice([T - 2, T - 1, T, T + 1, T + 2, 0, 1, T // 2])
        elif style == "mixed":
            r = rng.random()
            d = rng.randrange(T) if r < 0.6 else (T if r < 0.7 else rng.randrange(T + 1, 3 * T + 2))
        elif style == "bursts":
            if burst == 0 and rng.random() < 0.12:
                burst = rng.randint(2, 6)
            if burst:
                burst -= 1
                d = rng.choice([T + 1, 2 * T, rng.randrange(T + 1, 4 * T), T + rng.randrange(1, 2000)])
            else:
                d = rng.randrange(T)
        elif style == "huge":
            d = rng.randrange(50 * 1000 * 1000, 300 * 1000 * 1000) if rng.random() < 0.08 else rng.randrange(T)
        elif style == "heavy":
            d = rng.randrange(T // 2, T)
        else:   # allover
            d = rng.randrange(T + 1, 3 * T)
        cost = max(d, T) + T
        if used + cost > budget:
            break
        used += cost
        out.append(d)
    return out, used


def gen_links(rng):
    ids = [1, 2, 3]
    rng.shuffle(ids)
    return ids[:rng.choice([0, 1, 1, 2, 2, 3])]


def gen_period(rng):
    r = rng.random()
    if r < 0.45:
        return rng.choice([1, 2, 3, 4, 5, 51, 102, 120, 119, 26, 13])
    return rng.randint(1, 120)


def gen_start(rng, period, nticks):
    r = rng.random()
    if r < 0.15:
        return 0
    if r < 0.30:
        return HYPER - 1
    if r < 0.50:
        return HYPER - rng.randint(1, 8)                  # 2715640..2715647
    if r < 0.60:
        return HYPER - rng.randint(1, max(2, nticks))     # wraps somewhere inside the run
    if r < 0.80:
        k = rng.randrange(HYPER // period)
        return max(0, min(HYPER - 1, k * period - rng.randint(0, max(1, nticks // 2))))   # an indication is due soon
    return rng.randrange(HYPER)


def gen_script(rng, sid, T, long_ok=True):
    r = rng.random()
    if r < 0.30:
        total = rng.randint(1, 12)
    elif r < 0.72:
        total = rng.randint(10, 60)
    elif r < 0.92 or not long_ok:
        total = rng.randint(60, 160)
    else:
        total = rng.randint(200, 400)
    nep = rng.choice([1, 1, 1, 2, 2, 3])
    budget = BUDGET
    epochs = []
    period = gen_period(rng)
    links = gen_links(rng)
    fn = gen_start(rng, period, total)
    left = total
    for e in range(nep):
        n = left if e == nep - 1 else rng.randint(0, left)
        left -= n
        pause = rng.choice([0, 0, 1, rng.randrange(10 * 1000 * 1000), 100 * 1000 * 1000, T, T - 1])
        pause = min(pause, max(0, budget - 2 * T))
        budget -= pause
        if e > 0 and rng.random() < 0.5:
            period = gen_period(rng)
            links = gen_links(rng)
            fn = gen_start(rng, period, n)
        style = rng.choice(STYLES)
        durs, used = gen_durs(rng, n, T, style, budget - 2 * T)
        budget -= used + T
        ep = dict(pause=pause, fn=fn, period=period, links=list(links), durs=durs, style=style,
                  stop=rng.choice([[0, 1], [1, 1], [1, 2], [1, 3], [999, 1000], [1, 1000000]]), relink={})
        if durs and rng.random() < 0.2:
            for _ in range(rng.randint(1, 2)):
                ep["relink"][str(rng.randrange(len(durs)))] = gen_links(rng)
        epochs.append(ep)
        if budget < 4 * T:
            break
    return dict(id=sid, t0=rng.choice([0, 1, 12345678, rng.randrange(100 * 1000 * 1000)]), epochs=epochs)


def conc(d, T):
    """Abstract time of the simulated model (FrameT = 4) -> ns."""
    q, r = divmod(d, 4)
    return q * T + (0, 1 if q >= 1 else T // 4, T // 2, T - 1)[r]


def script_from_sim(states, sid, T):
    ops = states[-1].get("ops", [])
    epochs = []
    for o in ops:
        if o[0] == "start":
            epochs.append(dict(pause=conc(o[1], T), fn=o[2], period=o[3], links=list(o[4]), durs=[],
                               stop=[1, 1], relink={}, style="sim"))
        elif o[0] == "tick":
            epochs[-1]["durs"].append(conc(o[1], T))
        elif o[0] == "links":
            epochs[-1]["relink"][str(len(epochs[-1]["durs"]) - 1)] = list(o[1])
        elif o[0] == "stop":
            epochs[-1]["stop"] = [o[1], o[2]] if o[2] > 0 else [0, 1]
    if not epochs:
        return None
    return dict(id=sid, t0=0, epochs=epochs)


# ------------------------------------------------------------ classification
def classify(tr, verdict):
    """Stable signature of a rejected trace: clause tag + discriminator taken
    from the failing event and the events before it."""
    tag = (verdict["tag"] or "no-action-enabled").replace("C09.", "")
    ev = tr["ev"]
    T = tr["cfg"]["T"]
    i = verdict["reached"]
    bad = ev[i] if i < len(ev) else {}
    prev_tick = None
    prev_start = None
    for e in reversed(ev[:i]):
        if e["e"] == "start":
            prev_start = e
            break
        if e["e"] == "tick" and prev_tick is None:
            prev_tick = e
    disc = ""
    if tag in ("no-drift", "resync-immediate") and bad.get("e") == "stop":
        disc = "wait-beyond-deadline"
    elif tag == "no-drift" and bad.get("e") in ("tick", "ind"):
        if prev_tick is None:
            disc = "first-tick"
        else:
            exp = prev_tick["vt"] + T
            if prev_tick["dur"] > 0 and bad["vt"] == prev_tick["vt"] + prev_tick["dur"] + T:
                disc = "deadline-from-handler-end"
            elif bad["vt"] < exp:
                disc = "early"
            else:
                disc = "late"
    elif tag == "resync-no-catch-up":
        disc = "catch-up-tick"
    elif tag == "resync-immediate" and prev_tick is not None:
        disc = "late" if bad.get("vt", 0) > prev_tick["vt"] + prev_tick["dur"] else "early"
    elif tag == "consecutive" and bad.get("e") == "tick":
        if prev_tick is not None and prev_tick["fn"] == HYPER - 1:
            disc = "hyperframe-wrap"
        elif prev_tick is not None and bad["fn"] == prev_tick["fn"]:
            disc = "repeated"
        else:
            disc = "step"
    elif tag == "restart-from-start":
        before = [e for e in ev[:i] if e["e"] == "tick"]
        disc = "counter-continues" if before and bad.get("fn") == (before[-1]["fn"] + 1) % HYPER else "other"
    elif tag == "indication.when":
        disc = {"ind": "unexpected-frame", "tick": "missing", "stop": "without-handler-call"}.get(bad.get("e"), "")
    elif tag == "indication.octets":
        raws = []
        for e in reversed(ev[:i]):
            if e["e"] != "ind":
                break
            raws.append(e["raw"])
        if any(not r or r[-1] != 0 for r in raws):
            disc = "nul-missing"
        elif any(r[:len(PREFIX)] != PREFIX for r in raws):
            disc = "prefix"
        else:
            disc = "number"
    elif tag == "period":
        disc = "not-4.615ms"
    elif tag == "no-action-enabled":
        disc = bad.get("e", "")
    return "C09/%s%s" % (tag, "/" + disc if disc else "")


def dur_class(d, T):
    return "b" if d < T else ("e" if d == T else ("h" if d > 10 * T else "a"))


# ------------------------------------------------------------ the check
def run(ctx):
    vclock = load_vclock()
    ctx.trusted += ["harness/py/vclock.py (virtual clock, synchronous Thread / scripted Event stand-ins, fake links)",
                    "CPython float arithmetic for wait(dt * 1e-9): the integer ns are recovered with round() "
                    "(exact for all 0 <= dt < 4.7e6, checked; larger deviations are reported)",
                    "TLC + CommunityModules"]
    ctx.assumptions += ["virtual monotonic clock: time passes only inside the handler, inside Event.wait() and while stopped",
                        "the clock handler is installed; one clock thread (start() asserts that itself)",
                        "frame period accepted iff |T - 4615000 ns| < 500 ns (4.615 ms to the microsecond); "
                        "the code's 4614999 ns is inside",
                        "indications are sent at the tick instant, before the handler consumes time (as the code does)"]
    replay_only = None
    rp = getattr(ctx, "replaying", None)
    if rp and isinstance(rp.get("replay"), dict) and rp["replay"].get("script"):
        replay_only = rp["replay"]["script"]

    # ---- MC ----------------------------------------------------------------
    if replay_only is None:
        for cfg in ctx.pick(["MCQ_ClckGen.cfg"], ["MC_ClckGen.cfg", "MCD_ClckGen.cfg"]):
            cov = cfg == "MC_ClckGen.cfg"
            r = tlc.run("ClckGen.tla", cfg, workers=8, timeout=1500, coverage=cov)
            ctx.add_tlc("MC %s" % cfg, r)
            ctx.log("MC", cfg, r.summary())
            if not r.ok:
                ctx.mc_violation(cfg, r)
            elif cov:
                # vacuity guard: every action of the closed model was taken
                dead = [a for a in ("EStart", "ELoop", "EWait", "EStopAny", "ETick", "ERelink")
                        if r.coverage.get(a, (0, 0))[0] == 0]
                if dead:
                    raise tlc.MachineryError("actions never taken in %s: %s" % (cfg, dead))

    # ---- the code under test -------------------------------------------------
    try:
        mod = vclock.load_clck_gen(TOOLKIT)
    except vclock.RigError as e:
        raise tlc.MachineryError(str(e))
    try:
        T = vclock.calibrate(mod)
    except vclock.RigError as e:
        # the synchronous rig cannot represent this implementation (e.g. a worker pacing itself with
        # time.sleep instead of Event.wait): not a verdict - the rig with real threads decides
        ctx.log("synchronous rig: calibration not representable (%s); the threads stage decides" % e)
        ctx.extra["synchronous_rig_calibration_not_representable"] = str(e)
        T = -1
    ctx.extra["frame_interval_ns_of_code"] = T
    Tg = T if 1000 < T < 100 * 1000 * 1000 else NOMINAL_T       # durations are generated relative to this

    scripts = []
    if replay_only is not None:
        scripts.append(replay_only)
    else:
        n_rand = ctx.pick(260, 8800)
        for i in range(n_rand):
            scripts.append(gen_script(ctx.rng, "r%d" % i, Tg, long_ok=(ctx.thorough or i % 10 == 0)))
        # ---- GEN: behaviours of the specification -----------------------------
        nsim = ctx.pick(60, 1500)
        simdir = os.path.join(ctx.scratch, "sim")
        os.makedirs(simdir)
        r = tlc.run("ClckGen.tla", "SIM_ClckGen.cfg", workers=1, simulate="file=%s/tr,num=%d" % (simdir, nsim),
                    depth=150, seed=ctx.seed % 100000, timeout=900, scratch=ctx.scratch)
        ctx.add_tlc("SIM ClckGen num=%d depth=150" % nsim, r)
        if not r.ok:
            ctx.mc_violation("SIM_ClckGen", r)
        k = 0
        for fname in sorted(os.listdir(simdir)):
            try:
                st = tlaval.parse_sim_file(os.path.join(simdir, fname))
            except Exception as e:
                raise tlc.MachineryError("cannot parse simulation file %s: %s" % (fname, e))
            s = script_from_sim(st, "g%d" % k, Tg) if st else None
            if s is not None:
                scripts.append(s)
                k += 1
        if k < nsim // 2:
            raise tlc.MachineryError("only %d of %d simulated behaviours could be turned into scripts" % (k, nsim))
        ctx.extra["spec_behaviours_replayed"] = k

    # ---- run the real code on virtual time -------------------------------------
    ctx.log("running %d scripts through the real clck_gen.py (T=%s ns)" % (len(scripts), T))
    traces = {}
    byid = {}
    nticks = ninds = nover = nwrap = nrestart = 0
    for s in scripts:
        ctx.count()
        tr, crash, anomalies = vclock.run_script(mod, s)
        byid[s["id"]] = (s, tr)
        if crash and crash.startswith("RigError"):
            # something the synchronous stand-ins cannot represent: no verdict from this rig
            ctx.extra["scripts_not_representable_in_synchronous_rig"] = ctx.extra.get("scripts_not_representable_in_synchronous_rig", 0) + 1
            continue
        if crash:
            ctx.violation("C09/crash/%s" % crash.split(":")[0], "script %s: the generator raised %s" % (s["id"], crash),
                          dict(script=s, events=tr["ev"][-20:]))
            continue
        for a in anomalies:
            ctx.violation("C09/virtual-time/%s" % a.split(":")[0], "script %s: %s" % (s["id"], a), dict(script=s))
        if any(isinstance(v, int) and not (-2 ** 31 < v < 2 ** 31) for e in tr["ev"] for v in e.values()):
            raise tlc.MachineryError("script %s produced a value outside 32 bit" % s["id"])
        traces.setdefault(tr["cfg"]["T"], []).append(tr)
        ticks = [e for e in tr["ev"] if e["e"] == "tick"]
        nticks += len(ticks)
        ninds += sum(1 for e in tr["ev"] if e["e"] == "ind")
        nover += sum(1 for e in tr["ev"] if e["e"] == "overrun")
        nwrap += sum(1 for e in ticks if e["fn"] == HYPER - 1)
        nrestart += max(0, sum(1 for e in tr["ev"] if e["e"] == "start") - 1)
        if ticks:
            key = [[ep["fn"], ep["period"], ep["links"], "".join(dur_class(d, Tg) for d in ep["durs"]), ep["stop"],
                    sorted(ep.get("relink", {}))] for ep in s["epochs"]]
            ctx.distinct(json.dumps(key))
    ctx.extra.update(ticks_validated=nticks, indications_observed=ninds, overruns_observed=nover,
                     hyperframe_wraps_observed=nwrap, restarts_observed=nrestart)
    # vacuity guard: the SCRIPTS (not the code's reaction to them) must exercise every clause
    plan = dict(ticks=0, overruns=0, wraps=0, ind_frames=0, restarts=0)
    for s in scripts:
        plan["restarts"] += len(s["epochs"]) - 1
        for ep in s["epochs"]:
            n = len(ep["durs"])
            plan["ticks"] += n
            plan["overruns"] += sum(1 for d in ep["durs"][:-1] if d > Tg)
            plan["wraps"] += 1 if ep["fn"] + n > HYPER else 0
            first = -(-ep["fn"] // ep["period"]) * ep["period"]
            plan["ind_frames"] += 1 if (ep["links"] and first < ep["fn"] + n) else 0
    ctx.extra["planned"] = plan
    if replay_only is None and min(plan.values()) == 0:
        raise tlc.MachineryError("scripts exercise too little: %s" % plan)

    if len(traces) > 6:
        # the frame interval is a constant of the code; a generator whose interval varies from run
        # to run is rejected outright (and only the most frequent intervals are validated)
        ctx.violation("C09/period/varies", "first intervals differ between runs: %s ..." % sorted(traces)[:8],
                      dict(intervals=sorted(traces)[:50]))
        for Tk in sorted(traces, key=lambda k: -len(traces[k]))[6:]:
            del traces[Tk]

    # ---- binding self-test: corrupted copies of an accepted trace must be rejected ----
    selftest = {}
    if replay_only is None:
        for Tk in sorted(traces, key=lambda k: -len(traces[k])):
            for tr in traces[Tk]:
                head = tr["ev"][:60]
                tk = [i for i, e in enumerate(head) if e["e"] == "tick"]
                ind = [i for i, e in enumerate(head) if e["e"] == "ind"]
                if len(tk) >= 4 and ind and not any(e["e"] in ("stop", "links") for e in head[:tk[3]]):
                    def variant(name, f):
                        ev = copy.deepcopy(head)
                        f(ev)
                        selftest["selftest-" + name] = None
                        traces[Tk].append(dict(id="selftest-" + name, cfg=dict(tr["cfg"]), ev=ev))
                    variant("tick-time", lambda ev: ev[tk[2]].__setitem__("vt", ev[tk[2]]["vt"] + 1))
                    variant("tick-fn", lambda ev: ev[tk[2]].__setitem__("fn", (ev[tk[2]]["fn"] + 2) % HYPER))
                    variant("tick-dropped", lambda ev: ev.pop(tk[1]))
                    variant("ind-nul", lambda ev: ev[ind[0]]["raw"].pop())
                    variant("ind-digit", lambda ev: ev[ind[0]]["raw"].__setitem__(len(PREFIX), 48 + (ev[ind[0]]["raw"][len(PREFIX)] - 47) % 10))
                    variant("ind-duplicated", lambda ev: ev.insert(ind[0], copy.deepcopy(ev[ind[0]])))
                    break
            if selftest:
                break
        if not selftest and not ctx.violations:
            raise tlc.MachineryError("no trace suitable for the binding self-test")

    # ---- TV: one batch family per frame interval ---------------------------------
    ntr = 0
    for Tk in sorted(traces):
        group = traces[Tk]
        res, stats = tlc.validate_traces("ClckGenTrace.tla", "ClckGenTrace.cfg", group, scratch=ctx.scratch,
                                         chunk="balance", parallel=ctx.pick(4, 6), timeout=3000)
        real = len([t for t in group if t["id"] not in selftest])
        ctx.add_tv("TV ClckGenTrace T=%d" % Tk, stats, real)
        ntr += real
        for v in res:
            if v["id"] in selftest:
                selftest[v["id"]] = v
                continue
            if v["reached"] == v["n"]:
                continue
            s, tr = byid[v["id"]]
            sig = classify(tr, v)
            lo = max(0, v["reached"] - 8)
            ctx.violation(sig, "trace %s rejected at event %d/%d (%s): %s" %
                          (v["id"], v["reached"] + 1, v["n"], v["tag"], json.dumps(tr["ev"][v["reached"]:v["reached"] + 1])),
                          dict(script=s, T=tr["cfg"]["T"], events_before=tr["ev"][lo:v["reached"]],
                               rejected=tr["ev"][v["reached"]:v["reached"] + 2], verdict=v))
    blind = [k for k, v in selftest.items() if v is None or v["reached"] == v["n"]]
    if blind:
        raise tlc.MachineryError("trace spec accepted corrupted traces: %s" % blind)
    ctx.extra["binding_selftest"] = {k: v["tag"] for k, v in selftest.items()}
    for Tk in sorted(traces):
        for t in traces[Tk][:2]:
            ctx.sample(dict(id=t["id"], cfg=t["cfg"], events=t["ev"][:14]))
    ctx.log("TV: %d traces, %d ticks, %d indications, %d overruns, %d wraps, %d restarts"
            % (ntr, nticks, ninds, nover, nwrap, nrestart))
    ctx.rule = ("scripts (start frame, indication period, link list, handler duration per tick below/equal/above one "
                "frame period incl. bursts and huge overruns, stop point and part of the wait elapsed, pauses, "
                "re-linking, up to 3 start()/stop() epochs) from a seeded generator and from TLC simulation of "
                "ClckGen, executed by the real CLCKGen on virtual time; non-trivial = at least one handler call; "
                "distinct by (start, period, links, duration-class string, stop point) per epoch")
    ctx.evaluations = len(scripts)
    app_sessions(ctx)
    long_run(ctx, mod)
    wire_stage(ctx)
    links_hazard(ctx)
    threads_stage(ctx)


def wire_stage(ctx):
    """Clock thread (the indications of one tick) against socket thread (the reply to a control
    command) inside the link code both use (udp_link.py): every line-level interleaving with up to
    two pre-emptions; what leaves each socket is judged by LinkWire.tla."""
    import threading
    sys.path.insert(0, os.path.join(ROOT, "harness", "py"))
    import baton
    import faketrx_drv as F
    sim = F.Sim([])
    g = sim.app.clck_gen
    g.ind_period = 1
    for t, (rx, tx) in ((0, (890200, 935200)), (1, (935200, 890200))):
        sim.cmd(t, b"CMD RXTUNE %d\0" % rx)
        sim.cmd(t, b"CMD TXTUNE %d\0" % tx)
        sim.cmd(t, b"CMD POWERON\0")
    nlinks = len(g.clck_links)
    cmds = [b"CMD SETPOWER 5\0", b"CMD FOOBAR 1 2\0", b"CMD NOMTXPOWER\0"]
    traces = []

    def one(cmd, first, k1, k2):
        fn = g.clck_src
        log = []
        bt = baton.Baton(("udp_link.py",))
        sim.net.take()

        def hook(sock, data, addr):
            i, kind = sim.sock2.get(id(sock), (-1, "?"))
            log.append(dict(e="wire", kind=kind if kind in ("clck", "ctrl", "data") else "other", raw=list(data)[:64]))
        sim.net.hook = hook

        def sock():
            sim.trx[1].ctrl_if.sock.feed(cmd, ("127.0.0.1", 1))
            sim.trx[1].ctrl_if.handle_rx()

        def clk():
            g.send_clck_ind()

        def named(f, name):
            def run():
                threading.current_thread().name = name
                f()
            return run
        try:
            steps = bt.run({"sock": named(sock, "sock"), "clk": named(clk, "clk")}, first, k1, k2)
        finally:
            sim.net.hook = None
        for name, err in bt.errors.items():
            ctx.violation("C09/wire/exception-%s" % type(err).__name__, "thread %s raised %r" % (name, err),
                          dict(cmd=cmd.decode("latin1"), schedule=[first, k1, k2]))
        log.append(dict(e="done"))
        return dict(cfg=dict(fn=fn, links=nlinks), ev=log), steps

    nsched = 0
    for cmd in (cmds if ctx.thorough else cmds[:1]):
        _, st = one(cmd, "sock", 10 ** 6, 0)
        ns, nc = st.get("sock", 0), st.get("clk", 0)
        for first, (a, b) in (("sock", (ns, nc)), ("clk", (nc, ns))):
            for k1 in range(0, a + 1):
                for k2 in range(0, b + 1):
                    tr, _ = one(cmd, first, k1, k2)
                    tr["id"] = "w%d-%s-%d-%d" % (nsched, first, k1, k2)
                    traces.append(tr)
                    nsched += 1
    res, stats = tlc.validate_traces("LinkWire.tla", "LinkWire.cfg", traces, scratch=ctx.scratch, chunk="balance", parallel=3)
    ctx.add_tv("TV LinkWire (reply vs clock indications inside udp_link.py, line-level schedules)", stats, len(traces))
    byid = {t["id"]: t for t in traces}
    for v in res:
        if v["reached"] != v["n"]:
            t = byid[v["id"]]
            e = t["ev"][v["reached"]]
            ctx.violation("C09/%s" % (v["tag"] or "no-action-enabled").replace("C09.", ""),
                          "schedule %s: %s; event %s" % (v["id"], v["tag"], {k: (bytes(x).decode("latin1") if k == "raw" else x) for k, x in e.items()}),
                          dict(schedule=v["id"], events=[{k: (bytes(x).decode("latin1") if k == "raw" else x) for k, x in ev.items()} for ev in t["ev"]]))
    ctx.extra["link_schedules"] = nsched


def links_hazard(ctx):
    """Growth beyond the statement (DESIGN 12.6): the clock thread walks the link list while the main
    thread detaches a link (POWEROFF of another transceiver).  spec/ClckLinks.tla: with a walk over a
    snapshot every link attached throughout the tick is served (MC_ClckLinksSnapshot), with a walk over
    the live list one can be skipped (MC_ClckLinksHazard - expected to be violated).  The real code is
    run through the same schedules and what it does is recorded as an observation, not as a verdict:
    neither C09 nor C12 quantifies over this schedule."""
    import threading
    sys.path.insert(0, os.path.join(ROOT, "harness", "py"))
    import baton
    import faketrx_drv as F
    ok = tlc.run("ClckLinks.tla", "MC_ClckLinksSnapshot.cfg", workers=2, timeout=600)
    ctx.require_ok("MC ClckLinks (walk over a snapshot: every link attached throughout a tick is served)", ok)
    hz = tlc.run("ClckLinks.tla", "MC_ClckLinksHazard.cfg", workers=2, timeout=600)
    ctx.add_tlc("MC ClckLinksHazard (walk over the live list: expected to be violated - a link is skipped)", hz)
    skips = runs = 0
    try:
        sim = F.Sim([])
        g = sim.app.clck_gen
        g.ind_period = 1

        def power(on):
            for t, (rx, tx) in ((0, (890200, 935200)), (1, (935200, 890200))):
                sim.cmd(t, b"CMD POWEROFF\0")
            if on:
                for t, (rx, tx) in ((0, (890200, 935200)), (1, (935200, 890200))):
                    sim.cmd(t, b"CMD RXTUNE %d\0" % rx)
                    sim.cmd(t, b"CMD TXTUNE %d\0" % tx)
                    sim.cmd(t, b"CMD POWERON\0")

        def one(first, k1, k2):
            power(True)
            got = []
            bt = baton.Baton(("udp_link.py",))
            sim.net.take()

            def hook(sock, data, addr):
                i, kind = sim.sock2.get(id(sock), (-1, "?"))
                if kind == "clck":
                    got.append(i)
            sim.net.hook = hook

            def sock():
                threading.current_thread().name = "sock"
                sim.trx[0].ctrl_if.sock.feed(b"CMD POWEROFF\0", ("127.0.0.1", 1))
                sim.trx[0].ctrl_if.handle_rx()

            def clk():
                threading.current_thread().name = "clk"
                g.send_clck_ind()
            try:
                steps = bt.run({"sock": sock, "clk": clk}, first, k1, k2)
            finally:
                sim.net.hook = None
            return steps, got
        st, _ = one("sock", 10 ** 6, 0)
        ns, nc = st.get("sock", 0), st.get("clk", 0)
        for k1 in range(0, nc + 1):
            for k2 in range(0, ns + 1):
                _, got = one("clk", k1, k2)
                runs += 1
                if 1 not in got:          # transceiver 2 stays powered on throughout: its link is attached
                    skips += 1
        power(False)
        note = "the link of a transceiver that stays powered on missed the indication in %d of %d schedules" % (skips, runs)
    except Exception as e:          # an observation must not stop the check
        note = "not reproduced on this tree (%s)" % type(e).__name__
    ctx.extra["clock_link_skip_hazard"] = dict(spec_violation=(hz.violation or {}).get("name"), schedules=runs,
                                               real_code_skips=skips, note=note)


def long_run(ctx, mod):
    """More than one hyperframe of ticks in one uninterrupted run of the real worker (3 1/2 hours
    of virtual time): drift, frame numbers and indications at the points where the frame counter
    and the tick count wrap.  Sparse log (every 256th tick, every tick around the wraps)."""
    vclock = load_vclock()
    HYPER = 2715648
    rng = ctx.rng
    traces = []
    runs = [(rng.choice([0, 7, HYPER - 1, rng.randrange(HYPER)]), rng.choice([1, 51, 102, 216]))]
    if ctx.thorough:
        runs += [(HYPER - 1, 102), (1234567, 13)]
    for k, (start, period) in enumerate(runs):
        n = HYPER + 3000
        wrap_at = (HYPER - start) % HYPER            # tick index at which the frame number wraps
        wins = [(0, 40), (wrap_at - 40, wrap_at + 40), (HYPER - 40, HYPER + 40), (n - 40, n)]
        try:
            r = vclock.run_long(mod, start, period, n, every=256, windows=wins)
        except vclock.RigError as e:
            ctx.extra["long_run_not_representable"] = str(e)
            ctx.log("long run: not representable in the synchronous rig (%s)" % e)
            return
        if r["crash"]:
            ctx.violation("C09/crash/long-run", "uninterrupted run of %d ticks: the generator raised %s" % (n, r["crash"]),
                          dict(start=start, period=period))
            continue
        if r["ticks"] < n:
            ctx.violation("C09/long.stopped-early", "the worker ended after %d of %d ticks" % (r["ticks"], n),
                          dict(start=start, period=period))
        traces.append(dict(id="L%d" % k, cfg=dict(start=start, period=period, T=r["T"] or 0), ev=r["ev"]))
        ctx.count(r["ticks"])
    if not traces:
        return
    res, stats = tlc.validate_traces("ClckGenLong.tla", "ClckGenLong.cfg", traces, scratch=ctx.scratch, parallel=3, timeout=1800)
    ctx.add_tv("TV ClckGenLong (one hyperframe + 3000 ticks in one run, sparse log)", stats, len(traces))
    byid = {t["id"]: t for t in traces}
    for v in res:
        tr = byid[v["id"]]
        if v["reached"] != v["n"]:
            e = tr["ev"][v["reached"]]
            ctx.violation("C09/%s" % (v["tag"] or "no-action-enabled"),
                          "long run %s (start %d, period %d) rejected at logged event %d/%d: %s"
                          % (v["id"], tr["cfg"]["start"], tr["cfg"]["period"], v["reached"] + 1, v["n"], json.dumps(e)),
                          dict(cfg=tr["cfg"], events=tr["ev"][max(0, v["reached"] - 3):v["reached"] + 2]))
    ctx.extra["long_runs"] = [dict(start=t["cfg"]["start"], period=t["cfg"]["period"], logged_events=len(t["ev"])) for t in traces]


def app_sessions(ctx):
    """The clock generator inside the application: the indications that reach the clock links of
    the real fake_trx.Application (power histories over 7 wirings, several transceivers joining and
    leaving a running clock) leave only from ticks whose frame number is a multiple of the period."""
    from . import c12
    from . import faketrx_common as FC
    traces = [c12.session(ctx, "a%d" % k) for k in range(ctx.pick(60, 1500))]
    FC.validate(ctx, traces, ("C09.", "C12.clock-indications"), "TV FakeTrxTrace (clock indications of the real Application)")
    ctx.extra["application_sessions"] = len(traces)
    ctx.extra["application_ticks"] = sum(1 for t in traces for e in t["ev"] if e["e"] == "tick")


# ============================================================ two-thread view
def load_vthreads():
    path = os.path.join(ROOT, "harness", "py", "vthreads.py")
    spec = importlib.util.spec_from_file_location("vf_vthreads", path)
    mod = importlib.util.module_from_spec(spec)
    spec.loader.exec_module(mod)
    return mod


def th_durations(T):
    """Named handler durations: short; just below / at / above one period; 2.5, 3, > 10 and > 25 periods."""
    # ... and a handler that blocks for more than a second (longer than a plausible join / wait timeout;
    # virtual time is in ns and must stay below 2^31 for TLC)
    return dict(short=1000, half=T // 2, below=T - 1, equal=T, above=T + 1, x2_5=(5 * T) // 2, x3=3 * T,
                x10=10 * T + T // 2, x25=25 * T + 3, x230=230 * T + 11)


def th_phases(d, T):
    """Named instants (ns after the handler call of a tick whose handler takes d) for a stop():
    start / middle / end of the handler, the sleep, the instant of the next tick (+-1 ns)."""
    nxt = max(d, T)                 # next tick: one period later, or at the handler's return after an overrun
    ph = {"h-start": 0, "h-mid": d // 2, "h-end-1": max(0, d - 1), "h-end": d, "h-end+1": d + 1,
          "tick-1": nxt - 1, "tick": nxt, "tick+1": nxt + 1}
    if d < T - 4:
        ph["sleep"] = d + (T - d) // 2
    return ph


TH_PERIODS = [1, 2, 3, 4, 5, 13, 26, 51, 102]
TH_GAPS = lambda T: [0, 0, 1, T // 3, T, 5 * T + 7]


def th_start_frame(rng, period):
    r = rng.random()
    if r < 0.35:
        return HYPER - rng.randint(1, 4)                       # 2715644..2715647: the wrap is inside the run
    if r < 0.5:
        return 0
    if r < 0.8:
        return max(0, min(HYPER - 1, rng.randrange(HYPER // period) * period - rng.randint(0, 3)))
    return rng.randrange(HYPER)


def th_epoch_ops(rng, T, durs, stop_when, first, gap=0, dflt=1000, relink=None, double_stop=False):
    """start ... stop of one epoch.  stop_when: dict(tick=k, off=ns) or dict(dt=ns)."""
    period = rng.choice(TH_PERIODS[:4]) if rng.random() < 0.7 else rng.choice(TH_PERIODS)
    when = dict(at=first) if first is not None else dict(dt=gap)
    ops = [dict(op="start", fn=th_start_frame(rng, period), period=period, links=gen_links(rng),
                durs=list(durs), dflt=dflt, **when)]
    if relink is not None:
        ops.append(dict(op="links", links=gen_links(rng), **relink))
    ops.append(dict(op="stop", **stop_when))
    if double_stop:
        ops.append(dict(op="stop", dt=rng.choice([0, 7, T])))
    return ops


def th_finish(script, T):
    """Tail long enough for a worker that outlives stop() to show itself (longest handler + 3 periods) and a
    cap on virtual time of about twice what the script needs (a runaway generator is cut there)."""
    longest = max([T] + [d for op in script["ops"] for d in op.get("durs", [])] + [op.get("dflt", 0) for op in script["ops"]])
    need = script.get("t0", 0)
    for op in script["ops"]:
        need += op.get("at", 0) + op.get("dt", 0) + op.get("off", 0) + sum(max(d, T) for d in op.get("durs", [])) + 2 * T
    # (a handler of more than a second has returned by the time stop() returns, or shortly after a stop()
    # that gave up on it: 30 periods cover that without doubling the run beyond what 32-bit ns can hold)
    script["tail"] = min(longest, 30 * T) + 3 * T
    script["limit"] = min(BUDGET, 2 * (need + script["tail"]) + 40 * T)
    return script


def th_systematic(rng, T):
    """Every (duration of the handler that stop() meets) x (phase) x (tie order), followed by a restart
    after a varying gap and a second stop at another phase."""
    D = th_durations(T)
    out = []
    n = 0
    for dname, d in D.items():
        for pname, off in th_phases(d, T).items():
            for tie in ("ctl-first", "ctl-last"):
                if tie == "ctl-last" and pname not in ("h-start", "h-end", "tick"):
                    continue                   # the tie order matters only where two threads are due together
                pre = [rng.choice(list(D.values())[:5]) for _ in range(rng.randint(0, 3))]
                ops = th_epoch_ops(rng, T, pre + [d], dict(tick=len(pre) + 1, off=off),
                                   first=rng.choice([0, 1, 999, rng.randrange(10 ** 7)]))
                d2name = rng.choice(list(D)[:8])
                d2 = D[d2name]
                pre2 = [rng.choice([1000, T // 2, T - 1, T + 1]) for _ in range(rng.randint(1, 4))]
                p2 = rng.choice(sorted(th_phases(d2, T).items()))
                gap = TH_GAPS(T)[n % len(TH_GAPS(T))]
                ops += th_epoch_ops(rng, T, pre2 + [d2], dict(tick=len(pre2) + 1, off=p2[1]), first=None, gap=gap,
                                    double_stop=(n % 7 == 3))
                out.append(th_finish(dict(id="t%d-%s-%s-%s" % (n, dname, pname, tie[4:]), t0=rng.choice([0, 5, 123456789]),
                                          tie=tie, ops=ops, kind=[dname, pname, tie, gap]), T))
                n += 1
    return out


def th_random(rng, sid, T):
    D = th_durations(T)
    names = list(D)
    ops = []
    kind = []
    for e in range(rng.choice([1, 2, 2, 3, 3])):
        n = rng.choice([0, 1, 1, 2, 3, 4, 6, 9])
        style = rng.choice(["short", "near", "mixed", "over", "long-last"])
        durs = []
        for i in range(n):
            if style == "short":
                durs.append(rng.choice([0, 1, 1000, rng.randrange(T // 2)]))
            elif style == "near":
                durs.append(rng.choice([T - 2, T - 1, T, T + 1, T + 2, T // 2]))
            elif style == "mixed":
                durs.append(D[rng.choice(names[:7])])        # up to 3 periods
            elif style == "over":
                durs.append(rng.randrange(T + 1, 4 * T))
            else:
                durs.append(rng.randrange(T))
        if n and style == "long-last":
            durs[-1] = rng.choice([D["x2_5"], D["x3"], D["x10"], D["x25"], rng.randrange(2 * T + 1, 12 * T)])
        relink = None
        if n == 0:
            when = dict(dt=rng.choice([0, 1, T // 2, T - 1, T, T + 1]))           # stop() before / at the first tick
        else:
            d = durs[-1]
            offs = sorted(set(th_phases(d, T).values()))
            off = rng.choice(offs) if rng.random() < 0.6 else rng.randrange(0, max(d, T) + T)
            when = dict(tick=n, off=off)
            if rng.random() < 0.3:
                k = rng.randint(1, n)
                relink = dict(tick=k, off=rng.randrange(0, off + 1) if k == n else rng.randrange(0, T))
        gap = rng.choice(TH_GAPS(T) + [rng.randrange(3 * T)])
        ops += th_epoch_ops(rng, T, durs, when, first=(rng.choice([0, 3, rng.randrange(10 ** 8)]) if e == 0 else None),
                            gap=gap, dflt=rng.choice([0, 1000, T // 2, T - 1]), relink=relink,
                            double_stop=rng.random() < 0.12)
        kind.append([style, n])
    return th_finish(dict(id=sid, t0=rng.choice([0, 1, 7, rng.randrange(10 ** 8)]), tie=rng.choice(["ctl-first", "ctl-last"]),
                          ops=ops, kind=kind), T)


def th_plan(script, T):
    """What a SCRIPT aims at (the vacuity guard judges the scripts, not the code's reaction to them)."""
    c = dict(ticks=0, restarts=0, stop_in_sleep=0, stop_in_handler=0, stop_gt2=0, stop_gt10=0, stop_gt20=0,
             stop_at_tick_instant=0, stop_at_handler_return=0, stop_when_stopped=0, stop_before_first_tick=0,
             stop_then_start_same_instant=0, relinks=0, wraps=0, ind_frames=0)
    durs = []
    prev = None
    nstart = 0
    for op in script["ops"]:
        if op["op"] == "start":
            nstart += 1
            durs = op.get("durs", [])
            c["ticks"] += len(durs)
            c["wraps"] += 1 if op["fn"] + len(durs) >= HYPER else 0
            first = -(-op["fn"] // op["period"]) * op["period"]
            c["ind_frames"] += 1 if (op["links"] and first < op["fn"] + len(durs)) else 0
            if prev == "stop" and op.get("dt") == 0:
                c["stop_then_start_same_instant"] += 1
        elif op["op"] == "links":
            c["relinks"] += 1
        elif op["op"] == "stop":
            if prev == "stop":
                c["stop_when_stopped"] += 1
            elif "tick" not in op:
                c["stop_before_first_tick"] += 1
            else:
                d = durs[op["tick"] - 1]
                off = op.get("off", 0)
                if off < d:
                    c["stop_in_handler"] += 1
                    c["stop_gt2"] += 1 if d - off > 2 * T else 0
                    c["stop_gt10"] += 1 if d - off > 10 * T else 0
                    c["stop_gt20"] += 1 if d - off > 20 * T else 0
                elif off == d:
                    c["stop_at_handler_return"] += 1
                elif off < max(d, T):
                    c["stop_in_sleep"] += 1
                if off in (0, max(d, T)):
                    c["stop_at_tick_instant"] += 1
        prev = op["op"]
    c["restarts"] = max(0, nstart - 1)
    return c


def th_observe(tr, T):
    """What a log exercises (for the vacuity guard and the evidence): where the stop() calls fell."""
    c = dict(ticks=0, inds=0, stop_calls=0, stop_in_sleep=0, stop_in_handler=0, stop_gt2=0, stop_gt10=0,
             stop_at_tick_instant=0, stop_at_handler_return=0, stop_when_stopped=0, restarts=0, wraps=0,
             stop_then_start_same_instant=0, relinks=0, ticks_during_stop=0, workers=tr["cfg"].get("workers", 0))
    stopping = None     # instant of the stop() in progress
    until = {}          # worker -> end of its running handler
    alive = set()
    nstart = 0
    last_tick_t = None
    last_ret = None
    ev = tr["ev"]
    for i, e in enumerate(ev):
        k = e["e"]
        if k == "tick":
            c["ticks"] += 1
            if stopping is not None and e["t"] > stopping:
                c["ticks_during_stop"] += 1
            until[e["worker"]] = e["t"] + e["dur"]
            alive.add(e["worker"])
            last_tick_t = e["t"]
            if e["fn"] == HYPER - 1:
                c["wraps"] += 1
        elif k == "ind":
            c["inds"] += 1
        elif k == "hret":
            until.pop(e["worker"], None)
            if i + 1 < len(ev) and ev[i + 1]["e"] == "stop-call" and ev[i + 1]["t"] == e["t"]:
                c["stop_at_handler_return"] += 1
        elif k == "worker-exit":
            alive.discard(e["worker"])
        elif k == "start-call":
            nstart += 1
            alive.add(nstart)
            if nstart > 1:
                c["restarts"] += 1
            if last_ret == e["t"]:
                c["stop_then_start_same_instant"] += 1
        elif k == "links":
            c["relinks"] += 1
        elif k == "stop-return":
            last_ret = e["t"]
            stopping = None
        elif k == "stop-call":
            c["stop_calls"] += 1
            stopping = e["t"]
            if not alive:
                c["stop_when_stopped"] += 1
            elif until:
                rem = max(u - e["t"] for u in until.values())
                c["stop_in_handler"] += 1
                if rem > 2 * T:
                    c["stop_gt2"] += 1
                if rem > 10 * T:
                    c["stop_gt10"] += 1
                if last_tick_t == e["t"]:
                    c["stop_at_tick_instant"] += 1
            else:
                c["stop_in_sleep"] += 1
                if last_tick_t is not None and (e["t"] - last_tick_t) == T:
                    c["stop_at_tick_instant"] += 1
    return c


def th_classify(tr, v, T):
    """Stable signature of a rejected log: clause tag + a discriminator read off the events."""
    tag = (v["tag"] or "no-action-enabled").replace("C09.", "")
    ev = tr["ev"]
    i = v["reached"]
    bad = ev[i] if i < len(ev) else {}
    disc = bad.get("e", "")
    w = bad.get("worker")
    if tag in ("threads.tick-while-stopped", "threads.single-worker") and w is not None:
        # where was this worker when the stop() that should have ended it was called?
        starts = [k for k, e in enumerate(ev[:i]) if e["e"] == "start-call"]
        where = "never-asked"
        if 1 <= w <= len(starts):
            busy = False
            for e in ev[starts[w - 1]:i]:
                if e.get("worker") == w and e["e"] == "tick":
                    busy = True
                elif e.get("worker") == w and e["e"] == "hret":
                    busy = False
                elif e["e"] == "stop-call":
                    where = "in-handler" if busy else "asleep"
                    break
        disc = "worker-met-stop-%s" % where
    elif tag == "threads.tick-time":
        if bad.get("e") in ("tick", "ind"):
            prev = [e for e in ev[:i] if e["e"] == "tick"]
            if prev and bad["t"] < prev[-1]["t"] + T:
                disc = "early"
            else:
                disc = "off-schedule"
        else:
            disc = "tick-missing-before-%s" % bad.get("e", "")
    elif tag in ("threads.restart-sequence", "threads.consecutive"):
        first = True
        for e in reversed(ev[:i]):
            if e["e"] == "tick":
                first = False
            if e["e"] == "start-call":
                break
        disc = "first-frame" if first else "step"
    elif tag == "period":
        disc = "not-4.615ms"
    return "C09/%s/%s" % (tag, disc)


def th_selftest(tr):
    """Corrupted copies of an accepted log and the tag each must be rejected with."""
    ev = tr["ev"]
    idx = {k: [i for i, e in enumerate(ev) if e["e"] == k] for k in
           ("tick", "stop-call", "stop-return", "start-call", "hret", "worker-exit", "ind")}
    if len(idx["start-call"]) < 2 or len(idx["stop-return"]) < 2:
        return None
    s2 = idx["start-call"][1]
    t1 = [i for i in idx["tick"] if i < s2]
    t2 = [i for i in idx["tick"] if i > s2]
    sc = idx["stop-call"][0]
    sr = idx["stop-return"][0]
    if len(t1) < 3 or len(t2) < 2 or not (t1[-1] < sc < sr < s2) or ev[sc]["t"] >= ev[sr]["t"]:
        return None
    if [e["e"] for e in ev[sc:sr + 1]] != ["stop-call", "hret", "worker-exit", "stop-return"] or idx["stop-call"][1] < s2:
        return None
    if ev[s2]["t"] - ev[sr]["t"] < 100 or not any(t2[0] < i for i in idx["ind"]):
        return None
    out = {}

    def variant(name, expect, f):
        e2 = copy.deepcopy(ev)
        f(e2)
        out["th-selftest-" + name] = (expect, dict(id="th-selftest-" + name, cfg=dict(tr["cfg"]), ev=e2))

    variant("tick-time", "C09.threads.tick-time", lambda e: e[t1[1]].__setitem__("t", e[t1[1]]["t"] + 1))
    variant("stop-return-dropped", "C09.threads.rig.start-when-stopped", lambda e: e.pop(sr))
    variant("restart-first-frame", "C09.threads.restart-sequence",
            lambda e: e[t2[0]].__setitem__("fn", (e[t2[0]]["fn"] + 1) % HYPER))
    variant("tick-dropped", "C09.threads.tick-time", lambda e: [e.pop(t1[1] + 1), e.pop(t1[1])])

    def zombie_while_stopped(e):
        # stop() returns two periods after the call although the handler is still running; the old
        # worker carries on when its handler returns
        h = e[sc + 1]
        call = e[sc]["t"]
        fn = e[t1[-1]]["fn"]
        w = e[t1[-1]]["worker"]
        e[sc + 1:sr + 1] = [dict(e="stop-return", t=call + (h["t"] - call) // 2, running=False), h,
                            dict(e="tick", t=h["t"], worker=w, fn=(fn + 1) % HYPER, dur=0)]
    variant("zombie-while-stopped", "C09.threads.tick-while-stopped", zombie_while_stopped)

    def zombie_after_restart(e):
        # ... and the restart arrives before the old handler returned: the old worker ticks next to the new one
        h = dict(e[sc + 1])
        call = e[sc]["t"]
        w = e[t1[-1]]["worker"]
        shift = e[s2]["t"] - (call + 1)
        head = e[:sc + 1] + [dict(e="stop-return", t=call + 1, running=False)]
        rest = [dict(x, t=x["t"] - shift) for x in e[s2:]]
        first = next(k for k, x in enumerate(rest) if x["e"] in ("tick", "ind"))
        h["t"] = min(h["t"], rest[first]["t"])
        e[:] = head + rest[:first] + [h, dict(e="tick", t=h["t"], worker=w, fn=rest[0]["fn"], dur=0)] + rest[first:]
    if ev[sc + 1]["t"] - ev[sc]["t"] > 10:
        variant("zombie-after-restart", "C09.threads.single-worker", zombie_after_restart)

    variant("stop-never-returns", "C09.threads.stop-returns",
            lambda e: e.__setitem__(slice(sc + 1, None), [dict(e="end", t=e[sc]["t"])]))
    variant("worker-exit-unasked", "C09.threads.worker-exit",
            lambda e: e.insert(t1[1] + 2, dict(e="worker-exit", t=e[t1[1] + 1]["t"], worker=e[t1[1]]["worker"])))
    return out


def threads_stage(ctx):
    """stop() / start() called by another thread at any instant (two-thread view of C09)."""
    ctx.trusted += ["harness/py/vthreads.py (discrete-event simulator: real threads run one at a time, virtual "
                    "clock, Event / Thread.join(timeout) stand-ins, fake links)"]
    ctx.assumptions += ["two-thread view: Python code between two blocking points (Event.wait, Thread.join, the frame "
                        "handler, time.sleep) takes no virtual time; threads due at the same instant run in a fixed "
                        "order (controller first or last, both are exercised)",
                        "the generator counts as running until stop() RETURNS: a tick of the current worker while stop() is "
                        "in progress is accepted if on schedule (the code fires none; counted as ticks_during_stop)"]
    rp = getattr(ctx, "replaying", None)
    replay_only = None
    if rp and isinstance(rp.get("replay"), dict) and rp["replay"].get("tscript"):
        replay_only = rp["replay"]["tscript"]

    # ---- MC (runs beside the simulation and the trace validation below) -------------
    def model_checking():
        out = []
        cfg = ctx.pick("MC_ClckGenThreadsQ.cfg", "MC_ClckGenThreads.cfg")
        # action coverage (vacuity guard) costs a factor of 2: thorough only
        out.append((cfg, tlc.run("ClckGenThreads.tla", cfg, workers=4, timeout=1500, coverage=ctx.thorough)))
        if ctx.thorough:
            out.append(("hazard", tlc.run("ClckGenThreads.tla", "MC_ClckGenThreadsHazard.cfg", workers=1, timeout=600)))
        return out

    def model_checking_done(jobs):
        for cfg, r in jobs:
            if cfg == "hazard":
                ctx.add_tlc("MC ClckGenThreadsHazard (stop() joining with a timeout: expected to be violated)", r)
                ctx.extra["threads_join_timeout_hazard_found_by_tlc"] = (r.violation or {}).get("name")
                if r.ok:
                    raise tlc.MachineryError("the JoinTimeout hazard model passed: ClckGenThreads is blind to the zombie worker")
                continue
            ctx.add_tlc("MC %s (controller thread vs worker thread, stop() at any instant)" % cfg, r)
            ctx.log("MC", cfg, r.summary())
            if not r.ok:
                ctx.mc_violation(cfg, r, signature="C09/threads.spec/%s" % r.violation["name"])
            elif ctx.thorough:
                need = ["NStart", "NStopCall", "EStopReturn", "NLoop", "NSleepStop", "NTick", "NHandlerEnd", "NRelink"]
                dead = [a for a in need if r.coverage.get(a, (0, 0))[0] == 0]
                if dead:
                    raise tlc.MachineryError("actions never taken in %s: %s" % (cfg, dead))

    from concurrent.futures import ThreadPoolExecutor
    pool = ThreadPoolExecutor(max_workers=1)
    mc = pool.submit(model_checking) if replay_only is None else None
    try:
        th_code_stage(ctx, replay_only)
    finally:
        jobs = mc.result() if mc is not None else []       # a TLC that cannot be run raises MachineryError here
        pool.shutdown()
    model_checking_done(jobs)


def th_code_stage(ctx, replay_only):
    # ---- the code under test on simulated threads -------------------------------
    vt = load_vthreads()
    try:
        mod = vt.load_clck_gen(TOOLKIT)
    except vt.RigError as e:
        raise tlc.MachineryError(str(e))
    try:
        T = vt.calibrate(mod)
    except vt.Stuck as e:
        raise tlc.MachineryError("vthreads: %s" % e)
    except vt.RigError as e:
        ctx.violation("C09/crash/threads-calibration", "start / one tick / stop on simulated threads failed: %s" % e, None)
        T = -1
    Tg = T if 1000 < T < 100 * 1000 * 1000 else NOMINAL_T
    if replay_only is not None:
        scripts = [replay_only]
    else:
        sysd = th_systematic(ctx.rng, Tg)
        if ctx.thorough:                               # the same table again with other preludes / restarts
            for rep in range(1, 6):
                more = th_systematic(ctx.rng, Tg)
                for s in more:
                    s["id"] = "%s-v%d" % (s["id"], rep)
                sysd += more
        scripts = sysd + [th_random(ctx.rng, "q%d" % i, Tg) for i in range(ctx.pick(60, 6000))]
    ctx.log("threads: running %d scripts through the real clck_gen.py on simulated threads (T=%s ns)" % (len(scripts), T))
    byid = {}
    traces = {}
    obs = {}
    for s in scripts:
        ctx.count()
        try:
            tr, crash, anomalies = vt.run_script(mod, s, vt_limit=s.get("limit", vt.VT_LIMIT))
        except vt.Stuck as e:
            raise tlc.MachineryError("vthreads: script %s: %s" % (s["id"], e))
        except vt.RigError as e:
            raise tlc.MachineryError("vthreads: script %s: %s" % (s["id"], e))
        byid[s["id"]] = (s, tr, anomalies)
        if crash:
            kind = crash.split(":")[0].split(" ")[-1]
            ctx.violation("C09/crash/threads-%s" % kind, "script %s: %s" % (s["id"], crash),
                          dict(tscript=s, events=tr["ev"][-20:]))
            continue
        if any(isinstance(x, int) and not isinstance(x, bool) and not (-2 ** 31 < x < 2 ** 31)
               for e in tr["ev"] for x in e.values()):
            raise tlc.MachineryError("threads script %s produced a value outside 32 bit" % s["id"])
        traces.setdefault(tr["cfg"]["T"], []).append(tr)
        o = th_observe(tr, Tg)
        for k, n in o.items():
            obs[k] = obs.get(k, 0) + n
        if o["ticks"]:
            ctx.distinct(json.dumps(["threads", s.get("kind"), s["tie"], [[op["op"], op.get("tick"), op.get("off"), op.get("dt")]
                                                                            for op in s["ops"]]]))
    ctx.extra["threads_observed"] = obs
    plan = {}
    for s in scripts:
        for k, n in th_plan(s, Tg).items():
            plan[k] = plan.get(k, 0) + n
    ctx.extra["threads_planned"] = plan
    if replay_only is None and min(plan.values()) == 0:
        raise tlc.MachineryError("threads scripts exercise too little: %s" % plan)
    if len(traces) > 3:
        ctx.violation("C09/period/varies", "threads: first intervals differ between runs: %s ..." % sorted(traces)[:8],
                      dict(intervals=sorted(traces)[:50]))
        for Tk in sorted(traces, key=lambda k: -len(traces[k]))[3:]:
            del traces[Tk]

    # ---- binding self-test -----------------------------------------------------------
    selftest = {}
    if replay_only is None:
        for Tk in sorted(traces, key=lambda k: -len(traces[k])):
            for tr in traces[Tk]:
                if byid[tr["id"]][2]:
                    continue
                st = th_selftest(tr)
                if st:
                    for name, (expect, t2) in st.items():
                        selftest[name] = [expect, None]
                        traces[Tk].append(t2)
                    selftest["th-selftest-original"] = ["", None]
                    traces[Tk].append(dict(id="th-selftest-original", cfg=dict(tr["cfg"]), ev=copy.deepcopy(tr["ev"])))
                    break
            if selftest:
                break
        # (none suitable: judged after the validation - a generator that misbehaves may leave none)

    # ---- TV ------------------------------------------------------------------------------
    ntr = 0
    for Tk in sorted(traces):
        group = traces[Tk]
        res, stats = tlc.validate_traces("ClckGenThreadsTrace.tla", "ClckGenThreadsTrace.cfg", group, scratch=ctx.scratch,
                                         chunk="balance", parallel=ctx.pick(3, 4), timeout=3000)
        real = len([t for t in group if t["id"] not in selftest])
        ctx.add_tv("TV ClckGenThreadsTrace T=%d" % Tk, stats, real)
        ntr += real
        for v in res:
            if v["id"] in selftest:
                selftest[v["id"]][1] = v
                continue
            s, tr, anomalies = byid[v["id"]]
            if v["reached"] == v["n"]:
                for a in anomalies:
                    ctx.violation("C09/threads.rig/%s" % a.split(":")[0], "script %s: %s" % (s["id"], a), dict(tscript=s))
                continue
            sig = th_classify(tr, v, Tk)
            lo = max(0, v["reached"] - 8)
            ctx.violation(sig, "threads log %s rejected at event %d/%d (%s): %s%s" %
                          (v["id"], v["reached"] + 1, v["n"], v["tag"], json.dumps(tr["ev"][v["reached"]:v["reached"] + 1]),
                           (" [rig: %s]" % ",".join(anomalies)) if anomalies else ""),
                          dict(tscript=s, T=tr["cfg"]["T"], events_before=tr["ev"][lo:v["reached"]],
                               rejected=tr["ev"][v["reached"]:v["reached"] + 2], verdict=v))
    if replay_only is None and not selftest and not ctx.violations:
        raise tlc.MachineryError("threads: no log suitable for the binding self-test")
    wrong = {k: (e, v and v["tag"]) for k, (e, v) in selftest.items()
             if v is None or (e == "" and v["reached"] != v["n"]) or (e != "" and (v["reached"] == v["n"] or v["tag"] != e))}
    if wrong and not ctx.violations:
        raise tlc.MachineryError("threads trace spec judged corrupted logs wrongly (expected, got): %s" % wrong)
    ctx.extra["threads_binding_selftest"] = {k: (v[1] or {}).get("tag") for k, v in selftest.items()}
    ctx.extra["threads_scripts"] = len(scripts)
    ctx.extra["threads_frame_interval_ns_of_code"] = T
    for Tk in sorted(traces):
        for t in traces[Tk][:1]:
            ctx.sample(dict(id=t["id"], cfg=t["cfg"], events=t["ev"][:16]), limit=6)
    ctx.log("threads TV: %d logs, %s" % (ntr, obs))
    ctx.rule += ("; two-thread view: scripts of 1-3 start()/stop() epochs executed by the real CLCKGen on simulated "
                 "threads, stop() placed in the sleep, at a tick instant (both orders), at the start / middle / end of "
                 "handlers lasting from 1 us to 10.5 frame periods, restarts after 0 ns .. 5 periods; distinct by "
                 "(duration name, phase, tie order, op list)")
