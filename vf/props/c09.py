"""C09 - clock source: consecutive frame numbers, one per frame, no accumulated drift.

MC : spec/ClckGen.tla (one action per phase of CLCKGen's loop) - TLC, exhaustive
     over handler-duration patterns {0, T/2, T-1, T, T+1, 3T}, start frames
     {0, H-1} (H = 3: the wrap), periods {1,2,3}, link sets, stop()/start()
     at any wait after any part of it.
TV : the real clck_gen.py (start/stop/_worker/send_clck_ind unmodified) runs on a
     virtual monotonic clock (harness/py/vclock.py); its events
     start/ind/tick/links/overrun/stop are validated against ClckGenTrace.tla,
     where the time of every tick is computed by the specification.
GEN: behaviours simulated by TLC from ClckGen (SIM_ClckGen.cfg) are replayed into
     the real code and judged by the same trace spec.
"""
import copy
import importlib.util
import json
import os

from .. import tlc, tlaval
from ..core import ROOT, TOOLKIT

ID = "C09"
LEVEL = "model_checking"
HYPER = 2715648
NOMINAL_T = 4615000
PREFIX = [73, 78, 68, 32, 67, 76, 79, 67, 75, 32]       # "IND CLOCK "
BUDGET = 1700 * 1000 * 1000                              # virtual ns per run (TLC ints are 32 bit)


def load_vclock():
    path = os.path.join(ROOT, "harness", "py", "vclock.py")
    spec = importlib.util.spec_from_file_location("vf_vclock", path)
    mod = importlib.util.module_from_spec(spec)
    spec.loader.exec_module(mod)
    return mod


# ------------------------------------------------------------ script generator
STYLES = ["below", "zero", "near", "mixed", "bursts", "huge", "heavy", "allover", "mixed", "near", "bursts"]


def gen_durs(rng, n, T, style, budget):
    """n handler durations of one style; stops early when the time budget of the
    run is used up.  Returns (durations, time consumed)."""
    out = []
    used = 0
    burst = 0
    for _ in range(n):
        if style == "below":
            d = rng.choice([0, T - 1, rng.randrange(T), rng.randrange(T), rng.randrange(1000)])
        elif style == "zero":
            d = 0
        elif style == "near":
            d = rng.choice([T - 2, T - 1, T, T + 1, T + 2, 0, 1, T // 2])
        elif style == "mixed":
            r = rng.random()
            d = rng.randrange(T) if r < 0.6 else (T if r < 0.7 else rng.randrange(T + 1, 3 * T + 2))
        elif style == "bursts":
            if burst == 0 and rng.random() < 0.12:
                burst = rng.randint(2, 6)
            if burst:
                burst -= 1
                d = rng.choice([T + 1, 2 * T, rng.randrange(T + 1, 4 * T), T + rng.randrange(1, 2000)])
            else:
                d = rng.randrange(T)
        elif style == "huge":
            d = rng.randrange(50 * 1000 * 1000, 300 * 1000 * 1000) if rng.random() < 0.08 else rng.randrange(T)
        elif style == "heavy":
            d = rng.randrange(T // 2, T)
        else:   # allover
            d = rng.randrange(T + 1, 3 * T)
        cost = max(d, T) + T
        if used + cost > budget:
            break
        used += cost
        out.append(d)
    return out, used


def gen_links(rng):
    ids = [1, 2, 3]
    rng.shuffle(ids)
    return ids[:rng.choice([0, 1, 1, 2, 2, 3])]


def gen_period(rng):
    r = rng.random()
    if r < 0.45:
        return rng.choice([1, 2, 3, 4, 5, 51, 102, 120, 119, 26, 13])
    return rng.randint(1, 120)


def gen_start(rng, period, nticks):
    r = rng.random()
    if r < 0.15:
        return 0
    if r < 0.30:
        return HYPER - 1
    if r < 0.50:
        return HYPER - rng.randint(1, 8)                  # 2715640..2715647
    if r < 0.60:
        return HYPER - rng.randint(1, max(2, nticks))     # wraps somewhere inside the run
    if r < 0.80:
        k = rng.randrange(HYPER // period)
        return max(0, min(HYPER - 1, k * period - rng.randint(0, max(1, nticks // 2))))   # an indication is due soon
    return rng.randrange(HYPER)


def gen_script(rng, sid, T, long_ok=True):
    r = rng.random()
    if r < 0.30:
        total = rng.randint(1, 12)
    elif r < 0.72:
        total = rng.randint(10, 60)
    elif r < 0.92 or not long_ok:
        total = rng.randint(60, 160)
    else:
        total = rng.randint(200, 400)
    nep = rng.choice([1, 1, 1, 2, 2, 3])
    budget = BUDGET
    epochs = []
    period = gen_period(rng)
    links = gen_links(rng)
    fn = gen_start(rng, period, total)
    left = total
    for e in range(nep):
        n = left if e == nep - 1 else rng.randint(0, left)
        left -= n
        pause = rng.choice([0, 0, 1, rng.randrange(10 * 1000 * 1000), 100 * 1000 * 1000, T, T - 1])
        pause = min(pause, max(0, budget - 2 * T))
        budget -= pause
        if e > 0 and rng.random() < 0.5:
            period = gen_period(rng)
            links = gen_links(rng)
            fn = gen_start(rng, period, n)
        style = rng.choice(STYLES)
        durs, used = gen_durs(rng, n, T, style, budget - 2 * T)
        budget -= used + T
        ep = dict(pause=pause, fn=fn, period=period, links=list(links), durs=durs, style=style,
                  stop=rng.choice([[0, 1], [1, 1], [1, 2], [1, 3], [999, 1000], [1, 1000000]]), relink={})
        if durs and rng.random() < 0.2:
            for _ in range(rng.randint(1, 2)):
                ep["relink"][str(rng.randrange(len(durs)))] = gen_links(rng)
        epochs.append(ep)
        if budget < 4 * T:
            break
    return dict(id=sid, t0=rng.choice([0, 1, 12345678, rng.randrange(100 * 1000 * 1000)]), epochs=epochs)


def conc(d, T):
    """Abstract time of the simulated model (FrameT = 4) -> ns."""
    q, r = divmod(d, 4)
    return q * T + (0, 1 if q >= 1 else T // 4, T // 2, T - 1)[r]


def script_from_sim(states, sid, T):
    ops = states[-1].get("ops", [])
    epochs = []
    for o in ops:
        if o[0] == "start":
            epochs.append(dict(pause=conc(o[1], T), fn=o[2], period=o[3], links=list(o[4]), durs=[],
                               stop=[1, 1], relink={}, style="sim"))
        elif o[0] == "tick":
            epochs[-1]["durs"].append(conc(o[1], T))
        elif o[0] == "links":
            epochs[-1]["relink"][str(len(epochs[-1]["durs"]) - 1)] = list(o[1])
        elif o[0] == "stop":
            epochs[-1]["stop"] = [o[1], o[2]] if o[2] > 0 else [0, 1]
    if not epochs:
        return None
    return dict(id=sid, t0=0, epochs=epochs)


# ------------------------------------------------------------ classification
def classify(tr, verdict):
    """Stable signature of a rejected trace: clause tag + discriminator taken
    from the failing event and the events before it."""
    tag = (verdict["tag"] or "no-action-enabled").replace("C09.", "")
    ev = tr["ev"]
    T = tr["cfg"]["T"]
    i = verdict["reached"]
    bad = ev[i] if i < len(ev) else {}
    prev_tick = None
    prev_start = None
    for e in reversed(ev[:i]):
        if e["e"] == "start":
            prev_start = e
            break
        if e["e"] == "tick" and prev_tick is None:
            prev_tick = e
    disc = ""
    if tag in ("no-drift", "resync-immediate") and bad.get("e") == "stop":
        disc = "wait-beyond-deadline"
    elif tag == "no-drift" and bad.get("e") in ("tick", "ind"):
        if prev_tick is None:
            disc = "first-tick"
        else:
            exp = prev_tick["vt"] + T
            if prev_tick["dur"] > 0 and bad["vt"] == prev_tick["vt"] + prev_tick["dur"] + T:
                disc = "deadline-from-handler-end"
            elif bad["vt"] < exp:
                disc = "early"
            else:
                disc = "late"
    elif tag == "resync-no-catch-up":
        disc = "catch-up-tick"
    elif tag == "resync-immediate" and prev_tick is not None:
        disc = "late" if bad.get("vt", 0) > prev_tick["vt"] + prev_tick["dur"] else "early"
    elif tag == "consecutive" and bad.get("e") == "tick":
        if prev_tick is not None and prev_tick["fn"] == HYPER - 1:
            disc = "hyperframe-wrap"
        elif prev_tick is not None and bad["fn"] == prev_tick["fn"]:
            disc = "repeated"
        else:
            disc = "step"
    elif tag == "restart-from-start":
        before = [e for e in ev[:i] if e["e"] == "tick"]
        disc = "counter-continues" if before and bad.get("fn") == (before[-1]["fn"] + 1) % HYPER else "other"
    elif tag == "indication.when":
        disc = {"ind": "unexpected-frame", "tick": "missing", "stop": "without-handler-call"}.get(bad.get("e"), "")
    elif tag == "indication.octets":
        raws = []
        for e in reversed(ev[:i]):
            if e["e"] != "ind":
                break
            raws.append(e["raw"])
        if any(not r or r[-1] != 0 for r in raws):
            disc = "nul-missing"
        elif any(r[:len(PREFIX)] != PREFIX for r in raws):
            disc = "prefix"
        else:
            disc = "number"
    elif tag == "period":
        disc = "not-4.615ms"
    elif tag == "no-action-enabled":
        disc = bad.get("e", "")
    return "C09/%s%s" % (tag, "/" + disc if disc else "")


def dur_class(d, T):
    return "b" if d < T else ("e" if d == T else ("h" if d > 10 * T else "a"))


# ------------------------------------------------------------ the check
def run(ctx):
    vclock = load_vclock()
    ctx.trusted += ["harness/py/vclock.py (virtual clock, synchronous Thread / scripted Event stand-ins, fake links)",
                    "CPython float arithmetic for wait(dt * 1e-9): the integer ns are recovered with round() "
                    "(exact for all 0 <= dt < 4.7e6, checked; larger deviations are reported)",
                    "TLC + CommunityModules"]
    ctx.assumptions += ["virtual monotonic clock: time passes only inside the handler, inside Event.wait() and while stopped",
                        "the clock handler is installed; one clock thread (start() asserts that itself)",
                        "frame period accepted iff |T - 4615000 ns| < 500 ns (4.615 ms to the microsecond); "
                        "the code's 4614999 ns is inside",
                        "indications are sent at the tick instant, before the handler consumes time (as the code does)"]
    replay_only = None
    rp = getattr(ctx, "replaying", None)
    if rp and isinstance(rp.get("replay"), dict) and rp["replay"].get("script"):
        replay_only = rp["replay"]["script"]

    # ---- MC ----------------------------------------------------------------
    if replay_only is None:
        for cfg in ctx.pick(["MCQ_ClckGen.cfg"], ["MC_ClckGen.cfg", "MCD_ClckGen.cfg"]):
            cov = cfg == "MC_ClckGen.cfg"
            r = tlc.run("ClckGen.tla", cfg, workers=8, timeout=1500, coverage=cov)
            ctx.add_tlc("MC %s" % cfg, r)
            ctx.log("MC", cfg, r.summary())
            if not r.ok:
                ctx.mc_violation(cfg, r)
            elif cov:
                # vacuity guard: every action of the closed model was taken
                dead = [a for a in ("EStart", "ELoop", "EWait", "EStopAny", "ETick", "ERelink")
                        if r.coverage.get(a, (0, 0))[0] == 0]
                if dead:
                    raise tlc.MachineryError("actions never taken in %s: %s" % (cfg, dead))

    # ---- the code under test -------------------------------------------------
    try:
        mod = vclock.load_clck_gen(TOOLKIT)
    except vclock.RigError as e:
        raise tlc.MachineryError(str(e))
    try:
        T = vclock.calibrate(mod)
    except vclock.RigError as e:
        ctx.violation("C09/crash/calibration", "the generator cannot complete start / one tick / stop: %s" % e, None)
        T = -1
    ctx.extra["frame_interval_ns_of_code"] = T
    Tg = T if 1000 < T < 100 * 1000 * 1000 else NOMINAL_T       # durations are generated relative to this

    scripts = []
    if replay_only is not None:
        scripts.append(replay_only)
    else:
        n_rand = ctx.pick(260, 8800)
        for i in range(n_rand):
            scripts.append(gen_script(ctx.rng, "r%d" % i, Tg, long_ok=(ctx.thorough or i % 10 == 0)))
        # ---- GEN: behaviours of the specification -----------------------------
        nsim = ctx.pick(60, 1500)
        simdir = os.path.join(ctx.scratch, "sim")
        os.makedirs(simdir)
        r = tlc.run("ClckGen.tla", "SIM_ClckGen.cfg", workers=1, simulate="file=%s/tr,num=%d" % (simdir, nsim),
                    depth=150, seed=ctx.seed % 100000, timeout=900, scratch=ctx.scratch)
        ctx.add_tlc("SIM ClckGen num=%d depth=150" % nsim, r)
        if not r.ok:
            ctx.mc_violation("SIM_ClckGen", r)
        k = 0
        for fname in sorted(os.listdir(simdir)):
            try:
                st = tlaval.parse_sim_file(os.path.join(simdir, fname))
            except Exception as e:
                raise tlc.MachineryError("cannot parse simulation file %s: %s" % (fname, e))
            s = script_from_sim(st, "g%d" % k, Tg) if st else None
            if s is not None:
                scripts.append(s)
                k += 1
        if k < nsim // 2:
            raise tlc.MachineryError("only %d of %d simulated behaviours could be turned into scripts" % (k, nsim))
        ctx.extra["spec_behaviours_replayed"] = k

    # ---- run the real code on virtual time -------------------------------------
    ctx.log("running %d scripts through the real clck_gen.py (T=%s ns)" % (len(scripts), T))
    traces = {}
    byid = {}
    nticks = ninds = nover = nwrap = nrestart = 0
    for s in scripts:
        ctx.count()
        tr, crash, anomalies = vclock.run_script(mod, s)
        byid[s["id"]] = (s, tr)
        if crash:
            ctx.violation("C09/crash/%s" % crash.split(":")[0], "script %s: the generator raised %s" % (s["id"], crash),
                          dict(script=s, events=tr["ev"][-20:]))
            continue
        for a in anomalies:
            ctx.violation("C09/virtual-time/%s" % a.split(":")[0], "script %s: %s" % (s["id"], a), dict(script=s))
        if any(isinstance(v, int) and not (-2 ** 31 < v < 2 ** 31) for e in tr["ev"] for v in e.values()):
            raise tlc.MachineryError("script %s produced a value outside 32 bit" % s["id"])
        traces.setdefault(tr["cfg"]["T"], []).append(tr)
        ticks = [e for e in tr["ev"] if e["e"] == "tick"]
        nticks += len(ticks)
        ninds += sum(1 for e in tr["ev"] if e["e"] == "ind")
        nover += sum(1 for e in tr["ev"] if e["e"] == "overrun")
        nwrap += sum(1 for e in ticks if e["fn"] == HYPER - 1)
        nrestart += max(0, sum(1 for e in tr["ev"] if e["e"] == "start") - 1)
        if ticks:
            key = [[ep["fn"], ep["period"], ep["links"], "".join(dur_class(d, Tg) for d in ep["durs"]), ep["stop"],
                    sorted(ep.get("relink", {}))] for ep in s["epochs"]]
            ctx.distinct(json.dumps(key))
    ctx.extra.update(ticks_validated=nticks, indications_observed=ninds, overruns_observed=nover,
                     hyperframe_wraps_observed=nwrap, restarts_observed=nrestart)
    # vacuity guard: the SCRIPTS (not the code's reaction to them) must exercise every clause
    plan = dict(ticks=0, overruns=0, wraps=0, ind_frames=0, restarts=0)
    for s in scripts:
        plan["restarts"] += len(s["epochs"]) - 1
        for ep in s["epochs"]:
            n = len(ep["durs"])
            plan["ticks"] += n
            plan["overruns"] += sum(1 for d in ep["durs"][:-1] if d > Tg)
            plan["wraps"] += 1 if ep["fn"] + n > HYPER else 0
            first = -(-ep["fn"] // ep["period"]) * ep["period"]
            plan["ind_frames"] += 1 if (ep["links"] and first < ep["fn"] + n) else 0
    ctx.extra["planned"] = plan
    if replay_only is None and min(plan.values()) == 0:
        raise tlc.MachineryError("scripts exercise too little: %s" % plan)

    if len(traces) > 6:
        # the frame interval is a constant of the code; a generator whose interval varies from run
        # to run is rejected outright (and only the most frequent intervals are validated)
        ctx.violation("C09/period/varies", "first intervals differ between runs: %s ..." % sorted(traces)[:8],
                      dict(intervals=sorted(traces)[:50]))
        for Tk in sorted(traces, key=lambda k: -len(traces[k]))[6:]:
            del traces[Tk]

    # ---- binding self-test: corrupted copies of an accepted trace must be rejected ----
    selftest = {}
    if replay_only is None:
        for Tk in sorted(traces, key=lambda k: -len(traces[k])):
            for tr in traces[Tk]:
                head = tr["ev"][:60]
                tk = [i for i, e in enumerate(head) if e["e"] == "tick"]
                ind = [i for i, e in enumerate(head) if e["e"] == "ind"]
                if len(tk) >= 4 and ind and not any(e["e"] in ("stop", "links") for e in head[:tk[3]]):
                    def variant(name, f):
                        ev = copy.deepcopy(head)
                        f(ev)
                        selftest["selftest-" + name] = None
                        traces[Tk].append(dict(id="selftest-" + name, cfg=dict(tr["cfg"]), ev=ev))
                    variant("tick-time", lambda ev: ev[tk[2]].__setitem__("vt", ev[tk[2]]["vt"] + 1))
                    variant("tick-fn", lambda ev: ev[tk[2]].__setitem__("fn", (ev[tk[2]]["fn"] + 2) % HYPER))
                    variant("tick-dropped", lambda ev: ev.pop(tk[1]))
                    variant("ind-nul", lambda ev: ev[ind[0]]["raw"].pop())
                    variant("ind-digit", lambda ev: ev[ind[0]]["raw"].__setitem__(len(PREFIX), 48 + (ev[ind[0]]["raw"][len(PREFIX)] - 47) % 10))
                    variant("ind-duplicated", lambda ev: ev.insert(ind[0], copy.deepcopy(ev[ind[0]])))
                    break
            if selftest:
                break
        if not selftest and not ctx.violations:
            raise tlc.MachineryError("no trace suitable for the binding self-test")

    # ---- TV: one batch family per frame interval ---------------------------------
    ntr = 0
    for Tk in sorted(traces):
        group = traces[Tk]
        res, stats = tlc.validate_traces("ClckGenTrace.tla", "ClckGenTrace.cfg", group, scratch=ctx.scratch,
                                         chunk="balance", parallel=ctx.pick(4, 6), timeout=3000)
        real = len([t for t in group if t["id"] not in selftest])
        ctx.add_tv("TV ClckGenTrace T=%d" % Tk, stats, real)
        ntr += real
        for v in res:
            if v["id"] in selftest:
                selftest[v["id"]] = v
                continue
            if v["reached"] == v["n"]:
                continue
            s, tr = byid[v["id"]]
            sig = classify(tr, v)
            lo = max(0, v["reached"] - 8)
            ctx.violation(sig, "trace %s rejected at event %d/%d (%s): %s" %
                          (v["id"], v["reached"] + 1, v["n"], v["tag"], json.dumps(tr["ev"][v["reached"]:v["reached"] + 1])),
                          dict(script=s, T=tr["cfg"]["T"], events_before=tr["ev"][lo:v["reached"]],
                               rejected=tr["ev"][v["reached"]:v["reached"] + 2], verdict=v))
    blind = [k for k, v in selftest.items() if v is None or v["reached"] == v["n"]]
    if blind:
        raise tlc.MachineryError("trace spec accepted corrupted traces: %s" % blind)
    ctx.extra["binding_selftest"] = {k: v["tag"] for k, v in selftest.items()}
    for Tk in sorted(traces):
        for t in traces[Tk][:2]:
            ctx.sample(dict(id=t["id"], cfg=t["cfg"], events=t["ev"][:14]))
    ctx.log("TV: %d traces, %d ticks, %d indications, %d overruns, %d wraps, %d restarts"
            % (ntr, nticks, ninds, nover, nwrap, nrestart))
    ctx.rule = ("scripts (start frame, indication period, link list, handler duration per tick below/equal/above one "
                "frame period incl. bursts and huge overruns, stop point and part of the wait elapsed, pauses, "
                "re-linking, up to 3 start()/stop() epochs) from a seeded generator and from TLC simulation of "
                "ClckGen, executed by the real CLCKGen on virtual time; non-trivial = at least one handler call; "
                "distinct by (start, period, links, duration-class string, stop point) per epoch")
    ctx.evaluations = len(scripts)
