"""C10 - see DESIGN.md section 3; sessions of the real fake_trx.Application with
burst traffic validated against spec/FakeTrxTrace.tla, plus FakeTrxMC."""
from .. import tlc
from . import faketrx_common as FC

ID = "C10"
# state components that decide the delivered values: a wrong effect of a command on them is C10's too
OWN_EFFECTS = tuple("C05.effect." + f for f in ("ver", "ta", "att", "nompwr", "frssi", "toa", "ci"))
LEVEL = "model_checking"


def discr(tr, e, tag):
    d = e["e"]
    if e["e"] == "tick":
        start = tr["cfg"]["start"]
        d = "tick-wrap" if (e["fn"] >= FC.HYPER - 8 or e["fn"] < 8) and start >= FC.HYPER - 8 else "tick"
    return d


def run(ctx):
    r = tlc.run("FakeTrxMC.tla", ctx.pick("MC_FakeTrxFlowQ.cfg", "MC_FakeTrxFlow.cfg"), workers=8, timeout=3000)
    ctx.require_ok("MC FakeTrxMC flow mode (arrivals, ticks across the wrap, POWEROFF/POWERON, SETFORMAT, FAKE_DROP, RFMUTE)", r)
    # beyond the exhaustive depth: random deep behaviours (<= 40 steps) with every invariant checked in every state
    r = tlc.run("FakeTrxMC.tla", "SIMINV_FakeTrx.cfg", workers=4, simulate="num=%d" % ctx.pick(60, 3000), depth=40,
                seed=ctx.seed % 100003, timeout=3000)
    ctx.require_ok("SIM FakeTrxMC flow mode, depth 40, invariants in every state", r)
    traces = [FC.traffic_session(ctx, "s%d" % k, ID) for k in range(ctx.pick(110, 5000))]
    nd = FC.traffic_stats(ctx, traces)
    FC.validate(ctx, traces, (ID + ".",) + ("C13.invalid-message-sent",) + OWN_EFFECTS, "TV FakeTrxTrace (%s traffic sessions on the real Application)" % ID, discr)
    t0 = traces[0]
    ctx.sample(dict(argv=t0["cfg"]["argv"], start=t0["cfg"]["start"],
                    events=[(e["e"], e.get("t"), e.get("fn"), bytes(e.get("raw", []))[:24].decode("latin1")) for e in t0["ev"][:14]]))
    ctx.rule = "bursts from the toolkit's own generator (NB with all 8 TSC, SB 0..3, AB 0..7, FB, dummy), random GMSK and 444-bit bursts, all attenuation octets, SETTA -128..127, SETPOWER, FAKE_TOA/RSSI/CI absolute and relative forms with thresholds, both header versions on both sides; distinct by session"
    ctx.trusted += ["harness/py/faketrx_drv.py (fake sockets, thread stand-in, projection)", "TLC"]
    ctx.assumptions += ["bursts containing more than one training-sequence match are not generated", "randomised RSSI/ToA/C-I are checked for membership in their window"]
