"""C11 - firmware and trxcon agree on the multiframe mapping of every logical channel.

Driver A (harness/c/drv_mframe_fw.c) links the unmodified firmware
layer1/mframe_sched.c, enables one task at a time, calls mframe_schedule() for
every FN of a 51*26*8 cycle and records every tdma_schedule_set() call.
Driver B (harness/c/drv_mframe_trx.c) links the unmodified trxcon
src/sched_mframe.c and dumps l1sched_mframe_layout(cfg, tn) for every enum
value x tn 0..7 (thorough: plus the frame lookup per (cfg, tn, fn) evaluated
in C like sched_trx.c does).  Both dumps are the constants of spec/Mframe.tla;
TLC walks fn through the whole cycle and checks StartsAgree, BidCyclic,
LookupInTable, MaskCovers, LayoutValidForTn in every state.  The space is
finite and enumerated completely.
"""
import copy
import json
import os
import re
import subprocess
from concurrent.futures import ThreadPoolExecutor

from .. import cbuild, tlc, tlaval
from ..core import REPO

ID = "C11"
LEVEL = "model_checking"
FW = os.path.join(REPO, "src/target/firmware")
TRX = os.path.join(REPO, "src/host/trxcon")
CYCLE = 51 * 26 * 8
MIN_LINKS = 70          # (task, lchan/direction) links of the correspondence table in Mframe.tla
MIN_PAIRS = 150


# ------------------------------------------------------------------ build
def build_fw(ctx):
    """The firmware include dir shadows libc headers: only layer1/, defines.h
    and debug.h are made visible through a scratch include dir."""
    inc = os.path.join(ctx.scratch, "fwinc")
    os.makedirs(inc, exist_ok=True)
    for name in ("layer1", "defines.h", "debug.h"):
        dst = os.path.join(inc, name)
        if not os.path.lexists(dst):
            os.symlink(os.path.join(FW, "include", name), dst)
    exe = os.path.join(ctx.scratch, "drv_mframe_fw")
    # -fno-sanitize=shift: mframe_schedule() itself evaluates (1 << 31) on an int for
    # task bit 31; that is outside C11 (reported as an observation, see run()).
    cbuild.cc(exe, [FW + "/layer1/mframe_sched.c", cbuild.HC + "/drv_mframe_fw.c"],
              includes=[inc, REPO + "/include", cbuild.LIBOSMO + "/include"], extra=["-fno-sanitize=shift"])
    return exe


def build_trx(ctx):
    exe = os.path.join(ctx.scratch, "drv_mframe_trx")
    cbuild.cc(exe, [TRX + "/src/sched_mframe.c", cbuild.HC + "/drv_mframe_trx.c"],
              includes=[cbuild.HC + "/shim/trxcon", TRX + "/include", cbuild.LIBOSMO + "/include"])
    return exe


def mem_kind(rc, err):
    m = re.search(r"AddressSanitizer: ([a-zA-Z-]+)", err)
    if m:
        return "asan-" + m.group(1)
    m = re.search(r"runtime error: ([a-z ]+)", err)
    if m:
        return "ubsan-" + "-".join(m.group(1).split()[:4])
    return "crash-rc%s" % rc


def run_dump(ctx, exe, args, side):
    e = dict(os.environ, ASAN_OPTIONS="detect_leaks=0:exitcode=99", UBSAN_OPTIONS="print_stacktrace=1:halt_on_error=1:exitcode=98")
    p = subprocess.run([exe] + args, stdout=subprocess.PIPE, stderr=subprocess.PIPE, text=True, env=e, timeout=600,
                       errors="replace")
    if p.returncode != 0:
        kind = mem_kind(p.returncode, p.stderr)
        loc = ""
        m = re.search(r"is located \d+ bytes? (?:to the right of|after|before|to the left of) global variable '(\w+)'", p.stderr)
        if m:
            loc = "-" + m.group(1)
        ctx.violation("C11/memory/%s/%s%s" % (kind, side, loc),
                      "%s driver killed by the sanitizer (%s) while %s" %
                      (side, kind, "reading frames[0..period-1] of the layouts" if side == "trx" else "running mframe_schedule()"),
                      dict(stderr=p.stderr[-4000:], cmd=[exe] + args))
        return None
    try:
        return json.loads(p.stdout)
    except ValueError as ex:
        raise tlc.MachineryError("%s driver printed no valid JSON: %s\n%s" % (side, ex, p.stdout[:300]))


# ------------------------------------------------------------------ TLC
def extract_prints(out, head):
    """All values printed as << "head", ... >> (TLC pretty-prints over several lines)."""
    vals = []
    pos = 0
    key = re.compile(r'<<\s*"%s"' % re.escape(head))
    while True:
        m = key.search(out, pos)
        if not m:
            break
        a = m.start()
        depth = 0
        k = a
        instr = False
        while k < len(out):
            if instr:
                if out[k] == "\\":
                    k += 1
                elif out[k] == '"':
                    instr = False
            elif out[k] == '"':
                instr = True
            elif out.startswith("<<", k):
                depth += 1
                k += 1
            elif out.startswith(">>", k):
                depth -= 1
                k += 1
                if depth == 0:
                    break
            k += 1
        try:
            vals.append(tlaval.parse(out[a:k + 1]))
        except ValueError as ex:
            raise tlc.MachineryError("cannot parse TLC print %r: %s" % (out[a:a + 200], ex))
        pos = k + 1
    return vals


def signature(clause, item):
    def lay(x):
        return "%s:%02x" % (x[0].replace("GSM_PCHAN_", ""), x[1])
    if clause == "StartsAgree":
        return "%s-%s" % (item[0], item[1])
    if clause == "BidCyclic":
        return "%s-%s-%s" % (lay(item[0]), item[1], item[2].replace("L1SCHED_", ""))
    if clause == "MaskCovers":
        return "%s-%s" % (lay(item[0]), item[1].replace("L1SCHED_", ""))
    if clause == "LookupInTable":
        return "%s" % item[0].replace("GSM_PCHAN_", "")
    if clause == "LayoutValidForTn":
        return "%s-tn%d" % (item[0].replace("GSM_PCHAN_", ""), item[1])
    return str(item)


def run_tlc(ctx, dump, cfg, label, scratch_name):
    """Model-check Mframe on the dump.  TLC stops at the first frame in which a
    clause fails; the diagnostic configuration then lists every offending item
    of every clause over the whole cycle (-> one signature per item)."""
    path = os.path.join(ctx.scratch, scratch_name)
    with open(path, "w") as f:
        json.dump(dump, f, separators=(",", ":"))
    r = tlc.run("Mframe.tla", cfg, workers=1, env=dict(DUMP_FILE=path), timeout=1800, scratch=ctx.scratch, heap="6g")
    info = extract_prints(r.out, "C11-INFO")
    info = dict(zip(info[0][1::2], info[0][2::2])) if info else {}
    bad = {}
    if not r.ok:
        if len(dump["trx"]["walk"]):
            with open(path, "w") as f:      # the C walk is judged per frame by the run above; keep the diagnosis small
                json.dump(dict(fw=dump["fw"], trx=dict(dump["trx"], walk=[])), f, separators=(",", ":"))
        d = tlc.run("Mframe.tla", "MC_MframeDiag.cfg", workers=1, env=dict(DUMP_FILE=path), timeout=1800,
                    scratch=ctx.scratch, heap="6g")
        for v in extract_prints(d.out, "C11-ALL"):
            _, clause, items = v
            for it, count, fns in items:
                bad["C11/%s/%s" % (clause, signature(clause, it))] = dict(clause=clause, item=it, count=count, fns=sorted(fns))
    os.unlink(path)
    return r, bad, info


def report(ctx, r, bad, label):
    for sig, d in sorted(bad.items()):
        ctx.violation(sig, "%s violated for %s in %d frame(s) of the %d-frame cycle, first at fn %s" %
                      (d["clause"], d["item"], d["count"], CYCLE, d["fns"]),
                      dict(clause=d["clause"], item=d["item"], frames=d["count"], first_fns=d["fns"], job=label, cmd=r.cmd))
    if not r.ok and (not bad or not any(d["clause"] == r.violation["name"] for d in bad.values())):
        # e.g. only the C walk disagrees (LookupInTable in thorough)
        sig = "C11/%s/first-at-%s" % (r.violation["name"], first_fn(r))
        r.violation["trace"] = r.violation.get("trace", "")[-3000:]
        ctx.mc_violation(label, r, sig)


def first_fn(r):
    m = re.findall(r"fn = (\d+)", r.violation.get("trace", ""))
    return ("fn%s" % m[-1]) if m else "unknown"


# ------------------------------------------------------------------ self-test on the dumps
def corruptions(dump):
    """Single-entry corruptions of the recorded dumps; each must be flagged."""
    out = []
    d = copy.deepcopy(dump)
    lay = next(l for l in d["trx"]["layouts"] if l["cfg"] == "GSM_PCHAN_SDCCH8_SACCH8C")
    lay["frames"][47][1] = (lay["frames"][47][1] + 1) % 4           # one dl_bid of frame_sdcch8
    out.append(("one dl_bid of the SDCCH/8 layout", d, ("BidCyclic", "StartsAgree")))
    d = copy.deepcopy(dump)
    t = next(t for t in d["fw"]["tasks"] if t["task"] == "MF_TASK_SDCCH4_2")
    t["calls"][3][0] += 1                                           # one scheduling call one frame late
    out.append(("one MF_TASK_SDCCH4_2 call shifted by a frame", d, ("StartsAgree",)))
    d = copy.deepcopy(dump)
    lay = next(l for l in d["trx"]["layouts"] if l["cfg"] == "GSM_PCHAN_CCCH_SDCCH4")
    lay["mask"] = lay["mask"][:-1]                                  # one lchan mask bit
    out.append(("one lchan mask bit of the combined CCCH layout", d, ("MaskCovers",)))
    d = copy.deepcopy(dump)
    lk = next(l for l in d["trx"]["lookups"] if l["cfg"] == "GSM_PCHAN_TCH_F" and l["tn"] == 5)
    lk["lid"] = next(l for l in d["trx"]["lookups"] if l["cfg"] == "GSM_PCHAN_TCH_F" and l["tn"] == 4)["lid"]
    out.append(("TCH/F lookup for tn 5 returns the tn 4 layout", d, ("LayoutValidForTn", "StartsAgree")))
    return out


def run(ctx):
    ctx.trusted += ["drv_mframe_fw.c (own tdma_schedule_set() recording the calls; dummy scheduling sets: only their identity matters)",
                    "drv_mframe_trx.c (dumps layouts; enumerator name tables built from the real enum constants)",
                    "shim headers harness/c/shim/trxcon/osmocom/gsm/{gsm_utils.h (enum gsm_phys_chan_config), gsm0502.h (GSM_NBITS_*)}",
                    "scratch include dir with links to firmware include/layer1, defines.h, debug.h; /repo/include/l1ctl_proto.h",
                    "task <-> lchan correspondence table and the block-start interpretation in spec/Mframe.tla",
                    "TLC + CommunityModules"]
    ctx.assumptions += ["firmware block start = frame of the tdma_schedule_set() call + frame_offset + 1 (DSP latency)",
                        "only channels both stacks implement are compared: not BCCH_EXT, PTCCH, RACH/FCCH/SCH, the neighbour "
                        "measurement tasks, MF_TASK_UL_ALL_NB; PDTCH uplink is not compared (firmware task is receive-only)",
                        "GSM_PCHAN_NONE (period 0, no table) is never configured by trxcon and has no frame lookup",
                        "mframe_sched.c built with -fno-sanitize=shift ((1 << 31) in mframe_schedule's task loop is outside C11)"]
    fw_exe = build_fw(ctx)
    trx_exe = build_trx(ctx)
    fw = run_dump(ctx, fw_exe, [], "fw")
    trx = run_dump(ctx, trx_exe, ["walk"] if ctx.thorough else [], "trx")
    if fw is None or trx is None:
        return
    if fw.get("cycle") != CYCLE or trx.get("cycle") != CYCLE or len(fw["tasks"]) < 20 or len(trx["layouts"]) < 5:
        raise tlc.MachineryError("implausible dumps: fw tasks=%d trx layouts=%d" % (len(fw["tasks"]), len(trx["layouts"])))
    dump = dict(fw=fw, trx=trx)
    ncalls = sum(len(t["calls"]) for t in fw["tasks"])
    nrows = sum(len(l["frames"]) for l in trx["layouts"])
    ctx.log("dumps: %d firmware scheduling calls of %d tasks; %d layouts (%d frame rows), %d lookups, %d C walks"
            % (ncalls, len(fw["tasks"]), len(trx["layouts"]), nrows, len(trx["lookups"]), len(trx["walk"])))
    cfg = ctx.pick("MC_Mframe.cfg", "MC_MframeTn.cfg")
    label = "MC %s (fn 0..%d, both dumps as constants%s)" % (cfg, CYCLE - 1, ", per-timeslot pairs + C walk" if ctx.thorough else "")
    r, bad, info = run_tlc(ctx, dump, cfg, label, "dump.json")
    ctx.add_tlc(label, r)
    ctx.log("TLC", r.summary(), info)
    if r.ok and r.distinct != CYCLE:
        raise tlc.MachineryError("Mframe walked %d states instead of %d" % (r.distinct, CYCLE))
    if info.get("links", 0) < MIN_LINKS or info.get("pairs", 0) < MIN_PAIRS:
        raise tlc.MachineryError("correspondence table is (nearly) vacuous: %s" % info)
    report(ctx, r, bad, label)
    ctx.exhaustive = True
    ctx.evaluations = CYCLE * (info.get("pairs", 0) + len(trx["lookups"]) + 3 * len(trx["layouts"]))
    ctx.nontrivial_n = ncalls + nrows
    # records of the real code judged by TLC: one call record per task, one per lookup, one per C walk
    ctx.traces_validated = len(fw["tasks"]) + len(trx["lookups"]) + len(trx["walk"])
    ctx.extra.update(correspondence_links=info.get("links"), correspondence_pairs=info.get("pairs"),
                     firmware_calls=ncalls, layout_rows=nrows, c_walks=len(trx["walk"]))
    ctx.sample(dict(task=fw["tasks"][4]["task"], first_calls=fw["tasks"][4]["calls"][:4]))
    ctx.sample(dict(layout=trx["layouts"][1]["cfg"], period=trx["layouts"][1]["period"], first_rows=trx["layouts"][1]["frames"][:4]))
    ctx.rule = ("complete enumeration: every multiframe task x every FN of the 10608-frame cycle on the firmware side, every "
                "(channel combination, timeslot) lookup and every frame row on the trxcon side; an evaluation = one "
                "(correspondence pair | lookup | layout clause) at one fn; non-trivial = recorded scheduling calls + layout rows")
    ctx.extra["observations"] = ["mframe_schedule(): `tasks & (1 << i)` with i = 31 shifts into the sign bit of int (UBSan shift); "
                                 "sched_set_for_task[] has no entry for task bits 29..31 (NULL dereference if such a bit were set)"]
    # ---- thorough: the clauses notice single-entry corruptions of the dumps
    if ctx.thorough and not ctx.violations:
        base = dict(fw=fw, trx=dict(trx, walk=[]))
        jobs = corruptions(base)
        with ThreadPoolExecutor(max_workers=2) as ex:
            res = list(ex.map(lambda j: run_tlc(ctx, j[1][1], "MC_Mframe.cfg", j[1][0], "corrupt%d.json" % j[0]), enumerate(jobs)))
        for (what, _, expect), (rr, bb, _) in zip(jobs, res):
            clauses = {d["clause"] for d in bb.values()}
            ctx.jobs.append(dict(job="self-test: " + what, flagged=sorted(bb)[:6], **rr.summary()))
            if not clauses & set(expect):
                raise tlc.MachineryError("self-test: corruption '%s' was not flagged by %s (got %s)" % (what, expect, sorted(bb)))
        ctx.extra["dump_corruptions_flagged"] = len(jobs)
