"""C11 - firmware and trxcon agree on the multiframe mapping of every logical channel.

Driver A (harness/c/drv_mframe_fw.c) links the unmodified firmware
layer1/mframe_sched.c, enables one task at a time, calls mframe_schedule() for
every FN of a 51*26*8 cycle and records every tdma_schedule_set() call.
Driver B (harness/c/drv_mframe_trx.c) links the unmodified trxcon
src/sched_mframe.c and dumps l1sched_mframe_layout(cfg, tn) for every enum
value x tn 0..7 (thorough: plus the frame lookup per (cfg, tn, fn) evaluated
in C like sched_trx.c does).  Both dumps are the constants of spec/Mframe.tla;
TLC walks fn through the whole cycle and checks StartsAgree, BidCyclic,
LookupInTable, MaskCovers, LayoutValidForTn in every state.  The space is
finite and enumerated completely.

Dispatch stage (the frame lookups of trxcon/src/sched_trx.c itself): driver C
(harness/c/drv_sched_trx.c) links the unmodified sched_trx.c, sched_mframe.c
and sched_lchan_desc.c with recording burst handlers.  For every (channel
combination, timeslot) the scheduler is configured, the lchans are activated
and bursts are received / pulled / probed frame by frame, with gaps of lost
downlink frames of every length placed across a multiple of the period, inside
a period and across the hyperframe wrap.  Every operation is one event of a
trace validated against spec/SchedDispatch.tla through
spec/SchedDispatchTrace.tla (constants: the layout dump above and the
descriptor dump of the real l1sched_lchan_desc[]); SchedDispatch itself is
model-checked on small made-up layouts (MC_SchedDispatch*.cfg).
"""
import copy
import json
import os
import re
import subprocess
import time
from concurrent.futures import ThreadPoolExecutor

from .. import cbuild, tlc, tlaval
from ..core import REPO

ID = "C11"
LEVEL = "model_checking"
FW = os.path.join(REPO, "src/target/firmware")
TRX = os.path.join(REPO, "src/host/trxcon")
CYCLE = 51 * 26 * 8
MIN_LINKS = 70          # (task, lchan/direction) links of the correspondence table in Mframe.tla
MIN_PAIRS = 150


# ------------------------------------------------------------------ build
def build_fw(ctx):
    """The firmware include dir shadows libc headers: only layer1/, defines.h
    and debug.h are made visible through a scratch include dir."""
    inc = os.path.join(ctx.scratch, "fwinc")
    os.makedirs(inc, exist_ok=True)
    for name in ("layer1", "defines.h", "debug.h"):
        dst = os.path.join(inc, name)
        if not os.path.lexists(dst):
            os.symlink(os.path.join(FW, "include", name), dst)
    exe = os.path.join(ctx.scratch, "drv_mframe_fw")
    # -fno-sanitize=shift: mframe_schedule() itself evaluates (1 << 31) on an int for
    # task bit 31; that is outside C11 (reported as an observation, see run()).
    cbuild.cc(exe, [FW + "/layer1/mframe_sched.c", cbuild.HC + "/drv_mframe_fw.c"],
              includes=[inc, REPO + "/include", cbuild.LIBOSMO + "/include"], extra=["-fno-sanitize=shift"])
    return exe


def build_trx(ctx):
    exe = os.path.join(ctx.scratch, "drv_mframe_trx")
    cbuild.cc(exe, [TRX + "/src/sched_mframe.c", cbuild.HC + "/drv_mframe_trx.c"],
              includes=[cbuild.HC + "/shim/trxcon", TRX + "/include", cbuild.LIBOSMO + "/include"])
    return exe


def mem_kind(rc, err):
    m = re.search(r"AddressSanitizer: ([a-zA-Z-]+)", err)
    if m:
        return "asan-" + m.group(1)
    m = re.search(r"runtime error: ([a-z ]+)", err)
    if m:
        return "ubsan-" + "-".join(m.group(1).split()[:4])
    return "crash-rc%s" % rc


def run_dump(ctx, exe, args, side):
    e = dict(os.environ, ASAN_OPTIONS="detect_leaks=0:exitcode=99", UBSAN_OPTIONS="print_stacktrace=1:halt_on_error=1:exitcode=98")
    p = subprocess.run([exe] + args, stdout=subprocess.PIPE, stderr=subprocess.PIPE, text=True, env=e, timeout=600,
                       errors="replace")
    if p.returncode != 0:
        kind = mem_kind(p.returncode, p.stderr)
        loc = ""
        m = re.search(r"is located \d+ bytes? (?:to the right of|after|before|to the left of) global variable '(\w+)'", p.stderr)
        if m:
            loc = "-" + m.group(1)
        ctx.violation("C11/memory/%s/%s%s" % (kind, side, loc),
                      "%s driver killed by the sanitizer (%s) while %s" %
                      (side, kind, "reading frames[0..period-1] of the layouts" if side == "trx" else "running mframe_schedule()"),
                      dict(stderr=p.stderr[-4000:], cmd=[exe] + args))
        return None
    try:
        return json.loads(p.stdout)
    except ValueError as ex:
        raise tlc.MachineryError("%s driver printed no valid JSON: %s\n%s" % (side, ex, p.stdout[:300]))


# ------------------------------------------------------------------ TLC
def extract_prints(out, head):
    """All values printed as << "head", ... >> (TLC pretty-prints over several lines)."""
    vals = []
    pos = 0
    key = re.compile(r'<<\s*"%s"' % re.escape(head))
    while True:
        m = key.search(out, pos)
        if not m:
            break
        a = m.start()
        depth = 0
        k = a
        instr = False
        while k < len(out):
            if instr:
                if out[k] == "\\":
                    k += 1
                elif out[k] == '"':
                    instr = False
            elif out[k] == '"':
                instr = True
            elif out.startswith("<<", k):
                depth += 1
                k += 1
            elif out.startswith(">>", k):
                depth -= 1
                k += 1
                if depth == 0:
                    break
            k += 1
        try:
            vals.append(tlaval.parse(out[a:k + 1]))
        except ValueError as ex:
            raise tlc.MachineryError("cannot parse TLC print %r: %s" % (out[a:a + 200], ex))
        pos = k + 1
    return vals


def signature(clause, item):
    def lay(x):
        return "%s:%02x" % (x[0].replace("GSM_PCHAN_", ""), x[1])
    if clause == "StartsAgree":
        return "%s-%s" % (item[0], item[1])
    if clause == "BidCyclic":
        return "%s-%s-%s" % (lay(item[0]), item[1], item[2].replace("L1SCHED_", ""))
    if clause == "MaskCovers":
        return "%s-%s" % (lay(item[0]), item[1].replace("L1SCHED_", ""))
    if clause == "LookupInTable":
        return "%s" % item[0].replace("GSM_PCHAN_", "")
    if clause == "LayoutValidForTn":
        return "%s-tn%d" % (item[0].replace("GSM_PCHAN_", ""), item[1])
    return str(item)


def run_tlc(ctx, dump, cfg, label, scratch_name):
    """Model-check Mframe on the dump.  TLC stops at the first frame in which a
    clause fails; the diagnostic configuration then lists every offending item
    of every clause over the whole cycle (-> one signature per item)."""
    path = os.path.join(ctx.scratch, scratch_name)
    with open(path, "w") as f:
        json.dump(dump, f, separators=(",", ":"))
    r = tlc.run("Mframe.tla", cfg, workers=1, env=dict(DUMP_FILE=path), timeout=1800, scratch=ctx.scratch, heap="6g")
    info = extract_prints(r.out, "C11-INFO")
    info = dict(zip(info[0][1::2], info[0][2::2])) if info else {}
    bad = {}
    if not r.ok:
        if len(dump["trx"]["walk"]):
            with open(path, "w") as f:      # the C walk is judged per frame by the run above; keep the diagnosis small
                json.dump(dict(fw=dump["fw"], trx=dict(dump["trx"], walk=[])), f, separators=(",", ":"))
        d = tlc.run("Mframe.tla", "MC_MframeDiag.cfg", workers=1, env=dict(DUMP_FILE=path), timeout=1800,
                    scratch=ctx.scratch, heap="6g")
        for v in extract_prints(d.out, "C11-ALL"):
            _, clause, items = v
            for it, count, fns in items:
                bad["C11/%s/%s" % (clause, signature(clause, it))] = dict(clause=clause, item=it, count=count, fns=sorted(fns))
    os.unlink(path)
    return r, bad, info


def report(ctx, r, bad, label):
    for sig, d in sorted(bad.items()):
        ctx.violation(sig, "%s violated for %s in %d frame(s) of the %d-frame cycle, first at fn %s" %
                      (d["clause"], d["item"], d["count"], CYCLE, d["fns"]),
                      dict(clause=d["clause"], item=d["item"], frames=d["count"], first_fns=d["fns"], job=label, cmd=r.cmd))
    if not r.ok and (not bad or not any(d["clause"] == r.violation["name"] for d in bad.values())):
        # e.g. only the C walk disagrees (LookupInTable in thorough)
        sig = "C11/%s/first-at-%s" % (r.violation["name"], first_fn(r))
        r.violation["trace"] = r.violation.get("trace", "")[-3000:]
        ctx.mc_violation(label, r, sig)


def first_fn(r):
    m = re.findall(r"fn = (\d+)", r.violation.get("trace", ""))
    return ("fn%s" % m[-1]) if m else "unknown"


# ------------------------------------------------------------------ self-test on the dumps
def corruptions(dump):
    """Single-entry corruptions of the recorded dumps; each must be flagged."""
    out = []
    d = copy.deepcopy(dump)
    lay = next(l for l in d["trx"]["layouts"] if l["cfg"] == "GSM_PCHAN_SDCCH8_SACCH8C")
    lay["frames"][47][1] = (lay["frames"][47][1] + 1) % 4           # one dl_bid of frame_sdcch8
    out.append(("one dl_bid of the SDCCH/8 layout", d, ("BidCyclic", "StartsAgree")))
    d = copy.deepcopy(dump)
    t = next(t for t in d["fw"]["tasks"] if t["task"] == "MF_TASK_SDCCH4_2")
    t["calls"][3][0] += 1                                           # one scheduling call one frame late
    out.append(("one MF_TASK_SDCCH4_2 call shifted by a frame", d, ("StartsAgree",)))
    d = copy.deepcopy(dump)
    lay = next(l for l in d["trx"]["layouts"] if l["cfg"] == "GSM_PCHAN_CCCH_SDCCH4")
    lay["mask"] = lay["mask"][:-1]                                  # one lchan mask bit
    out.append(("one lchan mask bit of the combined CCCH layout", d, ("MaskCovers",)))
    d = copy.deepcopy(dump)
    lk = next(l for l in d["trx"]["lookups"] if l["cfg"] == "GSM_PCHAN_TCH_F" and l["tn"] == 5)
    lk["lid"] = next(l for l in d["trx"]["lookups"] if l["cfg"] == "GSM_PCHAN_TCH_F" and l["tn"] == 4)["lid"]
    out.append(("TCH/F lookup for tn 5 returns the tn 4 layout", d, ("LayoutValidForTn", "StartsAgree")))
    return out


# ------------------------------------------------------------------ dispatch stage: sched_trx.c at work
HYPER = 2715648
EXPECT_ERRNO = dict(EINVAL=22, ENODEV=19, EALREADY=114)      # the values SchedDispatch.tla names
NOLAYOUT = dict(cfg=-1, period=0, slotmask=0, mask=[], frames=[])
DISPATCH_PARALLEL = 4


def build_sched(ctx, sanitize=True):
    exe = os.path.join(ctx.scratch, "drv_sched_trx" + ("" if sanitize else "_plain"))
    L = cbuild.LIBOSMO
    cbuild.cc(exe, [TRX + "/src/sched_trx.c", TRX + "/src/sched_mframe.c", TRX + "/src/sched_lchan_desc.c",
                    cbuild.HC + "/drv_sched_trx.c", L + "/src/talloc.c", L + "/src/msgb.c"],
              includes=[cbuild.HC + "/shim/schedtrx", cbuild.HC + "/shim/trxcon", TRX + "/include", L + "/include"],
              defines=["_GNU_SOURCE"], sanitize=sanitize)
    return exe


class Scen:
    """The operation script of one trace (one N ... block of the driver's input)."""

    def __init__(self, cfgname, c, tn, lay, kind):
        self.cfgname, self.c, self.tn, self.lay, self.kind = cfgname, c, tn, lay, kind
        self.id = "%s-tn%d-%s" % (cfgname.replace("GSM_PCHAN_", ""), tn, kind)
        self.ops = ["N"]

    def op(self, *a):
        self.ops.append(" ".join(str(x) for x in a))

    def configure(self):
        self.op("C", self.tn, self.c)

    def activate_all(self, desc):
        """l1sched_set_lchans() for every channel number of the mask that is not activated automatically."""
        for cn in sorted({desc[x]["chan_nr"] for x in self.lay["mask"] if not desc[x]["auto"]}):
            self.op("S", self.tn, cn | self.tn, 1)

    def rx(self, fn, tn=None):
        self.op("R", self.tn if tn is None else tn, fn % HYPER)

    def pull(self, fn, tn=None):
        self.op("P", self.tn if tn is None else tn, fn % HYPER)

    def probe(self, fn, tn=None):
        self.op("B", self.tn if tn is None else tn, fn % HYPER)

    def trace(self, events):
        return dict(id=self.id, cfg=dict(want=self.c, tn=self.tn, layout=self.lay), ev=events)


def layout_of(trx, lid):
    if lid < 0:
        return NOLAYOUT
    l = trx["layouts"][lid]
    return dict(cfg=trx["cfgs"].index(l["cfg"]), period=l["period"], slotmask=l["slotmask"], mask=l["mask"], frames=l["frames"])


def pick_gap_start(lay, desc, g, straddle, salt):
    """Offset o (position of the last burst received before g lost frames) for a gap that does /
    does not contain a multiple of the period.  Preferred: both ends belong to the same lchan with a
    receive handler and at least one of its frames is lost in between (so that frames are substituted)."""
    p = lay["period"]
    dl = [f[0] for f in lay["frames"]]
    mask = set(lay["mask"])
    tiers = {}
    for o in range(p):
        if straddle != (o + g + 1 >= p):
            continue
        x, y = dl[o], dl[(o + g + 1) % p]
        hasrx = y in mask and desc[y]["rx"]
        if x == y and hasrx:
            lost = sum(1 for i in range(1, g + 1) if dl[(o + i) % p] == x)
            tier = 3 if (lost and g + 1 <= p) else 2
        else:
            tier = 1 if hasrx else 0
        tiers.setdefault(tier, {}).setdefault(x, []).append(o)
    if not tiers:
        return None
    groups = tiers[max(tiers)]
    chans = sorted(groups)
    os_ = groups[chans[(g + salt) % len(chans)]]
    return os_[((g + salt) // len(chans)) % len(os_)]


def scenarios_for(ctx, trx, desc, cfgname, c, tn, lid):
    """All scripts for one (combination, timeslot)."""
    lay = layout_of(trx, lid)
    p = lay["period"]
    out = []
    other = (tn + 3) % 8
    if lid < 0 or p == 0:
        # no layout (-EINVAL, the burst entry points refuse the timeslot) or the empty GSM_PCHAN_NONE layout
        # (never configured by trxcon: period 0, no frame lookup is defined)
        s = Scen(cfgname, c, tn, lay, "configure")
        s.configure()
        if lid < 0:
            for fn in (0, 51, HYPER - 1):
                s.rx(fn), s.pull(fn), s.probe(fn)
        s.rx(7, other), s.pull(7, other), s.probe(7, other)
        return [s]
    dl = [f[0] for f in lay["frames"]]
    ul = [f[2] for f in lay["frames"]]
    rxch = [x for x in lay["mask"] if desc[x]["rx"] and x in dl]
    # (a) every frame of two periods, no loss, across a multiple of the period / across the hyperframe wrap
    wrap_walk = ctx.thorough or (c + tn) % 4 == 0
    for kind, mid in (("walk", p * (11 + tn)), ("walk-wrap", HYPER)):
        if kind == "walk-wrap" and not wrap_walk:
            continue
        s = Scen(cfgname, c, tn, lay, kind)
        s.configure()
        s.rx(mid - p - 1), s.pull(mid - p - 1), s.probe(mid - p - 1)       # nothing is active but the AUTO lchans
        s.activate_all(desc)
        for fn in range(mid - p, mid + p):
            s.pull(fn), s.rx(fn)
            if fn < mid or ctx.thorough:
                s.probe(fn)
        out.append(s)
    # (b) lost downlink frames: gaps of every length
    glens = range(1, p + 3)
    for kind in ("loss-straddle", "loss-inside", "loss-wrap"):
        s = Scen(cfgname, c, tn, lay, kind)
        s.configure()
        s.activate_all(desc)
        cur = p * (5 + tn)
        for g in glens:
            o = pick_gap_start(lay, desc, g, kind != "loss-inside", tn)
            if o is None:
                continue
            if kind == "loss-wrap":
                a = HYPER - p + o
                for x in sorted({dl[o], dl[(o + g + 1) % p]}):          # fresh loss-detection state
                    s.op("D", tn, x), s.op("A", tn, x)
            else:
                m = (cur // p + 2) * p                                   # more than a period after the previous burst
                a = m + o if kind == "loss-inside" else m - p + o
                while a <= cur + p:
                    a += p
            s.rx(a), s.rx(a + g + 1)
            cur = a + g + 1
        out.append(s)
    # (c) out-of-order bursts, repeated bursts, deactivated lchans, reconfiguration, another timeslot
    s = Scen(cfgname, c, tn, lay, "misc")
    s.configure()
    s.activate_all(desc)
    s.activate_all(desc)                                                 # again: refused, nothing changes
    base = p * (40 + tn)
    for k, x in enumerate(rxch):
        own = [o for o in range(p) if dl[o] == x]
        o1, o2 = own[0], own[-1]
        b = base + 3 * p * k
        s.rx(b + o2), s.rx(b + o2)                                       # the same frame twice
        if o1 != o2:
            s.rx(b + o1)                                                 # older than the last processed one
        s.rx(b + o2 + HYPER // 2)                                        # half a hyperframe ahead counts as behind
        s.rx(b + o2 + HYPER // 2 - p)                                    # just less: ahead, too far to substitute
        if ctx.thorough or k % 3 == tn % 3:
            s.op("D", tn, x)
            s.rx(b + p + o2), s.probe(b + p + o2)
            if x in ul:
                s.pull(b + p + ul.index(x))
            s.op("D", tn, x)                                             # refused
            s.op("A", tn, x)
            s.rx(b + p + o2 + 1 if dl[(o2 + 1) % p] == x else b + 2 * p + o1)
            s.op("A", tn, x)                                             # refused
    s.rx(base, other), s.pull(base, other), s.probe(base, other)         # a timeslot that is not configured
    s.configure()                                                        # reconfiguration: all channel states fresh
    for x in rxch[:4]:
        s.rx(base + 3 * p * len(rxch) + p + dl.index(x))
    s.activate_all(desc)
    for x in rxch[:4]:
        s.rx(base + 3 * p * len(rxch) + 2 * p + dl.index(x) + 1)
    out.append(s)
    # thorough: every gap length 0..p+2 behind every start offset (hence: every lchan)
    if ctx.thorough:
        for o in range(p):
            s = Scen(cfgname, c, tn, lay, "gaps-o%d" % o)
            s.configure()
            s.activate_all(desc)
            pairs = []
            cur = 0
            for g in range(0, p + 3):
                a = (cur // p + 2) * p + o
                pairs.append((a, a + g + 1))
                cur = a + g + 1
            # one of the gaps of this trace lies across the hyperframe wrap
            a, b = pairs[o % len(pairs)]
            shift = HYPER - (a // p + 1) * p
            for a, b in pairs:
                s.rx(a + shift), s.rx(b + shift)
            out.append(s)
    return out


def run_scripts(exe, scens):
    """One driver process for the scripts of one (combination, timeslot).  Returns (events per
    script, death) - death = (index of the script, number of its operations done, kind, stderr)."""
    script = "\n".join("\n".join(s.ops) for s in scens) + "\n"
    rc, out, err = cbuild.run_driver(exe, script, timeout=1200)
    per = []
    for ln in out.splitlines():
        try:
            e = json.loads(ln)
        except ValueError:
            if rc == 0:
                raise tlc.MachineryError("drv_sched_trx printed no valid JSON: %r" % ln[:200])
            break                       # cut off by the death of the process
        if e["e"] == "new":
            per.append([])
        per[-1].append(e)
    death = None
    if rc != 0:
        if rc == 3:
            raise tlc.MachineryError("drv_sched_trx refused its script: %s" % err[-500:])
        k = max(len(per) - 1, 0)
        death = (k, len(per[k]) if per else 0, mem_kind(rc, err), err[-3000:])
    else:
        if len(per) != len(scens) or any(len(ev) != len(s.ops) for ev, s in zip(per, scens)):
            raise tlc.MachineryError("drv_sched_trx: event count does not match the script (%s)" % scens[0].id)
    per += [[] for _ in range(len(scens) - len(per))]
    return per, death


def dispatch_record(ctx, trx):
    """Runs in a background thread: no ctx accounting here."""
    mcpool = ThreadPoolExecutor(max_workers=1)
    mcjob = mcpool.submit(dispatch_mc, ctx)      # the specification itself on small made-up layouts, meanwhile
    with ThreadPoolExecutor(max_workers=2) as ex:
        exes = list(ex.map(lambda san: build_sched(ctx, san), (True, False)))
    exe, plain = exes
    rc, out, err = cbuild.run_driver(exe, "X\n")
    if rc != 0:
        return dict(desc=None, death=("desc", mem_kind(rc, err), err[-3000:]))
    try:
        dd = json.loads(out)
    except ValueError as ex:
        raise tlc.MachineryError("drv_sched_trx printed no valid descriptor dump: %s" % ex)
    desc = dd["chans"]
    if len(desc) != len(trx["chans"]) or dd["hyper"] != HYPER or dd["probe_active"] != 1 or dd["nobid"] != 255 or \
       any(dd["errno"][k] != v for k, v in EXPECT_ERRNO.items()):
        raise tlc.MachineryError("descriptor dump does not fit SchedDispatch.tla's named constants: %s" %
                                 {k: dd[k] for k in ("hyper", "probe_active", "nobid", "errno")})
    descfile = os.path.join(ctx.scratch, "desc.json")
    with open(descfile, "w") as f:
        json.dump(dd, f)
    groups = []
    for lk in trx["lookups"]:
        c = trx["cfgs"].index(lk["cfg"])
        groups.append(scenarios_for(ctx, trx, desc, lk["cfg"], c, lk["tn"], lk["lid"]))
    # quick: one batch; thorough: one batch per combination (hundreds of thousands of operations each)
    batches = {}
    for g in groups:
        batches.setdefault(g[0].cfgname if ctx.thorough else "", []).append(g)
    rec = dict(desc=dd, descfile=descfile, traces=[], deaths=[], scen_of={}, verdicts=[], nscripts=sum(len(g) for g in groups),
               ntraces=0, nev=0, ncall=0, nsub=0, pairs=set(), stats=dict(generated=0, distinct=0, wall=0.0, jobs=0))
    for name, bg in batches.items():
        with ThreadPoolExecutor(max_workers=DISPATCH_PARALLEL) as ex:
            runs = list(ex.map(lambda g: run_scripts(exe, g), bg))
        traces = []
        for g, (per, death) in zip(bg, runs):
            if death:
                k, done, kind, err = death
                rec["deaths"].append(dict(scen=g[k], done=done, kind=kind, stderr=err))
                # what does the code do beyond the bad access?  the same scripts on a build without sanitizers
                try:
                    per2, death2 = run_scripts(plain, g)
                    if not death2:
                        per = per2
                except (tlc.MachineryError, subprocess.TimeoutExpired):
                    pass
            for s, ev in zip(g, per):
                if ev:
                    traces.append(s.trace(ev))
                    rec["scen_of"][s.id] = s
        del runs
        ctx.log("dispatch: %s%d scripts run in the real sched_trx.c" % (name and name + ": ", sum(len(g) for g in bg)))
        # still in the background (the Mframe walk of the main thread is single-threaded): the recorded
        # traces against the specification
        res, stats = validate_dispatch(traces, ctx.scratch, descfile)
        for k in stats:
            rec["stats"][k] += stats[k]
        rec["verdicts"] += res
        bad = {v["id"] for v in res if v["reached"] != v["n"]}
        rec["ntraces"] += len(traces)
        for t in traces:
            rec["nev"] += len(t["ev"])
            for e in t["ev"]:
                n = len(e.get("calls", ()))
                rec["ncall"] += n
                if e["e"] == "rx" and n > 1:
                    rec["nsub"] += n - 1
            rec["pairs"].add((t["cfg"]["want"], t["cfg"]["tn"]))
            if t["id"] in bad or "-gaps-o" not in t["id"]:
                rec["traces"].append(t)          # the big per-offset traces of thorough are only kept when rejected
    rec["mc"] = mcjob.result()
    mcpool.shutdown()
    return rec


def dispatch_mc(ctx):
    out = []
    for cfg, what in [(ctx.pick("MC_SchedDispatchQ.cfg", "MC_SchedDispatch.cfg"), "one timeslot, every fn of a small hyperframe")] + \
                     ([("MC_SchedDispatchTn.cfg", "two timeslots")] if ctx.thorough else []):
        r = tlc.run("SchedDispatch.tla", cfg, workers=ctx.pick(2, 4), timeout=900, scratch=ctx.scratch)
        out.append(("MC %s (SchedDispatch: configure / activate / rx with gaps / pull / probe interleavings, %s)" % (cfg, what), cfg, r))
    return out


def call_rows(lay, calls):
    """For the report: the layout row of each call's own fn."""
    p = lay["period"]
    return [dict(call=cl, row_of_fn=lay["frames"][cl[3] % p] if p else None) for cl in calls[:12]]


def dispatch_judge(ctx, rec):
    ctx.trusted += ["drv_sched_trx.c (recording burst handlers, l1sched_prim_* / osmo_a5 / LOGP stand-ins; never evaluates a lookup itself)",
                    "shim headers harness/c/shim/schedtrx (additions of newer libosmocore: GSM_TDMA_FN_INC, llist_first_entry_or_null, "
                    "RSL channel numbers, OSMO_ASSERT); in-repo talloc.c and msgb.c"]
    ctx.assumptions += ["a timeslot whose first l1sched_configure_ts() failed is not used further (the code leaves its lchan list "
                        "head uninitialised); no Tx primitives are queued (the RACH override in l1sched_pull_burst is not exercised); "
                        "no ciphering"]
    if rec["desc"] is None:
        _, kind, err = rec["death"]
        ctx.violation("C11/trx/memory/%s" % kind, "drv_sched_trx killed while dumping l1sched_lchan_desc[] (%s)" % kind, dict(stderr=err))
        return
    for d in rec["deaths"]:
        s = d["scen"]
        ctx.violation("C11/trx/memory/%s" % d["kind"],
                      "sched_trx.c killed by the sanitizer (%s) in scenario %s at operation %d: %s" %
                      (d["kind"], s.id, d["done"] + 1, s.ops[d["done"]] if d["done"] < len(s.ops) else "?"),
                      dict(scenario=s.id, cfg=s.cfgname, tn=s.tn, script=s.ops[:d["done"] + 1], stderr=d["stderr"]))
    for label, cfg, r in rec["mc"]:
        ctx.require_ok(label, r)
        if r.ok and r.distinct < 1000:
            raise tlc.MachineryError("SchedDispatch explored only %d states with %s" % (r.distinct, cfg))
    traces = rec["traces"]
    descfile = rec["descfile"]
    nev, ncall, nsub = rec["nev"], rec["ncall"], rec["nsub"]
    ctx.log("dispatch: %d traces, %d operations of the real sched_trx.c, %d handler calls (%d substituted lost frames)"
            % (rec["ntraces"], nev, ncall, nsub))
    if not rec["deaths"] and (nsub < 500 or ncall < 5000):
        raise tlc.MachineryError("dispatch scenarios are (nearly) vacuous: %d handler calls, %d substituted" % (ncall, nsub))
    res = rec["verdicts"]
    ctx.add_tv("TV SchedDispatchTrace (real sched_trx.c: walks, lost-frame gaps, out-of-order, (de)activation)", rec["stats"], rec["ntraces"])
    byid = {t["id"]: t for t in traces}
    for v in res:
        if v["reached"] == v["n"]:
            continue
        t = byid[v["id"]]
        s = rec["scen_of"][v["id"]]
        e = t["ev"][v["reached"]]
        tag = v["tag"]
        if not tag.startswith("C11.dispatch."):
            raise tlc.MachineryError("trace %s left the specified domain at event %d (%s): %s" % (v["id"], v["reached"] + 1, tag, e))
        ctx.violation("C11/%s/%s" % (tag, s.cfgname.replace("GSM_PCHAN_", "")),
                      "sched_trx.c on %s tn %d, scenario %s: operation %d (%s) rejected by %s: %s" %
                      (s.cfgname, s.tn, s.kind, v["reached"] + 1, s.ops[v["reached"]], tag, json.dumps(e)[:300]),
                      dict(scenario=v["id"], cfg=s.cfgname, tn=s.tn, tag=tag, script=s.ops[:v["reached"] + 1], event=e,
                           previous=t["ev"][max(0, v["reached"] - 2):v["reached"]],
                           rows=call_rows(s.lay, e.get("calls", []))))
    ctx.count(nev)
    ctx.nontrivial_n += ncall
    ctx.extra.setdefault("observations", []).append(
        "l1sched_configure_ts(): when the first configuration of a timeslot fails (-EINVAL, no layout for the combination) the "
        "timeslot stays allocated with a zeroed lchan list head; the next l1sched_configure_ts / l1sched_reset_ts / l1sched_del_ts / "
        "l1sched_free on it dereferences NULL in l1sched_deactivate_all_lchans (sched_trx.c:590; driver script 'N, C 1 7, C 1 3'). "
        "trxcon's own callers only pass combinations that have a layout, so this is outside C11")
    ctx.extra.update(dispatch_operations=nev, dispatch_handler_calls=ncall, dispatch_substituted_frames=nsub,
                     dispatch_scripts=rec["nscripts"],
                     dispatch_config_timeslot_pairs=len(rec["pairs"]))
    t0 = next((t for t in traces if t["id"].endswith("loss-straddle") and "TCH_F" in t["id"]), traces[0])
    ctx.sample(dict(trace=t0["id"], events=[e for e in t0["ev"] if e["e"] == "rx"][4:8]), limit=6)
    ctx.rule += ("; dispatch stage: every (combination, timeslot) configured in the real sched_trx.c, every fn of two periods "
                 "pulled/received/probed across a period boundary (a sample across the hyperframe wrap), gaps of lost frames of every "
                 "length 1..period+2 across a multiple of the period / inside a period / across the hyperframe wrap"
                 + (", every gap length 0..period+2 behind every start offset" if ctx.thorough else "") +
                 "; an evaluation = one operation judged by SchedDispatchTrace; non-trivial = handler calls")
    if ctx.thorough and not ctx.violations:
        dispatch_selftest(ctx, traces, descfile)


def validate_dispatch(traces, scratch, descfile):
    """tlc.validate_traces(chunk="balance") with the trace files written in one piece (json.dump to a
    file goes through the slow incremental encoder; these batches are tens of megabytes)."""
    bins = [[0, []] for _ in range(DISPATCH_PARALLEL)]
    for t in sorted(traces, key=lambda t: -(len(t["ev"]) + sum(len(e.get("calls", ())) for e in t["ev"]) // 4)):
        b = min(bins, key=lambda b: b[0])
        b[0] += len(t["ev"]) + sum(len(e.get("calls", ())) for e in t["ev"]) // 4 + 5
        b[1].append(t)
    chunks = [b[1] for b in bins if b[1]]

    def one(ix_chunk):
        ix, ch = ix_chunk
        stamp = "%d-%d" % (ix, time.time_ns() % 10**9)
        tf = os.path.join(scratch, "traces-dispatch-%s.json" % stamp)
        of = os.path.join(scratch, "out-dispatch-%s.json" % stamp)
        with open(tf, "w") as f:
            f.write(json.dumps(ch, separators=(",", ":")))
        r = tlc.run("SchedDispatchTrace.tla", "SchedDispatchTrace.cfg", workers=1, timeout=3000, scratch=scratch, heap="6g",
                    env=dict(TRACE_FILE=tf, OUT_FILE=of, DESC_FILE=descfile))
        if not r.ok or not os.path.exists(of):
            raise tlc.MachineryError("trace spec SchedDispatchTrace reported %s:\n%s" % (r.violation, r.out[-3000:]))
        with open(of) as f:
            out = json.load(f)
        os.unlink(tf)
        os.unlink(of)
        if len(out) != len(ch):
            raise tlc.MachineryError("trace spec SchedDispatchTrace: %d results for %d traces" % (len(out), len(ch)))
        return out, r

    results, gen, dist, wall = [], 0, 0, 0.0
    with ThreadPoolExecutor(max_workers=DISPATCH_PARALLEL) as ex:
        for out, r in ex.map(one, list(enumerate(chunks))):
            results.extend(out)
            gen, dist, wall = gen + r.generated, dist + r.distinct, wall + r.wall
    return results, dict(generated=gen, distinct=dist, wall=round(wall, 2), jobs=len(chunks))


def dispatch_selftest(ctx, traces, descfile):
    """Binding: a single corrupted handler call (bid + 1) must be rejected at exactly that event by
    the clause that compares a call with the layout row of its own fn."""
    jobs = []
    for want, ev, idx in (("loss-straddle", "rx", 0), ("loss-wrap", "rx", -1), ("walk", "pull", 0)):
        t = next((t for t in traces if t["id"].endswith(want)
                  and any(e["e"] == ev and len(e["calls"]) > (1 if ev == "rx" else 0) for e in t["ev"])), None)
        if t is None:
            raise tlc.MachineryError("self-test: no %s trace with %s calls" % (want, ev))
        t = copy.deepcopy(t)
        k = [i for i, e in enumerate(t["ev"]) if e["e"] == ev and len(e["calls"]) > (1 if ev == "rx" else 0)]
        k = k[len(k) // 2]
        t["ev"][k]["calls"][idx][2] += 1
        t["id"] = "selftest-%s-%s" % (want, ev)
        jobs.append((t, k, "C11.dispatch.%s-row" % ev))
    # and a substituted call dropped: conformance with the specified list of calls
    t = next((t for t in traces if t["id"].endswith("loss-inside") and any(e["e"] == "rx" and len(e["calls"]) > 2 for e in t["ev"])), None)
    if t is None:
        raise tlc.MachineryError("self-test: no loss-inside trace with two substituted frames")
    t = copy.deepcopy(t)
    k = next(i for i, e in enumerate(t["ev"]) if e["e"] == "rx" and len(e["calls"]) > 2)
    del t["ev"][k]["calls"][1]
    t["id"] = "selftest-dropped-substitution"
    jobs.append((t, k, "C11.dispatch.rx-calls"))
    res, _ = validate_dispatch([j[0] for j in jobs], ctx.scratch, descfile)
    byid = {v["id"]: v for v in res}
    for t, k, tag in jobs:
        v = byid[t["id"]]
        if v["reached"] != k or v["tag"] != tag:
            raise tlc.MachineryError("self-test: corrupted call in %s event %d not rejected there by %s (verdict %s)" % (t["id"], k + 1, tag, v))
    ctx.extra["dispatch_corruptions_flagged"] = len(jobs)


def run(ctx):
    ctx.trusted += ["drv_mframe_fw.c (own tdma_schedule_set() recording the calls; dummy scheduling sets: only their identity matters)",
                    "drv_mframe_trx.c (dumps layouts; enumerator name tables built from the real enum constants)",
                    "shim headers harness/c/shim/trxcon/osmocom/gsm/{gsm_utils.h (enum gsm_phys_chan_config), gsm0502.h (GSM_NBITS_*)}",
                    "scratch include dir with links to firmware include/layer1, defines.h, debug.h; /repo/include/l1ctl_proto.h",
                    "task <-> lchan correspondence table and the block-start interpretation in spec/Mframe.tla",
                    "TLC + CommunityModules"]
    ctx.assumptions += ["firmware block start = frame of the tdma_schedule_set() call + frame_offset + 1 (DSP latency)",
                        "only channels both stacks implement are compared: not BCCH_EXT, PTCCH, RACH/FCCH/SCH, the neighbour "
                        "measurement tasks, MF_TASK_UL_ALL_NB; PDTCH uplink is not compared (firmware task is receive-only)",
                        "GSM_PCHAN_NONE (period 0, no table) is never configured by trxcon and has no frame lookup",
                        "mframe_sched.c built with -fno-sanitize=shift ((1 << 31) in mframe_schedule's task loop is outside C11)"]
    fw_exe = build_fw(ctx)
    trx_exe = build_trx(ctx)
    fw = run_dump(ctx, fw_exe, [], "fw")
    trx = run_dump(ctx, trx_exe, ["walk"] if ctx.thorough else [], "trx")
    if fw is None or trx is None:
        return
    if fw.get("cycle") != CYCLE or trx.get("cycle") != CYCLE or len(fw["tasks"]) < 20 or len(trx["layouts"]) < 5:
        raise tlc.MachineryError("implausible dumps: fw tasks=%d trx layouts=%d" % (len(fw["tasks"]), len(trx["layouts"])))
    dump = dict(fw=fw, trx=trx)
    bg = ThreadPoolExecutor(max_workers=1)
    dispatch_job = bg.submit(dispatch_record, ctx, trx)      # builds + runs the real sched_trx.c meanwhile
    ncalls = sum(len(t["calls"]) for t in fw["tasks"])
    nrows = sum(len(l["frames"]) for l in trx["layouts"])
    ctx.log("dumps: %d firmware scheduling calls of %d tasks; %d layouts (%d frame rows), %d lookups, %d C walks"
            % (ncalls, len(fw["tasks"]), len(trx["layouts"]), nrows, len(trx["lookups"]), len(trx["walk"])))
    cfg = ctx.pick("MC_Mframe.cfg", "MC_MframeTn.cfg")
    label = "MC %s (fn 0..%d, both dumps as constants%s)" % (cfg, CYCLE - 1, ", per-timeslot pairs + C walk" if ctx.thorough else "")
    r, bad, info = run_tlc(ctx, dump, cfg, label, "dump.json")
    ctx.add_tlc(label, r)
    ctx.log("TLC", r.summary(), info)
    if r.ok and r.distinct != CYCLE:
        raise tlc.MachineryError("Mframe walked %d states instead of %d" % (r.distinct, CYCLE))
    if info.get("links", 0) < MIN_LINKS or info.get("pairs", 0) < MIN_PAIRS:
        raise tlc.MachineryError("correspondence table is (nearly) vacuous: %s" % info)
    report(ctx, r, bad, label)
    ctx.exhaustive = True
    ctx.evaluations = CYCLE * (info.get("pairs", 0) + len(trx["lookups"]) + 3 * len(trx["layouts"]))
    ctx.nontrivial_n = ncalls + nrows
    # records of the real code judged by TLC: one call record per task, one per lookup, one per C walk
    ctx.traces_validated = len(fw["tasks"]) + len(trx["lookups"]) + len(trx["walk"])
    ctx.extra.update(correspondence_links=info.get("links"), correspondence_pairs=info.get("pairs"),
                     firmware_calls=ncalls, layout_rows=nrows, c_walks=len(trx["walk"]))
    ctx.sample(dict(task=fw["tasks"][4]["task"], first_calls=fw["tasks"][4]["calls"][:4]))
    ctx.sample(dict(layout=trx["layouts"][1]["cfg"], period=trx["layouts"][1]["period"], first_rows=trx["layouts"][1]["frames"][:4]))
    ctx.rule = ("complete enumeration: every multiframe task x every FN of the 10608-frame cycle on the firmware side, every "
                "(channel combination, timeslot) lookup and every frame row on the trxcon side; an evaluation = one "
                "(correspondence pair | lookup | layout clause) at one fn; non-trivial = recorded scheduling calls + layout rows")
    ctx.extra["observations"] = ["mframe_schedule(): `tasks & (1 << i)` with i = 31 shifts into the sign bit of int (UBSan shift); "
                                 "sched_set_for_task[] has no entry for task bits 29..31 (NULL dereference if such a bit were set)"]
    # ---- the frame lookups of sched_trx.c at work (trace validation against SchedDispatch)
    dispatch_judge(ctx, dispatch_job.result())
    bg.shutdown()
    # ---- thorough: the clauses notice single-entry corruptions of the dumps
    if ctx.thorough and not ctx.violations:
        base = dict(fw=fw, trx=dict(trx, walk=[]))
        jobs = corruptions(base)
        with ThreadPoolExecutor(max_workers=2) as ex:
            res = list(ex.map(lambda j: run_tlc(ctx, j[1][1], "MC_Mframe.cfg", j[1][0], "corrupt%d.json" % j[0]), enumerate(jobs)))
        for (what, _, expect), (rr, bb, _) in zip(jobs, res):
            clauses = {d["clause"] for d in bb.values()}
            ctx.jobs.append(dict(job="self-test: " + what, flagged=sorted(bb)[:6], **rr.summary()))
            if not clauses & set(expect):
                raise tlc.MachineryError("self-test: corruption '%s' was not flagged by %s (got %s)" % (what, expect, sorted(bb)))
        ctx.extra["dump_corruptions_flagged"] = len(jobs)
