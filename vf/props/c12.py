"""C12 - power state, child transceivers and clock distribution stay consistent."""
from . import faketrx_common as FC

ID = "C12"
LEVEL = "model_checking"


def session(ctx, sid):
    rng = ctx.rng
    FC.seed_random(rng)
    sim = FC.mk_sim(rng, period=rng.choice([1, 2, 3, 102]))
    s = FC.Session(sid, sim)
    n = len(sim.trx)
    for _ in range(rng.randint(10, 45)):
        r = rng.random()
        t = rng.randrange(n)
        if rng.random() < 0.08:
            s.repeat(t) if rng.random() < 0.5 else s.again(t, rng)
            continue
        if rng.random() < 0.03:
            # a transceiver tuned to 0 kHz on one side is tuned (readiness decides POWERON)
            z = rng.choice(["RXTUNE", "TXTUNE"])
            o = "TXTUNE" if z == "RXTUNE" else "RXTUNE"
            for c in ("CMD POWERON", "CMD POWEROFF", "CMD %s 0" % z, "CMD %s %d" % (o, rng.choice(FC.FREQS)), "CMD POWERON"):
                s.cmd(t, c)
            continue
        if rng.random() < 0.03:
            # the same hopping configuration again after a power cycle has forgotten it
            k = rng.randint(1, 3)
            x = "CMD SETFH %d %d %s" % (rng.randrange(64), rng.randrange(8), " ".join(str(rng.choice(FC.FREQS)) for _ in range(2 * k)))
            for c in (x, "CMD POWERON", "CMD POWEROFF", x, "CMD POWERON"):
                s.cmd(t, c)
            continue
        if r < 0.30:
            s.cmd(t, "CMD POWERON")
        elif r < 0.50:
            s.cmd(t, "CMD POWEROFF")
        elif r < 0.62:
            s.cmd(t, "CMD RXTUNE %d" % rng.choice(FC.FREQS))
        elif r < 0.74:
            s.cmd(t, "CMD TXTUNE %d" % rng.choice(FC.FREQS))
        elif r < 0.82:
            k = rng.randint(1, 3)
            s.cmd(t, "CMD SETFH %d %d %s" % (rng.randrange(64), rng.randrange(8),
                                             " ".join(str(rng.choice(FC.FREQS)) for _ in range(2 * k))))
        elif r < 0.90:
            # something queued, so that POWEROFF has a queue to forget
            fn = (sim.app.clck_gen.clck_src if sim.app.clck_gen.running else 0) + rng.randint(1, 4)
            # ... sent by the transceiver's own L1 or by some other program that knows the port: where a
            # transceiver sends (the port plan) does not depend on who has written to it
            other = ("127.0.0.1", rng.choice([40000, 40001, 5700, 6700, 5802])) if rng.random() < 0.4 else None
            s.data(t, FC.tx_datagram(sim.ver(t), fn % FC.HYPER, rng.randrange(8), 0, bytes(148)), remote=other)
        else:
            for _ in range(rng.randint(1, 4)):
                s.tick()
    return s.trace()


def run(ctx):
    from .. import tlc
    r = tlc.run("FakeTrxMC.tla", "MC_FakeTrxPower.cfg", workers=8, timeout=3000)
    ctx.require_ok("MC FakeTrxMC power/clock (BTS+child, MS+child; all POWERON/POWEROFF/tune/SETFH sequences)", r)
    # "POWEROFF forgets all queued bursts" also while the clock thread is inside a tick:
    # the line-level schedules of POWEROFF racing one tick (machinery of C03)
    from . import c03
    c03.schedules(ctx, only="off")
    # "the shared clock generator runs iff at least one of them is running" rests on CLCKGen.stop()
    # really ending the worker, also when POWEROFF arrives while the clock thread is inside a tick:
    # the two-thread rig of C09 (real start/stop/_worker on simulated threads, ClckGenThreads.tla)
    from . import c09
    c09.threads_stage(ctx)
    traces = [session(ctx, "s%d" % k) for k in range(ctx.pick(150, 4000))]
    for t in traces:
        ctx.count()
        ctx.distinct(str(t["cfg"]["argv"]) + str([(e["t"], bytes(e["raw"]).split(b" ")[1][:8]) for e in t["ev"] if e["e"] == "cmd"]))
    # readiness (tuned or hopping) decides whether a POWERON succeeds: a wrong effect of a command on
    # the tuning / hopping state is C12's as well
    FC.validate(ctx, traces, ("C12.", "C09.indication-outside-tick", "C05.effect.hopping", "C05.effect.rx", "C05.effect.tx"), "TV FakeTrxTrace (power/clock histories on the real Application)")
    ctx.sample(dict(argv=traces[0]["cfg"]["argv"], wire=[{k: v for k, v in w.items() if k != "ports"} for w in traces[0]["cfg"]["wire"]],
                    events=[(e["e"], e.get("t"), bytes(e.get("raw", [])).decode("latin1")[:30]) for e in traces[0]["ev"][:12]]))
    ctx.rule = ("random histories of POWERON/POWEROFF/RXTUNE/TXTUNE/SETFH, queued bursts and ticks addressed to any transceiver of "
                "7 application configurations (BTS, MS, child and extra transceivers); distinct by configuration + command sequence")
    ctx.trusted += ["harness/py/faketrx_drv.py (fake sockets, thread stand-in, projection)", "TLC"]
