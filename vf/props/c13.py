"""C13 - validation accepts exactly the protocol value ranges; nothing invalid
is sent.  Specification -> code: TLC enumerates the boundary product from
spec/ValidGen.tla with the verdict TrxdPdu!Valid* prescribes; every case is
built as a real TxMsg/RxMsg and put through validate(), gen_msg() and
DATAInterface.send_msg() (fake socket)."""
import json
import os
import sys
from array import array

from .. import tlc
from ..core import ROOT, TOOLKIT

ID = "C13"
LEVEL = "model_checking"


def outcome(fn):
    try:
        fn()
        return "ok"
    except ValueError:
        return "ValueError"
    except Exception as e:       # any other exception type is a violation
        return "other:" + type(e).__name__


def field_class(c):
    """Which field(s) deviate from the valid base: the discriminator."""
    dev = []
    base = dict(fn=[1000], tn=[3], pwr=[10], rssi=[-60], toa=[100], ci=[90], tsc=[2], tscset=[1])
    for f, v in base.items():
        if f in ("pwr",) and c["cls"] == "rx":
            continue
        if f in ("rssi", "toa", "ci", "tsc", "tscset") and c["cls"] == "tx":
            continue
        if c[f] != v:
            x = c[f]
            dev.append("%s=%s" % (f, "None" if not x else x[0]))
    if c["ver"] not in ([0], [1]):
        dev.append("ver=%s" % ("None" if not c["ver"] else c["ver"][0]))
    return ",".join(sorted(dev)[:2]) or "base"


def run(ctx):
    sys.path.insert(0, os.path.join(ROOT, "harness", "py"))
    sys.path.insert(0, TOOLKIT)
    import fakesock
    import udp_link
    import data_if
    import data_msg
    import trxd_drv as D

    out = os.path.join(ctx.scratch, "cases.json")
    cfg = ctx.pick("ValidGen.cfg", "ValidGen3.cfg")      # all pairs; thorough: also all triples over the boundary sets
    r = tlc.run("ValidGen.tla", cfg, workers=1, env=dict(OUT_FILE=out), timeout=3600, scratch=ctx.scratch)
    ctx.require_ok("GEN ValidGen (boundary product: pairs; thorough: + triples)", r)
    cases = json.load(open(out))
    ctx.log("TLC generated %d cases (%d valid)" % (len(cases), sum(1 for c in cases if c["valid"])))
    if len(cases) < 5000 or not any(c["valid"] for c in cases):
        raise tlc.MachineryError("ValidGen produced an implausible case set")
    ctx.extra["generated_cases"] = len(cases)
    ctx.extra["valid_cases"] = sum(1 for c in cases if c["valid"])
    ctx.exhaustive = True

    net = fakesock.Net()
    udp_link.socket = net
    dif = data_if.DATAInterface("127.0.0.1", 5802, "0.0.0.0", 5702)

    def opt(x):
        return x[0] if x else None

    rng = ctx.rng

    def build(c):
        if c["cls"] == "tx":
            m = data_msg.TxMsg(fn=opt(c["fn"]), tn=opt(c["tn"]), ver=opt(c["ver"]))
        else:
            m = data_msg.RxMsg(fn=opt(c["fn"]), tn=opt(c["tn"]), ver=opt(c["ver"]))
        assign(m, c)
        return m

    def assign(m, c, inplace=False):
        """Plain attribute assignment of every field of case c to an existing message object; with
        inplace the burst the object already has is resized where it is (del / extend), as a caller
        that trims or pads a burst does, instead of being replaced."""
        m.fn, m.tn, m.ver = opt(c["fn"]), opt(c["tn"]), opt(c["ver"])
        bl = opt(c["blen"])
        old = m.burst if inplace else None
        if c["cls"] == "tx":
            m.pwr = opt(c["pwr"])
            m.burst = None if bl is None else bytearray(rng.getrandbits(1) for _ in range(bl))
        else:
            m.rssi, m.toa256, m.ci = opt(c["rssi"]), opt(c["toa"]), opt(c["ci"])
            m.tsc, m.tsc_set = opt(c["tsc"]), opt(c["tscset"])
            m.mod_type = D.MODOF.get(c["mod"], c["mod"])
            m.nope_ind = c["nope"]
            m.burst = None if bl is None else array("b", [rng.randint(-127, 127) for _ in range(bl)])
        if old is not None and m.burst is not None and type(old) is type(m.burst):
            new = m.burst
            del old[len(new):]
            old[:] = new[:len(old)]
            old.extend(new[len(old):])
            m.burst = old

    # the verdict must depend on the field values only, not on the object's history: every case is
    # also reached by re-assigning the fields of an object that has just been validated and sent
    valid_by_cls = {}
    for item in cases:
        if item["valid"]:
            valid_by_cls.setdefault(item["c"]["cls"], []).append(item["c"])
    for k, item in enumerate(cases):
        c, valid = item["c"], item["valid"]
        if k % 3 != 0 and ctx.tier == "quick":
            continue
        base = rng.choice(valid_by_cls[c["cls"]])
        m = build(base)
        if outcome(m.validate) != "ok" or outcome(m.gen_msg) != "ok":
            continue                      # reported by the fresh-object pass below
        net.take()
        dif.send_msg(m)
        net.take()
        assign(m, c, inplace=(k % 2 == 0))
        g = outcome(m.gen_msg)
        s2 = outcome(lambda: dif.send_msg(m))
        sent = net.take()
        v = outcome(m.validate)
        want = "ok" if valid else "ValueError"
        ctx.count()
        what = None
        if g != want:
            what = ("C13.gen_msg.reused-object", "gen_msg() -> %s after re-assigning the fields of a sent message, specification says %s" % (g, want))
        elif s2 != "ok":
            what = ("C13.send.raises.reused-object", "send_msg() raised %s" % s2)
        elif len(sent) != (1 if valid else 0):
            what = ("C13.send.count.reused-object", "send_msg() emitted %d datagrams for a %s message" % (len(sent), "valid" if valid else "invalid"))
        elif v != want:
            what = ("C13.validate.reused-object", "validate() -> %s, specification says %s" % (v, want))
        if what:
            ctx.violation("C13/%s/%s-v%s/%s" % (what[0], c["cls"], opt(c["ver"]), field_class(c)), what[1] + " for " + json.dumps(c), dict(case=c, valid=valid, base=base))

    for k, item in enumerate(cases):
        c, valid = item["c"], item["valid"]
        if c["cls"] == "tx":
            m = data_msg.TxMsg(fn=opt(c["fn"]), tn=opt(c["tn"]), ver=opt(c["ver"]))
            m.pwr = opt(c["pwr"])
            bl = opt(c["blen"])
            m.burst = None if bl is None else bytearray(rng.getrandbits(1) for _ in range(bl))
        else:
            m = data_msg.RxMsg(fn=opt(c["fn"]), tn=opt(c["tn"]), ver=opt(c["ver"]))
            m.rssi = opt(c["rssi"])
            m.toa256 = opt(c["toa"])
            m.ci = opt(c["ci"])
            m.tsc = opt(c["tsc"])
            m.tsc_set = opt(c["tscset"])
            m.mod_type = D.MODOF.get(c["mod"], c["mod"])     # "notmod" stays a str: not a Modulation
            m.nope_ind = c["nope"]
            bl = opt(c["blen"])
            m.burst = None if bl is None else array("b", [rng.randint(-127, 127) for _ in range(bl)])
        v = outcome(m.validate)
        g = outcome(m.gen_msg)
        net.take()
        s = outcome(lambda: dif.send_msg(m))
        sent = net.take()
        ctx.count()
        want = "ok" if valid else "ValueError"
        disc = "%s-v%s/%s" % (c["cls"], opt(c["ver"]), field_class(c))
        what = None
        if v != want:
            what = ("C13.validate", "validate() -> %s, specification says %s" % (v, want))
        elif g != want:
            what = ("C13.gen_msg", "gen_msg() -> %s, specification says %s" % (g, want))
        elif s != "ok":
            what = ("C13.send.raises", "send_msg() raised %s" % s)
        elif len(sent) != (1 if valid else 0):
            what = ("C13.send.count", "send_msg() emitted %d datagrams for a %s message" % (len(sent), "valid" if valid else "invalid"))
        if what:
            ctx.violation("C13/%s/%s" % (what[0], disc), what[1] + " for " + json.dumps(c), dict(case=c, valid=valid))
        ctx.distinct(json.dumps(c, sort_keys=True))
        if k < 2 or (valid and len(ctx.samples) < 4):
            ctx.sample(dict(case=c, valid=valid, validate=v, gen_msg=g, datagrams=len(sent)))
    # the simulator's forwarding path (L1 -> TRX message turned into a TRX -> L1 message with derived
    # RSSI / ToA / C-I): what does not validate is not sent there either
    from . import faketrx_common as FC
    traces = [FC.traffic_session(ctx, "s%d" % k, "C10") for k in range(ctx.pick(60, 1500))]
    FC.validate(ctx, traces, ("C13.",), "TV FakeTrxTrace (messages forwarded by the real Application)")
    ctx.extra["forwarding_sessions"] = len(traces)
    ctx.rule = ("every message field at None / below / on / above its range boundaries with the others valid, and all pairs "
                "of such deviations, for every class x version x modulation x NOPE base, enumerated by TLC from ValidGen.tla "
                "(complete for that product); distinct = distinct field assignments")
    ctx.trusted += ["harness/py/fakesock.py", "TLC + CommunityModules"]
    ctx.assumptions += ["a version-0 Rx message with the NOPE flag and the MTS fields of a NOPE indication are not varied (they do not exist)",
                        "burst contents are random bits / soft bits of the prescribed length"]
