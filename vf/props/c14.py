"""C14 - no datagram or capture content can crash the tools.

Fault enumeration: valid sessions of the real fake_trx.Application with hostile
datagrams injected at every kind of position (the whole session must stay a
behaviour of FakeTrx, so the transceiver keeps serving correctly), corrupted
capture files read by the real DATADumpFile, hostile datagrams on the parser
(TrxdTrace), and hostile responses / TRXD datagrams fed to trxcon's unmodified
trx_if.c under ASan+UBSan, validated against TrxconIf."""
import os
import sys

from .. import tlc
from . import faketrx_common as FC
from . import trxd_common as TC

ID = "C14"
LEVEL = "fault_enumeration"

BAD_NUM = ["abc", "1.5", "0x10", "--1", "1e3", "", " ", "12a", "NaN", "+", "-", "1 ", "٣x"]
NUMERIC_VERBS = [("RXTUNE", 1), ("TXTUNE", 1), ("MEASURE", 1), ("SETFORMAT", 1), ("SETPOWER", 1), ("RFMUTE", 1),
                 ("SETTA", 1), ("FAKE_TOA", 2), ("FAKE_TOA", 1), ("FAKE_RSSI", 2), ("FAKE_RSSI", 1), ("FAKE_CI", 2),
                 ("FAKE_CI", 1), ("FAKE_DROP", 1), ("FAKE_DROP", 2), ("FAKE_TRXC_DELAY", 1), ("SETFH", 4), ("SETFH", 6)]
RESTORE = {"RXTUNE": "RXTUNE 935200", "TXTUNE": "TXTUNE 890200", "SETPOWER": "SETPOWER 0", "SETTA": "SETTA 0",
           "FAKE_TOA": "FAKE_TOA 0 0", "FAKE_RSSI": "FAKE_RSSI -60 0", "FAKE_CI": "FAKE_CI 90 0", "FAKE_DROP": "FAKE_DROP 0",
           "FAKE_TRXC_DELAY": "FAKE_TRXC_DELAY 0", "RFMUTE": "RFMUTE 0", "SETFORMAT": "SETFORMAT 0", "MEASURE": "MEASURE 935200"}


NONASCII = ["\u00c9CHO", "PO\u0174ERON", "\u0416", "FOO\u00a0BAR", "\u4e2d\u6587", "na\u00efve", "\U0001f4e1"]


def hostile_ctrl(rng):
    """(kind, bytes) - datagrams that are not well-formed documented commands."""
    r = rng.random()
    if r < 0.08:
        # valid UTF-8 that is not ASCII: an undocumented verb, or a non-numeric argument - decodable,
        # so it gets as far as the reply (which echoes it)
        w = rng.choice(NONASCII)
        if rng.random() < 0.5:
            txt = "CMD %s" % w + rng.choice(["", " 1", " 1 2"])
        else:
            verb, argc = rng.choice(NUMERIC_VERBS)
            args = [str(rng.randint(0, 100)) for _ in range(argc)]
            args[rng.randrange(argc)] = rng.choice([w, "5" + w, w + "5"])
            txt = "CMD %s %s" % (verb, " ".join(args))
        return "utf8-non-ascii", txt.encode("utf-8") + rng.choice([b"\0", b""])
    if r < 0.18:
        verb, argc = rng.choice(NUMERIC_VERBS)
        args = [str(rng.randint(0, 100)) for _ in range(argc)]
        args[rng.randrange(argc)] = rng.choice(BAD_NUM[:11])
        return "non-numeric", ("CMD %s %s" % (verb, " ".join(args))).encode() + b"\0"
    if r < 0.36:
        base = ("CMD " + FC.rand_cmd(rng, 2)).encode() + b"\0"
        b = bytearray(base)
        pos = rng.randrange(len(b))
        b[pos:pos] = bytes([rng.choice([0xff, 0xfe, 0x80, 0xc0, 0xf5, 0xed, 0xa0])])
        return "non-utf8", bytes(b)
    if r < 0.46:
        return "non-utf8", bytes(rng.randrange(128, 256) for _ in range(rng.randint(1, 40)))
    if r < 0.58:
        return "no-prefix", rng.choice([b"", b"\0", b"C", b"CM", b"cmd POWERON\0", b"RSP POWERON 0\0", b"IND CLOCK 1\0",
                                        b" CMD POWERON\0", b"XCMD POWEROFF\0", bytes(rng.randrange(32, 127) for _ in range(rng.randint(1, 30)))])
    if r < 0.66:
        return "over-long", b"CMD " + bytes(rng.choice(b"ABCDEFGHIJ 0123456789") for _ in range(rng.choice([1100, 3000, 65000])))
    if r < 0.80:
        verb, argc = rng.choice(NUMERIC_VERBS)
        args = [rng.choice(BAD_NUM[:11]) for _ in range(argc)]
        return "non-numeric", ("CMD %s %s" % (verb, " ".join(args))).encode() + rng.choice([b"\0", b"", b"\0\0"])
    b = bytearray(("CMD " + FC.rand_cmd(rng, 2)).encode())
    for _ in range(rng.randint(1, 3)):
        b[rng.randrange(len(b))] = rng.choice([0xff, 0x80, 0xfe, 0xc3])
    return "non-utf8", bytes(b) + b"\0"


def is_malformed(kind, raw):
    """Keep only datagrams that are malformed by the documented grammar (so that
    "no effect" is what the statement demands)."""
    if kind == "non-utf8":
        try:
            raw.decode()
            return False
        except UnicodeDecodeError:
            return True
    if kind == "non-numeric":
        toks = raw.decode().strip().strip("\0")[4:].split(" ") if raw.startswith(b"CMD") else []
        toks = raw.decode()[4:].strip().strip("\0").split(" ")
        for t in toks[1:]:
            try:
                int(t)
            except ValueError:
                return True
        return False
    return True


def hostile_session(ctx, sid):
    import rand_burst_gen
    rng = ctx.rng
    FC.seed_random(rng)
    sim = FC.mk_sim(rng, argv=rng.choice(FC.CONFIGS[:3]))
    s = FC.Session(sid, sim)
    n = len(sim.trx)
    gen = rand_burst_gen.RandBurstGen()
    FC.setup_pair(s, rng, hop=rng.random() < 0.4)
    for t in range(n):
        if rng.random() < 0.5:
            s.cmd(t, "CMD SETFORMAT %d" % rng.choice([0, 1]))
        s.cmd(t, "CMD POWERON")
    g = sim.app.clck_gen
    kinds = {}
    for _ in range(rng.randint(30, 70)):
        r = rng.random()
        t = rng.randrange(n)
        trx = sim.trx[t]
        if r < 0.22:
            kind, raw = hostile_ctrl(rng)
            if kind in ("non-utf8", "non-numeric") and not is_malformed(kind, raw):
                continue
            s.garbage("ctrl", t, raw)
            kinds[kind] = kinds.get(kind, 0) + 1
        elif r < 0.30:
            verb = rng.choice(sorted(RESTORE))
            # (beyond 64 bit, beyond what a float can hold - 309 digits and more still fit the receive buffer)
            big = rng.choice([2 ** 31, 2 ** 32 + 5, -2 ** 33, 10 ** 20, -10 ** 30, 2 ** 63, 2 ** 64, 10 ** 310 + 7, -(10 ** 400), 7 * 10 ** 900])
            txt = "CMD %s %d" % (verb, big)
            if verb in ("FAKE_TOA", "FAKE_RSSI", "FAKE_CI") and rng.random() < 0.5:
                txt += " %d" % rng.choice([0, 5])
            s.wild(t, txt)
            s.cmd(t, "CMD " + RESTORE[verb])
            if verb == "MEASURE" or verb == "SETFORMAT":
                pass
            kinds["huge-int"] = kinds.get("huge-int", 0) + 1
        elif r < 0.45:
            # hostile data: mutations of a valid burst (the frame number stays below 2^31)
            src = g.clck_src if g.running else 0
            _, bits = FC.burst_bits(rng, gen)
            good = FC.tx_datagram(sim.ver(t), (src + rng.randint(0, 2)) % FC.HYPER, rng.randrange(8), rng.randrange(64), bits)
            import trxd_drv as D
            raw = bytearray(D.mutate(rng, good))
            if len(raw) >= 2:
                raw[1] &= 0x7f
            if rng.random() < 0.25:
                # well-formed but for the frame number: beyond the hyperframe and congruent to a frame
                # the clock is about to reach, so it waits in the queue and comes up in a tick
                raw = bytearray(good)
                raw[1:5] = ((src + rng.randint(0, 2)) % FC.HYPER + FC.HYPER * rng.choice([1, 2, 50, 789])).to_bytes(4, "big")
            if len(raw) > 512:
                raw = raw[:512]
            # from somewhere else than the transceiver's own L1 (well-formed ones among them are
            # dropped for their version, or because the transceiver is off)
            s.data(t, bytes(raw), remote=("127.0.0.1", rng.choice([40000, 40001, 5700, 6700])) if rng.random() < 0.7 else None)
            kinds["data"] = kinds.get("data", 0) + 1
        elif r < 0.62:
            src = g.clck_src if g.running else 0
            _, bits = FC.burst_bits(rng, gen)
            if FC.unique_tsc(bits):
                s.data(t, FC.tx_datagram(sim.ver(t), (src + rng.randint(0, 2)) % FC.HYPER, rng.randrange(8), rng.randrange(64), bits))
        elif r < 0.82:
            s.tick()
        else:
            c = FC.rand_cmd(rng, n)
            if c.startswith("FAKE_TRXC_DELAY"):
                c = "FAKE_TRXC_DELAY 0"
            s.cmd(t, "CMD " + c)
    for _ in range(4):
        s.tick()
    tr = s.trace()
    tr["kinds"] = kinds
    return tr


def discr(tr, e, tag):
    if e["e"] == "garbage":
        raw = bytes(e["raw"]) if not isinstance(e["raw"], str) else b""
        try:
            raw.decode()
            txt = True
        except UnicodeDecodeError:
            txt = False
        if e.get("sock") == "ctrl":
            if not txt:
                return "ctrl-non-utf8"
            if raw.startswith(b"CMD"):
                return "ctrl-non-numeric-argument" if len(raw) < 1024 else "ctrl-over-long"
            return "ctrl-no-prefix"
        return "data"
    if e["e"] == "tick":
        return "tick-after-hostile-input"
    return e["e"]


def capture_files(ctx, n):
    """Corrupted capture files through the real DATADumpFile."""
    import data_dump
    import trxd_drv as D
    rng = ctx.rng
    tmp = os.path.join(ctx.scratch, "cap14")
    os.makedirs(tmp, exist_ok=True)
    traces = []
    for fi in range(n):
        path = os.path.join(tmp, "h%d.cap" % fi)
        ddf = data_dump.DATADumpFile(path)
        k = rng.randint(1, 5)
        for _ in range(k):
            d = D.rand_tx(rng) if rng.random() < 0.5 else D.rand_rx(rng)
            if d["burst"]["has"] and len(d["burst"]["bits"]) > 148:
                d["burst"]["bits"] = d["burst"]["bits"][:148]
                if d["cls"] == "rx" and d["ver"] == 1:
                    d["mod"] = "GMSK"
                    d["tscset"] = 0
            ddf.append_msg(D.mk_tx(d) if d["cls"] == "tx" else D.mk_rx(d))
        ddf.f.flush()
        del ddf
        data = bytearray(open(path, "rb").read())
        m = rng.random()
        if m < 0.4:
            for _ in range(rng.randint(1, 6)):
                i = rng.randrange(len(data))
                data[i] ^= 1 << rng.randrange(8)
        elif m < 0.6:
            # corrupt record headers specifically
            pos = 0
            while pos + 3 <= len(data) and rng.random() < 0.8:
                ln = (data[pos + 1] << 8) | data[pos + 2]
                if rng.random() < 0.5:
                    data[pos + rng.randrange(3)] = rng.randrange(256)
                pos += 3 + ln
        elif m < 0.75:
            data = data[:rng.randrange(len(data) + 1)] + bytes(rng.randrange(256) for _ in range(rng.randint(0, 40)))
        elif m < 0.9:
            i = rng.randrange(len(data))
            data[i:i] = bytes(rng.randrange(256) for _ in range(rng.randint(1, 10)))
        else:
            data = bytearray(rng.randrange(256) for _ in range(rng.randint(0, 600)))
        with open(path, "wb") as f:
            f.write(data)
        rd = data_dump.DATADumpFile(path)
        ev = []
        reads = [("all", None, None)] + [("all", rng.choice([None, 0, 1, 2, 3, 7]), rng.choice([None, 1, 2, 5])) for _ in range(4)] \
            + [("idx", i, None) for i in range(0, 8)]
        for kind, a, b in reads:
            e = dict(e="readn", kind=kind, skip=-1 if a is None else a, count=-1 if b is None else b, idx=-1, exc="")
            try:
                if kind == "all":
                    res = rd.parse_all(a, b) if (a is not None or b is not None) else rd.parse_all()
                    e["res"] = dict(t="false", n=0) if res is False else dict(t="list", n=len(res))
                else:
                    e["idx"] = a
                    e["skip"] = -1
                    res = rd.parse_msg(a)
                    e["res"] = dict(t="none" if res is None else ("false" if res is False else "msg"), n=0)
            except Exception as ex:
                e["exc"] = type(ex).__name__
                e["res"] = dict(t="exc", n=0)
            ev.append(e)
            ctx.count()
        del rd
        os.unlink(path)
        traces.append(dict(id="h%d" % fi, cfg=dict(file=list(data), starts=[], lens=[], cls=[], orig=[]), ev=ev))
    return traces


# ------------------------------------------------------------------ trxcon
def hostile_rsp(rng, head):
    """Responses to the command in flight: valid ones and every malformation."""
    verb = head.split(b" ")[1].rstrip(b"\0")
    args = b" ".join(head.rstrip(b"\0").split(b" ")[2:])
    good = b"RSP " + verb + b" 0" + (b" " + args if args else b"") + (b" -60" if verb == b"MEASURE" else b"") + b"\0"
    r = rng.random()
    if r < 0.25:
        return "good", good
    if r < 0.45:
        # the response to the very command in flight with its status but fewer / other arguments than it
        # needs (MEASURE: frequency and level; the others: their echoed arguments)
        return rng.choice([("status-only", b"RSP " + verb + b" 0\0"), ("status-only", b"RSP " + verb + b" 0"),
                           ("status-only", b"RSP " + verb + b" 0 \0"), ("args-short", b"RSP " + verb + b" 0 1\0"),
                           ("args-garbage", b"RSP " + verb + b" 0 x y\0"), ("args-garbage", b"RSP " + verb + b" 0 \xff\xfe\0")])
    c = [
        ("no-space", b"RSP " + verb + b"\0"), ("no-space", b"RSP " + verb), ("no-status", b"RSP " + verb + b" \0"),
        ("no-status", b"RSP " + verb + b" abc\0"), ("bare", b"RSP \0"), ("bare", b"RSP"), ("bare", b"RSP "), ("empty", b"\0"),
        ("other-verb", b"RSP NOPE 0\0"), ("prefix-verb", b"RSP " + verb[:3] + b" 0\0"), ("longer-verb", b"RSP " + verb + b"X 0\0"),
        ("error", b"RSP " + verb + b" 1\0"), ("error", b"RSP " + verb + b" -1\0"), ("not-rsp", b"CMD " + verb + b"\0"),
        ("not-rsp", bytes(rng.randrange(256) for _ in range(rng.randint(1, 60)))),
        ("huge", b"RSP " + verb + b" 0 " + b"9" * 2000 + b"\0"), ("huge", b"RSP " + verb + b" " + b"7" * 1500),
        ("unterminated", b"RSP " + verb + b" 0" + b" 1" * 520), ("status-overflow", b"RSP " + verb + b" 99999999999999999999\0"),
        ("measure-short", b"RSP MEASURE 0\0"), ("measure-short", b"RSP MEASURE 0 1\0"), ("measure-garbage", b"RSP MEASURE 0 x y\0"),
        ("truncated", good[:rng.randrange(len(good))]), ("nul-inside", good[:6] + b"\0" + good[6:]),
    ]
    return rng.choice(c)


def trxcon_hostile(ctx, rounds):
    import trxcon_drv as T
    exe = T.build(ctx)
    rng = ctx.rng
    traces = []
    fuzz = []
    nrsp = ndata = 0
    for k in range(rounds):
        tc = T.Trxcon(exe)
        cev = []

        def status(r):
            return dict(st=r["st"], term=r["term"], q=r["q"], timer=r["timer"])
        dead = False
        for step in range(rng.randint(4, 16)):
            if tc.crashed or dead:
                break
            what = rng.choice(["POWERON", "POWEROFF", "MEASURE", "SETSLOT", "SETTA", "H1", "ECHO-ish"])
            if what == "MEASURE":
                r = tc.cmd("MEASURE", rng.choice([1, 62, 124, 700]))
            elif what == "SETSLOT":
                r = tc.cmd("SETSLOT", rng.randrange(8), rng.choice([1, 2, 5]))
            elif what == "SETTA":
                r = tc.cmd("SETTA", rng.choice([0, 5, -3]))
            elif what == "H1":
                r = tc.cmd("H1", rng.randrange(64), rng.randrange(64), *sorted(rng.sample(range(1, 125), rng.randint(1, 64))))
            elif what == "ECHO-ish":
                r = tc.cmd("POWEROFF")
            else:
                r = tc.cmd(what)
            if r is None:
                break
            had = r["q"]
            if r["sent"]:
                text = list(bytes(r["sent"][0])[:-1])
                cev.append(dict(e="enq", texts=[text], crit=[what != "SETTA"], status=status(r), sent=r["sent"], h1=[]))
                head = bytes(r["sent"][0])
            else:
                # queued behind a command still in flight: its text becomes visible later; keep the model simple
                break
            # hostile / good responses until the queue is empty or the interface terminates
            for _ in range(rng.randint(1, 5)):
                if rng.random() < 0.15:
                    rr = tc.timeout()
                    if rr is None:
                        break
                    cev.append(dict(e="timeout", status=status(rr), sent=rr["sent"]))
                    if rr["term"]:
                        dead = True
                        break
                    continue
                kind, raw = hostile_rsp(rng, head)
                rr = tc.rsp(raw)
                nrsp += 1
                if rr is None:
                    ctx.violation("C14/memory/trxcon-ctrl/%s" % kind,
                                  "trx_if.c died reading a TRXC datagram (%s, rc=%s)" % (kind, tc.crashed[0]),
                                  dict(datagram=list(raw)[:200], text=raw[:120].decode("latin1"), head=head.decode("latin1"), stderr=tc.crashed[1]))
                    break
                cev.append(dict(e="rsp", raw=list(raw), status=status(rr), sent=rr["sent"], dbm=[], accept=False, kind=kind))
                if rr["term"]:
                    dead = True
                    break
                if rr["q"] == 0:
                    # stray / duplicated responses while nothing is in flight (e.g. a duplicate of the last reply)
                    for _ in range(rng.choice([0, 1, 1, 2])):
                        kind2, raw2 = rng.choice([("duplicate", raw), hostile_rsp(rng, head)])
                        r2 = tc.rsp(raw2)
                        nrsp += 1
                        if r2 is None:
                            ctx.violation("C14/memory/trxcon-ctrl/stray-response-with-empty-queue",
                                          "trx_if.c died reading a TRXC datagram while no command was in flight (%s, rc=%s)" % (kind2, tc.crashed[0]),
                                          dict(text=raw2[:120].decode("latin1"), previous_command=head.decode("latin1"), stderr=tc.crashed[1]))
                            break
                        cev.append(dict(e="rsp", raw=list(raw2), status=status(r2), sent=r2["sent"], dbm=[], accept=False, kind="stray-" + kind2))
                        if r2["term"]:
                            dead = True
                            break
                    break
                if rr["sent"]:
                    head = bytes(rr["sent"][0])
            # hostile TRXD datagrams in between
            for _ in range(rng.randint(0, 3)):
                if tc.crashed or dead:
                    break
                n = rng.choice([0, 1, 7, 8, 9, 155, 156, 157, 158, 159, 160, 452, 454, 455, 511, 512, 513, 600, 2000])
                raw = bytearray(rng.randrange(256) for _ in range(n))
                if n and rng.random() < 0.7:
                    raw[0] &= 0x0f
                if n >= 5 and rng.random() < 0.5:
                    raw[1:5] = (rng.choice([0, 2715647, 2715648, 2 ** 32 - 1])).to_bytes(4, "big")
                rr = tc.data(bytes(raw))
                ndata += 1
                if rr is None:
                    ctx.violation("C14/memory/trxcon-data/len-%d" % n, "trx_if.c died reading a TRXD datagram of %d octets (rc=%s)" % (n, tc.crashed[0]),
                                  dict(datagram=list(raw)[:64], stderr=tc.crashed[1]))
                    break
                inds = [e for e in rr["ev"] if e["k"] == "burst_ind"]
                fuzz.append(dict(id="z%d" % len(fuzz), e="cfz", raw=list(raw), has=bool(inds),
                                 ind=(dict(tn=inds[0]["tn"], fn=inds[0]["fn"], bits=inds[0]["bits"]) if inds
                                      else dict(tn=-1, fn=-1, bits=[]))))
                ok_len = n - 8 in (148, 150, 444, 446)
                expect = n >= 8 and (raw[0] >> 4) == 0 and ok_len and int.from_bytes(raw[1:5], "big") < 2715648
                if bool(inds) != bool(expect):
                    ctx.violation("C14/trxcon-data/acceptance", "TRXD datagram of %d octets: burst indication %s" % (n, "given" if inds else "missing"),
                                  dict(datagram=list(raw)[:16]))
        tc.close()
        if tc.crashed and tc.crashed[0] not in (0, None):
            rc, err = tc.crashed
            kind = "asan" if rc == 99 or "AddressSanitizer" in err else ("ubsan" if rc == 98 or "runtime error" in err else "crash")
            ctx.violation("C14/memory/trxcon/%s" % kind, "trx_if.c driver ended abnormally (rc=%s)" % rc, dict(stderr=err, last=cev[-2:]))
        traces.append(dict(id="t%d" % k, cfg={}, ev=cev))
    ctx.extra["trxcon_hostile_responses"] = nrsp
    ctx.extra["trxcon_hostile_trxd"] = ndata
    # what trx_if.c made of every hostile TRXD datagram, judged by TLC (TrxdTrace, record kind cfz)
    if fuzz:
        res, stats = tlc.validate_records("TrxdTrace.tla", "TrxdTrace.cfg", fuzz, scratch=ctx.scratch, parallel=3)
        ctx.add_tv("TV TrxdTrace (trxcon's TRXD receive path on hostile datagrams)", stats, len(fuzz))
        byid = {r["id"]: r for r in fuzz}
        for v in res:
            for tag in v["failed"]:
                r = byid[v["id"]]
                ctx.violation("C14/%s/len-%d" % (tag, len(r["raw"])),
                              "TRXD datagram of %d octets (first octet 0x%02x): %s; indication tn=%s fn=%s"
                              % (len(r["raw"]), r["raw"][0] if r["raw"] else 0, tag, r["ind"]["tn"], r["ind"]["fn"]),
                              dict(datagram=r["raw"][:16], indication=dict(tn=r["ind"]["tn"], fn=r["ind"]["fn"], nbits=len(r["ind"]["bits"]))))
    return traces


def run(ctx):
    sys.path.insert(0, os.path.join(FC.ROOT, "harness", "py"))
    # (a) hostile datagrams inside valid sessions
    traces = [hostile_session(ctx, "s%d" % k) for k in range(ctx.pick(120, 5000))]
    kinds = {}
    for t in traces:
        for a, b in t.pop("kinds").items():
            kinds[a] = kinds.get(a, 0) + b
        ctx.count()
        ctx.distinct(t["id"] + str(len(t["ev"])))
    ctx.extra["injected"] = kinds
    # "... and goes on serving subsequent bursts correctly": after hostile input the bursts still reach
    # exactly the right peers at their documented addresses
    FC.validate(ctx, traces, ("C14.", "C12.ports", "C12.port-plan", "C02.missing-delivery", "C02.unexpected-delivery"),
                "TV FakeTrxTrace (sessions with hostile datagrams injected)", discr)
    # (b) the message parser on hostile datagrams (ValueError only) - records judged by TrxdTrace
    recs = TC.python_records(ctx, ctx.pick(200, 2000), ctx.pick(1500, 60000))
    TC.judge(ctx, recs, ("C14.",), "TV TrxdTrace (parse_msg on mutated datagrams: only ValueError)")
    # (c) corrupted capture files
    caps = capture_files(ctx, ctx.pick(150, 6000))
    res, stats = tlc.validate_traces("DataDumpTrace.tla", "DataDumpTrace.cfg", caps, scratch=ctx.scratch, chunk="balance", parallel=5)
    ctx.add_tv("TV DataDumpTrace (corrupted capture files)", stats, len(caps))
    byid = {t["id"]: t for t in caps}
    for v in res:
        if v["reached"] != v["n"]:
            e = byid[v["id"]]["ev"][v["reached"]]
            ctx.violation("C14/%s/%s" % (v["tag"], e.get("exc") or e["kind"]),
                          "capture %s: read %s rejected: %s" % (v["id"], e, v["tag"]),
                          dict(file=byid[v["id"]]["cfg"]["file"][:400], event=e))
    # (d) trxcon
    ct = trxcon_hostile(ctx, ctx.pick(60, 2500))
    res, stats = tlc.validate_traces("TrxconTrace.tla", "TrxconTrace.cfg", ct, scratch=ctx.scratch, chunk="balance", parallel=4)
    ctx.add_tv("TV TrxconTrace (hostile responses to trxcon's TRXC client)", stats, len(ct))
    byid = {t["id"]: t for t in ct}
    for v in res:
        if v["reached"] != v["n"]:
            e = byid[v["id"]]["ev"][v["reached"]]
            ctx.violation("C14/%s/%s" % (v["tag"], e.get("kind", e["e"])),
                          "trxcon run %s rejected at event %d: %s" % (v["id"], v["reached"] + 1, v["tag"]),
                          dict(event={a: (b if a != "raw" else bytes(b)[:200].decode("latin1")) for a, b in e.items()},
                               before=[{a: (b if a != "raw" else bytes(b)[:80].decode("latin1")) for a, b in x.items() if a != "sent"} for x in byid[v["id"]]["ev"][max(0, v["reached"] - 3):v["reached"]]]))
    ctx.sample(dict(session=traces[0]["id"], injected=[(e["e"], e.get("sock"), bytes(e["raw"])[:40].decode("latin1")) for e in traces[0]["ev"] if e["e"] in ("garbage", "wild")][:6]))
    ctx.rule = ("valid sessions with hostile datagrams injected at random positions (non-UTF-8 octets, non-numeric / missing / huge "
                "arguments, missing prefix or NUL, empty and 64 kB datagrams, truncated / bit-flipped / wrong-version bursts); corrupted "
                "capture files; malformed responses and TRXD datagrams fed to trx_if.c; non-trivial = a session / file / run that "
                "contains at least one hostile input")
    ctx.trusted += ["harness/py/faketrx_drv.py", "harness/c/drv_trxcon.c + shim/trxcon", "ASan/UBSan for memory safety of the C code", "TLC"]
    ctx.assumptions += ["commands with integers beyond 32 bit are only required to return normally with one reply and to touch nothing but the addressed parameters",
                        "Unicode digits and other non-ASCII numerals accepted by int() are not generated"]
