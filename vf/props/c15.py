"""C15 - capture files return exactly what was stored, even after truncation.

MC: DataDumpMC (every file of <= 3 pool messages x every cut x every
skip/count/index) - TLC.  TV: real files written by DATADumpFile, cut at every
byte offset, read back by the real parse_all/parse_msg; TLC evaluates the
reader model and the C15 statement on the recorded octets."""
import os
import sys

from .. import tlc
from ..core import ROOT, TOOLKIT

ID = "C15"
LEVEL = "model_checking"


def burst_send_growth(ctx, nfiles):
    """Growth beyond C15: the replay tool burst_send.py (real Application object, fake
    sockets) judged against spec/BurstSend.tla."""
    import contextlib
    import io
    import data_dump
    import trxd_drv as D
    import fakesock
    import udp_link
    import app_common
    import burst_send
    rng = ctx.rng
    tmp = os.path.join(ctx.scratch, "bs")
    os.makedirs(tmp, exist_ok=True)
    app_common.ApplicationBase.app_init_logging = lambda self_, argv_: None

    class _Sig:
        SIGINT = 2

        @staticmethod
        def signal(*a):
            return None
    burst_send.signal = _Sig
    traces = []
    for fi in range(nfiles):
        path = os.path.join(tmp, "b%d.cap" % fi)
        ddf = data_dump.DATADumpFile(path)
        n = rng.randint(1, 8)
        for _ in range(n):
            d = D.rand_tx(rng) if rng.random() < 0.5 else D.rand_rx(rng)
            if d["burst"]["has"] and len(d["burst"]["bits"]) > 148:
                continue
            d["fn"] = rng.choice([0, 10, 11, 12, 100, 2715647, rng.randrange(2715648)])
            ddf.append_msg(D.mk_tx(d) if d["cls"] == "tx" else D.mk_rx(d))
        ddf.f.flush()
        del ddf
        data = open(path, "rb").read()
        ev = []
        for _ in range(6):
            a = dict(mode=rng.choice(["TRX", "L1"]), base=rng.choice([6700, 5700, 7000]),
                     skip=rng.choice([-1, -1, 0, 1, 2, 5, 9]), count=rng.choice([-1, -1, 1, 2, 5]),
                     tn=rng.choice([-1, -1, -1, 0, 3, 7]), fnlt=rng.choice([-1, -1, -1, 2715647, 100, 11]), fngt=rng.choice([-1, -1, -1, 0, 11, 100]))
            argv = ["burst_send", "-i", path, "-m", a["mode"], "-p", str(a["base"])]
            for opt, key in (("--skip", "skip"), ("--count", "count"), ("--timeslot", "tn"), ("--frame-num-lt", "fnlt"), ("--frame-num-gt", "fngt")):
                if a[key] >= 0:
                    argv += [opt, str(a[key])]
            net = fakesock.Net()
            udp_link.socket = net
            old = sys.argv
            sys.argv = argv
            rc = 0
            try:
                with contextlib.redirect_stdout(io.StringIO()):
                    app = burst_send.Application()
                    try:
                        app.run()
                    except SystemExit as e:
                        rc = int(e.code or 0)
            finally:
                sys.argv = old
            outs = [dict(port=dst[1], raw=list(dat)) for (_s, dat, dst) in net.take()]
            bind = net.sockets[0].bound[1] if net.sockets else -1
            ev.append(dict(e="run", args=a, outs=outs, bind=bind, rc=rc))
            del app
        os.unlink(path)
        traces.append(dict(id="bs%d" % fi, cfg=dict(file=list(data)), ev=ev))
    res, stats = tlc.validate_traces("BurstSendTrace.tla", "BurstSendTrace.cfg", traces, scratch=ctx.scratch, chunk="balance", parallel=3)
    ctx.add_tv("TV BurstSendTrace (growth: burst_send replay tool)", stats, len(traces))
    bad = [v for v in res if v["reached"] != v["n"]]
    ctx.extra["growth_burst_send"] = dict(files=len(traces), runs=sum(len(t["ev"]) for t in traces),
                                          datagrams=sum(len(e["outs"]) for t in traces for e in t["ev"]),
                                          rejected=[dict(id=v["id"], at=v["reached"] + 1, tag=v["tag"]) for v in bad][:5])
    # observations on code outside the listed properties are recorded, not raised as C15 violations
    if bad:
        ctx.log("growth: burst_send deviates from spec/BurstSend.tla:", ctx.extra["growth_burst_send"]["rejected"])


def _raw_read(rd, kind, a, b):
    try:
        if kind == "all":
            return rd.parse_all(a, b) if (a is not None or b is not None) else rd.parse_all()
        return rd.parse_msg(a)
    except Exception as ex:
        return ex


def run(ctx):
    sys.path.insert(0, os.path.join(ROOT, "harness", "py"))
    sys.path.insert(0, TOOLKIT)
    import data_dump
    import trxd_drv as D

    r = tlc.run("DataDumpMC.tla", "MC_DataDump.cfg", workers=4, timeout=1800)
    ctx.require_ok("MC DataDumpMC (<=3 messages, every cut, every skip/count/index)", r)
    if ctx.thorough:
        r = tlc.run("DataDumpMC.tla", "MC_DataDump4.cfg", workers=8, timeout=3000)
        ctx.require_ok("MC DataDumpMC (<=4 messages)", r)

    burst_send_growth(ctx, ctx.pick(12, 300))
    rng = ctx.rng
    nfiles = ctx.pick(20, 600)
    traces = []
    tmp = os.path.join(ctx.scratch, "cap")
    os.makedirs(tmp)

    def proj(m):
        return D.tx_decoded(m) if isinstance(m, D.data_msg.TxMsg) else D.rx_decoded(m)

    nbig = ctx.pick(1, 3)            # captures larger than any plausible read-ahead block (64 KiB and more)
    for fi in range(nfiles + nbig):
        big = fi >= nfiles
        n = rng.randint(1, 4) if rng.random() < 0.75 else rng.randint(5, 9)
        if big:
            n = rng.randint(170, 230)
        force_share, force_edge0, force_feed = fi % 7 == 2, fi % 7 == 4, fi % 7 in (5, 6)
        force_nope = fi % 7 == 1          # the shortest record there is (a version-1 NOPE indication) in front of others
        if force_nope and not big:
            n = max(n, 3)
        if force_share:
            n = max(n, 3)
        if force_feed and not big:
            n = max(n, 4)
        small = (rng.random() < (0.7 if ctx.tier == "quick" else 0.8)) and not big and not force_edge0
        sampled = ctx.tier == "quick" and not small and not big
        origs = []
        used = set()
        for k in range(n):
            while True:
                d = D.rand_tx(rng) if rng.random() < 0.4 else D.rand_rx(rng)
                if big and not (d["cls"] == "tx" and len(d["burst"]["bits"]) == 444):
                    continue                    # 453 octets per record: 170+ records exceed 64 KiB
                if force_share and not big and not (d["cls"] == "rx" and len(d["burst"]["bits"]) == 148):
                    continue                    # several messages of one class and burst length: one buffer refilled
                if force_nope and not big and k == 0 and not (d["cls"] == "rx" and d["ver"] == 1 and d.get("nope")):
                    continue
                if force_edge0 and not big and k == 0 and not (d["cls"] == "rx" and d["ver"] == 0 and len(d["burst"]["bits"]) == 444):
                    continue                    # a version-0 message whose modulation is only implied by the burst length
                if small and d["burst"]["has"] and len(d["burst"]["bits"]) > 148 and rng.random() < 0.85 and not (force_edge0 and k == 0):
                    continue
                if (d["fn"], d["tn"]) in used:
                    continue
                used.add((d["fn"], d["tn"]))
                break
            origs.append(d)
        path = os.path.join(tmp, "f%d.cap" % fi)
        ddf = data_dump.DATADumpFile(path)
        starts, lens = [], []
        msgs = [D.mk_tx(d) if d["cls"] == "tx" else D.mk_rx(d) for d in origs]
        live = []          # reads on the writing object between appends: (messages appended so far, event)
        mode = rng.random() if not big else 0.5
        if force_share and not big:
            mode = 0.1
        if force_feed and not big:
            mode = 0.9          # appends and reads interleaved on one object, batches fed by a reading iterable
        if mode < 0.4:
            # a writer that fills one buffer per burst length again and again (a receive loop does):
            # what is stored is the content at the time of the append
            share = force_share or rng.random() < 0.5
            bufs = {}
            for m in msgs:
                if share and m.burst is not None and len(m.burst) > 0:
                    key = (type(m).__name__, len(m.burst))
                    if key in bufs:
                        bufs[key][:] = m.burst
                        m.burst = bufs[key]
                    else:
                        bufs[key] = m.burst
                ddf.f.flush()
                starts.append(os.path.getsize(path))
                ddf.append_msg(m)
            ddf.f.flush()
        elif mode < 0.6:
            ddf.append_all(msgs)
            ddf.f.flush()
            pos = 0
            for m in msgs:                      # sizes from an independent walk of what was written
                starts.append(pos)
                pos += 3 + len(m.gen_msg())
        else:
            # histories that interleave appends and reads on the same object; the capture is given as
            # a path or as a file object the caller opened (the constructor takes both)
            fileobj = rng.random() < 0.4 or (force_feed and fi % 7 == 5)
            if fileobj:
                del ddf
                ddf = data_dump.DATADumpFile(open(path, "w+b"))
            pos = 0
            k = 0
            while k < len(msgs):
                if k >= 2 and rng.random() < 0.3:
                    # another tool run: a new object on the capture that already has content
                    ddf.f.flush()
                    del ddf
                    ddf = data_dump.DATADumpFile(open(path, "r+b") if fileobj else path)
                nb = rng.randint(2, 3) if ((rng.random() < 0.3 or (force_feed and k >= 1)) and k + 2 <= len(msgs)) else 1
                batch = msgs[k:k + nb]
                for m in batch:
                    starts.append(pos)
                    pos += 3 + len(m.gen_msg())
                if nb == 1:
                    ddf.append_msg(batch[0])
                else:
                    # one append_all() over an iterable that itself reads the capture between two items
                    def feeding(batch=batch, k=k):
                        for j, m in enumerate(batch):
                            if k + j > 0:
                                _raw_read(ddf, "idx", rng.randrange(k + j), None)
                            yield m
                    ddf.append_all(feeding())
                k += nb
                for _ in range(rng.randint(0, 3)):
                    kind = rng.choice(["all", "all", "idx"])
                    a = rng.choice([None] + list(range(k + 2))) if kind == "all" else rng.randrange(k + 1)
                    b = rng.choice([None] + list(range(1, k + 2))) if kind == "all" else None
                    live.append((k, kind, a, b, _raw_read(ddf, kind, a, b)))
            ddf.f.flush()
        data = open(path, "rb").read()
        for k in range(n):
            end = starts[k + 1] if k + 1 < n else len(data)
            lens.append(end - starts[k] - 3)
        full = ddf.parse_all()
        del ddf
        key2start = {}
        fullproj = []
        ev = []
        if full is False or len(full) != n:
            ev.append(dict(e="full", msgs=[]))
        else:
            fullproj = [proj(m) for m in full]
            ev.append(dict(e="full", msgs=fullproj))
        for k, d in enumerate(origs):
            key2start[(d["cls"], d["fn"], d["tn"])] = (starts[k], k)
        live_pending = live

        def ident(ms):
            at, eq = [], True
            for m in ms:
                cls = "tx" if isinstance(m, D.data_msg.TxMsg) else "rx"
                s = key2start.get((cls, m.fn, m.tn))
                if s is None:
                    at.append(-1)
                    eq = False
                else:
                    at.append(s[0])
                    if not fullproj or proj(m) != fullproj[s[1]]:
                        eq = False
            return at, eq

        for (k, kind, a, b, res) in live_pending:
            cutk = starts[k] if k < n else len(data)
            e = dict(e="read", cut=cutk, kind=kind, skip=-1, count=-1, idx=-1, eq=True, live=True)
            if isinstance(res, Exception):
                ctx.violation("C15/raises/%s/%s" % (kind, type(res).__name__), "%s raised %r between appends" % (kind, res), dict(read=[kind, a, b]))
                continue
            if kind == "all":
                e["skip"] = -1 if a is None else a
                e["count"] = -1 if b is None else b
                if res is False:
                    e["res"] = dict(t="false", at=[])
                else:
                    at, eq = ident(res)
                    e["res"] = dict(t="list", at=at)
                    e["eq"] = eq
            else:
                e["idx"] = a
                if res is None:
                    e["res"] = dict(t="none", at=[])
                elif res is False:
                    e["res"] = dict(t="false", at=[])
                else:
                    at, eq = ident([res])
                    e["res"] = dict(t="msg", at=at)
                    e["eq"] = eq
            ev.insert(len(ev) - 1, e)         # before the "full" event: judged by the statement clauses first
            ctx.count()
        cuts = range(len(data) + 1)
        boundary = set()
        for s, ln in zip(starts, lens):
            boundary.update([s, s + 1, s + 2, s + 3, s + 4, s + 3 + ln - 1, s + 3 + ln])
        blockcuts = set()
        if big:     # a few cuts only: the complete file, the last record cut, a cut behind the first 64 KiB
            cuts = {len(data), len(data) - 1, starts[-1] + 2, starts[-1], starts[150] + 7}
            # ... and cuts inside the record that straddles a multiple of a plausible read-ahead block
            for B in (4096, 8192, 12288, 16384, 32768, 65536):
                for s0, ln in zip(starts, lens):
                    if s0 + 3 < B < s0 + 3 + ln - 1:
                        blockcuts.update([B + 1, s0 + 3 + ln - 1])
                        break
            cuts = sorted(cuts | blockcuts)
        elif sampled:   # quick tier, long bursts: the record boundaries and a sample of the other offsets
            cuts = sorted({c for c in boundary if c <= len(data)} | {len(data)} | {rng.randrange(len(data) + 1) for _ in range(40)})
        p2 = os.path.join(tmp, "c%d.cap" % fi)
        for cut in cuts:
            with open(p2, "wb") as f:
                f.write(data[:cut])
            rd = data_dump.DATADumpFile(p2)
            reads = [("all", None, None)]
            if big and cut in blockcuts:
                reads += [("all", 3, None)]
            elif big:
                reads += [("all", sk, c) for sk, c in [(0, 1), (3, 5), (None, 10), (100, 3), (140, 2), (148, 30), (160, None), (n - 2, 5), (5, 150)]]
                reads += [("idx", i, None) for i in (0, 1, 144, 145, 150, n - 1, n)]
            elif cut in boundary:
                reads += [("all", s, c) for s in [None] + list(range(n + 2)) for c in [None] + list(range(1, n + 2))]
            else:
                reads += [("all", rng.choice([None] + list(range(n + 2))), rng.choice([None] + list(range(1, n + 2)))) for _ in range(2)]
            if not big:
                reads += [("idx", i, None) for i in range(n + 1)]
            if rng.random() < 0.7:
                rng.shuffle(reads)          # the reader object is reused: no read may depend on what was read before
            for kind, a, b in reads:
                e = dict(e="read", cut=cut, kind=kind, skip=-1, count=-1, idx=-1, eq=True)
                try:
                    if kind == "all":
                        e["skip"] = -1 if a is None else a
                        e["count"] = -1 if b is None else b
                        res = rd.parse_all(a, b) if (a is not None or b is not None) else rd.parse_all()
                        if res is False:
                            e["res"] = dict(t="false", at=[])
                        else:
                            at, eq = ident(res)
                            e["res"] = dict(t="list", at=at)
                            e["eq"] = eq
                    else:
                        e["idx"] = a
                        res = rd.parse_msg(a)
                        if res is None:
                            e["res"] = dict(t="none", at=[])
                        elif res is False:
                            e["res"] = dict(t="false", at=[])
                        else:
                            at, eq = ident([res])
                            e["res"] = dict(t="msg", at=at)
                            e["eq"] = eq
                except Exception as ex:
                    ctx.violation("C15/raises/%s/%s" % (kind, type(ex).__name__),
                                  "%s raised %r on a file cut at %d" % (kind, ex, cut),
                                  dict(file=list(data), cut=cut, read=[kind, a, b]))
                    continue
                ev.append(e)
                ctx.count()
            del rd
        os.unlink(p2)
        os.unlink(path)
        traces.append(dict(id="f%d" % fi, cfg=dict(file=list(data), starts=starts, lens=lens,
                                                   cls=[d["cls"] for d in origs], orig=origs), ev=ev))
        ctx.distinct("f%d:%d:%s" % (fi, len(data), ",".join("%s%d" % (d["cls"], d["ver"]) for d in origs)))
    res, stats = tlc.validate_traces("DataDumpTrace.tla", "DataDumpTrace.cfg", traces, scratch=ctx.scratch,
                                     chunk="balance", parallel=6, timeout=3000)
    ctx.add_tv("TV DataDumpTrace", stats, len(traces))
    byid = {t["id"]: t for t in traces}
    for v in res:
        if v["reached"] != v["n"]:
            t = byid[v["id"]]
            e = t["ev"][v["reached"]]
            disc = e.get("kind", e["e"])
            where = "full"
            if e["e"] == "read":
                c = e["cut"]
                where = "between-appends" if e.get("live") else ("uncut" if c == len(t["cfg"]["file"]) else "cut")
            ctx.violation("C15/%s/%s-%s" % (v["tag"], disc, where),
                          "file %s: event %d (%s) rejected: %s" % (v["id"], v["reached"] + 1, {k: x for k, x in e.items() if k != "msgs"}, v["tag"]),
                          dict(cfg={k: x for k, x in t["cfg"].items() if k != "orig"}, event=e if e["e"] == "read" else "full"))
    t0 = traces[0]
    ctx.sample(dict(file_len=len(t0["cfg"]["file"]), starts=t0["cfg"]["starts"], lens=t0["cfg"]["lens"], reads=t0["ev"][1:6]))
    ctx.extra["files"] = len(traces)
    ctx.extra["cut_offsets"] = sum(len(t["cfg"]["file"]) + 1 for t in traces)
    ctx.rule = ("files of 1..4 valid messages (all classes/versions/modulations/NOPE) written by DATADumpFile (path-opened, "
                "append_msg or append_all), truncated at EVERY byte offset; per offset parse_all(), parse_msg(i) for every i and "
                "skip/count pairs (all pairs at record boundaries); distinct = distinct files")
    ctx.trusted += ["harness/py/trxd_drv.py", "matching returned messages to stored ones by (class, fn, tn) in the driver", "TLC"]
    ctx.assumptions += ["skip beyond the last complete message may answer False or an empty list",
                        "files are opened by path (append mode) like every tool does"]
