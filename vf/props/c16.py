"""C16 - declarative codec: encode and decode are mutually inverse and length-exact.

MC : spec/MC_Codec.tla - every protocol definition up to a small size is an
     initial state, every octet string over a small alphabet a successor; the
     laws Enc(Dec(b)) = Canon(b), Dec(Enc(v)) = v, consumed = declared length,
     totality and rejection/truncation of perturbed values are invariants.
TV : harness/py/codec_gen.py composes seeded random definitions (JSON), builds
     the REAL codec.py classes from them and records to_bytes()/from_bytes()
     on in-range, boundary, unencodable, over-wide, short, long, mismatching
     and random inputs; spec/CodecTrace.tla interprets the same JSON
     (spec/Codec.tla) and judges every record.
Level "exploration": TLC is exhaustive only for the tiny definitions; the
large ones (1..8 octet integers, 1..4 octet bit-field sets, depth 3) are
explored with generated programs.
"""
import json
import os
import subprocess
import sys
from concurrent.futures import ThreadPoolExecutor

from .. import tlc
from ..core import ROOT, TOOLKIT

ID = "C16"
LEVEL = "exploration"
GEN = os.path.join(ROOT, "harness", "py", "codec_gen.py")
PY = "/venv/bin/python"

WHY = {"short": "short-read", "tail": "trailing-octets", "fixed": "fixed-value-mismatch",
       "int-range": "unencodable-integer", "buf-len": "buffer-wrong-length",
       "env-len": "envelope-wrapper-length", "seq-len": "sequence-wrapper-length"}


def why_name(why):
    """'env:seq:short' -> 'short-read-in-sequence-item' (cause + innermost container)."""
    parts = why.split(":")
    out = WHY.get(parts[-1], parts[-1])
    if len(parts) > 1:
        out += "-in-nested-envelope" if parts[-2] == "env" else "-in-sequence-item"
    return out


def signature(ev, verdict):
    tag = verdict["tag"] or "no-action-enabled"
    clause, _, disc = tag.partition("|")
    clause = clause[4:] if clause.startswith("C16.") else clause
    kind = ev.get("kind", "")
    if clause in ("err.class", "err.not-rejected"):
        d = why_name(disc)
        if clause == "err.class":
            d += "-got-" + (ev.get("err") or ev.get("err2") or "none")
    elif clause in ("enc.spurious-error", "dec.spurious-error", "roundtrip.reencode-error"):
        d = "%s-on-%s" % (disc or "error", kind)
    elif clause in ("dec.consumed", "roundtrip.consumed"):
        d = kind or "input"
    else:
        # building block at fault; of a nesting path keep the innermost container only
        parts = (disc or kind or ev.get("e", "")).split(">")
        d = ">".join(parts[-2:])
    return "C16/%s/%s" % (clause, d)


def run_driver(ctx, seed, n, k_rand, procs, mcdefs=None):
    """n definitions through the real code, in `procs` fresh interpreter processes."""
    per = (n + procs - 1) // procs
    jobs = []
    for p in range(procs):
        start = p * per
        cnt = min(per, n - start)
        if cnt <= 0:
            break
        out = os.path.join(ctx.scratch, "drv-%s%d.json" % ("mc" if mcdefs else "", p))
        jobs.append((out, [PY, GEN, "--toolkit", TOOLKIT, "--seed", str(seed), "--start", str(start),
                           "--count", str(cnt), "--k", str(k_rand), "--out", out]
                     + (["--mcdefs", mcdefs] if mcdefs else [])))

    def one(job):
        out, cmd = job
        p = subprocess.run(cmd, stdout=subprocess.PIPE, stderr=subprocess.STDOUT, text=True, timeout=3000,
                           env=dict(os.environ, PYTHONDONTWRITEBYTECODE="1"))
        if p.returncode != 0 or not os.path.exists(out):
            raise tlc.MachineryError("codec_gen.py failed (rc=%d):\n%s" % (p.returncode, p.stdout[-3000:]))
        with open(out) as f:
            d = json.load(f)
        os.unlink(out)
        return d

    traces, failures = [], []
    with ThreadPoolExecutor(max_workers=procs) as ex:
        for d in ex.map(one, jobs):
            traces += d["traces"]
            failures += d["failures"]
    return traces, failures


def features(d, acc=None, depth=1):
    """Building blocks used by a definition (for the evidence)."""
    acc = acc if acc is not None else set()
    acc.add("depth-%d" % depth)
    acc.add("check_len-" + ("on" if d["check_len"] else "off"))
    for f in d["fields"]:
        k = f["k"]
        if k == "uint":
            acc.add("%s%d-%s" % ("int" if f["signed"] else "uint", 8 * f["len"], f["bo"]))
            if f["offset"]:
                acc.add("offset")
            if f["mult"] != 1:
                acc.add("mult" if f["mult"] > 0 else "mult-negative")
            if f["valfrom"]["op"] != "none":
                acc.add("get_val")
        elif k == "bitset":
            acc.add("bitset-%s-%d" % (f["order"], f["len"] or (sum(b["bl"] for b in f["fields"]) + 7) // 8))
            if any(b["fixed"] for b in f["fields"]):
                acc.add("bitfield-fixed")
            if any(b["name"] == "" for b in f["fields"]):
                acc.add("bitfield-spare")
        else:
            acc.add(k + ("-rest" if f["len"] == 0 and f["lenfrom"]["op"] == "none" else
                         "-get_len" if f["lenfrom"]["op"] != "none" else "-fixed"))
        if f["pres"]["op"] != "always":
            acc.add("get_pres-" + f["pres"]["op"])
        if k == "env":
            features(f["def"], acc, depth + 1)
        elif k == "seq":
            features(f["item"], acc, depth + 1)
    return acc


def judge(ctx, traces, label):
    res, stats = tlc.validate_traces("CodecTrace.tla", "CodecTrace.cfg", traces, scratch=ctx.scratch,
                                     chunk="balance", parallel=ctx.pick(4, 6), timeout=3000)
    ctx.add_tv(label, stats, len(traces))
    byid = {t["id"]: t for t in traces}
    bad = 0
    for v in res:
        tr = byid[v["id"]]
        if v["reached"] == v["n"]:
            continue
        bad += 1
        ev = tr["ev"][v["reached"]]
        sig = signature(ev, v)
        shown = dict(ev)
        ctx.violation(sig, "definition %s: record %d/%d (%s %s) rejected by clause %s"
                      % (v["id"], v["reached"] + 1, v["n"], ev["e"], ev.get("kind", ""), v["tag"]),
                      {"def": tr["cfg"]["def"], "ev": [shown], "verdict": v})
    return bad


def replay(ctx):
    rp = ctx.replaying.get("replay") or {}
    if "def" not in rp:
        raise tlc.MachineryError("replay file carries no definition (a model-checking counter-example?)")
    src = os.path.join(ctx.scratch, "replay-in.json")
    out = os.path.join(ctx.scratch, "replay-out.json")
    with open(src, "w") as f:
        json.dump({"def": rp["def"], "ev": rp["ev"]}, f)
    p = subprocess.run([PY, GEN, "--toolkit", TOOLKIT, "--replay", src, "--out", out],
                       stdout=subprocess.PIPE, stderr=subprocess.STDOUT, text=True)
    if p.returncode != 0:
        raise tlc.MachineryError("codec_gen.py --replay failed:\n" + p.stdout[-3000:])
    with open(out) as f:
        traces = json.load(f)["traces"]
    ctx.count(sum(len(t["ev"]) for t in traces))
    judge(ctx, traces, "TV CodecTrace (replay)")
    ctx.rule = "replay of one recorded definition and input through the current codec.py"


def run(ctx):
    ctx.trusted += ["TLC + CommunityModules (Json, IOUtils)",
                    "harness/py/codec_gen.py: JSON -> codec.py classes builder, input generator, value (de)serialiser",
                    "SIGVTALRM (1 s CPU) watchdog around each to_bytes()/from_bytes() call"]
    ctx.assumptions += [
        "excluded: BitField objects shared between two BitFieldSets (every set gets fresh BitField objects)",
        "excluded: sequence items that can consume no octet (Sequence.from_bytes would not terminate)",
        "excluded: duplicate field names within one envelope, fixed bit-field values wider than the field",
        "presence/length callbacks only read earlier, unconditional, non-negative integers of at most 2 octets "
        "(or bit-fields of at most 8 bits) of the same envelope and return real bools/ints",
        "don't-care (accepted whatever the code does): (v - offset) not divisible by mult; values missing or of the "
        "wrong Python type; negative bit-field values; a user-supplied length field that disagrees with the governed "
        "buffer/envelope/sequence; callbacks over absent fields; negative governed lengths",
        "bit-field layout with unused bits follows codec.py's documented rule (fields packed from the most significant "
        "bit, 'lsb' = reversed field order); the statement does not fix a layout",
        "over-wide values are only given to bit-fields no callback reads (a callback sees the untruncated value)",
    ]
    if getattr(ctx, "replaying", None):
        return replay(ctx)

    # ---- MC: all small definitions -----------------------------------------
    cfg = ctx.pick("MC_CodecQ.cfg", "MC_Codec.cfg")
    what = ctx.pick("families one/gov/nest, reduced leaf sets", "families one/two/three/gov/nest, complete leaf sets")
    with ThreadPoolExecutor(max_workers=1) as bg:
        mc = bg.submit(tlc.run, "MC_Codec.tla", cfg, workers=ctx.pick(4, 6), timeout=3000, heap="6g")
        # ---- programs: generated definitions through the real code ---------
        n_defs = ctx.pick(300, 20000)
        traces, failures = run_driver(ctx, ctx.seed, n_defs, 3, procs=4)
        ctx.log("driver: %d definitions, %d could not be built/driven, %d records"
                % (len(traces), len(failures), sum(len(t["ev"]) for t in traces)))
        # ---- GEN: the MC definitions themselves, exported by TLC, through the real code
        gen_out = os.path.join(ctx.scratch, "mcdefs.json")
        g = tlc.run("MC_Codec.tla", ctx.pick("GEN_CodecQ.cfg", "GEN_Codec.cfg"), workers=1, env={"OUT_FILE": gen_out},
                    timeout=900, scratch=ctx.scratch)
        ctx.add_tlc("GEN MC_Codec definitions -> JSON", g)
        if not g.ok or not os.path.exists(gen_out):
            raise tlc.MachineryError("TLC did not export the MC definitions:\n" + g.out[-2000:])
        with open(gen_out) as f:
            n_mc = len(json.load(f))
        mtraces, mfail = run_driver(ctx, ctx.seed, n_mc, ctx.pick(4, 12), procs=4, mcdefs=gen_out)
        ctx.log("driver: %d TLC-exported definitions, %d records" % (len(mtraces), sum(len(t["ev"]) for t in mtraces)))
        ctx.extra["spec_definitions_replayed"] = len(mtraces)
        traces += mtraces
        failures += mfail
        for f in failures:
            ctx.violation("C16/build/%s" % f["exc"],
                          "definition %s could not be built or driven by codec.py: %s" % (f["id"], f["exc"]),
                          {"def": f["def"], "ev": [], "traceback": f.get("tb", "")})
        # ---- TV (while the model checker is still running) -------------------
        bad = judge(ctx, traces, "TV CodecTrace")
        r = mc.result()
    ctx.require_ok("MC %s (%s)" % (cfg, what), r)
    ctx.log("MC", cfg, r.summary())
    nev = 0
    kinds = {}
    feats = set()
    dontcare = 0
    for t in traces:
        fs = features(t["cfg"]["def"])
        feats |= fs
        ctx.distinct(json.dumps(t["cfg"]["def"], sort_keys=True))
        for e in t["ev"]:
            nev += 1
            key = "%s/%s/%s" % (e["e"], e.get("kind", ""), "ok" if e.get("ok", e.get("ok2", True)) else "rejected")
            kinds[key] = kinds.get(key, 0) + 1
            if e.get("kind") == "non-multiple":
                dontcare += 1
    ctx.count(nev)
    ctx.extra["programs"] = len(traces)
    ctx.extra["programs_generated"] = len(traces) - len(mtraces)
    ctx.extra["records_validated"] = nev
    ctx.extra["records_by_kind"] = dict(sorted(kinds.items()))
    ctx.extra["building_blocks_seen"] = sorted(feats)
    ctx.extra["dont_care_records"] = dontcare
    ctx.extra["definitions_rejected"] = bad
    for t in traces[:2]:
        ctx.sample({"id": t["id"], "def": t["cfg"]["def"], "records": t["ev"][:3]})
    ctx.rule = ("programs = seeded random protocol definitions (JSON) built into the real codec.py classes; each is run on "
                "in-range/boundary values, unencodable integers and buffers, over-wide bit-field values, every/sampled "
                "prefix, trailing octets, bit flips, fixed-value mismatches and random octets; every record is judged by "
                "TLC interpreting the same JSON (CodecTrace); non-trivial = distinct definition; evaluations = records")
