"""C17 - TRXD PDU definitions (v0, v1, v2) have the documented structure."""
import os
import sys

from .. import tlc
from ..core import ROOT

ID = "C17"
LEVEL = "model_checking"


def run(ctx):
    sys.path.insert(0, os.path.join(ROOT, "harness", "py"))
    import proto_drv as P
    import trxd_drv as D

    r = tlc.run("TrxdProtoMC.tla", "MC_TrxdProto.cfg", workers=4, timeout=1800)
    ctx.require_ok("MC TrxdProtoMC (GB=3: every v1 header/MTS combination, v2 with 0..2 batched parts round-trip)", r)

    rng = ctx.rng
    recs = []
    n = ctx.pick(120, 4000)
    k = 0
    for cls in sorted(P.CLASSES):
        for _ in range(n if cls.startswith("v2") else n // 2):
            vals = P.rand_vals(rng, cls)
            raw, err = P.encode(cls, vals)
            back = P.decode(cls, raw) if not err else dict(ok=False, exc=err)
            recs.append(dict(id="p%d" % k, e="penc", cls=cls, vals=P.clean(vals), raw=raw, err=err, back=back))
            k += 1
            if err:
                continue
            # reserved bits set on receipt
            raw2 = list(raw)
            pos = P.reserved_positions(cls, vals)
            for off, mask in rng.sample(pos, rng.randint(1, len(pos))):
                raw2[off] |= mask
            recs.append(dict(id="p%d" % k, e="pres", cls=cls, raw=raw, raw2=raw2, res=P.decode(cls, raw2)))
            k += 1
            # wrong version nibble
            raw3 = list(raw)
            want = int(cls[1])
            raw3[0] = (rng.choice([v for v in range(16) if v != want]) << 4) | (raw3[0] & 0x0f)
            recs.append(dict(id="p%d" % k, e="pver", cls=cls, raw2=raw3, res=P.decode(cls, raw3)))
            k += 1
            # proper prefix
            if len(raw) > 1 and rng.random() < 0.7:
                cut = rng.choice([rng.randrange(1, len(raw)), len(raw) - 1, min(len(raw) - 1, rng.randrange(1, 14))])
                raw4 = raw[:cut]
                recs.append(dict(id="p%d" % k, e="pcut", cls=cls, raw2=raw4, res=P.decode(cls, raw4)))
                k += 1
    # cross-codec: every v0/v1 datagram of the message codec
    refused = 0
    for j in range(ctx.pick(700, 20000)):
        d = D.rand_tx(rng) if rng.random() < 0.3 else D.rand_rx(rng)
        legacy = rng.random() < 0.5
        m = D.mk_tx(d) if d["cls"] == "tx" else D.mk_rx(d)
        try:
            raw = list(m.gen_msg(legacy))
        except Exception:
            # the message codec refuses a message of the documented domain (C01 / C13 judge that); C17 is
            # stated over what the message codec does produce: the same message with the burst length the
            # message codec's own modulation table asks for
            bl = getattr(getattr(m, "mod_type", None), "bl", None)
            if not (d["cls"] == "rx" and d["burst"]["has"] and isinstance(bl, int) and 0 < bl <= 1000 and bl != len(d["burst"]["bits"])):
                refused += 1
                continue
            d = dict(d, burst=dict(has=True, bits=D.rand_soft(rng, bl)))
            m = D.mk_rx(d)
            try:
                raw = list(m.gen_msg(legacy))
            except Exception:
                refused += 1
                continue
        cls = "v%d%s" % (d["ver"], "Tx" if d["cls"] == "tx" else "Rx")
        if d["cls"] == "tx" and legacy and d["ver"] == 0:
            continue            # the toolkit never pads L1 -> TRX messages; no Tx definition has a pad field
        recs.append(dict(id="x%d" % j, e="cross", cls=cls, m=d, legacy=legacy, raw=raw, res=P.decode(cls, raw)))
    ctx.extra["messages_refused_by_the_message_codec"] = refused
    res, stats = tlc.validate_records("TrxdProtoTrace.tla", "TrxdProtoTrace.cfg", recs, scratch=ctx.scratch, parallel=5)
    ctx.add_tv("TV TrxdProtoTrace", stats, len(recs))
    byid = {r["id"]: r for r in recs}
    for v in res:
        rec = byid[v["id"]]
        ctx.count()
        for tag in v["failed"]:
            disc = rec["cls"]
            if rec["e"] == "cross":
                disc += "-legacy" if rec["legacy"] else "-plain"
                disc += "-%d" % len(rec["m"]["burst"]["bits"])
                if rec["m"].get("mod") == "GMSK_AB" and rec["m"].get("tscset") == 1 and not rec["m"].get("nope"):
                    disc = "v1Rx-gmsk-ab-tsc-set-1"
            small = {a: (b if a not in ("raw", "raw2") else b[:20]) for a, b in rec.items() if a not in ("vals", "back", "m")}
            ctx.violation("C17/%s/%s" % (tag, disc), "record %s (%s) violates %s" % (v["id"], rec["e"], tag),
                          dict(record=small, res=str(rec.get("res", rec.get("back")))[:300]))
        ctx.distinct("%s:%s:%d:%s" % (rec["e"], rec["cls"], len(rec.get("raw", rec.get("raw2", []))), str(rec.get("raw", rec.get("raw2")))[:60]))
    for rr in recs[:2]:
        ctx.sample({a: (b if a not in ("raw", "vals", "back") else str(b)[:200]) for a, b in rr.items()})
    ctx.rule = ("random field values for every PDU class (all assigned modulation codes, NOPE, 0..8 batched parts), their "
                "encodings re-decoded, with reserved bits set, with a wrong version nibble and truncated; every v0/v1 datagram "
                "of the message codec fed to the matching definition; distinct by class, length and leading octets")
    ctx.trusted += ["harness/py/proto_drv.py (dict <-> JSON renaming)", "harness/py/trxd_drv.py", "TLC"]
    ctx.assumptions += ["unassigned modulation codes 14, 15 are not generated",
                        "Tx messages are never legacy-padded (only TRX -> L1 messages are)"]
