"""C19 - GSM time arithmetic is consistent across the code base.

MC : spec/GsmTime.tla - Inc1 (carry logic of l1s_time_inc for delta 1) and
     IncD(d) (recompute path) keep Comps = Decomp(fn), Recomp(Decomp(fn)) = fn,
     ranges; quick: every delta of the statement within +-16000 frames of the
     hyperframe wrap; thorough: the whole hyperframe (every FN) for deltas
     {1, 2..20, 26, 51, 52, 59, 60, 1325, 1326, 2715647} and every delta of the
     statement within +-100000 frames of the wrap (the complete product
     hyperframe x 63 deltas is ~171 M transitions, beyond the time budget).
TV : walks of the real code - l1s_time_inc() sliced from the working-tree
     layer1/sync.c, gsm_fn2gsmtime()/gsm_gsmtime2fn() of the in-repo
     libosmocore (whole file), HoppingParams.fn2gsm_time() of trx_toolkit -
     validated event by event against GsmTimeTrace (spec state follows its own
     Inc1/IncD; every logged component must equal the primed variable).
     thorough: every FN of the hyperframe through l1s_time_inc(.., 1).
"""
import importlib.util
import json
import os
import subprocess
import threading
from concurrent.futures import ThreadPoolExecutor

from .. import cbuild, tlc
from ..core import REPO, TOOLKIT

ID = "C19"
LEVEL = "model_checking"
HYPER = 26 * 51 * 2048
SUPER = 26 * 51
ALL_DELTAS = [1] + list(range(2, 61)) + [1325, 1326, 2715647]


# ------------------------------------------------------------------ build
def build(ctx):
    R = os.path.join(REPO, "src")
    sync_c = R + "/target/firmware/layer1/sync.c"
    body = cbuild.slice_with_static_deps(sync_c, [r"^void\s+l1s_time_inc\s*\("])
    tu = os.path.join(ctx.scratch, "sync_slice.c")
    with open(tu, "w") as f:
        f.write("/* generated: l1s_time_inc sliced from %s */\n" % sync_c)
        f.write("#include <stdint.h>\n#include <osmocom/gsm/gsm_utils.h>\n\n")
        f.write(body + "\n")
    cfgdir = os.path.join(ctx.scratch, "cfg")
    os.makedirs(os.path.join(cfgdir, "x", "y"), exist_ok=True)
    open(os.path.join(cfgdir, "config.h"), "w").close()       # gsm_utils.c: #include "../../config.h"
    exe = os.path.join(ctx.scratch, "drv_gsmtime")
    cbuild.cc(exe, [tu, R + "/shared/libosmocore/src/gsm/gsm_utils.c", cbuild.HC + "/drv_gsmtime.c"],
              includes=[R + "/shared/libosmocore/include", os.path.join(cfgdir, "x", "y")])
    return exe


def load_toolkit():
    spec = importlib.util.spec_from_file_location("gsm_shared_c19", os.path.join(TOOLKIT, "gsm_shared.py"))
    mod = importlib.util.module_from_spec(spec)
    spec.loader.exec_module(mod)
    raw = mod.HoppingParams.fn2gsm_time
    # the function is also what the hopping code calls for every burst: a transceiver with pseudo-random
    # hopping resolves the same frame in between (whatever that leaves behind must not show)
    try:
        hp = mod.HoppingParams(5, 0, [(1000, 2000), (3000, 4000), (5000, 6000)])
    except Exception:
        hp = None
    n = [0]

    def fn2gsm_time(fn):
        n[0] += 1
        if hp is not None and n[0] % 2:
            try:
                hp.resolve(fn)
            except Exception:
                pass                      # the hopping code is C07's
        return tuple(raw(fn))              # a tuple, a named tuple or anything else that unpacks into T1, T2, T3
    return fn2gsm_time


# ------------------------------------------------------------------ driver
class Driver:
    """One long-running driver process; walk() returns the event strings."""

    def __init__(self, exe):
        env = dict(os.environ, ASAN_OPTIONS="detect_leaks=0:exitcode=99",
                   UBSAN_OPTIONS="print_stacktrace=1:halt_on_error=1:exitcode=98")
        self.p = subprocess.Popen([exe], stdin=subprocess.PIPE, stdout=subprocess.PIPE, stderr=subprocess.PIPE,
                                  text=True, env=env, bufsize=1 << 20)

    def walk(self, fn0, delta, count):
        if isinstance(delta, tuple):          # one delta per call
            self.p.stdin.write("S %d %s\n" % (fn0, " ".join(map(str, delta))))
        else:
            self.p.stdin.write("W %d %d %d\n" % (fn0, delta, count))
        self.p.stdin.flush()
        out = []
        rd = self.p.stdout.readline
        while True:
            ln = rd()
            if not ln:
                self.p.wait()
                raise DriverDied(self.p.returncode, self.p.stderr.read()[-3000:], (fn0, delta, count), out)
            if ln == ".\n":
                return out
            out.append(ln)

    def close(self):
        try:
            self.p.stdin.close()
        except Exception:
            pass
        self.p.wait()


class DriverDied(Exception):
    pass


# ------------------------------------------------------------------ plans
def plan_quick(rng):
    """List of (fn0, delta, count) walks, ~30 k events."""
    w = []
    # last two and first two superframes, through the wrap, in pieces
    f = HYPER - 2 * SUPER - 10
    for _ in range(5):
        w.append((f % HYPER, 1, 1100))
        f += 1100
    # every-superframe carry for 40 random T1, plus the first and the last boundaries
    for k in sorted(set([1, 2, 63, 64, 65, 1023, 1024, 2046, 2047] + [rng.randrange(1, 2048) for _ in range(40)])):
        w.append((k * SUPER - 30, 1, 60))
    for _ in range(200):
        w.append((rng.randrange(HYPER), 1, 60))
    # every delta of the statement: random places, and across the wrap
    for d in ALL_DELTAS:
        for _ in range(6):
            w.append((rng.randrange(HYPER), d, 8))
        w.append(((HYPER - 3 * d - rng.randrange(d)) % HYPER, d, 8))
        w.append((HYPER - 1, d, 2))
        w.append((0, d, 2))
    w += plan_positions(rng)
    # long strides: one superframe (T1 through 2047 -> 0), one less, one frame back
    w.append((rng.randrange(HYPER), 1326, 2100))
    w.append((rng.randrange(HYPER), 1325, 2100))
    w.append((1000, 2715647, 2000))
    return w


def plan_positions(rng, mixed=40):
    """Every delta 2..60 from every position of the superframe (FN mod 1326 fixes T2 and T3,
    the carry logic depends on nothing else below T1), and walks of mixed deltas."""
    import math
    w = []
    for d in ALL_DELTAS:
        if not 2 <= d <= 60:
            continue
        g = math.gcd(d, SUPER)
        base = rng.randrange(HYPER)
        for j in range(g):
            w.append(((base + j) % HYPER, d, SUPER // g))
    small = [x for x in ALL_DELTAS if x <= 60]
    for _ in range(mixed):
        seq = tuple(rng.choice([1, 1, rng.choice(small), rng.choice(ALL_DELTAS), rng.randint(1, 6)]) for _ in range(200))
        w.append((rng.choice([rng.randrange(HYPER), HYPER - rng.randint(1, 3000), rng.randrange(2048) * SUPER - 20]) % HYPER,
                  seq, len(seq)))
    return w


def plan_thorough(rng):
    """Generator of walks: every FN of the hyperframe via delta 1 (each FN is
    'after.fn' exactly once), then long walks for every other delta."""
    C = 8192
    f = 0
    while f < HYPER:
        n = min(C, HYPER - f)
        yield (f, 1, n)
        f += n
    for d in ALL_DELTAS[1:]:
        if d <= 60:
            for _ in range(4):
                yield (rng.randrange(HYPER), d, 1500)
            yield ((HYPER - 750 * d) % HYPER, d, 1500)
        else:
            yield (rng.randrange(HYPER), d, 4200)
            yield ((HYPER - 2100 * (d if d < HYPER // 2 else 1)) % HYPER, d, 4200)
    for w in plan_quick(rng):
        if w[1] != 1:
            yield w


# ------------------------------------------------------------------ TV
def write_traces(path, traces):
    with open(path, "w") as f:
        f.write("[")
        for i, (tid, evs) in enumerate(traces):
            f.write('%s{"id":"%s","cfg":{},"ev":[' % ("," if i else "", tid))
            f.write(",".join(evs))
            f.write("]}")
        f.write("]")


def validate_group(ctx, gid, traces):
    """traces: list of (id, [event json strings]).  Returns verdict list."""
    tf = os.path.join(ctx.scratch, "gt-%d.json" % gid)
    of = os.path.join(ctx.scratch, "gt-%d.out.json" % gid)
    write_traces(tf, traces)
    r = tlc.run("GsmTimeTrace.tla", "GsmTimeTrace.cfg", workers=1, env=dict(TRACE_FILE=tf, OUT_FILE=of),
                timeout=3000, scratch=ctx.scratch, heap="3g")
    if not r.ok or not os.path.exists(of):
        raise tlc.MachineryError("GsmTimeTrace: %s\n%s" % (r.violation, r.out[-3000:]))
    with open(of) as f:
        out = json.load(f)
    os.unlink(tf)
    os.unlink(of)
    if len(out) != len(traces):
        raise tlc.MachineryError("GsmTimeTrace: %d verdicts for %d traces" % (len(out), len(traces)))
    return out, r


def classify(ev, tag):
    """Stable signature from the failing clause and the class of the event."""
    tag = tag or "no-action-enabled"
    short = tag.replace("C19.", "")
    if ev is None or ev.get("e") != "inc":
        return "C19/%s" % short
    fn, d, a = ev["fn"], ev["delta"], ev["after"]
    new = (fn + d) % HYPER
    if tag.startswith("C19.step") or tag in ("C19.invariant", "C19.chain"):
        path = "inc1" if d == 1 else "recompute"
        if fn + d >= HYPER:
            pos = "hyperframe-wrap"
        elif new % 51 == 0 or new % 26 == 0:
            pos = "carry"
        else:
            pos = "plain"
        return "C19/%s/%s/%s" % (short, path, pos)
    x = a["fn"]
    want = [x // SUPER, x % 26, x % 51, (x // 51) % 8]      # labelling only; the verdict is TLC's
    names = ["t1", "t2", "t3", "tc"]
    if tag == "C19.decomp":
        bad = [n for n, g, w_ in zip(names, ev["dec"], want) if g != w_]
        return "C19/decomp/%s" % ("+".join(bad) or "?")
    if tag == "C19.python":
        bad = [n for n, g, w_ in zip(names, ev["py"], want) if g != w_]
        return "C19/python/%s" % ("+".join(bad) or "?")
    if tag == "C19.recomp":
        return "C19/recomp/%s" % ("t3-lt-t2" if want[2] < want[1] else "t3-ge-t2")
    return "C19/%s" % short


def selftest(ctx):
    """Binding self-test: a recorded walk with one corrupted field, with one
    dropped event and with a wrong Python result must be rejected at exactly
    that event with the clause's tag."""
    import copy
    ev = [dict(e="set", fn=1325, after=dict(fn=1325, t1=0, t2=25, t3=50, tc=1)),
          dict(e="inc", fn=1325, delta=1, after=dict(fn=1326, t1=1, t2=0, t3=0, tc=2), dec=[1, 0, 0, 2], recomp=1326, py=[1, 0, 0]),
          dict(e="inc", fn=1326, delta=2715647, after=dict(fn=1325, t1=0, t2=25, t3=50, tc=1), dec=[0, 25, 50, 1], recomp=1325, py=[0, 25, 50])]
    c1 = copy.deepcopy(ev)
    c1[1]["after"]["tc"] = 1
    c2 = [ev[0], ev[2]]
    c3 = copy.deepcopy(ev)
    c3[2]["py"] = [0, 25, 51]
    c4 = copy.deepcopy(ev)
    c4[2]["recomp"] = 1326
    want = dict(ok=(3, ""), tc=(1, "C19.step.tc"), drop=(1, "C19.chain"), py=(2, "C19.python"), recomp=(2, "C19.recomp"))
    res, stats = tlc.validate_traces("GsmTimeTrace.tla", "GsmTimeTrace.cfg",
                                     [dict(id="ok", cfg={}, ev=ev), dict(id="tc", cfg={}, ev=c1), dict(id="drop", cfg={}, ev=c2),
                                      dict(id="py", cfg={}, ev=c3), dict(id="recomp", cfg={}, ev=c4)], scratch=ctx.scratch, heap="2g")
    for v in res:
        if (v["reached"], v["tag"]) != want[v["id"]]:
            raise tlc.MachineryError("GsmTimeTrace self-test: %r, expected %r" % (v, want[v["id"]]))
    ctx.extra["trace_spec_selftest"] = "5 hand-made walks: accepted / rejected at the corrupted event with the expected tag"


def run(ctx):
    exe = build(ctx)
    fn2gsm_time = load_toolkit()
    selftest(ctx)
    ctx.trusted += ["drv_gsmtime.c (driver, prints struct gsm_time)", "cbuild.slice_function (brace matching)",
                    "TLC + CommunityModules (Json)", "empty config.h for gsm_utils.c"]
    ctx.assumptions += ["l1s_time_inc is compiled from its text sliced out of sync.c together with the real "
                        "libosmocore gsm_utils.h (struct gsm_time, ADD_MODULO, GSM_MAX_FN), host clang",
                        "the running time is started by gsm_fn2gsmtime() (as the firmware does)"]

    # ---- MC (in the background while the real code runs) ------------------
    mc = []
    if ctx.thorough:
        mc_jobs = [("MC_GsmTime.cfg", "whole hyperframe, deltas {1,2..20,26,51,52,59,60,1325,1326,2715647}", 8),
                   ("MC_GsmTimeFull.cfg", "every delta {1,2..60,1325,1326,2715647} within +-100000 frames of the wrap", 8)]
    else:
        mc_jobs = [("MC_GsmTimeWrap.cfg", "every delta {1,2..60,1325,1326,2715647} within +-16000 frames of the wrap", 4)]

    def run_mc():
        for cfg, what, workers in mc_jobs:
            try:
                mc.append((cfg, what, tlc.run("GsmTime.tla", cfg, workers=workers, timeout=3000,
                                              coverage=False), None))
            except Exception as e:          # re-raised in the main thread
                mc.append((cfg, what, None, e))
    th = threading.Thread(target=run_mc)
    th.start()

    # ---- TV ---------------------------------------------------------------
    rng = ctx.rng
    plan = plan_thorough(rng) if ctx.thorough else iter(plan_quick(rng))
    group_events = ctx.pick(8000, 180000)
    parallel = ctx.pick(4, 4)
    drv = Driver(exe)
    stats = dict(generated=0, distinct=0, wall=0.0, jobs=0)
    ntr = [0]
    nev = [0]
    covered_after = [0]
    pending = []
    pool = ThreadPoolExecutor(max_workers=parallel)
    seen_class = set()

    def judge(fut, traces):
        out, r = fut.result()
        stats["generated"] += r.generated
        stats["distinct"] += r.distinct
        stats["wall"] += r.wall
        stats["jobs"] += 1
        for (tid, evs), v in zip(traces, out):
            if v["reached"] != v["n"]:
                k = v["reached"]
                ev = json.loads(evs[k]) if k < len(evs) else None
                sig = classify(ev, v["tag"])
                ctx.violation(sig, "walk %s rejected at event %d/%d by %s: %s"
                              % (tid, k + 1, v["n"], v["tag"], json.dumps(ev)),
                              dict(walk=tid, verdict=v, events=[json.loads(e) for e in evs[max(0, k - 2):k + 1]]))

    def flush(traces):
        if not traces:
            return
        gid = stats.setdefault("_gid", 0)
        stats["_gid"] = gid + 1
        fut = pool.submit(validate_group, ctx, gid, traces)
        pending.append((fut, traces))
        while len(pending) > parallel + 1:      # bound memory: wait for the oldest
            judge(*pending.pop(0))

    cur, cur_n = [], 0
    died = None
    try:
        for (fn0, d, cnt) in plan:
            tid = "w%d_%s_%d" % (fn0, d if not isinstance(d, tuple) else "mix%x" % (hash(d) & 0xffffff), cnt)
            try:
                lines = drv.walk(fn0, d, cnt)
            except DriverDied as e:
                died = e
                break
            evs = []
            for ln in lines:
                a, js = ln.split("\t", 1)
                a = int(a)
                if a >= 2 ** 31:
                    ctx.violation("C19/step.fn/out-of-range", "frame number %d after W %d %d" % (a, fn0, d),
                                  dict(walk=tid))
                    break
                js = js.rstrip("\n")
                if js.startswith('{"e":"inc"'):
                    t = fn2gsm_time(a)
                    evs.append('%s,"py":[%d,%d,%d]}' % (js, t[0], t[1], t[2]))
                else:
                    evs.append(js + "}")
            ctx.count(len(evs))
            nev[0] += len(evs)
            ntr[0] += 1
            if d == 1:
                covered_after[0] += cnt
            seen_class.update(d if isinstance(d, tuple) else (d,))
            if len(ctx.samples) < 2:
                ctx.sample(dict(walk=tid, events=[json.loads(e) for e in evs[:3]]))
            cur.append((tid, evs))
            cur_n += len(evs)
            if cur_n >= group_events:
                flush(cur)
                cur, cur_n = [], 0
        flush(cur)
        while pending:
            judge(*pending.pop(0))
    finally:
        drv.close()
        pool.shutdown(wait=True)
    if died is not None:
        rc, err, op, _ = died.args
        kind = "asan" if rc == 99 or "AddressSanitizer" in err else ("ubsan" if rc == 98 or "runtime error" in err else "crash")
        ctx.violation("C19/memory/%s" % kind, "driver died (rc=%s) in walk %s" % (rc, op), dict(op=op, stderr=err))
    stats.pop("_gid", None)
    stats["wall"] = round(stats["wall"], 2)
    ctx.add_tv("TV GsmTimeTrace (walks of l1s_time_inc / gsm_fn2gsmtime / gsm_gsmtime2fn / fn2gsm_time)", stats, ntr[0])
    ctx.extra["events_validated"] = nev[0]
    ctx.extra["deltas_exercised"] = len(seen_class)
    ctx.nontrivial_n = nev[0]
    ctx.log("TV: %d walks, %d events, %d TLC jobs" % (ntr[0], nev[0], stats["jobs"]))

    th.join()
    for cfg, what, r, err in mc:
        if err is not None:
            raise err
        ctx.require_ok("MC %s (%s)" % (cfg, what), r)
        ctx.log("MC", cfg, r.summary())
    if len(mc) != len(mc_jobs):
        raise tlc.MachineryError("model-checking jobs did not all run")

    if ctx.thorough:
        # the complete product (every FN) x (all 63 deltas) is not enumerated: not claimed exhaustive
        ctx.exhaustive = False
        ctx.extra["every_fn_walked_by_real_code"] = (covered_after[0] >= HYPER) and died is None
        ctx.extra["covered"] = ("every FN 0..2715647: MC (Inc1 + deltas 2..20,26,51,52,59,60,1325,1326,2715647 from every FN) and "
                                         "the real l1s_time_inc(..,1), gsm_fn2gsmtime, gsm_gsmtime2fn, fn2gsm_time at every FN; "
                                         "remaining deltas 21..58: MC only within +-100000 frames of the wrap, real code on sampled walks")
    ctx.rule = ("one evaluation = one call of the real code (gsm_fn2gsmtime / l1s_time_inc with its gsm_fn2gsmtime + "
                "gsm_gsmtime2fn + Python fn2gsm_time cross-results) validated by TLC; every call changes the time, so "
                "all are non-trivial")
